"""C15: event managers (G-mode exhaustive product) and their clients UART / Timer / GPIOIn (G-mode + T-mode)."""
import json
import os
import random

from ..gcheck import GFamily, run_batches
from .. import tracecheck
from ..families import event as fam
from ..families import eventclients as cfam
from ..report import ROOT, load_findings

INVS = ["IrqMeansPendingAndEnabled", "PendingRule", "ClearOnlyByW1C", "StatusShowsRaw", "EnableIsWritten",
        "SharedIrqIsOr", "ReadBack"]
FAMILY = GFamily("event/EventGraph", "event/EventTrace", "harness.families.event:make",
                 fmt="hash", clause_map={k: k for k in INVS},
                 describe=lambda s: "EventManager(kinds=%s, mgr=%s)" % (s["kinds"], s["mgr"]))


# clients of the event manager (contract specs/event/ClientContract.tla)
CL_INVS = ["ClientIrqMeansPendingAndEnabled", "ClientPendingRule", "ClientClearOnlyByW1C", "ClientEnableIsWritten",
           "ClientReadBack", "ClientStatusIsCondition", "UartFlagsMatchPhy", "RxHeadIsOldest", "RxReadableInTime",
           "RxFullOnlyWhenFull", "TxHeadIsOldest", "TxDeliveredInTime", "TxFullOnlyWhenFull"]


def _cdesc(s):
    return {"uart": "UART(%s, depth=%d)" % (s.get("dir", "rx+tx"), s.get("depth", 2)), "timer": "Timer(width=32)",
            "gpio": "GPIOIn(pins=%d, with_irq%s)" % (s.get("pins", 1), ", env=%s" % s["env"] if s.get("env") else "")}[s["cls"]]


CLIENTS = GFamily("event/ClientGraph", "event/ClientTrace", "harness.families.eventclients:make", fmt="hash",
                  clause_map={k: k for k in CL_INVS}, describe=_cdesc)
NOTES_FINDINGS = os.path.join(ROOT, "notes", "C15b_findings.json")


def _notes_findings(report):
    """entries of notes/C15b_findings.json for this property whose id /verif/known_findings.json does not list yet"""
    try:
        with open(NOTES_FINDINGS) as f:
            entries = json.load(f)
    except FileNotFoundError:
        return
    have = {f.get("id") for f in load_findings()} | {f.get("id") for f in report.findings}
    for e in entries:
        if e.get("property") == report.prop and e.get("id") not in have:
            report.findings.append(e)


def client_trace(spec, cfg, ncycles, rnd, pidle):
    """cycle-by-cycle run of a real client on the reference evaluator (no state loading) under a random legal
    environment (software operations from cfg["ops"], PHY / pad activity per kind)"""
    from ..fhdl_step import Stepper
    dut, ins, outs = cfam.make(spec)
    st = Stepper(dut, ins, outs, engine="ref")
    st.load(st.reset_state, tuple(0 for _ in ins))
    ops = cfg["ops"]
    pprev = ptog = 0
    slow = rnd.random() < 0.5
    ev = []
    for _ in range(ncycles):
        op = ops[0] if rnd.random() < pidle else rnd.choice(ops)
        x = [0, 0, 0]
        if cfg["kind"] == "uart":
            if cfg["rxchars"] and rnd.random() < 0.4:
                x[0], x[1] = 1, rnd.choice(cfg["rxchars"])
            x[2] = rnd.choice(cfg["txrdy"])
        elif cfg["kind"] == "gpio":
            p = pprev
            for n in range(cfg["pins"]):
                if not (ptog >> n) & 1 and rnd.random() < (0.08 if slow else 0.4):      # b2b = 0: never twice in a row
                    p ^= 1 << n
            x[0] = p
            ptog, pprev = p ^ pprev, p
        iv = list(op) + x
        st.load(st.state(), tuple(iv))
        o = [int(v) for v in st.peek()]
        st.tick()
        ev.append([iv, o])
    return ev


def run_client_tmode(report, tier, seed):
    rnd = random.Random(seed * 15485863 + 11)
    ntr = 3 if tier == "quick" else 12
    ncyc = 300 if tier == "quick" else 1500
    traces, meta = [], []
    for spec, cfg in cfam.tmode_configs(tier):
        for k in range(ntr):
            traces.append({"cfg": cfg, "ev": client_trace(spec, cfg, ncyc, rnd, rnd.choice([0.2, 0.6, 0.9]))})
            meta.append(spec)
    fails, st = tracecheck.validate(CLIENTS.trace_module, traces, CL_INVS)
    report.add(traces_validated_against_impl=len(traces), trace_states=st["states"])
    report.sample({"client_trace_head": {"dut": CLIENTS.describe(meta[0]), "first_cycles": traces[0]["ev"][:4]}})
    for f in fails:
        spec = meta[f["tid"]]
        tr = traces[f["tid"]]
        sched = [e[0] for e in tr["ev"][:f["l"]]]
        report.violation({"dut": spec, "clause": f["clause"]},
                         {"family": CLIENTS.graph_module, "factory": CLIENTS.factory_path, "spec": spec,
                          "cfg": tr["cfg"], "schedule": sched, "trace_module": CLIENTS.trace_module,
                          "trace_invariants": CL_INVS, "observed": tr["ev"][:f["l"]], "clause": f["clause"]},
                         "%s violated by %s in a recorded trace at cycle %s" % (
                             f["clause"], CLIENTS.describe(spec), f["l"]))


def run(prop, report, tier, seed):
    _notes_findings(report)
    cfgs = fam.configs(tier)
    report.assume("one CSR bus operation per cycle; 8-bit CSR bus; managers with 1-3 sources; the W1C clear may "
                  "take 1..3 cycles from the bus write to the source's clear strobe")
    stats = run_batches(FAMILY, report, [cfgs[i:i + 6] for i in range(0, len(cfgs), 6)], INVS, [],
                        spec_budget=400000)
    report.add(duts_explored=len(stats), clauses=INVS, per_dut=stats)
    # ---- clients: UART (harness PHY), Timer, GPIOIn(with_irq), each behind a real CSRBank
    report.assume("clients: software issues one CSR operation per cycle from the listed alphabet (cfg.ops in the "
                  "evidence samples); UART directions explored separately in G-mode (FIFO depth 2) and together in "
                  "T-mode (depth 4); Timer is the 32-bit core with loads/reloads written through the low byte; "
                  "GPIOIn: the cycle in which mode/edge of a pin changes leaves that pin's pending bit free, pads "
                  "change at most once in two consecutive cycles (the two recorded GPIO findings are demonstrated "
                  "in environments without these two restrictions)")
    ccfgs = cfam.configs(tier)
    cstats = run_batches(CLIENTS, report, [ccfgs], CL_INVS, [], spec_budget=1500000, total_budget=4000000)
    report.add(duts_explored=len(cstats), clauses=CL_INVS, per_dut=cstats)
    for spec, cfg in ccfgs:
        report.sample({"client": CLIENTS.describe(spec), "software_ops": cfg["ops"][:12], "registers": cfg["regs"]}, cap=12)
    dstats = run_batches(CLIENTS, report, [cfam.demo_configs()], CL_INVS, [], spec_budget=200000, followup=False)
    report.add(duts_explored=len(dstats), per_dut=dstats)
    run_client_tmode(report, tier, seed)
    report.cov["exhaustive"] = True
