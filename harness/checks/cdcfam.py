"""C05: clock-domain crossings (two clocks, all edge interleavings, metastability injection).

G-mode (specs/cdc/CdcGraph.tla, contract CdcContract.tla): stream.AsyncFIFO, ClockDomainCrossing (also
with_common_rst: the two reset inputs are environment inputs), BusSynchronizer, PulseSynchronizer; composition
AXILiteClockDomainCrossing (specs/cdc/AxilCdcGraph.tla, contract AxilCdcContract.tla, thorough tier).
A G-mode counterexample is replayed linearly on the reference evaluator (same edge schedule, same inputs, the
metastable resolutions TLC chose) and re-judged by the trace module in T-mode before it is reported.
T-mode (specs/cdc/CdcTrace.tla): ordinary two-clock simulations (litex.gen.sim.core.Simulator, fixed periods and
phases, no injection) at realistic widths, one event per instant of the simulator's TimeManager with a rising edge.
L2 lane (specs/cdc/CdcModel.tla, CdcModelM.tla, CdcModelConf.tla, harness/families/cdc_l2.py; DESIGN.md 9): register-level
models of the crossings; conformance of the model to every G-mode edge (all metastable successors) and every T-mode instant,
M-mode sweeps (unbounded drift, deeper FIFOs, wider buses at the shortest safe time-out, canaries replayed on the netlist),
MODEL-DRIFT notes and drift-triggered escalation.  The model never gives a verdict."""
import json
import os

from ..graphloop import GraphLoop
from ..report import MachineryError, ROOT
from ..families import cdc as fam
from ..families import cdc_l2 as cl
from .. import l2
from .. import tlc as tlcmod
from .. import tracecheck

INVS = ["InOrderExactlyOnce", "ValidHold", "NeverOverflows", "OnlyRealWords", "EmptyAfterReset", "NoSpuriousPulse",
        "EveryPulseOnce"]
PROPS = ["Progress", "Fresh"]
NOTES_FINDINGS = os.path.join(ROOT, "notes", "C05b_findings.json")
FACTORY = "harness.families.cdc:make"


def _known(report):
    """findings of this property: known_findings.json (loaded by Report) plus, until the main agent has merged
    them, the entries of notes/C05b_findings.json (same format; de-duplicated by id)"""
    have = {f.get("id") for f in report.findings}
    try:
        with open(NOTES_FINDINGS) as f:
            for e in json.load(f):
                if e.get("property") == report.prop and e.get("id") not in have:
                    report.findings.append(e)
    except FileNotFoundError:
        pass


def _describe(s):
    if s["kind"] == "bus":
        return "BusSynchronizer(width=%d, timeout=%d) at clock drift <= %d" % (s["width"], s["timeout"], s["r"])
    if s["kind"] == "pulse":
        return "PulseSynchronizer, >= %d quiet input cycles after a pulse, clock drift <= %d" % (s["quiet"], s["r"])
    if s["kind"] == "axil":
        return fam.describe_axil(s)
    txt = "%s(depth=%d%s%s)" % ("uart._get_uart_fifo" if s.get("via") == "uart" else
                                  "stream.AsyncFIFO" if s["kind"] == "asyncfifo" else "stream.ClockDomainCrossing", s.get("depth", 4),
                                       ", buffered" if s.get("buffered") else "",
                                       ", with_common_rst" if s.get("common_rst") else "")
    if s.get("swapnames"):
        txt = txt[:-1] + ', cd_from="read", cd_to="write")'
    if s.get("common_rst"):
        txt += " with reset pulses of %s held for >= %d edge(s) of each clock" % (
            {1: "the source domain", 2: "the destination domain", 3: "either domain"}[s.get("rst", 3)], s["rh"])
    if s.get("r"):
        txt += " at clock drift <= %d" % s["r"]
    return txt


def _replay_linear(spec, ivs, want_states=None, picks=None):
    """run an input/edge schedule linearly from reset on the real netlist with the reference evaluator.  At an
    instant with several metastable resolutions the successor is the recorded one (want_states: successor state
    tuples from the graph; picks: index into the offered successors).  -> (events, picks) or None."""
    from ..fhdl_step import Stepper
    made = fam.make(spec)
    opts = made[3]
    st = Stepper(made[0], made[1], made[2], clocks=tuple(opts["clocks"]), engine="ref", record_multireg=True)
    state = st.reset_state
    ev, chosen = [], []
    for k, iv in enumerate(ivs):
        o, ds = st.step_meta(state, opts["strip_input"](tuple(iv)), opts["cds_from_input"](tuple(iv)))
        if want_states is not None:
            if want_states[k] not in ds:
                return None
            state = want_states[k]
            chosen.append(ds.index(state))
        else:
            if picks[k] >= len(ds):
                return None
            state = ds[picks[k]]
            chosen.append(picks[k])
        ev.append([list(iv), list(o)])
    return ev, chosen


def _confirm(gl, res, spec):
    """replay the counterexample linearly on the real netlist with the reference evaluator: same
    edge schedule, same inputs, and at every simultaneous edge the metastable resolution TLC chose
    (the successor state recorded in the trace must be among the ones the real netlist offers).
    A lasso (temporal clause) is replayed as prefix + 3 unrollings of its loop; -> (events, picks, bound) where
    bound = number of edges of the scarcer clock in the unrolled part (None for a safety clause)."""
    g = gl.duts[res.trace[0]["vars"]["d"] - 1]
    lasso = res.violated == "temporal"
    steps = res.trace if lasso else res.trace[:-1]
    ivs, want = [], []
    for stt in steps:
        iv = stt["vars"].get("iv")
        ns = stt["vars"].get("ns")
        if not isinstance(iv, (tuple, list)) or not isinstance(ns, int) or ns < 0:
            if lasso:
                raise MachineryError("lasso trace without inputs / successor states")
            break
        ivs.append(tuple(iv))
        want.append(g.states[ns])
    bound = None
    if lasso:
        if res.back_to is None:
            raise MachineryError("temporal counterexample without a loop")
        k = res.back_to - 1
        loop_iv, loop_want = ivs[k:], want[k:]
        ivs, want = ivs + loop_iv * 2, want + loop_want * 2
        unrolled = loop_iv * 3
        bound = min(sum(1 for iv in unrolled if iv[0] in (1, 3)), sum(1 for iv in unrolled if iv[0] in (2, 3)))
        bound = max(1, min(bound, len(unrolled) - len(loop_iv)))
    rep = _replay_linear(spec, ivs, want_states=want)
    if rep is None:
        return None
    return rep[0], rep[1], bound


def _tcfg(cfg, stallbound=10**6, freshbound=10**6):
    c = dict(cfg)
    c["stallbound"] = stallbound
    c["freshbound"] = freshbound
    return c


TEMPORAL_T = {"Progress": ["BoundedDelivery", "BoundedAcceptance"], "Fresh": ["BoundedFresh"]}


def _judge_linear(trace_module, cfg, ev, clause, bound=None, temporal_t=TEMPORAL_T):
    """T-mode re-judgement of a linear replay: the same clause (for a lasso: its bounded form over the unrolled
    loop) must fail on the recorded run of the real code.  -> names of the trace clauses that failed"""
    hit = []
    if bound is None:
        tinv, tcfg = [clause + "T"], _tcfg(cfg)
    else:
        tinv, tcfg = temporal_t.get(clause, []), _tcfg(cfg, stallbound=bound, freshbound=bound)
    for t in tinv:      # TLC names only the first violated invariant of a state: one clause per run
        fails, _ = tracecheck.validate(trace_module, [{"cfg": tcfg, "ev": ev}], [t], workers=2, heap="2g")
        hit += [f["clause"] for f in fails if f["clause"] == t]
    return hit


AXIL_INVS = ["RequestsExactlyOnceInOrder", "ResponsesExactlyOnceInOrder", "ValidHold", "AtMostOneOutstanding"]
AXIL_PROPS = ["Progress"]
AXIL_TEMPORAL_T = {"Progress": ["BoundedProgress"]}


def _family(spec):
    """(graph module, trace module, invariants, temporal clauses, hint, bounded trace forms of the temporal clauses)"""
    if spec["kind"] == "axil":
        return "cdc/AxilCdcGraph", "cdc/AxilCdcTrace", AXIL_INVS, AXIL_PROPS, fam.AxilHint(), AXIL_TEMPORAL_T
    return "cdc/CdcGraph", "cdc/CdcTrace", INVS, PROPS, fam.Hint(), TEMPORAL_T


def run_gmode(report, spec, cfg, seed, opts=None, log=print):
    """one DUT through the closed loop; a violated clause is confirmed (linear replay on the reference evaluator,
    re-judged by the trace module) and reported; if it is a listed finding the DUT is explored again without that
    clause (not for `demo` configurations).  Returns (DUT graph of the last run, last TLC result)."""
    opts = opts or {}
    module, trace_module, invs, props, hint, temporal_t = _family(spec)
    invs = list(invs) + (["LegalAgrees"] if opts.get("agree") else [])
    props = list(opts["props"]) if "props" in opts else list(props)
    while True:
        gl = GraphLoop(module, FACTORY, [(spec, cfg)], invariants=invs, properties=props,
                       hint=hint, spec_name="Spec", fmt="hash", spec_budget=opts.get("spec_budget", 1000000),
                       total_budget=4000000, tlc_timeout=3000, log=log, workers=opts.get("workers", 4),
                       heap=opts.get("heap", "6g"))
        try:
            res = gl.run()
            stc = gl.stats()
            _l2_graph(report, gl)
            again = False
            if res.violated == "LegalAgrees":
                raise MachineryError("CdcContract: Inputs and Legal disagree (specification error), state %r"
                                     % (res.trace[-1]["vars"] if res.trace else None,))
            if res.violated:
                clause = res.temporal_name if res.violated == "temporal" else res.violated
                rep = _confirm(gl, res, spec)
                if rep is None:
                    raise MachineryError("counterexample on %s does not reproduce on the reference evaluator" % _describe(spec))
                ev, picks, bound = rep
                tclauses = _judge_linear(trace_module, cfg, ev, clause, bound, temporal_t)
                if not tclauses:
                    raise MachineryError("counterexample to %s on %s is not rejected by the trace module in linear replay"
                                         % (clause, _describe(spec)))
                new = report.violation({"dut": spec, "clause": clause},
                                       {"mode": "G", "family": module, "trace_module": trace_module, "spec": spec, "cfg": cfg,
                                        "schedule": [e[0] for e in ev] if len(ev) <= 2000 else None,
                                        "picks": picks if len(ev) <= 2000 else None,
                                        "observed": ev[-400:], "clause": clause, "trace_clauses": tclauses,
                                        "bound": bound},
                                       "%s violated by %s after %d instants" % (clause, _describe(spec), len(ev)))
                if not new and not opts.get("demo"):
                    # a listed finding: the other clauses of this DUT are still explored
                    if res.violated == "temporal":
                        props = [p for p in props if p != clause]
                    else:
                        invs = [i for i in invs if i != clause]
                    again = True
            else:
                n = gl.crosscheck(per_dut=40, seed=seed)
                report.add(reference_evaluator_crosschecks=n)
                if opts.get("demo"):
                    report.note("%s: the recorded finding does not show any more" % _describe(spec))
        finally:
            gl.close()
        report.add(states=res.distinct, transitions=res.generated, impl_states=stc["impl_states"],
                   impl_edges=stc["impl_edges"], graph_rounds=stc["rounds"])
        if not again:
            return gl.duts[0], res


def run_canary(report, spec, cfg, clause, log=print):
    """premise of the property broken: the clause MUST fail, or the check has lost its sensitivity"""
    gl = GraphLoop("cdc/CdcGraph", FACTORY, [(spec, cfg)], invariants=[clause],
                   hint=fam.Hint(), spec_name="Spec", fmt="hash", spec_budget=3000000, total_budget=4000000, log=log,
                   workers=4, heap="4g")
    try:
        res = gl.run()
        _l2_graph(report, gl)
    finally:
        gl.close()
    if res.violated != clause:
        raise MachineryError("canary %s did not violate %s: the check has lost its sensitivity" % (_describe(spec), clause))
    report.add(canaries_detected=1)
    report.note("canary %s violates %s after %d instants, as it must" % (_describe(spec), clause, len(res.trace) - 1))


def _witnesses(spec, g):
    """vacuity: the explored graph of a DUT that passed really contains what its clauses talk about"""
    ivs = list(g.alphabet.values())
    outs = [o for e in g.succ for (o, d) in e.values()]
    w = {}
    if spec["kind"] == "axil":
        n = 2 if spec["dir"] == "w" else 1
        w["response delivered to the master"] = sum(1 for o in outs if o[n] == 1)
        w["request delivered to the slave"] = sum(1 for o in outs if o[n + 2] == 1)
        w["simultaneous edges"] = sum(1 for iv in ivs if iv[0] == 3)
    elif spec["kind"] == "pulse":
        w["output pulses"] = sum(1 for o in outs if o[2] == 1)
        w["input pulses"] = sum(1 for iv in ivs if iv[1] == 1)
    elif spec["kind"] == "bus":
        w["output words other than the power-up value"] = sum(1 for o in outs if o[2] != 0)
    else:
        w["edges with a token at the output"] = sum(1 for o in outs if o[1] == 1)
        w["edges with the input side full"] = sum(1 for o in outs if o[0] == 0)
        if spec.get("common_rst"):
            if spec.get("rst", 3) in (1, 3):
                w["input vectors with the source-domain reset"] = sum(1 for iv in ivs if iv[4] == 1)
            if spec.get("rst", 3) in (2, 3):
                w["input vectors with the destination-domain reset"] = sum(1 for iv in ivs if iv[5] == 1)
    zero = [k for k, v in w.items() if v == 0]
    if zero:
        raise MachineryError("vacuous exploration of %s: no %s" % (_describe(spec), ", ".join(zero)))
    return w


def run_jobs(report, jobs, tier, seed, log=print):
    for job in jobs:
        if job[0] == "g":
            _, spec, opts = job
            spec = json.loads(json.dumps(spec))          # tuples -> lists, as the workers see it
            g, res = run_gmode(report, spec, fam.tla_cfg(spec), seed, opts, log=log)
            multi = sum(1 for e in g.succ for (o, d) in e.values() if isinstance(d, list) and len(d) > 1)
            if not res.violated:
                _witnesses(spec, g)
            report.add(edges_with_several_metastable_resolutions=multi,
                       per_dut=[{"dut": _describe(spec), "impl_states": len(g.states), "impl_edges": g.nedges,
                                 "edges_with_several_resolutions": multi, "input_vectors": len(g.alphabet),
                                 "temporal_clauses": list(opts["props"]) if "props" in opts else list(_family(spec)[3])}])
            if g.succ and g.succ[0]:
                k = sorted(g.succ[0])[0]
                report.sample({"dut": _describe(spec), "edge_from_reset": {"inputs": k, "outputs": list(g.succ[0][k][0])}},
                              cap=40)
        elif job[0] == "canary":
            _, spec, clause = job
            spec = json.loads(json.dumps(spec))
            run_canary(report, spec, fam.tla_cfg(spec), clause, log=log)
        elif job[0] == "t":
            run_tmode(report, tier, seed)
        elif job[0] == "m":
            run_mmode(report, tier, seed, log=log)
        else:
            raise ValueError(job[0])

# ============================================================================================ L2 lane (DESIGN.md 9)
# specs/cdc/CdcModel.tla: register-level models of AsyncFIFO(+Buffered) / _FIFOWrapper / ClockDomainCrossing,
# BusSynchronizer and PulseSynchronizer.  They never give a verdict: (a) every edge of every G-mode graph - with the
# complete set of metastable successors - and every instant of the T-mode runs must be reproduced by the model, else
# MODEL-DRIFT (note, exit code unaffected) and escalation; (b) M-mode: model x Env x CdcContract at parameters the
# stepper cannot afford; a counterexample found there counts only if it reproduces on the real netlist.
def _l2_drifts(report, drifts):
    seen = report.cov.setdefault("l2_drift_keys", [])
    for d in drifts:
        key = "%s/%s" % (d["clause"], json.dumps(d["m"], sort_keys=True))
        if key in seen:          # one note per clause and model configuration
            continue
        seen.append(key)
        if d["clause"] == "Projection":
            txt = ("MODEL-DRIFT cdc: a register of the L2 model can no longer be found in the netlist of %s (%s); "
                   "no verdict, the L1 checks of the real netlist decide" % (json.dumps(d["spec"], sort_keys=True), d["error"]))
            if txt not in report.notes:
                report.note(txt)
                report.add(l2_model_drifts=1)
        else:
            l2.report_drifts(report, cl.LANE, [d])
    report.add(l2_drift_specs=[d["spec"] for d in drifts])


def _l2_graph(report, gl):
    """conformance of the model to every edge computed for the DUTs of this GraphLoop (complete graph if the run
    passed, the explored part if it stopped at a counterexample)"""
    duts = cl.graph_cases(gl)
    if not duts:
        return
    n, dr = cl.conformance(duts)
    report.add(l2_graph_duts=sum(1 for d in duts if d["cases"]), l2_graph_edges=n,
               l2_graph_edges_with_several_resolutions=sum(1 for d in duts for c in d["cases"] if len(c[3]) > 1))
    _l2_drifts(report, dr)


def _l2_run_job(job):
    from .. import py312_tracer
    py312_tracer.install()
    spec, ev = job
    return cl.run_cases(spec, [e[0] for e in ev], [e[1] for e in ev])


def _l2_runs(report, pool, jobs, evs):
    """the model against every instant of the T-mode runs (realistic widths, no injection: the model's `base` successor)"""
    rjobs = []
    for (spec, _), ev in zip(jobs, evs):
        m = cl.model_cfg(spec)
        if m is not None and m["dw"] + m["pw"] + 2 <= 30 and m["width"] <= 30:
            rjobs.append((spec, ev))
    duts = [d for d in pool.map(_l2_run_job, rjobs, chunksize=1) if d is not None]
    n, dr = cl.conformance(duts)
    report.add(l2_run_duts=sum(1 for d in duts if d["cases"]), l2_run_instants=n)
    _l2_drifts(report, dr)


def _norm(r):
    return {k: (tuple(v) if isinstance(v, (list, tuple)) else v) for k, v in r.items()}


def _mm_replay(spec, res):
    """replay an M-mode counterexample on the real netlist: same edge schedule and inputs; at an instant with several
    metastable resolutions the successor whose modelled registers equal the model's next state.  -> (events, picks,
    bound) or None if the netlist does not follow the model's trace."""
    from ..fhdl_step import Stepper
    lasso = res.violated == "temporal"
    steps = res.trace if lasso else res.trace[:-1]
    ivs, want = [], []
    for stt in steps:
        iv, nr = stt["vars"].get("iv"), stt["vars"].get("nr")
        if not isinstance(iv, (tuple, list)) or not isinstance(nr, dict):
            if lasso:
                raise MachineryError("M-mode lasso without inputs / successor registers")
            break
        ivs.append(tuple(iv))
        want.append(_norm(nr))
    bound = None
    if lasso:
        if res.back_to is None:
            raise MachineryError("M-mode temporal counterexample without a loop")
        k = res.back_to - 1
        loop_iv, loop_want = ivs[k:], want[k:]
        ivs, want = ivs + loop_iv * 2, want + loop_want * 2
        unrolled = loop_iv * 3
        bound = min(sum(1 for iv in unrolled if iv[0] in (1, 3)), sum(1 for iv in unrolled if iv[0] in (2, 3)))
        bound = max(1, min(bound, len(unrolled) - len(loop_iv)))
    made = fam.make(spec)
    opts = made[3]
    st = Stepper(made[0], made[1], made[2], clocks=tuple(opts["clocks"]), engine="ref", record_multireg=True)
    try:
        ix = l2.proj_index(st, cl.LANE.proj_path, spec)
    except KeyError:
        return None
    state = st.reset_state
    ev, picks = [], []
    for iv, w in zip(ivs, want):
        o, ds = st.step_meta(state, opts["strip_input"](iv), opts["cds_from_input"](iv))
        hit = [i for i, x in enumerate(ds) if _norm(l2.project(ix, x)) == w]
        if not hit:
            return None
        state = ds[hit[0]]
        picks.append(hit[0])
        ev.append([list(iv), list(o)])
    return ev, picks, bound


def run_mmode(report, tier, seed, log=print):
    """M-mode sweep: groups of configurations, each one TLC run of CdcModelM.  `expect`: a canary (premise of the
    property broken) - the clause MUST fail on the model, and the model's counterexample must reproduce on the netlist."""
    stat = {"mmode_configs": 0, "mmode_states": 0, "mmode_wall_s": 0.0, "mmode_groups": [], "mmode_canaries": 0,
            "mmode_canaries_reproduced_on_netlist": 0}
    for grp in cl.mmode_configs(tier):
        ents = grp["entries"]
        res = l2.mmode(cl.LANE.m_module, [{"c": x["c"], "m": x["m"], "live": x["live"]} for x in ents], grp["invs"], grp["props"],
                       timeout=grp.get("timeout", 1500 if tier == "quick" else 5400),
                       workers=grp.get("workers", 6 if tier == "quick" else 8),
                       heap=grp.get("heap", "8g"))
        log("  M-mode %s: %d configuration(s), %d distinct states, depth %d, %.1fs%s" % (
            grp["name"], len(ents), res.distinct, res.depth, res.wall, ", violated %s" % (
                res.temporal_name if res.violated == "temporal" else res.violated) if res.violated else ""))
        report.add(states=res.distinct, transitions=res.generated)
        stat["mmode_configs"] += len(ents)
        stat["mmode_states"] += res.distinct
        stat["mmode_wall_s"] = round(stat["mmode_wall_s"] + res.wall, 1)
        stat["mmode_groups"].append({"group": grp["name"], "what": grp["what"], "configs": len(ents), "states": res.distinct,
                                     "transitions": res.generated, "depth": res.depth, "wall_s": round(res.wall, 1),
                                     "clauses": list(grp["invs"]) + list(grp["props"]),
                                     "expected_to_fail": grp.get("expect")})
        clause = res.temporal_name if res.violated == "temporal" else res.violated
        if grp.get("expect"):
            stat["mmode_canaries"] += 1
            if clause != grp["expect"]:
                raise MachineryError("M-mode canary %s did not violate %s on the model: the model or the contract has lost "
                                     "its sensitivity" % (grp["name"], grp["expect"]))
        if not res.violated:
            continue
        x = ents[res.trace[0]["vars"]["d"] - 1]
        spec = json.loads(json.dumps(x["spec"]))
        rep = _mm_replay(spec, res)
        tcl = _judge_linear("cdc/CdcTrace", x["c"], rep[0], clause, rep[2]) if rep is not None else []
        if grp.get("expect"):
            if tcl:
                stat["mmode_canaries_reproduced_on_netlist"] += 1
                report.note("M-mode canary %s violates %s on the model after %d instants, as it must; the counterexample "
                            "reproduces on the real netlist" % (_describe(spec), clause, len(rep[0])))
            else:
                report.note("MODEL-DRIFT cdc: the model's counterexample of the canary %s (%s) does not reproduce on the real "
                            "netlist; no verdict" % (_describe(spec), clause))
                report.add(l2_model_drifts=1, l2_drift_specs=[spec])
            continue
        if tcl:
            ev, picks, bound = rep
            report.violation({"dut": spec, "clause": clause},
                             {"mode": "G", "family": "cdc/CdcModelM", "trace_module": "cdc/CdcTrace", "spec": spec, "cfg": x["c"],
                              "schedule": [e[0] for e in ev] if len(ev) <= 2000 else None,
                              "picks": picks if len(ev) <= 2000 else None, "observed": ev[-400:], "clause": clause,
                              "trace_clauses": tcl, "bound": bound},
                             "%s violated by %s (found on the L2 model in M-mode, reproduced on the netlist) after %d instants" % (
                                 clause, _describe(spec), len(ev)))
        else:
            report.note("MODEL-DRIFT cdc: M-mode counterexample to %s on the model of %s does not reproduce on the netlist; "
                        "no verdict" % (clause, _describe(spec)))
            report.add(l2_model_drifts=1, l2_drift_specs=[spec])
    report.add(l2_mmode=stat)


# ============================================================================================ lanes
def _lane_main(conn, prop, tier, seed, label, jobs, findings):
    import traceback
    try:
        from .. import py312_tracer
        from ..report import Report
        py312_tracer.install()
        rep = Report(prop, "%s-%s" % (tier, label), seed)
        rep.findings = findings
        run_jobs(rep, jobs, tier, seed, log=lambda m: print("[%s] %s" % (label, m), flush=True))
        conn.send({"cov": rep.cov, "violations": rep.violations, "known_hit": rep.known_hit, "notes": rep.notes})
    except MachineryError as ex:
        conn.send({"error": "[%s] %s" % (label, ex)})
    except Exception:
        conn.send({"error": "[%s] %s" % (label, traceback.format_exc()[-3000:])})
    finally:
        conn.close()


def run_lanes(report, prop, tier, seed, lanes, par=6):
    """lanes: list of (label, jobs).  Runs them in child processes, at most `par` at a time, merges in list order
    (so the evidence is deterministic)."""
    import multiprocessing as mp
    import multiprocessing.connection
    import time
    ctx = mp.get_context("fork")
    pending = list(enumerate(lanes))
    running, results = {}, {}
    while pending or running:
        while pending and len(running) < par:
            i, (label, jobs) = pending.pop(0)
            pc, cc = ctx.Pipe(duplex=False)
            p = ctx.Process(target=_lane_main, args=(cc, prop, tier, seed, label, jobs, report.findings))
            p.start()
            cc.close()
            running[i] = (p, pc, label, time.time())
        done = mp.connection.wait([x[1] for x in running.values()], timeout=5)
        for i in list(running):
            p, pc, label, t0 = running[i]
            if pc in done:
                print("lane %s finished after %.0fs" % (label, time.time() - t0), flush=True)
                try:
                    results[i] = pc.recv()
                except EOFError:
                    results[i] = {"error": "[%s] lane died without a result" % label}
                p.join()
                del running[i]
    errors = []
    for i in range(len(lanes)):
        r = results[i]
        if "error" in r:
            errors.append(r["error"])
            continue
        cov = r["cov"]
        for s_ in cov.pop("samples", []):
            report.sample(s_, cap=16)
        report.add(**cov)
        report.violations.extend(r["violations"])
        for k in r["known_hit"]:
            if k not in report.known_hit:
                report.known_hit.append(k)
        report.notes.extend(r["notes"])
    if errors:
        raise MachineryError(" || ".join(errors))


def _l2_summary(report):
    c = report.cov
    mm = c.get("l2_mmode", {})
    report.add(l2_model={"module": "cdc/CdcModel", "graph_duts_judged": c.get("l2_graph_duts", 0),
                         "graph_edges_judged": c.get("l2_graph_edges", 0),
                         "graph_edges_with_several_resolutions": c.get("l2_graph_edges_with_several_resolutions", 0),
                         "run_duts": c.get("l2_run_duts", 0), "run_instants_judged": c.get("l2_run_instants", 0),
                         "drifts": c.get("l2_model_drifts", 0),
                         "mmode_configs": mm.get("mmode_configs", 0), "mmode_states": mm.get("mmode_states", 0),
                         "mmode_wall_s": mm.get("mmode_wall_s", 0), "mmode_canaries": mm.get("mmode_canaries", 0),
                         "mmode_canaries_reproduced_on_netlist": mm.get("mmode_canaries_reproduced_on_netlist", 0),
                         "mmode_largest": cl.MMODE_LARGEST.get(report.tier.split("-")[0], "")})


# thorough-tier lanes that look at the DUT classes of a model class more deeply (in this order, at most ESC_MAX)
ESCALATION = {"AsyncFIFO": ["fifo-buffered", "cdc-r2", "common-rst-live", "fifo-r3"], "Bus": ["sync"], "Pulse": ["sync"]}
ESC_MAX = 3


def _l2_escalate(report, prop, tier, seed):
    """drift-triggered escalation: the code is no longer what was model-checked in M-mode and nothing has been reported -
    the drifting classes are explored against the L1 contract at the thorough tier's parameters"""
    specs = report.cov.get("l2_drift_specs", [])
    if not specs or tier != "quick" or report.violations:
        return
    classes = sorted({cl.model_cfg(s_)["cls"] for s_ in specs if cl.model_cfg(s_) is not None})
    want = []
    for c in classes:
        want += [x for x in ESCALATION.get(c, []) if x not in want]
    want = want[:ESC_MAX]
    quick = {json.dumps(j, sort_keys=True, default=list) for _, jobs in fam.lanes("quick") for j in jobs}
    esc = []
    for label, jobs in fam.lanes("thorough"):
        if label in want:
            jobs = [j for j in jobs if j[0] == "g" and json.dumps(j, sort_keys=True, default=list) not in quick]
            if jobs:
                esc.append(("esc-" + label, jobs))
    report.note("escalation: model classes %s drifted; %d thorough-tier lane(s) explored against the L1 contract: %s" % (
        classes, len(esc), [l for l, _ in esc]))
    if not esc:
        return
    try:
        run_lanes(report, prop, tier, seed, esc, par=4)
    except MachineryError as ex:
        report.note("escalation not completed (no verdict from it): %s" % str(ex)[:600])
    report.add(lanes=[l for l, _ in esc])


def run(prop, report, tier, seed):
    report.assume("metastability = per-bit old/new resolution of a synchroniser's first flop when its source changes "
                  "at a coinciding destination edge; FIFO crossings: free edge interleaving within the drift bound; bus "
                  "synchroniser: drift bounded by R and time-out longer than the round trip (premise of the property); "
                  "pulse synchroniser: at least R + 1 quiet input cycles after a pulse (premise)")
    report.assume("with_common_rst: AsyncResetSynchronizer is the repository simulator's combinational stand-in "
                  "(reset acts at clock edges only, both domains see assertion and release in the same instant); a reset "
                  "pulse is held for R + 3 edges of each clock; what the read side shows while the common reset is "
                  "asserted is not judged")
    report.assume("AXILiteClockDomainCrossing: one direction per configuration (the other direction's channels tied off), "
                  "one outstanding transaction, payloads are per-channel sequence tags (k mod 3)")
    report.assume("T-mode: the ordinary simulator's fixed-period clocks (no metastability), realistic widths")
    _known(report)
    lanes = fam.lanes(tier)
    only = [x for x in os.environ.get("VERIF_C05_LANES", "").split(",") if x]      # development / mutation runs only
    if only:
        lanes = [l for l in lanes if l[0] in only]
        report.note("partial run: lanes %r only" % only)
    # long lanes first
    order = ["axil-write", "fifo-buffered", "fifo-r3", "common-rst-data", "cdc-r2", "fifo-r2", "common-rst-live",
             "common-rst-r3", "common-rst"]
    lanes.sort(key=lambda x: order.index(x[0]) if x[0] in order else len(order))
    # L2 lane: conformance happens inside the G-mode and T-mode lanes; M-mode (pure TLC, no code involved) is a lane of its own
    lanes.append(("l2-mmode", [("m",)]))
    if only:
        lanes = [l for l in lanes if l[0] in only]
    report.assume("L2 (specs/cdc/CdcModel.tla): register-level models of migen AsyncFIFO / AsyncFIFOBuffered (Gray counters, both "
                  "pointer synchronisers, storage, read-port address register) inside stream._FIFOWrapper / AsyncFIFO / "
                  "ClockDomainCrossing (also with_common_rst), of LiteX's BusSynchronizer (ping/pong PulseSynchronizers, ping_o "
                  "flop, WaitTimer, ibuffer, obuffer) and of PulseSynchronizer; they give no verdict - every edge of the G-mode "
                  "graphs with the complete set of its metastable successors and every instant of the T-mode runs must be "
                  "reproduced by the model (else MODEL-DRIFT and escalation), and the model is checked against the same contract "
                  "in M-mode (unbounded clock drift for the FIFOs, deeper FIFOs, wider buses with the shortest safe time-out); "
                  "AXILiteClockDomainCrossing and the collapsed cd_from=\"read\"/cd_to=\"write\" crossing have no model")
    run_lanes(report, prop, tier, seed, lanes, par=5 if tier == "thorough" else 4)
    report.add(lanes=[l for l, _ in lanes])
    report.add(clauses={"stream / bus / pulse": INVS + PROPS, "axi-lite": AXIL_INVS + AXIL_PROPS, "t-mode": T_INVS})
    _l2_escalate(report, prop, tier, seed)
    _l2_summary(report)
    if only:
        return
    if report.cov.get("edges_with_several_metastable_resolutions", 0) == 0:
        raise MachineryError("no edge with more than one metastable resolution was explored (vacuous run)")
    if report.cov.get("canaries_detected", 0) < 2:
        raise MachineryError("canaries missing")
    report.cov["exhaustive"] = True


# ============================================================================================ T-mode
T_INVS = ["InOrderExactlyOnceT", "ValidHoldT", "NeverOverflowsT", "OnlyRealWordsT", "EmptyAfterResetT", "NoSpuriousPulseT",
          "EveryPulseOnceT", "BoundedDelivery", "BoundedAcceptance", "BoundedFresh"]

# (write period, write phase, read period, read phase) of the ordinary simulator's TimeManager: equal periods with
# coinciding and with offset edges, near-equal, 1.4, 2, 2.6 and 3 in both directions
CLOCKS = [(10, 0, 10, 0), (10, 0, 10, 3), (10, 0, 12, 0), (12, 1, 10, 0), (10, 0, 14, 2), (14, 0, 10, 0),
          (10, 0, 20, 0), (20, 4, 10, 0), (10, 0, 26, 0), (26, 0, 10, 0), (10, 0, 30, 0), (30, 6, 10, 1)]


def _drift(clk):
    pw, _, pr, _ = clk
    return -(-max(pw, pr) // min(pw, pr))            # ceil of the period ratio


def tmode_specs(tier):
    """realistic-width DUTs x clock pairs for trace validation"""
    duts = [dict(kind="asyncfifo", depth=8, dw=8), dict(kind="asyncfifo", depth=16, dw=16, buffered=True),
            dict(kind="cdc", depth=8, dw=16), dict(kind="cdc", depth=16, dw=12, buffered=True),
            dict(kind="cdc", depth=8, dw=8, common_rst=1, rst=3),
            dict(kind="bus", width=8, timeout=128), dict(kind="bus", width=16, timeout=128),
            dict(kind="pulse"),
            # tokens whose upper bits travel as param field and first/last flags through the FIFO wrapper
            dict(kind="cdc", depth=8, dw=14, pw=4, fl=1), dict(kind="asyncfifo", depth=8, dw=9, pw=3, fl=1, buffered=True),
            dict(kind="cdc", depth=4, dw=6, pw=2, fl=1, buffered=True), dict(kind="asyncfifo", depth=4, dw=5, pw=2),
            # the UART's own crossing FIFO (uart._get_uart_fifo with different sink / source domains)
            dict(kind="asyncfifo", via="uart", depth=16, dw=8), dict(kind="asyncfifo", via="uart", depth=4, dw=8)]
    L = []
    for di, d in enumerate(duts):
        for ci, clk in enumerate(CLOCKS):
            if tier != "thorough" and (ci + di) % 4:
                continue
            sp = dict(d, clk=list(clk), time=20000 if tier == "thorough" else 8000)
            r = _drift(clk)
            if d["kind"] in ("bus", "pulse"):
                sp["r"] = r
            if d["kind"] == "pulse":
                sp["quiet"] = r + 1
            if d.get("common_rst"):
                sp["rh"] = r + 3
            L.append(sp)
    return L


def _tmode_cfg(spec):
    cfg = fam.tla_cfg(spec)
    if spec["kind"] == "bus":
        cfg["dmax"] = 2 ** spec["width"] - 1
        cfg["dset"] = [0]
    elif spec["kind"] != "pulse":
        cfg["dmax"] = 2 ** spec["dw"] - 1
        cfg["dset"] = [0]
        cfg["r"] = 0                        # FIFO crossings: no premise on the clocks
    # an owed token is delivered within 8 read edges of a ready consumer, an empty crossing accepts within 8 write
    # edges (two synchroniser stages + pointer + output register, with margin); a bus word that has been stable for
    # 40 + 8 R instants (two hand-shake round trips at drift R) is at the output
    return _tcfg(cfg, stallbound=8, freshbound=40 + 8 * _drift(spec["clk"]))


def sim_trace(spec, seedstr):
    """ordinary two-clock Migen simulation of the real code (litex.gen.sim.core.Simulator.run, generators in both
    domains, fixed periods/phases, no injection).  One event [iv, o] per instant in which the simulator's TimeManager
    reports a rising edge; the interface values are read just before the simulator executes that instant's edges."""
    import random
    from litex.gen.sim.core import Simulator
    top, ins, outs, opts = fam.make(spec)
    kind = spec["kind"]
    pw, phw, pr, phr = spec["clk"]
    clocks = {"write": (pw, phw), "read": (pr, phr)}
    for k, v in opts.get("domain_alias", {}).items():
        clocks[k] = clocks[v]               # the private domains of with_common_rst run on the user clocks
    nw, nr = spec["time"] // pw, spec["time"] // pr
    rndw, rndr = random.Random(seedstr + "/w"), random.Random(seedstr + "/r")
    pv, prdy = rndw.choice([0.9, 0.5, 0.25, 1.0]), rndr.choice([0.9, 0.5, 0.25, 1.0])
    ev = []
    gens = {"write": [], "read": []}
    if kind in ("asyncfifo", "cdc"):
        valid, data, ready = ins[0], ins[1], ins[2]
        sink_ready = outs[0]
        dw = spec["dw"]

        def producer():
            cur = None
            for _ in range(nw):
                v = (yield valid)
                if cur is not None and v == 1 and (yield sink_ready) == 1:
                    cur = None
                if cur is None and rndw.random() < pv:
                    cur = rndw.getrandbits(dw)
                yield valid.eq(0 if cur is None else 1)
                yield data.eq(0 if cur is None else cur)
                yield

        def consumer():
            for _ in range(nr):
                yield ready.eq(1 if rndr.random() < prdy else 0)
                yield
        gens["write"].append(producer())
        gens["read"].append(consumer())
        if spec.get("common_rst"):
            rstw, rstr = ins[3], ins[4]
            rh = spec["rh"]
            sh = {"owner": None, "cw": 0, "cr": 0}

            def resetter(me, mine, other, n, rnd, key):
                for _ in range(n):
                    a, b = (yield mine), (yield other)
                    if a == 1 or b == 1:
                        sh[key] += 1        # an edge of this clock under the pulse
                    if sh["owner"] == me:
                        if a == 1 and sh["cw"] >= rh and sh["cr"] >= rh and rnd.random() < 0.5:
                            yield mine.eq(0)
                            sh["owner"] = "releasing"
                    elif sh["owner"] == "releasing":
                        if a == 0 and b == 0:
                            sh["owner"], sh["cw"], sh["cr"] = None, 0, 0
                    elif sh["owner"] is None and rnd.random() < 0.01:
                        sh["owner"] = me
                        yield mine.eq(1)
                    yield
            gens["write"].append(resetter("w", rstw, rstr, nw, random.Random(seedstr + "/rw"), "cw"))
            gens["read"].append(resetter("r", rstr, rstw, nr, random.Random(seedstr + "/rr"), "cr"))
    elif kind == "bus":
        i = ins[0]
        width = spec["width"]

        def driver():
            left = 0
            for _ in range(nw):
                if left == 0:
                    yield i.eq(rndw.getrandbits(width))
                    left = rndw.choice([1, 1, 2, 3, 5, 40, 150])
                left -= 1
                yield
        gens["write"].append(driver())
        gens["read"].append((None for _ in range(nr)))
    elif kind == "pulse":
        i = ins[0]
        quiet = spec["quiet"]

        def pulser():
            owed = 0
            for _ in range(nw):
                if (yield i) == 1:
                    owed = quiet
                elif owed > 0:
                    owed -= 1
                yield i.eq(1 if (owed == 0 and rndw.random() < pv) else 0)
                yield
        gens["write"].append(pulser())
        gens["read"].append((None for _ in range(nr)))
    else:
        raise ValueError(kind)
    fin = []

    def until_done(g):          # the recording stops when the first driver has run out of stimulus
        yield from g
        fin.append(1)
    gens = {cd: [until_done(g) for g in L] for cd, L in gens.items()}
    sim = Simulator(top, gens, clocks=clocks)
    tick = sim.time.tick
    peek = sim.evaluator.eval

    def logging_tick():
        dt, rising, falling = tick()
        tk = (1 if "write" in rising else 0) + (2 if "read" in rising else 0)
        if tk and not fin:
            ev.append([[tk] + [int(peek(x)) for x in ins], [int(peek(x)) for x in outs]])
        return dt, rising, falling
    sim.time.tick = logging_tick
    try:
        sim.run()
    finally:
        sim.close()
    return ev


def _sim_job(job):
    from .. import py312_tracer
    py312_tracer.install()
    return sim_trace(*job)


def _tseed(seed, i, k):
    return "c05-%d-%d-%d" % (seed, i, k)


def run_tmode(report, tier, seed, nproc=6):
    import multiprocessing as mp
    specs = tmode_specs(tier)
    ntr = 2 if tier == "thorough" else 1
    jobs = [(spec, _tseed(seed, i, k)) for i, spec in enumerate(specs) for k in range(ntr)]
    pool = mp.get_context("fork").Pool(nproc)
    try:
        evs = pool.map(_sim_job, jobs, chunksize=1)        # order of `jobs` is kept: deterministic
        _l2_runs(report, pool, jobs, evs)
    finally:
        pool.terminate()
    traces = [{"cfg": _tmode_cfg(spec), "ev": ev} for (spec, _), ev in zip(jobs, evs)]
    fails, st = tracecheck.validate("cdc/CdcTrace", traces, T_INVS, workers=4, max_failures=8)
    report.add(traces_validated_against_impl=len(traces), trace_states=st["states"],
               tmode_instants=sum(len(t["ev"]) for t in traces),
               tmode_simultaneous_edges=sum(1 for t in traces for e in t["ev"] if e[0][0] == 3),
               tmode_tokens=sum(1 for t in traces if t["cfg"]["kind"] == "fifo" for e in t["ev"]
                                if e[0][0] in (2, 3) and e[0][3] == 1 and e[1][1] == 1),
               tmode_reset_pulses=sum(1 for t in traces if t["cfg"]["rst"] for a, b in zip(t["ev"], t["ev"][1:])
                                      if not (a[0][4] or a[0][5]) and (b[0][4] or b[0][5])),
               tmode_duts=sorted({_describe(s) for s, _ in jobs}), tmode_clock_pairs=[list(c) for c in CLOCKS])
    for k in ("tmode_simultaneous_edges", "tmode_tokens", "tmode_reset_pulses"):
        if report.cov.get(k, 0) == 0:
            raise MachineryError("T-mode witness %s is zero (vacuous run)" % k)
    report.sample({"tmode_trace_head": {"dut": _describe(jobs[0][0]), "clocks": jobs[0][0]["clk"],
                                        "first_instants": traces[0]["ev"][:6]}}, cap=12)
    for f in sorted(fails, key=lambda f: f["tid"]):
        spec, ss = jobs[f["tid"]]
        tr = traces[f["tid"]]
        report.violation({"dut": spec, "clause": f["clause"]},
                         {"mode": "T", "spec": spec, "cfg": tr["cfg"], "simseed": ss, "trace_module": "cdc/CdcTrace",
                          "trace_invariants": T_INVS, "observed": tr["ev"][max(0, f["l"] - 40):f["l"]],
                          "clause": f["clause"], "instant": f["l"]},
                         "%s violated by %s (clocks %r) in a recorded two-clock simulation at instant %s" % (
                             f["clause"], _describe(spec), spec["clk"], f["l"]))


def replay_tmode(r):
    ev = sim_trace(r["spec"], r["simseed"])
    try:
        fails, _ = tracecheck.validate(r["trace_module"], [{"cfg": r["cfg"], "ev": ev}], r["trace_invariants"], workers=2)
    except MachineryError as ex:
        return False, [{"clause": "trace not judged: %s" % ex}]
    return any(f["clause"] == r["clause"] for f in fails), fails


# ============================================================================================ replay
def replay(path):
    with open(path) as f:
        r = json.load(f)
    if r.get("mode") == "T":
        return replay_tmode(r)
    if r.get("mode") == "G" and r.get("schedule") is not None:
        rep = _replay_linear(r["spec"], r["schedule"], picks=r["picks"])
        if rep is None:
            return False, [{"clause": "recorded metastable resolution is not offered by this netlist"}]
        b = r.get("bound")
        tcfg = _tcfg(r["cfg"]) if b is None else _tcfg(r["cfg"], stallbound=b, freshbound=b)
        allf = []
        for t in r["trace_clauses"]:
            try:
                fails, _ = tracecheck.validate(r["trace_module"], [{"cfg": tcfg, "ev": rep[0]}], [t], workers=2, heap="2g")
            except MachineryError as ex:
                return False, [{"clause": "schedule no longer legal for the environment: %s" % ex}]
            allf += fails
        return any(f["clause"] in r["trace_clauses"] for f in allf), allf
    return False, [{"clause": "replay file without a schedule"}]
