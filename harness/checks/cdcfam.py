"""C05: clock-domain crossings (two clocks, all edge interleavings, metastability injection), G-mode."""
import json

from ..gcheck import GFamily
from ..graphloop import GraphLoop
from ..report import MachineryError
from ..families import cdc as fam
from .. import tlc as tlcmod

INVS = ["InOrderExactlyOnce", "ValidHold", "NeverOverflows", "OnlyRealWords"]
PROPS = ["Progress", "Fresh"]


def _describe(s):
    if s["kind"] == "bus":
        return "BusSynchronizer(width=%d, timeout=%d) at clock drift <= %d" % (s["width"], s["timeout"], s["r"])
    return "stream.%s(depth=%d%s)" % ("AsyncFIFO" if s["kind"] == "asyncfifo" else "ClockDomainCrossing", s.get("depth", 4),
                                      ", buffered" if s.get("buffered") else "")


def _confirm(gl, res, spec):
    """replay the counterexample linearly on the real netlist with the reference evaluator: same
    edge schedule, same inputs, and at every simultaneous edge the metastable resolution TLC chose
    (the successor state recorded in the trace must be among the ones the real netlist offers)."""
    from ..fhdl_step import Stepper
    made = fam.make(spec)
    st = Stepper(made[0], made[1], made[2], clocks=("write", "read"), engine="ref", record_multireg=True)
    g = gl.duts[res.trace[0]["vars"]["d"] - 1]
    state = st.reset_state
    ev = []
    steps = res.trace[:-1] if res.violated != "temporal" else res.trace
    for stt in steps:
        iv = stt["vars"].get("iv")
        ns = stt["vars"].get("ns")
        if not isinstance(iv, (tuple, list)) or not isinstance(ns, int) or ns < 0:
            break
        o, ds = st.step_meta(state, tuple(iv[1:]), fam._cds(iv))
        want = g.states[ns]
        if want not in ds:
            return None
        ev.append([list(iv), list(o)])
        state = want
    return ev


def run(prop, report, tier, seed):
    report.assume("metastability = per-bit old/new resolution of a synchroniser's first flop when its source changes "
                  "at a coinciding destination edge; FIFO crossings: free edge interleaving; bus synchroniser: drift "
                  "bounded by R and time-out longer than the round trip (premise of the property)")
    cfgs = fam.configs(tier)
    total_states = 0
    for spec, cfg in cfgs:
        gl = GraphLoop("cdc/CdcGraph", "harness.families.cdc:make", [(spec, cfg)], invariants=INVS, properties=PROPS,
                       hint=fam.Hint(), spec_name="Spec", fmt="hash", spec_budget=3000000, total_budget=4000000,
                       tlc_timeout=3000)
        try:
            res = gl.run()
            stc = gl.stats()
            if res.violated:
                ev = _confirm(gl, res, spec)
                if ev is None:
                    raise MachineryError("counterexample on %s does not reproduce on the reference evaluator" % _describe(spec))
                clause = res.temporal_name if res.violated == "temporal" else res.violated
                report.violation({"dut": spec, "clause": clause},
                                 {"family": "cdc/CdcGraph", "spec": spec, "cfg": cfg, "observed": ev[-400:], "clause": clause},
                                 "%s violated by %s after %d instants" % (clause, _describe(spec), len(ev)))
            else:
                n = gl.crosscheck(per_dut=40, seed=seed)
                report.add(reference_evaluator_crosschecks=n)
        finally:
            gl.close()
        report.add(states=res.distinct, transitions=res.generated, impl_states=stc["impl_states"],
                   impl_edges=stc["impl_edges"], graph_rounds=stc["rounds"])
        g = gl.duts[0]
        multi = sum(1 for e in g.succ for (o, d) in e.values() if isinstance(d, list) and len(d) > 1)
        report.add(edges_with_several_metastable_resolutions=multi,
                   per_dut=[{"dut": _describe(spec), "impl_states": len(g.states), "impl_edges": g.nedges,
                             "edges_with_several_resolutions": multi}])
        if g.succ and g.succ[0]:
            k = sorted(g.succ[0])[0]
            report.sample({"dut": _describe(spec), "edge_from_reset": {"inputs": k, "outputs": list(g.succ[0][k][0])}})
    if report.cov.get("edges_with_several_metastable_resolutions", 0) == 0:
        raise MachineryError("no edge with more than one metastable resolution was explored (vacuous run)")
    # canary: with the premise broken (time-out shorter than the round trip) a torn word MUST be found
    for spec, cfg in fam.canaries(tier):
        gl = GraphLoop("cdc/CdcGraph", "harness.families.cdc:make", [(spec, cfg)], invariants=["OnlyRealWords"],
                       hint=fam.Hint(), spec_name="Spec", fmt="hash", spec_budget=3000000, total_budget=4000000)
        try:
            res = gl.run()
        finally:
            gl.close()
        if res.violated != "OnlyRealWords":
            raise MachineryError("canary %s did not tear a word: the check has lost its sensitivity" % _describe(spec))
        report.add(canaries_detected=1)
        report.note("canary %s tears a word after %d instants, as it must" % (_describe(spec), len(res.trace) - 1))
    report.cov["exhaustive"] = True
