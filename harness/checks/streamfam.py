"""C03 / C04: stream elements (G-mode exhaustive product + T-mode long traces).

Two contracts: specs/stream/StreamContract.tla (one sink, one source: buffers, FIFOs, converters, gearbox,
PipelinedActor users incl. Shifter ...) and specs/stream/StreamRoute.tla (Multiplexer / Demultiplexer / Crossbar
with a selector that may change in any cycle, and their compositions with buffers)."""
import contextlib
import json
import os
import random
import re

from ..gcheck import GFamily, run_batches, schedule_from_trace, linear_replay
from .. import gcheck
from .. import tracecheck
from .. import l2
from ..families import stream_l2 as sl
from ..report import MachineryError
from ..families import stream as fam
from ..families import streamroute as rfam
from ..report import ROOT, load_findings

FAMILY = GFamily("stream/StreamGraph", "stream/StreamTrace", "harness.families.stream:make", hint=fam.Hint(),
                 fmt="hash", clause_map={"InOrderExactlyOnce": "InOrderExactlyOnceT", "Bounded": "BoundedT",
                             "ValidHold": "ValidHoldT", "Progress": "BoundedProgress",
                             "ProgressSink": "BoundedProgressSink", "NothingLost": "BoundedDelivery"},
                 describe=lambda s: "%s%s" % (s["cls"], s.get("args", s.get("stages", ""))))

CLAUSES = {
    "C03": (["InOrderExactlyOnce", "Bounded"], ["NothingLost"]),
    "C04": (["ValidHold"], ["Progress", "ProgressSink"]),
}
TCLAUSES = {
    "C03": ["InOrderExactlyOnceT", "BoundedT", "BoundedDelivery"],
    "C04": ["ValidHoldT", "BoundedProgress", "BoundedProgressSink"],
}


# routing elements with a dynamic selector (contract StreamRoute)
ROUTE_FAMILY = GFamily("stream/StreamRouteGraph", "stream/StreamRouteTrace", "harness.families.streamroute:make",
                       fmt="hash",
                       clause_map={"RouteInOrderExactlyOnce": "RouteInOrderExactlyOnceT",
                                   "UnselectedSinkNotReady": "UnselectedSinkNotReadyT",
                                   "UnselectedSourceNotValid": "UnselectedSourceNotValidT",
                                   "RouteBounded": "RouteBoundedT", "ValidHoldWhileRouted": "ValidHoldWhileRoutedT",
                                   "RouteProgress": "RouteBoundedProgress",
                                   "RouteProgressSink": "RouteBoundedProgressSink",
                                   "RouteNothingLost": "RouteBoundedDelivery"},
                       describe=lambda s: "%s(n=%d%s)" % (s["cls"], s["n"], "".join(
                           ", %s=%s" % (k, s[k]) for k in ("pre", "mid", "post", "dw") if s.get(k))))
RCLAUSES = {
    "C03": (["RouteInOrderExactlyOnce", "UnselectedSinkNotReady", "UnselectedSourceNotValid", "RouteBounded"],
            ["RouteNothingLost"]),
    "C04": (["ValidHoldWhileRouted"], ["RouteProgress", "RouteProgressSink"]),
}
RTCLAUSES = {
    "C03": ["RouteInOrderExactlyOnceT", "UnselectedSinkNotReadyT", "UnselectedSourceNotValidT", "RouteBoundedT",
            "RouteBoundedDelivery"],
    "C04": ["ValidHoldWhileRoutedT", "RouteBoundedProgress", "RouteBoundedProgressSink"],
}
NOTES_FINDINGS = [os.path.join(ROOT, "notes", "C03b_findings.json"), os.path.join(ROOT, "notes", "C03_findings.json")]

_WIT_RE = re.compile(r'<<\s*"WIT",\s*(\d+),\s*"([^"]*)"\s*>>')      # TLC wraps long tuples over several lines


@contextlib.contextmanager
def _witnesses(seen):
    """collects the <<"WIT", wi, name>> lines (StreamContract.Wit) of the last TLC run of every exploration - that run
    visits every reachable product state - into seen: wi -> set of names"""
    base = gcheck.GraphLoop

    class Loop(base):
        def stats(self):
            res = self.final
            if res is not None:
                for mm in _WIT_RE.finditer(res.out):
                    seen.setdefault(int(mm.group(1)), set()).add(mm.group(2))
            return super().stats()
    gcheck.GraphLoop = Loop
    try:
        yield seen
    finally:
        gcheck.GraphLoop = base


def _check_witnesses(report, cfgs, stats, seen):
    """vacuity guard: a configuration that exists for a stimulus / parameter class (cfg["wit"]) must have shown it
    (DUTs dropped after a violation make no claim)"""
    explored = {s["dut"] for s in stats}
    wit = {}
    for spec, cfg in cfgs:
        if not cfg.get("wit"):
            continue
        got = seen.get(cfg["wi"], set())
        wit["%s%s" % (FAMILY.describe(spec), " pw=%d" % spec["pw"] if spec.get("pw") else "")] = sorted(got)
        missing = set(cfg["wit"]) - got
        if missing and FAMILY.describe(spec) in explored:
            raise MachineryError("vacuity: %s never showed %s" % (FAMILY.describe(spec), sorted(missing)))
    report.add(witnesses=wit)


def _notes_findings(report):
    """entries of notes/C03b_findings.json, notes/C03_findings.json for this property whose id /verif/known_findings.json
    does not list yet"""
    entries = []
    for path in NOTES_FINDINGS:
        try:
            with open(path) as f:
                entries += json.load(f)
        except FileNotFoundError:
            pass
    have = {f.get("id") for f in load_findings()} | {f.get("id") for f in report.findings}
    for e in entries:
        if e.get("property") == report.prop and e.get("id") not in have:
            report.findings.append(e)


def _batches(cfgs, size):
    """demonstration DUTs of listed findings go last, each in a batch of its own (a violation restarts its batch)"""
    main = [x for x in cfgs if not x[0].get("demo")]
    return [main[i:i + size] for i in range(0, len(main), size)] + [[x] for x in cfgs if x[0].get("demo")]


# ----------------------------------------------------------------------------- T-mode
def sim_trace(spec, cfg, ncycles, rnd, pvalid=0.6, pready=0.6):
    """ordinary Migen simulation (Simulator.run with generators) of the real element at a
    realistic width with random stalls; logs <<iv, o>> for every cycle."""
    from litex.gen.sim.core import run_simulation
    dut, ins, outs = fam.make(spec)
    ev = []
    dset = cfg["dset"]
    toks = []

    def newtok():
        x = rnd.choice(dset) if isinstance(dset, list) and len(dset) < 64 else rnd.choice(dset)
        f = rnd.randint(0, 1) if cfg["fl"] else 0
        l = (1 if rnd.random() < 0.25 else 0) if cfg["fl"] else 0
        p = rnd.randint(0, cfg["pmax"])
        return (x, f, l, p)

    def gen():
        cur = None          # token currently offered
        iv = [0, 0, 0, 0, 0, 0]
        for cyc in range(ncycles):
            # sample what the cycle that just ended looked like
            vals = []
            for s in ins:
                vals.append((yield s))
            o = []
            for e in outs:
                o.append((yield e))
            if cyc > 0:
                ev.append([list(vals), [int(x) for x in o]])
            accepted = vals[0] == 1 and o[0] == 1
            if cur is not None and accepted:
                cur = None
            if cur is None and rnd.random() < pvalid:
                cur = newtok()
            if cur is None and cfg.get("junk"):
                # nothing offered: the token lines carry anything (first/last only with junk = 1)
                j = newtok()
                nv = [0, j[0], j[1] if cfg["junk"] == 1 else 0, j[2] if cfg["junk"] == 1 else 0, j[3]]
            elif cur is None:
                nv = [0, 0, 0, 0, 0]
            else:
                nv = [1, cur[0], cur[1], cur[2], cur[3]]
            nv.append(1 if rnd.random() < pready else 0)
            for s, x in zip(ins, nv):
                yield s.eq(x)
            yield
    run_simulation(dut, gen())
    return ev


def tmode_configs(tier):
    """realistic-width configurations for trace validation (data < 2^30 so TLC's 32-bit
    integers suffice)"""
    L = []

    def C(kind, **kw):
        return fam._cfg(kind, **kw)
    big8 = [0x00, 0xff, 0xa5, 0x3c, 0x81, 0x7e, 0x01, 0x80]
    big16 = [0x0000, 0xffff, 0xa55a, 0x1234, 0x8001, 0x7ffe, 0xbeef]
    big24 = [0x000000, 0xffffff, 0x123456, 0xabcdef, 0x800001, 0x7ffffe]
    L.append(({"cls": "SyncFIFO", "args": {"depth": 16}, "dw": 16, "pw": 4}, dict(C("id", dset=big16, pmax=15, cap=20), junk=1)))
    L.append(({"cls": "SyncFIFO", "args": {"depth": 5, "buffered": True}, "dw": 24}, C("id", dset=big24, cap=9)))
    L.append(({"cls": "Buffer", "args": {"pv": True, "pr": True}, "dw": 24, "pw": 3}, C("id", dset=big24, pmax=7, cap=5)))
    L.append(({"cls": "Converter", "args": {"nfrom": 8, "nto": 24, "vtc": True}, "vtc": True},
              dict(C("up", dset=big8, ratio=3, w=8, vtc=1, cap=3), junk=1)))
    # several payload fields of unequal width (field-wise stride mapping), junk on the idle lines
    L.append(({"cls": "StrideConverter", "args": {"fields": [5, 3], "ratio": 3, "up": True}, "pw": 2},
              dict(C("up", dset=big8, ratio=3, w=8, pmax=3, cap=3), fields=[5, 3], junk=1)))
    L.append(({"cls": "StrideConverter", "args": {"fields": [3, 4, 1], "ratio": 3, "up": False, "reverse": True}, "pw": 2},
              dict(C("down", dset=big24, ratio=3, reverse=1, w=8, pmax=3, cap=5), fields=[3, 4, 1], junk=1)))
    L.append(({"cls": "Cast", "args": {"wa": 5, "wb": 11, "rf": True, "ta": 9, "tb": 7, "rt": True}},
              dict(C("id", dset=big16, cap=2), cast=[1, 5, 11, 1, 9, 7], junk=1)))
    L.append(({"cls": "Converter", "args": {"nfrom": 4, "nto": 28, "reverse": True, "vtc": True}, "vtc": True},
              C("up", dset=range(16), ratio=7, reverse=1, w=4, vtc=1, cap=3)))
    L.append(({"cls": "Converter", "args": {"nfrom": 24, "nto": 8, "vtc": True}, "vtc": True},
              C("down", dset=big24, ratio=3, w=8, vtc=1, cap=5)))
    L.append(({"cls": "Converter", "args": {"nfrom": 30, "nto": 5, "reverse": True, "vtc": True}, "vtc": True},
              C("down", dset=[0x3fffffff, 0x12345678, 0x2aaaaaaa, 0x15555555, 1, 0x20000000], ratio=6, reverse=1, w=5,
                vtc=1, cap=8)))
    L.append(({"cls": "Gearbox", "args": {"i": 10, "o": 4, "msb": True}},
              C("gear", dset=[0x3ff, 0x155, 0x2aa, 0x001, 0x200, 0x0f3], fl=0, idw=10, odw=4, msb=1, cap=100)))
    L.append(({"cls": "Gearbox", "args": {"i": 8, "o": 20, "msb": False}},
              C("gear", dset=big8, fl=0, idw=8, odw=20, msb=0, cap=200)))
    L.append(({"cls": "Pack", "args": {"n": 4}, "dw": 6, "pw": 2},
              dict(C("up", dset=range(64), ratio=4, w=6, pmax=3, cap=3), junk=2)))      # junk = 2: C03-pack-idle-first-last
    L.append(({"cls": "Unpack", "args": {"n": 4, "reverse": True}, "dw": 6, "pw": 2},
              C("down", dset=[0xffffff, 0x123456, 0xabcdef, 0x000001, 0x800000, 0xfc0fc0], ratio=4, reverse=1, w=6, pmax=3, cap=6)))
    L.append(({"cls": "Delay", "args": {"n": 5}, "dw": 12}, C("id", dset=[0, 0xfff, 0xa5a, 0x123], cap=7)))
    L.append(({"cls": "Shifter", "args": {"dw": 16, "shift": 5}},
              dict(C("shift", dset=big16, idw=16, cap=2), shift=5)))
    L.append(({"cls": "Pipe", "args": {"latency": 2}, "dw": 24, "pw": 3}, dict(C("id", dset=big24, pmax=7, cap=2), junk=1)))
    if tier == "thorough":
        L.append(({"cls": "Gearbox", "args": {"i": 20, "o": 16, "msb": True}},
                  C("gear", dset=[0xfffff, 0x12345, 0xaaaaa, 0x55555, 1, 0x80000], fl=0, idw=20, odw=16, msb=1, cap=400)))
        L.append(({"cls": "SyncFIFO", "args": {"depth": 64}, "dw": 28}, C("id", dset=[0xfffffff, 0x1234567, 0, 0x8000001], cap=70)))
        L.append(({"cls": "Converter", "args": {"nfrom": 2, "nto": 16, "vtc": True}, "vtc": True},
                  C("up", dset=range(4), ratio=8, w=2, vtc=1, cap=3)))
    return L


def run_tmode(report, prop, tier, seed):
    rnd = random.Random(seed * 7919 + 13)
    ntr = 3 if tier == "quick" else 12
    ncyc = 400 if tier == "quick" else 1500
    traces, meta = [], []
    for spec, cfg in tmode_configs(tier):
        for k in range(ntr):
            pv, pr = rnd.choice([(0.9, 0.9), (0.5, 0.5), (0.9, 0.3), (0.3, 0.9), (1.0, 1.0)])
            ev = sim_trace(spec, cfg, ncyc, rnd, pv, pr)
            tcfg = dict(cfg)
            tcfg["stallbound"] = 64
            traces.append({"cfg": tcfg, "ev": ev})
            meta.append((spec, pv, pr))
    fails, st = tracecheck.validate(FAMILY.trace_module, traces, TCLAUSES[prop])
    report.add(traces_validated_against_impl=len(traces), trace_states=st["states"])
    report.sample({"tmode_trace_head": {"dut": FAMILY.describe(meta[0][0]), "first_cycles": traces[0]["ev"][:6]}})
    keep = {}
    for (spec, _, _), tr in zip(meta, traces):
        keep.setdefault(json.dumps(spec, sort_keys=True), (spec, tr["ev"]))
    for f in fails:
        spec, pv, pr = meta[f["tid"]]
        tr = traces[f["tid"]]
        sched = [e[0] for e in tr["ev"][:f["l"]]]
        report.violation({"dut": spec, "clause": f["clause"]},
                         {"family": FAMILY.graph_module, "factory": FAMILY.factory_path, "spec": spec,
                          "cfg": tr["cfg"], "schedule": sched, "trace_module": FAMILY.trace_module,
                          "trace_invariants": TCLAUSES[prop], "observed": tr["ev"][:f["l"]], "clause": f["clause"]},
                         "%s violated by %s in a recorded simulation trace at cycle %s" % (
                             f["clause"], FAMILY.describe(spec), f["l"]))
    return list(keep.values())


def route_trace(spec, cfg, ncycles, rnd, pvalid, pready, psel):
    """cycle-by-cycle run of a real routing element on the reference evaluator (no state loading) under a random
    legal environment: producers hold unaccepted offers, selectors move with probability psel per cycle"""
    from ..fhdl_step import Stepper
    dut, ins, outs = rfam.make(spec)
    st = Stepper(dut, ins, outs, engine="ref")
    st.load(st.reset_state, tuple(0 for _ in ins))
    hold = [None] * rfam.NP
    si = so = 0
    ev = []
    for _ in range(ncycles):
        if rnd.random() < psel:
            si = rnd.randrange(cfg["nsi"])
        if rnd.random() < psel:
            so = rnd.randrange(cfg["nso"])
        iv = [si, so]
        for i in range(rfam.NP):
            if i < cfg["ni"] and hold[i] is None and rnd.random() < pvalid:
                hold[i] = list(rnd.choice(cfg["toks"]))
            iv += [1] + hold[i] if hold[i] is not None else [0, 0, 0, 0]
        for j in range(rfam.NP):
            iv.append(1 if j < cfg["no"] and rnd.random() < pready else 0)
        st.load(st.state(), tuple(iv))
        o = [int(x) for x in st.peek()]
        st.tick()
        ev.append([iv, o])
        for i in range(cfg["ni"]):
            if hold[i] is not None and o[i] == 1:
                hold[i] = None
    return ev


def run_route_tmode(report, prop, tier, seed):
    rnd = random.Random(seed * 104729 + 7)
    ntr = 2 if tier == "quick" else 8
    ncyc = 300 if tier == "quick" else 1200
    traces, meta = [], []
    for spec, cfg in rfam.tmode_configs(tier):
        for k in range(ntr):
            pv, pr, ps = rnd.choice([(0.9, 0.9, 0.1), (0.5, 0.5, 0.5), (0.9, 0.3, 0.3), (0.3, 0.9, 0.05), (1.0, 1.0, 0.2)])
            tcfg = dict(cfg)
            tcfg["stallbound"] = 64
            traces.append({"cfg": tcfg, "ev": route_trace(spec, cfg, ncyc, rnd, pv, pr, ps)})
            meta.append(spec)
    fails, st = tracecheck.validate(ROUTE_FAMILY.trace_module, traces, RTCLAUSES[prop])
    report.add(traces_validated_against_impl=len(traces), trace_states=st["states"])
    report.sample({"route_trace_head": {"dut": ROUTE_FAMILY.describe(meta[0]), "first_cycles": traces[0]["ev"][:4]}})
    for f in fails:
        spec = meta[f["tid"]]
        tr = traces[f["tid"]]
        sched = [e[0] for e in tr["ev"][:f["l"]]]
        report.violation({"dut": spec, "clause": f["clause"]},
                         {"family": ROUTE_FAMILY.graph_module, "factory": ROUTE_FAMILY.factory_path, "spec": spec,
                          "cfg": tr["cfg"], "schedule": sched, "trace_module": ROUTE_FAMILY.trace_module,
                          "trace_invariants": RTCLAUSES[prop], "observed": tr["ev"][:f["l"]], "clause": f["clause"]},
                         "%s violated by %s in a recorded trace at cycle %s" % (
                             f["clause"], ROUTE_FAMILY.describe(spec), f["l"]))


# ----------------------------------------------------------------------------- L2 lane (DESIGN.md section 9)
def _l2_on_accept(state):
    def cb(gl):
        duts = l2.graph_cases(gl, sl.LANE)
        n, dr = l2.conformance(sl.LANE, duts)
        state["graph_cases"] += n
        state["graph_duts"] += len(duts)
        state["drifts"] += dr
    return cb


def run_l2(prop, report, tier, seed, state, tm_traces):
    """(a) graph conformance happened in the G-mode batches (state); (b) the model against every cycle of the
    realistic-width runs recorded for T-mode; (c) M-mode: model x Env x the clauses of this property at parameters
    beyond G-mode; (d) a drifting DUT is explored against the L1 contract at the thorough tier's parameters."""
    invs, props = CLAUSES[prop]
    # (b)
    duts = []
    for spec, ev in tm_traces:
        m = sl.model_cfg(spec)
        if m is None or m["lcm"] > 30 or m["dw"] + m["pw"] + 2 > 30:
            continue
        reset, cases = l2.run_cases(FAMILY.factory_path, spec, sl.LANE.proj_path, [e[0] for e in ev])
        duts.append({"spec": spec, "m": m, "reset": reset, "cases": cases})
    n, dr = l2.conformance(sl.LANE, duts)
    state["drifts"] += dr
    report.add(l2_model={"module": "stream/StreamModel", "graph_duts_conformant": state["graph_duts"],
                         "graph_edges_judged": state["graph_cases"], "run_duts": len(duts), "run_cycles_judged": n})
    # (c)
    mcfgs = sl.mmode_configs(tier)
    try:
        res = l2.mmode(sl.LANE.m_module, [{"c": x["c"], "m": x["m"]} for x in mcfgs], invs, props,
                       timeout=1500 if tier == "quick" else 2400)
    except MachineryError as ex:        # the lane never fails a check: TLC killed / timed out on the model
        report.note("L2 M-mode (stream) could not be evaluated: %s" % str(ex).split("\n")[0][:200])
        l2.report_drifts(report, sl.LANE, state["drifts"])
        return
    report.add(states=res.distinct, transitions=res.generated)
    report.cov["l2_model"].update({"mmode_configs": len(mcfgs), "mmode_states": res.distinct, "mmode_wall_s": round(res.wall, 1),
                                   "mmode_largest": "SyncFIFO depth %d, converter ratio %d" % (
                                       max(x["m"]["depth"] for x in mcfgs), max(x["m"]["ratio"] for x in mcfgs))})
    if res.violated:
        # a counterexample on the model: it counts only if the real netlist shows it too
        d = res.trace[0]["vars"]["d"]
        x = mcfgs[d - 1]
        prefix, loop = schedule_from_trace(res)
        clause = res.temporal_name if res.violated == "temporal" else res.violated
        sched = list(prefix) + (list(loop) * 40 if loop else [])
        ev = linear_replay(FAMILY.factory_path, x["spec"], sched, shim=FAMILY.shim)
        tcfg = dict(x["c"], stallbound=max(1, len(loop) * 40) if loop else 10 ** 6)
        tinv = [FAMILY.clause_map[clause]] if clause in FAMILY.clause_map else TCLAUSES[prop]
        fails, _ = tracecheck.validate(FAMILY.trace_module, [{"cfg": tcfg, "ev": ev}], tinv)
        if fails:
            report.violation({"dut": x["spec"], "clause": fails[0]["clause"], "gclause": clause},
                             {"family": FAMILY.graph_module, "factory": FAMILY.factory_path, "spec": x["spec"], "cfg": tcfg,
                              "schedule": [list(i) for i in sched[:2000]], "trace_module": FAMILY.trace_module,
                              "trace_invariants": tinv, "observed": ev[:2000], "clause": fails[0]["clause"]},
                             "%s violated by %s (found on the L2 model in M-mode, reproduced on the netlist) after %d cycles" % (
                                 fails[0]["clause"], FAMILY.describe(x["spec"]), len(prefix)))
        else:
            report.note("MODEL-DRIFT stream: M-mode counterexample to %s on the model of %s does not reproduce on the netlist" % (
                clause, FAMILY.describe(x["spec"])))
            report.add(l2_model_drifts=1)
    # (d)
    l2.report_drifts(report, sl.LANE, state["drifts"])
    if state["drifts"] and tier == "quick" and not report.violations:
        # nothing has been reported yet although the code is no longer what was model-checked: look deeper
        classes = {d["spec"]["cls"] for d in state["drifts"]}
        have = {json.dumps(s_, sort_keys=True) for s_, _ in fam.configs("quick")}
        esc = [(s_, c_) for s_, c_ in fam.configs("thorough")
               if s_["cls"] in classes and json.dumps(s_, sort_keys=True) not in have]
        report.note("escalation: %d thorough-tier configuration(s) of %s explored against the L1 contract" % (len(esc), sorted(classes)))
        if esc:
            run_batches(FAMILY, report, _batches(esc[:8], 4), invs, props, spec_budget=300000, total_budget=1200000)


def run(prop, report, tier, seed):
    _notes_findings(report)
    invs, props = CLAUSES[prop]
    cfgs = fam.configs(tier)
    l2state = {"graph_cases": 0, "graph_duts": 0, "drifts": []}
    report.assume("producer keeps valid and token steady until accepted (stream protocol); exhaustive G-mode at "
                  "reduced widths (1-4 bit payload alphabets), realistic widths only sampled in T-mode")
    report.assume("FHDL netlist semantics = litex/gen/sim/core.py (compiled stepper cross-checked against it)")
    report.assume("in the configurations marked junk=1 the data / first / last / param lines carry any value while the "
                  "producer's valid is low (they mean nothing then); elsewhere they are 0.  Every such configuration, the "
                  "multi-field StrideConverter and the regrouping Cast configurations are guarded by a TLC-printed witness "
                  "(vacuity = machinery error)")
    seen = {}
    with _witnesses(seen):
        stats = run_batches(FAMILY, report, _batches(cfgs, 14 if tier == "quick" else 4), invs, props,
                            spec_budget=80000 if tier == "quick" else 600000,
                            total_budget=900000 if tier == "quick" else 3000000, on_accept=_l2_on_accept(l2state))
    _check_witnesses(report, cfgs, stats, seen)
    report.add(duts_explored=len(stats), clauses=invs + props, per_dut=stats)
    # routing elements: selector inputs that may change in any cycle (own contract module)
    report.assume("routing elements: the selector is an environment input that may change in any cycle; a source's "
                  "hold obligation covers the cycles in which the route of the presented token is unchanged "
                  "(specs/stream/StreamRoute.tla); Crossbar = its Multiplexer connected to its Demultiplexer")
    rinvs, rprops = RCLAUSES[prop]
    rstats = run_batches(ROUTE_FAMILY, report, _batches(rfam.configs(tier), 8), rinvs, rprops,
                         spec_budget=400000, total_budget=2000000)
    report.add(duts_explored=len(rstats), clauses=rinvs + rprops, per_dut=rstats)
    tm = run_tmode(report, prop, tier, seed)
    run_route_tmode(report, prop, tier, seed)
    report.assume("L2 (specs/stream/StreamModel.tla): register-level models of PipeValid, PipeReady, SyncFIFO, the width "
                  "converters and Gearbox; they give no verdict - every edge of the complete G-mode graphs and every cycle of "
                  "the realistic-width runs must be reproduced by the model (else MODEL-DRIFT and escalation), and the model is "
                  "checked against the same clauses in M-mode at larger parameters")
    run_l2(prop, report, tier, seed, l2state, tm)
    if prop == "C04":
        from . import packetfam
        packetfam.run_handshake(prop, report, tier, seed)
    report.cov["exhaustive"] = True
