"""C07: Wishbone adapters and memories are transparent (flat memory contract), G-mode.

Two parts, both exhaustive closed-loop graph constructions judged by TLC:
  classic  specs/wbmem/FlatMemContract  - classic cycles through converters, cache, remapper, CSR bridge, SRAM
  burst    specs/wbmem/FlatMemBurst     - B4 registered feedback burst cycles (cti/bte) through the bursting SRAM,
                                          the read-only bursting SRAM and converters in front of a bursting SRAM
The burst part runs in a child process next to the classic part (each batch is an independent graph loop);
what it reports is recorded there and replayed on the real Report by the parent in a fixed order."""
import json
import multiprocessing as mp
import os
import re
import time
import traceback

from .. import gcheck
from .. import tlc as tlcmod
from ..gcheck import GFamily, run_batches
from ..graphloop import GraphLoop
from ..families import wbmem as fam
from ..families import wbburst as bfam
from ..report import Report, MachineryError, ROOT, load_findings

INVS = ["ReadReturnsLastWrite", "OneAckPerCycle", "NoBusError", "SlaveAddressMapped"]
PROPS = ["Served"]
CM = {k: k for k in INVS}
CM["Served"] = "BoundedService"
FAMILY = GFamily("wbmem/FlatMemGraph", "wbmem/FlatMemTrace", "harness.families.wbmem:make", hint=fam.Hint(),
                 fmt="hash", clause_map=CM,
                 describe=lambda s: "wishbone.%s(%s)" % (s["kind"], ", ".join("%s=%s" % (k, v) for k, v in sorted(s.items())
                                                                          if k not in ("kind", "backing_bytes", "misses", "alone", "nofollowup"))))

# ------------------------------------------------------------------------------------------- burst part
B_INVS = ["ReadReturnsLastWrite", "BurstAddressSequence", "OneAckPerBeat", "NoBusError", "SlaveBurstSequence"]
B_CM = {k: k for k in B_INVS}
B_CM["Served"] = "BoundedService"
B_NAMES = {"bsram": "SRAM(bursting=True)", "bsram_ro": "SRAM(bursting=True, read_only=True)",
           "sram_nb": "SRAM(bursting=False) driven with burst tags", "bdown": "DownConverter + SRAM(bursting=True)",
           "bup": "UpConverter + SRAM(bursting=True)", "bconv": "Converter(equal widths) + SRAM(bursting=True)"}


def _bdescribe(s):
    name = B_NAMES.get(s["kind"], s["kind"])
    if not s.get("slave_bursting", 1):
        name = name.replace("bursting=True", "bursting=False")
    return "wishbone.%s[burst master](%s)" % (name, ", ".join(
        "%s=%s" % (k, v) for k, v in sorted(s.items()) if k not in ("kind", "backing_bytes", "alone", "cost", "live", "nofollowup")))


B_FAMILY = GFamily("wbmem/FlatMemBurstGraph", "wbmem/FlatMemBurstTrace", "harness.families.wbburst:make",
                   hint=bfam.Hint(), fmt="hash", clause_map=B_CM, describe=_bdescribe)
_WIT_RE = re.compile(r'<<"WIT", (\d+), "([^"]*)">>')


def _wit_loop_class(seen, base):
    """GraphLoop that collects the <<"WIT", dut, name>> lines of the last TLC run (classic part)"""
    class WitLoop(base):
        def stats(self):
            res = self.final
            if res is not None:
                for mm in _WIT_RE.finditer(res.out):
                    seen.setdefault(int(mm.group(1)), set()).add(mm.group(2))
            return super().stats()
    return WitLoop


def _burst_loop_class(seen):
    """GraphLoop whose speculation ENUMERATES the inputs the Env master can apply in a context (Hint.inputs,
    a mirror of Inputs in FlatMemBurst.tla) instead of filtering the whole alphabet per state, and which
    collects the <<"WIT", dut, name>> lines of the last TLC run.  Accelerator only: whatever the mirror gets
    wrong TLC asks for again (NEED) or is an unused edge."""
    class BurstLoop(GraphLoop):
        def stats(self):
            res = self.final
            if res is not None:
                for mm in _WIT_RE.finditer(res.out):
                    seen.setdefault(int(mm.group(1)), set()).add(mm.group(2))
            return super().stats()

        def _ins(self, di, ctx):
            memo = self.__dict__.setdefault("_memo", {})
            r = memo.get((di, ctx))
            if r is None:
                r = [(tlcmod.tuple_key(iv), iv) for iv in self.hint.inputs(self.duts[di].cfg, ctx)]
                memo[(di, ctx)] = r
            return r

        def _speculate(self, computed):
            hint = self.hint
            total = 0
            if self.total_budget <= 0 or self.spec_budget <= 0:
                return 0
            frontier = []

            def follow(di, s, ctx, out):
                g = self.duts[di]
                for k, iv in self._ins(di, ctx):
                    e = g.succ[s].get(k)
                    if e is None:
                        continue
                    o, d = e
                    nctx = hint.next(g.cfg, ctx, iv, o)
                    if nctx not in g.ctxs.setdefault(d, set()):
                        g.ctxs[d].add(nctx)
                        out.append((di, d, nctx))
            for di, s in sorted({(di, s) for di, s, _ in computed}):
                g = self.duts[di]
                for ctx in list(g.ctxs.get(s, ())) or [hint.init(g.cfg)]:
                    follow(di, s, ctx, frontier)
            while frontier:
                if sum(g.nedges for g in self.duts) >= self.total_budget:
                    break
                needs = {}
                for di, s, ctx in frontier:
                    g = self.duts[di]
                    if g.nedges >= self.spec_budget:
                        continue
                    for k, iv in self._ins(di, ctx):
                        if k not in g.succ[s]:
                            g.alphabet.setdefault(k, iv)
                            needs.setdefault(di, set()).add((s, iv))
                if needs:
                    n, _ = self._compute(needs)
                    total += n
                    for g in self.duts:
                        g.spec_errors = getattr(g, "spec_errors", 0) + len(g.errors)
                        g.errors = []
                nxt = []
                for di, s, ctx in frontier:
                    follow(di, s, ctx, nxt)
                frontier = nxt
            return total
    return BurstLoop


class _Recorder:
    """what run_batches reports, recorded in the child process and replayed on the real Report by the parent
    (so replay files are numbered and KNOWN-FINDING / VIOLATION lines are printed in one place)"""
    def __init__(self, prop, tier, seed):
        self.seed = seed
        self.calls = []
        self._probe = Report(prop, tier, seed)
        self._probe.findings = list(self._probe.findings) + _notes_findings(prop)

    def add(self, **kw):
        self.calls.append(("add", kw))

    def sample(self, x, cap=8):
        self.calls.append(("sample", (x, cap)))

    def violation(self, sig, replay, text):
        self.calls.append(("violation", (sig, replay, text)))
        return self._probe.match_known(sig) is None


def _notes_findings(prop):
    """findings of notes/C07b_findings.json and notes/C07_findings.json that /verif/known_findings.json does not list yet (by id, whatever
    their status there): lets the check run before the main agent has merged the notes"""
    have = {f.get("id") for f in load_findings()}
    out = []
    for name in ("C07b_findings.json", "C07_findings.json"):
        path = os.path.join(ROOT, "notes", name)
        if os.path.exists(path):
            with open(path) as fh:
                out += [f for f in json.load(fh) if f.get("id") not in have and f.get("property") == prop]
    return out


def burst_batches(cfgs, live):
    """DUTs expected to hit a listed finding and big ones alone, the rest in batches of cost <= 6"""
    out, cur, cost = [], [], 0
    for c in cfgs:
        if bool(c[0].get("live", True)) != live:
            continue
        if c[0].get("alone"):
            out.append([c])
            continue
        w = c[0].get("cost", 1)
        if cur and cost + w > 6:
            out.append(cur)
            cur, cost = [], 0
        cur.append(c)
        cost += w
    if cur:
        out.append(cur)
    return out


def run_burst(rec, tier, log=print):
    """explores every burst DUT of the tier; -> (per-DUT stats, witnesses by DUT description)"""
    cfgs = bfam.configs(tier)
    only = [k for k in os.environ.get("VERIF_C07_BURST_KINDS", "").split(",") if k]
    if only:
        cfgs = [c for c in cfgs if c[0]["kind"] in only]
    seen = {}
    old = gcheck.GraphLoop
    gcheck.GraphLoop = _burst_loop_class(seen)
    try:
        stats = []
        for live in (True, False):
            bl = burst_batches(cfgs, live)
            if bl:
                stats += run_batches(B_FAMILY, rec, bl, B_INVS, PROPS if live else [], spec_budget=1500000,
                                     total_budget=3000000, followup=True, log=log, tlc_timeout=3000)
    finally:
        gcheck.GraphLoop = old
    explored = {s["dut"] for s in stats}
    wit = {}
    for spec, cfg in cfgs:
        name = _bdescribe(spec)
        if name not in explored:
            continue                    # DUT dropped after a confirmed violation: no vacuity claim needed
        got = seen.get(cfg["wi"], set())
        missing = set(bfam.required_witnesses(spec)) - got
        if missing:
            raise MachineryError("vacuity: %s never showed %s" % (name, sorted(missing)))
        wit[name] = sorted(got)
    return stats, wit, len(cfgs)


def _burst_child(prop, tier, seed, q):
    from .. import py312_tracer
    py312_tracer.install()
    rec = _Recorder(prop, tier, seed)
    t0 = time.time()
    try:
        stats, wit, n = run_burst(rec, tier, log=lambda *a: print("[burst]", *a, flush=True))
        q.put((rec.calls, stats, wit, n, round(time.time() - t0, 1), None))
    except MachineryError as ex:
        q.put((rec.calls, [], {}, 0, round(time.time() - t0, 1), "machinery: %s" % ex))
    except Exception:
        q.put((rec.calls, [], {}, 0, round(time.time() - t0, 1), traceback.format_exc()))


def _merge_burst(report, res):
    calls, stats, wit, n, wall, err = res
    for name, a in calls:
        if name == "add":
            report.add(**a)
        elif name == "sample":
            report.sample(a[0], cap=10)
        else:
            report.violation(*a)            # confirmed by linear replay + T-mode validation in the child
            report.add(traces_validated_against_impl=1)
    report.add(burst_duts_explored=len(stats), burst_configurations=n, burst_clauses=B_INVS + PROPS,
               burst_per_dut=stats, burst_witnesses=wit, burst_part_wall_s=wall)
    if err:
        raise MachineryError("burst part: %s" % err[:4000])


def run(prop, report, tier, seed):
    part = os.environ.get("VERIF_C07_PART", "all")       # development aid: classic | burst | all
    if part != "all":
        report.note("restricted to the %s part by VERIF_C07_PART" % part)
    if os.environ.get("VERIF_C07_BURST_KINDS"):
        report.note("burst DUT kinds restricted by VERIF_C07_BURST_KINDS=%s" % os.environ["VERIF_C07_BURST_KINDS"])
    report.findings = list(report.findings) + _notes_findings(prop)
    child = q = None
    if part in ("all", "burst"):
        report.assume("burst part: Wishbone B4 registered feedback master - cyc held from the first beat to the "
                      "acknowledge of the last one; stb held too, except on the DUTs with mwait = n: up to n wait states "
                      "(cyc high, stb low) before any later beat and cyc ahead of the first stb; with junk = 1 the lines of "
                      "cycles without a request also carry full-width writes of ones (classic or burst tags), with cyc "
                      "and without stb or with stb and without cyc (another slave of a shared bus); every beat held until "
                      "acknowledged, the address of the current beat presented on every beat, cti 010/001 on all beats but "
                      "the last, 111 on the last, bte and we fixed per burst; bursts of 1..maxlen beats, any gap between "
                      "cycles, classic cycles and single 111 accesses interleaved; wrap-n address sequence as in the B4 "
                      "burst type extension table (1-2-3-0-5-6-7-4), modulo the master's address space")
        ctx = mp.get_context("fork")
        q = ctx.Queue()
        child = ctx.Process(target=_burst_child, args=(prop, tier, seed, q))
        child.start()
    pending = None
    try:
        if part in ("all", "classic"):
            cfgs = fam.configs(tier)
            only = [k for k in os.environ.get("VERIF_C07_KINDS", "").split(",") if k]      # development aid
            if only:
                report.note("classic DUT kinds restricted by VERIF_C07_KINDS=%s" % ",".join(only))
                cfgs = [c for c in cfgs if c[0]["kind"] in only]
            report.assume("one outstanding classic cycle per master, held until acknowledged; bytes carry one of two values; "
                          "memories of 2-8 words; every chain ends in the repository's own SRAM (slave latency 1); between "
                          "requests the lines are all 0 or carry a full-width write of ones to any word without a request "
                          "(cyc without stb, stb without cyc - another slave of a shared bus being addressed)")
            small = [c for c in cfgs if c[0]["kind"] != "cache" and not c[0].get("alone")]
            big = [c for c in cfgs if c[0]["kind"] == "cache" or c[0].get("alone")]
            batches = [small[i:i + 8] for i in range(0, len(small), 8)] + [[c] for c in big]
            seen = {}
            old = gcheck.GraphLoop
            gcheck.GraphLoop = _wit_loop_class(seen, old)
            try:
                stats = run_batches(FAMILY, report, batches, INVS, PROPS, spec_budget=600000, total_budget=2000000,
                                    followup=True)
            finally:
                gcheck.GraphLoop = old
            explored = {s["dut"] for s in stats}
            wit = {}
            for spec, cfg in cfgs:
                name = FAMILY.describe(spec)
                if name not in explored:
                    continue                # DUT dropped after a confirmed violation: no vacuity claim needed
                got = seen.get(cfg["wi"], set())
                missing = set(fam.required_witnesses(spec)) - got
                if missing:
                    raise MachineryError("vacuity: %s never showed %s" % (name, sorted(missing)))
                if got:
                    wit[name] = sorted(got)
            report.add(duts_explored=len(stats), clauses=INVS + PROPS, per_dut=stats, witnesses=wit)
    except Exception as ex:       # the burst part is still collected (its confirmed violations stand), then re-raised
        pending = ex
    if child is not None:
        res = None
        while res is None:
            try:
                res = q.get(timeout=5)
            except Exception:
                if not child.is_alive():
                    try:
                        res = q.get(timeout=1)
                    except Exception:
                        if pending is not None:
                            raise pending
                        raise MachineryError("burst part: child process died with exit code %s" % child.exitcode)
        child.join()
        try:
            _merge_burst(report, res)
        except MachineryError:
            if pending is None:
                raise
    if pending is not None:
        raise pending
    report.cov["exhaustive"] = True
