"""C07: Wishbone adapters and memories are transparent (flat memory contract), G-mode."""
from ..gcheck import GFamily, run_batches
from ..families import wbmem as fam

INVS = ["ReadReturnsLastWrite", "OneAckPerCycle", "NoBusError"]
PROPS = ["Served"]
CM = {k: k for k in INVS}
CM["Served"] = "BoundedService"
FAMILY = GFamily("wbmem/FlatMemGraph", "wbmem/FlatMemTrace", "harness.families.wbmem:make", hint=fam.Hint(),
                 fmt="hash", clause_map=CM,
                 describe=lambda s: "wishbone.%s(%s)" % (s["kind"], ", ".join("%s=%s" % (k, v) for k, v in sorted(s.items())
                                                                          if k not in ("kind", "backing_bytes"))))


def run(prop, report, tier, seed):
    cfgs = fam.configs(tier)
    report.assume("one outstanding classic cycle per master, held until acknowledged; bytes carry one of two values; "
                  "memories of 2-8 words; every chain ends in the repository's own SRAM")
    small = [c for c in cfgs if c[0]["kind"] != "cache"]
    big = [c for c in cfgs if c[0]["kind"] == "cache"]
    batches = [small[i:i + 8] for i in range(0, len(small), 8)] + [[c] for c in big]
    stats = run_batches(FAMILY, report, batches, INVS, PROPS, spec_budget=600000, total_budget=2000000,
                        followup=True)
    report.add(duts_explored=len(stats), clauses=INVS + PROPS, per_dut=stats)
    report.cov["exhaustive"] = True
