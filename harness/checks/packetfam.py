"""C16: packet framing (Packetizer / Depacketizer / PacketFIFO / Arbiter / Dispatcher of
litex/soc/interconnect/packet.py).

G-mode: exhaustive products Env x contract monitor x real netlist graph at reduced parameters
        (specs/packet/Packet{Frame,Fifo,Route}Graph.tla), all valid/ready schedules.
T-mode: ordinary Migen simulations with random stalls at realistic widths (32/64/128 bit, the repository
        test's 31-byte header and a few more), judged by the same contracts (Packet*Trace.tla).
The work is split into independent lanes that run in parallel child processes (each lane = a list of G-mode
batches or the T-mode run); the parent merges their reports in lane order, so the result is deterministic."""
import functools
import json
import multiprocessing as mp
import multiprocessing.connection
import os
import random
import time
import traceback

from .. import gcheck
from ..gcheck import GFamily, run_batches
from ..graphloop import GraphLoop
from .. import tracecheck
from ..report import Report, MachineryError, ROOT
from ..families import packet as fam

FACTORY = "harness.families.packet:make"

FRAME_INVS = ["DefsWellFormed", "Causal", "ByteLayout", "LastPlacement", "HeaderFields", "ValidHold", "Bounded"]
FRAME_PROPS = ["Liveness"]     # = Progress /\ ProgressSink /\ NothingLost
FRAME_T = [k + "T" for k in FRAME_INVS] + ["BoundedProgress", "BoundedProgressSink", "BoundedDelivery"]
FRAME = GFamily("packet/PacketFrameGraph", "packet/PacketFrameTrace", FACTORY, hint=fam.FrameHint(),
                clause_map=dict([(k, k + "T") for k in FRAME_INVS] +
                                [("Liveness", "BoundedLiveness")]),
                describe=fam.describe, fmt="hash")

FIFO_INVS = ["OnlyCompletePackets", "InOrder", "ParamOfPacket", "ValidHold", "Bounded"]
FIFO_PROPS = ["Liveness"]      # = Progress /\ ProgressSink /\ NothingLost
FIFO_T = [k + "T" for k in FIFO_INVS] + ["BoundedProgress", "BoundedProgressSink", "BoundedDelivery"]
FIFO = GFamily("packet/PacketFifoGraph", "packet/PacketFifoTrace", FACTORY, hint=fam.FifoHint(),
               clause_map=dict([(k, k + "T") for k in FIFO_INVS] +
                               [("Liveness", "BoundedLiveness")]),
               describe=fam.describe, fmt="hash")

ROUTE_INVS = ["BeatsInOrder", "SelLatchedOnFirst", "Atomic", "ValidHold", "Bounded", "ExactlyOnce", "BoundedWait"]
ROUTE_PROPS = ["Served"]      # Delivered follows from Bounded for cap = 0 (all DUTs here are combinational)
ROUTE_T = [k + "T" for k in ROUTE_INVS] + ["BoundedService", "BoundedDelivery"]
ROUTE = GFamily("packet/PacketRouteGraph", "packet/PacketRouteTrace", FACTORY, hint=fam.RouteHint(),
                clause_map=dict([(k, k + "T") for k in ROUTE_INVS] +
                                [("Served", "BoundedService"), ("Delivered", "BoundedDelivery")]),
                describe=fam.describe, fmt="hash")

FAMS = {"frame": (FRAME, FRAME_INVS, FRAME_PROPS, FRAME_T), "fifo": (FIFO, FIFO_INVS, FIFO_PROPS, FIFO_T),
        "route": (ROUTE, ROUTE_INVS, ROUTE_PROPS, ROUTE_T)}

NOTES_FINDINGS = os.path.join(ROOT, "notes", "C16_findings.json")


# ============================================================================================ vacuity witnesses
def _junk_ivs(name, cfg, iv):
    """-> list of (producer index, True) for every producer that drives junk (valid = 0 with `last` set) in iv"""
    if name == "frame":
        return [0] if iv[0] == 0 and iv[3] == 1 else []
    if name == "fifo":
        return [0] if iv[0] == 0 and iv[2] == 1 else []
    return [i for i in range(cfg["n"]) if iv[4 * i] == 0 and iv[4 * i + 2] == 1]


def _ctx_k(name, ctx, i):
    """beats already accepted of the packet producer i is sending, in the hint's picture of the environment"""
    return ctx[0][i][2] if name == "route" else ctx[2]


def witnesses(name, family, gl):
    """Vacuity guard for the environment freedoms that sit behind a cfg flag (no verdict): over the edges of the
    accepted product's implementation graphs (inputs = vectors TLC's Env asked for, NEED; source states annotated
    with the environment contexts in which they are reached) count how often a producer drove junk (valid = 0, `last`
    set) between packets and INSIDE a packet.  A DUT whose cfg grants the freedom but whose graph never shows it
    makes the run a machinery failure."""
    out = {}
    for g in gl.duts:
        cfg = g.cfg
        if not cfg.get("junk"):
            continue
        w = {"junk_between_packets": 0, "junk_inside_packet": 0}
        for s_, edges in enumerate(g.succ):
            ctxs = [c for c in g.ctxs.get(s_, ())] or ([family.hint.init(cfg)] if s_ == 0 else [])
            for key in edges:
                iv = g.alphabet.get(key)
                if iv is None:
                    continue
                who = _junk_ivs(name, cfg, iv)
                if not who:
                    continue
                for c in ctxs:
                    if not family.hint.allowed(cfg, c, iv):
                        continue
                    for i in who:
                        w["junk_inside_packet" if _ctx_k(name, c, i) > 0 else "junk_between_packets"] += 1
        need = ["junk_between_packets"]
        if cfg["bubbles"] == 1 and cfg["maxlen"] >= 2:
            need.append("junk_inside_packet")
        zero = [k for k in need if not w[k]]
        if zero:
            raise MachineryError("vacuous run: %s grants junk while idle but the explored product never shows %s"
                                 % (family.describe(g.spec), ", ".join(zero)))
        out[family.describe(g.spec)] = w
    return out


def _pairs(specs):
    return [(s, fam.tla_cfg(s)) for s in specs]


# ============================================================================================ T-mode
def _bytes(x, n):
    return [(x >> (8 * i)) & 0xff for i in range(n)]


def _limbs16(x, n):
    return [(x >> (16 * i)) & 0xffff for i in range(n)]


def _plen(rnd, lo, hi):
    r = rnd.random()
    if r < 0.35:
        return lo
    if r < 0.6:
        return min(hi, lo + 1)
    return rnd.randint(lo, hi)


def sim_frame(spec, ncycles, rnd, pvalid, pready):
    """ordinary Migen simulation (run_simulation with a generator) of the real Packetizer / Depacketizer /
    both at a realistic width with random stalls; logs one normalised event <<iv, o>> per cycle."""
    from litex.gen.sim.core import run_simulation
    top, sink, source = fam.frame_endpoints(spec)
    flds = fam.sorted_fields(spec)
    names = [f[0] for f in flds]
    widths = [f[3] for f in flds]
    kind = {"Packetizer": "pk", "Depacketizer": "dp", "RoundTrip": "rt"}[spec["cls"]]
    dw, hl = spec["dw"], spec["hl"]
    bpc = dw // 8
    minlen, maxlen, bubbles = spec["minlen"], spec["maxlen"], spec["bubbles"]
    ev = []

    def fl(vals):
        return [_bytes(v, (w + 7) // 8) for v, w in zip(vals, widths)]

    def new_packet():
        n = _plen(rnd, minlen, maxlen)
        if kind == "dp":
            m = (hl + n * bpc + bpc - 1) // bpc
            return [(rnd.getrandbits(dw), int(i == m - 1), []) for i in range(m)]
        f = [rnd.getrandbits(w) for w in widths]
        return [(rnd.getrandbits(dw), int(i == n - 1), f) for i in range(n)]

    def gen():
        pkt, idx = None, 0
        cur = None                  # beat currently offered
        prev = None                 # beat accepted last (inside the current packet)
        in_f = kind != "dp"
        out_f = kind != "pk"
        for cyc in range(ncycles):
            v = (yield sink.valid)
            d = (yield sink.data)
            l = (yield sink.last)
            r = (yield source.ready)
            f = []
            if in_f:
                for n in names:
                    f.append((yield getattr(sink, n)))
            sr = (yield sink.ready)
            ov = (yield source.valid)
            od = (yield source.data)
            ol = (yield source.last)
            of = []
            if out_f:
                for n in names:
                    of.append((yield getattr(source, n)))
            if cyc > 0:
                ev.append([[v, _bytes(d, bpc), l, fl(f) if in_f else [], r],
                           [sr, ov, _bytes(od, bpc), ol, fl(of) if out_f else []]])
            if cur is not None and v == 1 and sr == 1:
                prev = cur
                cur = None
                idx += 1
                if idx == len(pkt):
                    pkt, prev = None, None
            if cur is None:
                inside = pkt is not None
                if (bubbles == 0 and inside) or rnd.random() < pvalid:
                    if pkt is None:
                        pkt, idx = new_packet(), 0
                    cur = pkt[idx]
            if cur is not None:
                nv, nd, nl, nf = 1, cur[0], cur[1], cur[2]
            elif pkt is not None and bubbles == 2:
                nv, nd, nl, nf = 0, prev[0], 0, prev[2]          # pause, payload kept on the bus
            else:
                nv, nd, nl = 0, rnd.getrandbits(dw), (rnd.randint(0, 1) if spec["junk"] else 0)    # payload is a don't-care
                nf = [rnd.getrandbits(w) for w in widths] if in_f else []
            yield sink.valid.eq(nv)
            yield sink.data.eq(nd)
            yield sink.last.eq(nl)
            if in_f:
                for n, x in zip(names, nf):
                    yield getattr(sink, n).eq(x)
            yield source.ready.eq(1 if rnd.random() < pready else 0)
            yield
    run_simulation(top, gen())
    return ev


def sim_fifo(spec, ncycles, rnd, pvalid, pready):
    from litex.gen.sim.core import run_simulation
    top, ins, outs = fam.make(spec)
    sink, source = top.core.sink, top.core.source
    dw = spec["dw"]
    nl16 = (dw + 15) // 16
    credit = spec.get("credit", 0)
    ev = []

    def gen():
        pkt, idx, cur = None, 0, None
        occ = 0
        for cyc in range(ncycles):
            vals = []
            for s_ in ins:
                vals.append((yield s_))
            o = []
            for e in outs:
                o.append((yield e))
            if cyc > 0:
                ev.append([[vals[0], _limbs16(vals[1], nl16), vals[2], vals[3], vals[4]],
                           [o[0], o[1], _limbs16(o[2], nl16), o[3], o[4]]])
            if o[1] == 1 and vals[4] == 1:
                occ -= 1
            if cur is not None and vals[0] == 1 and o[0] == 1:
                occ += 1
                cur = None
                idx += 1
                if idx == len(pkt):
                    pkt = None
            if cur is None and (credit == 0 or occ < credit) and rnd.random() < pvalid:
                if pkt is None:
                    n = _plen(rnd, spec.get("minlen", 1), spec["maxlen"])
                    p = rnd.getrandbits(spec["pw"])
                    pkt, idx = [(rnd.getrandbits(dw), int(i == n - 1), p) for i in range(n)], 0
                cur = pkt[idx]
            nv = [1, cur[0], cur[1], cur[2]] if cur is not None else [0, rnd.getrandbits(dw), rnd.randint(0, 1), rnd.getrandbits(spec["pw"])]
            nv.append(1 if (spec.get("rdy1") or rnd.random() < pready) else 0)
            for s_, x in zip(ins, nv):
                yield s_.eq(x)
            yield
    run_simulation(top, gen())
    return ev


def sim_route(spec, ncycles, rnd, pvalid, pready):
    from litex.gen.sim.core import run_simulation
    top, ins, outs = fam.make(spec)
    n, m, dw = spec["n"], spec["m"], spec["dw"]
    nl16 = (dw + 15) // 16
    cfg = fam.route_cfg(spec, flat=0)
    selvals = cfg["sels"] + cfg["badsels"]
    ev = []

    def norm_i(v):
        out = []
        for i in range(n):
            out += [v[4 * i], _limbs16(v[4 * i + 1], nl16), v[4 * i + 2], v[4 * i + 3]]
        return out + list(v[4 * n:])

    def norm_o(o):
        out = list(o[:n])
        for j in range(m):
            b = n + 4 * j
            out += [o[b], _limbs16(o[b + 1], nl16), o[b + 2], o[b + 3]]
        return out

    def gen():
        pkt = [None] * n
        idx = [0] * n
        cur = [None] * n
        sel = selvals[0]
        for cyc in range(ncycles):
            vals = []
            for s_ in ins:
                vals.append((yield s_))
            o = []
            for e in outs:
                o.append((yield e))
            if cyc > 0:
                ev.append([norm_i(vals), norm_o(o)])
            hold_sel = False
            nv = []
            for i in range(n):
                if cur[i] is not None and vals[4 * i] == 1 and o[i] == 1:
                    cur[i] = None
                    idx[i] += 1
                    if idx[i] == len(pkt[i]):
                        pkt[i] = None
                if cur[i] is None and rnd.random() < pvalid:
                    if pkt[i] is None:
                        k = _plen(rnd, spec.get("minlen", 1), spec["maxlen"])
                        p = rnd.getrandbits(spec["pw"])
                        # the low bits of the data name the master: beats of different masters are distinguishable
                        pkt[i], idx[i] = [((rnd.getrandbits(dw - 2) << 2) | i, int(b == k - 1), p) for b in range(k)], 0
                    cur[i] = pkt[i][idx[i]]
                if cur[i] is not None:
                    nv += [1, cur[i][0], cur[i][1], cur[i][2]]
                    if idx[i] == 0 and len(selvals) > 1:
                        # sel belongs to the offer of a first beat: steady while that beat waits
                        hold_sel = hold_sel or (vals[4 * i] == 1 and vals[4 * i + 1:4 * i + 4] == list(cur[i]))
                else:
                    nv += [0, (rnd.getrandbits(dw - 2) << 2) | i, rnd.randint(0, 1), rnd.getrandbits(spec["pw"])]
            if not hold_sel and rnd.random() < 0.5:
                sel = rnd.choice(selvals)
            nv.append(sel)
            nv += [1 if rnd.random() < pready else 0 for _ in range(m)]
            for s_, x in zip(ins, nv):
                yield s_.eq(x)
            yield
    run_simulation(top, gen())
    return ev


SIMS = {"frame": sim_frame, "fifo": sim_fifo, "route": sim_route}

REPO_FIELDS = [("field_8b", 0, 0, 8), ("field_16b", 1, 0, 16), ("field_32b", 3, 0, 32), ("field_64b", 7, 0, 64),
               ("field_128b", 15, 0, 128)]           # test/test_packet.py
ETH_LIKE = [("dst", 0, 0, 48), ("src", 6, 0, 48), ("etype", 12, 0, 16)]
BITS8 = [("a", 0, 0, 4), ("b", 0, 4, 4), ("c", 1, 0, 16), ("d", 3, 0, 1), ("e", 3, 1, 7), ("f", 4, 0, 32)]
ODD12 = [("a", 0, 0, 4), ("b", 0, 4, 12), ("c", 2, 0, 32)]


def tmode_specs(tier):
    """realistic-width configurations for trace validation; the environment classes are those of the G-mode lists"""
    L = []

    def frame(cls, dw, hl, fields, swap, **env):
        s = fam._frame(cls, dw, hl, fields, swap, **env)
        L.append(s)
    general = dict(minlen=1, maxlen=24, bubbles=1, junk=1)
    clean = dict(minlen=2, maxlen=24, bubbles=0, junk=1)
    keep = dict(minlen=2, maxlen=24, bubbles=2, junk=1)
    pause = dict(minlen=2, maxlen=24, bubbles=1, junk=0)         # exposes the recorded pause finding
    onebeat = dict(minlen=1, maxlen=3, bubbles=0, junk=0)        # exposes the recorded one-beat finding
    widths = [8, 32, 64, 128] if tier == "thorough" else [32, 64, 128]
    for dw in widths:
        geom = fam.geometry(dw, 31)
        for cls in ("Packetizer", "Depacketizer", "RoundTrip"):
            if geom == "aligned" or cls == "Depacketizer":
                frame(cls, dw, 31, REPO_FIELDS, 1, **general)
            else:
                frame(cls, dw, 31, REPO_FIELDS, 1, **clean)
                frame(cls, dw, 31, REPO_FIELDS, 1, **keep)
                if cls == "RoundTrip" or tier == "thorough":
                    frame(cls, dw, 31, REPO_FIELDS, 1, **pause)
                    if dw != 64 or tier == "thorough":
                        frame(cls, dw, 31, REPO_FIELDS, 1, **onebeat)
    for cls in ("Packetizer", "Depacketizer", "RoundTrip"):
        frame(cls, 32, 8, BITS8, 0, **general)                          # aligned, bit fields, no byte swap
        frame(cls, 64, 8, BITS8, 1, **general)                          # header = exactly one word
        if cls == "Depacketizer":
            frame(cls, 32, 14, ETH_LIKE, 1, **general)                  # 14 bytes on 32 bit: leftover 2
            frame(cls, 64, 14, ETH_LIKE, 1, **general)                  # leftover 6
        else:
            frame(cls, 32, 14, ETH_LIKE, 1, **clean)
            frame(cls, 64, 14, ETH_LIKE, 1, **keep)
    if tier == "thorough":
        for cls in ("Packetizer", "Depacketizer", "RoundTrip"):
            frame(cls, 128, 16, ETH_LIKE, 1, **general)
            frame(cls, 32, 6, ODD12, 0, **(general if cls == "Depacketizer" else clean))
        frame("RoundTrip", 32, 8, ODD12, 1, **general)                  # odd-width field with byte swap (finding)
    # PacketFIFO
    L.append({"fam": "fifo", "cls": "PacketFIFO", "dw": 32, "pw": 16, "depth": 16, "minlen": 1, "maxlen": 8, "credit": 16,
              "env": "credit"})
    L.append({"fam": "fifo", "cls": "PacketFIFO", "dw": 64, "pw": 8, "depth": 64, "minlen": 1, "maxlen": 24, "credit": 64,
              "buffered": True, "env": "credit"})
    L.append({"fam": "fifo", "cls": "PacketFIFO", "dw": 32, "pw": 16, "depth": 8, "minlen": 1, "maxlen": 8, "env": "full"})
    # Arbiter / Dispatcher
    L.append({"fam": "route", "cls": "Arbiter", "n": 4, "m": 1, "dw": 32, "pw": 8, "maxlen": 6})
    L.append({"fam": "route", "cls": "Arbiter", "n": 2, "m": 1, "dw": 64, "pw": 8, "maxlen": 12})
    L.append({"fam": "route", "cls": "Dispatcher", "n": 1, "m": 4, "dw": 32, "pw": 8, "maxlen": 6})
    L.append({"fam": "route", "cls": "Dispatcher", "n": 1, "m": 3, "dw": 64, "pw": 8, "maxlen": 6, "one_hot": True, "nbad": 2})
    # (appended, so that the simulation seeds of the configurations above keep their meaning)
    # unaligned Packetizer / round trip under the complete environment (pauses inside packets with junk, also a junk
    # `last`, on the bus; one-beat packets): clean since the Packetizer loads its residue register on accepted beats only
    for dw in widths:
        if fam.geometry(dw, 31) != "aligned":
            for cls in ("Packetizer", "RoundTrip"):
                if tier == "thorough" or (cls == "Packetizer" and dw != 64):
                    frame(cls, dw, 31, REPO_FIELDS, 1, **general)
    # a layout without params (PacketFIFO then queues a dummy param per packet)
    L.append({"fam": "fifo", "cls": "PacketFIFO", "dw": 32, "pw": 0, "depth": 8, "minlen": 1, "maxlen": 8, "credit": 8,
              "env": "credit"})
    return L


def _tcfg(spec):
    cfg = fam.tla_cfg(spec, flat=0)
    if spec["fam"] == "frame":
        cfg["stallbound"] = 96
    elif spec["fam"] == "fifo":
        cfg["stallbound"] = spec["depth"] + spec["maxlen"] + 16
        cfg["cap"] = cfg["cap"] + 2
    else:
        cfg["stallbound"] = 600
    return cfg


def _tseed(seed, i, k):
    return "c16-%d-%d-%d" % (seed, i, k)


def _sim_job(job):
    from .. import py312_tracer
    py312_tracer.install()
    return _one_trace(*job)


def _one_trace(spec, seedstr, ncyc):
    rnd = random.Random(seedstr)
    pv, pr = rnd.choice([(0.9, 0.9), (0.5, 0.5), (0.9, 0.3), (0.3, 0.9), (1.0, 1.0), (1.0, 0.6)])
    return SIMS[spec["fam"]](spec, ncyc, rnd, pv, pr)


def run_tmode(report, tier, seed):
    ntr = 2 if tier == "quick" else 5
    ncyc = 300 if tier == "quick" else 600
    per = {"frame": ([], []), "fifo": ([], []), "route": ([], [])}
    jobs = [(spec, _tseed(seed, i, k), ncyc) for i, spec in enumerate(tmode_specs(tier)) for k in range(ntr)]
    pool = mp.get_context("fork").Pool(6)
    try:
        evs = pool.map(_sim_job, jobs, chunksize=1)        # order of `jobs` is kept: deterministic
    finally:
        pool.terminate()
    for (spec, ss, nc), ev in zip(jobs, evs):
        per[spec["fam"]][0].append({"cfg": _tcfg(spec), "ev": ev})
        per[spec["fam"]][1].append((spec, ss, nc))
    for name in ("frame", "fifo", "route"):
        family, _, _, tinv = FAMS[name]
        traces, meta = per[name]
        # tracecheck names one failing trace per TLC run: traces of environment classes with a recorded finding are
        # validated in small groups of their own, all other traces together
        groups = {}
        for i, (spec, ss, nc) in enumerate(meta):
            key = json.dumps(spec, sort_keys=True) if expected_to_fail(spec) else ""
            groups.setdefault(key, []).append(i)
        fails = []
        for key in sorted(groups):
            idx = groups[key]
            fl, st = tracecheck.validate(family.trace_module, [traces[i] for i in idx], tinv, workers=4,
                                         max_failures=len(idx) + 1 if key else 8)
            for f in fl:
                f["tid"] = idx[f["tid"]]
            fails += fl
            report.add(trace_states=st["states"])
            if not key and len(fl) >= 8:
                report.note("T-mode %s: %d traces rejected, the remaining ones of this batch were not judged" % (name, len(fl)))
        report.add(traces_validated_against_impl=len(traces))
        report.sample({"tmode_trace_head": {"dut": fam.describe(meta[0][0]), "first_cycles": traces[0]["ev"][:4]}}, cap=12)
        for f in sorted(fails, key=lambda f: f["tid"]):
            spec, ss, nc = meta[f["tid"]]
            tr = traces[f["tid"]]
            report.violation({"dut": spec, "clause": f["clause"]},
                             {"mode": "T", "family": name, "spec": spec, "cfg": tr["cfg"], "simseed": ss, "ncycles": nc,
                              "trace_module": family.trace_module, "trace_invariants": tinv,
                              "observed": tr["ev"][max(0, f["l"] - 40):f["l"]], "clause": f["clause"], "cycle": f["l"]},
                             "%s violated by %s in a recorded simulation trace at cycle %s" % (
                                 f["clause"], fam.describe(spec), f["l"]))


# ============================================================================================ canary
def run_canary(report):
    """the premise 'a packet fits the payload depth' is needed: packets of 4 beats block a PacketFIFO of depth 2 by
    construction.  The check must see that (ProgressSink fails); otherwise it has lost its sensitivity."""
    spec = {"fam": "fifo", "cls": "PacketFIFO", "dw": 8, "pw": 1, "depth": 2, "minlen": 4, "maxlen": 4, "env": "canary"}
    gl = GraphLoop(FIFO.graph_module, FACTORY, [(spec, fam.tla_cfg(spec))], invariants=[], properties=["ProgressSink"],
                   hint=FIFO.hint, spec_name="Spec", workers=4, log=lambda m: None, heap="4g", fmt="hash")
    try:
        res = gl.run()
    finally:
        gl.close()
    if res.violated != "temporal":
        raise MachineryError("canary: a PacketFIFO(depth 2) fed with 4-beat packets was not seen to block")
    report.add(canaries=["PacketFIFO(depth=2) with 4-beat packets blocks: ProgressSink fails as it must "
                         "(lasso of %d states)" % len(res.trace)],
               states=res.distinct, transitions=res.generated)


# ============================================================================================ lanes
def _lane_main(conn, prop, tier, seed, label, job, findings):
    try:
        from .. import py312_tracer
        py312_tracer.install()
        # smaller worker pools per lane: several lanes run side by side
        gcheck.GraphLoop = functools.partial(GraphLoop, workers=4)
        rep = Report(prop, "%s-%s" % (tier, label), seed)
        rep.findings = findings
        log = lambda m: print("[%s] %s" % (label, m), flush=True)      # noqa
        kind = job[0]
        if kind == "g":
            _, name, batches, kw = job
            family, invs, props, _ = FAMS[name]
            if prop == "C04":       # the stream handshake contract of the packet elements (see run_handshake)
                invs = [i for i in invs if i in HANDSHAKE_INVS]
            wit = {}
            stats = run_batches(family, rep, batches, invs, props, log=log, heap="6g",
                                on_accept=lambda gl: wit.update(witnesses(name, family, gl)), **kw)
            rep.add(duts_explored=len(stats), per_dut=stats, witnesses=wit)
        elif kind == "t":
            run_tmode(rep, tier, seed)
        elif kind == "canary":
            run_canary(rep)
        conn.send({"cov": rep.cov, "violations": rep.violations, "known_hit": rep.known_hit, "notes": rep.notes})
    except MachineryError as ex:
        conn.send({"error": "[%s] %s" % (label, ex)})
    except Exception:
        conn.send({"error": "[%s] %s" % (label, traceback.format_exc()[-3000:])})
    finally:
        conn.close()


def run_lanes(report, prop, tier, seed, lanes, par=6):
    """lanes: list of (label, job).  Runs them in child processes, at most `par` at a time, merges in list order."""
    ctx = mp.get_context("fork")
    pending = list(enumerate(lanes))
    running = {}
    results = {}
    while pending or running:
        while pending and len(running) < par:
            i, (label, job) = pending.pop(0)
            pc, cc = ctx.Pipe(duplex=False)
            p = ctx.Process(target=_lane_main, args=(cc, prop, tier, seed, label, job, report.findings))
            p.start()
            cc.close()
            running[i] = (p, pc, label, time.time())
        done = mp.connection.wait([x[1] for x in running.values()], timeout=5)
        for i in list(running):
            p, pc, label, t0 = running[i]
            if pc in done:
                print("lane %s finished after %.0fs" % (label, time.time() - t0), flush=True)
                try:
                    results[i] = pc.recv()
                except EOFError:
                    results[i] = {"error": "[%s] lane died without a result" % label}
                p.join()
                del running[i]
    errors = []
    for i in range(len(lanes)):
        r = results[i]
        if "error" in r:
            errors.append(r["error"])
            continue
        cov = r["cov"]
        for s_ in cov.pop("samples", []):
            report.sample(s_, cap=16)
        report.add(**cov)
        report.violations.extend(r["violations"])
        for k in r["known_hit"]:
            if k not in report.known_hit:
                report.known_hit.append(k)
        report.notes.extend(r["notes"])
    if errors:
        raise MachineryError(" || ".join(errors))


def _known(report):
    """findings of this property: known_findings.json (loaded by Report) plus, until the main agent has merged
    them, the entries of notes/C16_findings.json (same format; de-duplicated by id)"""
    have = {f.get("id") for f in report.findings}
    try:
        with open(NOTES_FINDINGS) as f:
            for e in json.load(f):
                if e.get("property") == report.prop and e.get("id") not in have:
                    report.findings.append(e)
    except FileNotFoundError:
        pass


def expected_to_fail(spec):
    """environment classes in which a recorded defect of the unchanged tree shows (run as one-DUT batches so that a
    confirmed finding does not restart the exploration of the other DUTs)"""
    if spec["fam"] == "frame":
        if spec["geom"] == "short":
            return True
        if spec["geom"] == "unaligned" and spec["cls"] != "Depacketizer" and (spec["bubbles"] == 1 or spec["minlen"] == 1):
            return True
        if spec.get("oddwide") and spec["swap"] and spec["cls"] != "Packetizer":
            return True
    if spec["fam"] == "fifo" and spec.get("env") == "full":
        return True
    return False


def build_lanes(tier):
    lanes = []
    quick = tier == "quick"
    followup = {"followup": False}          # DUTs with spec["followup"] are followed up (thorough tier only, see below)
    frames = fam.frame_configs(tier)
    fifos = fam.fifo_configs(tier)
    if quick:
        for s in frames + fifos:
            s.pop("followup", None)
    ok = [s for s in frames if not expected_to_fail(s)]
    bad = [s for s in frames if expected_to_fail(s)]
    if quick:
        lanes.append(("frame", ("g", "frame", [_pairs(ok)], followup)))
    else:
        ok_al = [s for s in ok if s["geom"] == "aligned"]
        ok_un = [s for s in ok if s["geom"] != "aligned"]
        for k in range(0, len(ok_al), 14):
            lanes.append(("frame-aligned-%d" % (k // 14), ("g", "frame", [_pairs(ok_al[k:k + 14])], followup)))
        for k in range(0, len(ok_un), 14):
            lanes.append(("frame-unaligned-%d" % (k // 14), ("g", "frame", [_pairs(ok_un[k:k + 14])], followup)))
    nb = 2 if quick else 4
    for k in range(nb):
        part = bad[k::nb]
        if part:
            lanes.append(("frame-findings-%d" % k, ("g", "frame", [_pairs([s]) for s in part], followup)))
    okf = [s for s in fifos if not expected_to_fail(s)]
    badf = [s for s in fifos if expected_to_fail(s)]
    big = [s for s in okf if s["depth"] >= 4]
    small = [s for s in okf if s["depth"] < 4]
    d3 = [s for s in small if s["depth"] == 3]
    d2 = [s for s in small if s["depth"] < 3]
    lanes.append(("fifo-d2", ("g", "fifo", [_pairs(d2)], followup)))
    for k in range(0, len(d3), 2):
        lanes.append(("fifo-d3-%d" % (k // 2), ("g", "fifo", [_pairs(d3[k:k + 2])], followup)))
    for k, s in enumerate(big):
        lanes.append(("fifo-big-%d" % k, ("g", "fifo", [_pairs([s])], dict(followup, spec_budget=400000, total_budget=3000000))))
    for k in range(2):
        if badf[k::2]:
            lanes.append(("fifo-findings-%d" % k, ("g", "fifo", [_pairs([s]) for s in badf[k::2]], followup)))
    routes = fam.route_configs(tier)
    heavy = [s for s in routes if s["n"] >= 3 or s["m"] >= 4]
    light = [s for s in routes if s not in heavy]
    lanes.append(("route", ("g", "route", [_pairs(light)], followup)))
    for k, s in enumerate(heavy):
        lanes.append(("route-%s%dx%d-%d" % (s["cls"][0], s["n"], s["m"], k), ("g", "route", [_pairs([s])], followup)))
    lanes.append(("tmode", ("t",)))
    lanes.append(("canary", ("canary",)))
    return lanes


def run(prop, report, tier, seed):
    report.assume("producers keep valid, payload and params steady until accepted and keep the params of a packet "
                  "constant; consumers drive ready freely; while valid = 0 the payload is a don't-care (driven 0 or junk)")
    report.assume("exhaustive G-mode at reduced parameters (data width 8/16/32 with position-tagged payload bytes, "
                  "headers of 1..7 bytes with 1-2 fields (also the two halves <p>_lsb/<p>_msb of one param), packets of 1..3 beats, "
                  "FIFO depth 2..4 with and without params, 1-4 masters/slaves); "
                  "realistic widths (32/64/128 bit, the repository test's 31-byte header) only sampled in T-mode")
    report.assume("junk while a producer offers nothing = zeros or (flagged configurations) one fixed vector with all data "
                  "bits, `last` and all param bits set, between and inside packets (random junk in T-mode); counted per DUT "
                  "(coverage.witnesses), a flagged DUT that never shows it is a machinery failure")
    report.assume("Dispatcher: sel is part of the offer of a packet's first beat (steady until that beat is accepted), "
                  "free at all other times")
    report.assume("PacketFIFO progress: every packet fits the payload depth (a longer packet blocks by construction; canary)")
    report.assume("FHDL netlist semantics = litex/gen/sim/core.py (compiled stepper cross-checked against it)")
    _known(report)
    lanes = build_lanes(tier)
    # long lanes first
    order = {"fifo-big": 0, "route-A": 1, "fifo-d3": 2, "tmode": 3, "frame": 4, "route": 5, "fifo": 6}
    lanes.sort(key=lambda x: min([v for k, v in order.items() if x[0].startswith(k)] or [9]))
    run_lanes(report, prop, tier, seed, lanes)
    report.add(lanes=[l for l, _ in lanes])
    report.add(clauses={"frame": FRAME_INVS + FRAME_PROPS, "fifo": FIFO_INVS + FIFO_PROPS, "route": ROUTE_INVS + ROUTE_PROPS})
    report.cov["exhaustive"] = True


HANDSHAKE_INVS = ("ValidHold", "Bounded")


def run_handshake(prop, report, tier, seed):
    """C04 (litex/soc/interconnect/packet.py is one of its anchors): Packetizer, Depacketizer, PacketFIFO, Arbiter and
    Dispatcher are stream elements; their G-mode products are explored for the handshake clauses only - ValidHold (a
    presented beat stays unchanged until it is accepted) and Liveness (no deadlock / livelock under cooperation).
    The environment classes in which a recorded C16 defect shows are left to C16."""
    report.assume("packet elements (packet.py): same environment as C16 (producers hold offers, params constant within a "
                  "packet, Dispatcher sel part of the first beat's offer); only ValidHold / Bounded / Liveness are C04 clauses")
    quick = tier == "quick"
    followup = {"followup": False}
    frames = [s for s in fam.frame_configs(tier) if not expected_to_fail(s)]
    fifos = [s for s in fam.fifo_configs(tier) if not expected_to_fail(s) and s["depth"] < (3 if quick else 4)]
    routes = [s for s in fam.route_configs(tier) if not (s["n"] >= 3 or s["m"] >= 4)]
    for s in frames + fifos:
        s.pop("followup", None)
    lanes = []
    step = 14
    for k in range(0, len(frames), step):
        lanes.append(("c04-frame-%d" % (k // step), ("g", "frame", [_pairs(frames[k:k + step])], followup)))
    lanes.append(("c04-fifo", ("g", "fifo", [_pairs(fifos)], followup)))
    lanes.append(("c04-route", ("g", "route", [_pairs(routes)], followup)))
    run_lanes(report, prop, tier, seed, lanes)
    report.add(packet_lanes=[l for l, _ in lanes], packet_clauses=list(HANDSHAKE_INVS) + ["Liveness"])


# ============================================================================================ replay
def replay(path):
    with open(path) as f:
        r = json.load(f)
    if r.get("mode") != "T":
        return gcheck.replay_file(path)
    ev = _one_trace(r["spec"], r["simseed"], r["ncycles"])
    try:
        fails, _ = tracecheck.validate(r["trace_module"], [{"cfg": r["cfg"], "ev": ev}], r["trace_invariants"])
    except MachineryError as ex:
        return False, [{"clause": "trace not judged: %s" % ex}]
    return any(f["clause"] == r["clause"] for f in fails), fails
