"""C16: packet framing (Packetizer / Depacketizer / PacketFIFO / Arbiter / Dispatcher).
G-mode exhaustive products at reduced parameters + T-mode recorded simulations at realistic widths."""
import random

from ..gcheck import GFamily, run_batches
from ..graphloop import GraphLoop
from .. import tracecheck
from ..report import MachineryError
from ..families import packet as fam

FACTORY = "harness.families.packet:make"

FRAME_INVS = ["DefsWellFormed", "Causal", "ByteLayout", "LastPlacement", "HeaderFields", "ValidHold", "Bounded"]
FRAME_PROPS = ["Progress", "ProgressSink", "NothingLost"]
FRAME_T = ["DefsWellFormedT", "CausalT", "ByteLayoutT", "LastPlacementT", "HeaderFieldsT", "ValidHoldT", "BoundedT",
           "BoundedProgress", "BoundedProgressSink", "BoundedDelivery"]
FRAME = GFamily("packet/PacketFrameGraph", "packet/PacketFrameTrace", FACTORY, hint=fam.FrameHint(),
                clause_map=dict([(k, k + "T") for k in FRAME_INVS] +
                                [("Progress", "BoundedProgress"), ("ProgressSink", "BoundedProgressSink"),
                                 ("NothingLost", "BoundedDelivery")]),
                describe=fam.describe)

FIFO_INVS = ["OnlyCompletePackets", "InOrder", "ParamOfPacket", "ValidHold", "Bounded"]
FIFO_PROPS = ["Progress", "ProgressSink", "NothingLost"]
FIFO_T = [k + "T" for k in FIFO_INVS] + ["BoundedProgress", "BoundedProgressSink", "BoundedDelivery"]
FIFO = GFamily("packet/PacketFifoGraph", "packet/PacketFifoTrace", FACTORY, hint=fam.FifoHint(),
               clause_map=dict([(k, k + "T") for k in FIFO_INVS] +
                               [("Progress", "BoundedProgress"), ("ProgressSink", "BoundedProgressSink"),
                                ("NothingLost", "BoundedDelivery")]),
               describe=fam.describe)

ROUTE_INVS = ["BeatsInOrder", "SelLatchedOnFirst", "Atomic", "ValidHold", "Bounded", "ExactlyOnce", "BoundedWait"]
ROUTE_PROPS = ["Served", "Delivered"]
ROUTE_T = [k + "T" for k in ROUTE_INVS] + ["BoundedService", "BoundedDelivery"]
ROUTE = GFamily("packet/PacketRouteGraph", "packet/PacketRouteTrace", FACTORY, hint=fam.RouteHint(),
                clause_map=dict([(k, k + "T") for k in ROUTE_INVS] +
                                [("Served", "BoundedService"), ("Delivered", "BoundedDelivery")]),
                describe=fam.describe)

FAMS = {"frame": (FRAME, FRAME_INVS, FRAME_PROPS, FRAME_T), "fifo": (FIFO, FIFO_INVS, FIFO_PROPS, FIFO_T),
        "route": (ROUTE, ROUTE_INVS, ROUTE_PROPS, ROUTE_T)}


def _pairs(specs):
    return [(s, fam.tla_cfg(s)) for s in specs]


def _batches(pairs, size):
    return [pairs[i:i + size] for i in range(0, len(pairs), size)]


def run_gmode(report, name, specs, tier, batch=8, **kw):
    family, invs, props, _ = FAMS[name]
    stats = run_batches(family, report, _batches(_pairs(specs), batch), invs, props, **kw)
    report.add(duts_explored=len(stats), per_dut=stats)
    report.add(**{"clauses_" + name: invs + props})
    return stats


def run(prop, report, tier, seed):
    report.assume("producers keep valid, payload and params steady until accepted and keep the params of a packet "
                  "constant; consumers drive ready freely; while valid = 0 the payload is a don't-care (driven 0 or junk)")
    report.assume("exhaustive G-mode at reduced parameters (data width 8/16/32 with position-tagged payload bytes, "
                  "headers of 1..7 bytes with 1-2 fields, packets of 1..3 beats, 1-4 masters/slaves); realistic widths "
                  "(32/64/128 bit, the repository test's 31-byte header) only sampled in T-mode")
    report.assume("Dispatcher: sel is part of the offer of a packet's first beat (steady until that beat is accepted), "
                  "free at all other times")
    report.assume("FHDL netlist semantics = litex/gen/sim/core.py (compiled stepper cross-checked against it)")
    run_gmode(report, "frame", fam.frame_configs(tier), tier)
    run_gmode(report, "fifo", fam.fifo_configs(tier), tier)
    run_gmode(report, "route", fam.route_configs(tier), tier)
    report.cov["exhaustive"] = True
