"""C02: Verilog identifiers are unique, legal and reproducible (family `namer`).

 R  specs/namer/NamerInputs.tla  TLC enumerates / samples the input space of the hierarchical namer;
                                 the harness executes every case on the real build_signal_namespace / get_name.
 T  specs/namer/NamerTrace.tla   TLC judges every recorded call history (one INVARIANT per clause) and tells
                                 which L2 design (as implemented / repaired) the real code follows.
 M  specs/namer/NamerM.tla       that L2 design of SignalNamespace under every request order (design level);
                                 counterexamples are replayed on the real code and judged by NamerTrace before
                                 they count; the proposed repair is model-checked as evidence.
 R  specs/namer/NamerModules.tla TLC enumerates design shapes; the real convert() runs in fresh interpreters
                                 (PYTHONHASHSEED 0/1/0, tracer shim on/off).
 T  specs/namer/Netlist.tla      TLC judges the declared identifiers, the name table and reproducibility.
 Lexical side (keyword list of IEEE 1800-2017, identifier syntax): specs/namer/VerilogLex.tla.
"""
import json
import os
import random
import re
import shutil
import tempfile
import time
from concurrent.futures import ThreadPoolExecutor

from .. import tlc
from ..report import MachineryError
from ..families import namer as fam

NAMER_CLAUSES = ["Injective", "OrderIndependentUniqueness", "Stable", "LegalSyntax", "NotReserved"]
NETLIST_CLAUSES = ["DeclUnique", "TableInjective", "DeclLegalSyntax", "DeclNotReserved", "EveryObjectDeclared",
                   "UsedIsDeclared", "Reproducible", "OffsetReproducible"]
M_CLAUSES = ["Injective", "Stable", "LegalSyntax", "NotReserved"]
L2_CLAUSES = ["L2Agrees", "L2AgreesFixed"]      # informational: which L2 design the code follows

SPACES = {   # (space, mode) per tier; sample sizes for the mixed space
    "quick": [("override", "all"), ("hierarchy", "all"), ("deep", "all"), ("related", "all"), ("reserved", "all"),
              ("resattr", "all"), ("mixed", 4000)],
    "thorough": [("override", "all"), ("hierarchy", "all"), ("deep", "all"), ("related", "all"), ("reserved", "all"),
                 ("resattr", "all"), ("mixed", 400000)],
}
NSHAPES = {"quick": 80, "thorough": 1500}
BATCH = 25000          # traces per TLC invocation


def _tlc(*a, **kw):
    """tlc.run, retried once if the JVM was killed from outside (exit 143/137: not a verdict about anything)"""
    r = tlc.run(*a, **kw)
    if any("TLC exit code 143" in e or "TLC exit code 137" in e for e in r.errors):
        r = tlc.run(*a, **kw)
    return r


def _scratch():
    return tempfile.mkdtemp(prefix="verif-c02-", dir=os.environ.get("VERIF_SCRATCH", "/var/tmp"))


def _entropy(seed, salt, n, width):
    rng = random.Random("%s/%s" % (seed, salt))
    return [[rng.randrange(1 << 15) for _ in range(width)] for _ in range(n)]


# ------------------------------------------------------------------------------------------ signatures
def _namer_sigs(clause, wit):
    """signature(s) of a rejected call history, from the witnesses TLC printed"""
    if clause in ("Injective", "OrderIndependentUniqueness"):
        return [{"layer": "namespace", "clause": clause, "kind": k} for k in sorted(wit.get("kinds", []))] or \
               [{"layer": "namespace", "clause": clause, "kind": "?"}]
    if clause == "NotReserved":
        return [{"layer": "namespace", "clause": clause, "kind": "unreserved_keyword", "name": n}
                for n in sorted(wit.get("reserved", []))]
    if clause == "LegalSyntax":
        return [{"layer": "namespace", "clause": clause, "kind": "illegal_syntax"}]
    if clause == "Stable":
        return [{"layer": "namespace", "clause": clause, "kind": "unstable"}]
    return [{"layer": "namespace", "clause": clause, "kind": "?"}]


def _netlist_sigs(clause, wit):
    if clause in ("DeclUnique", "TableInjective"):
        return [{"layer": "netlist", "clause": clause, "kind": k} for k in sorted(wit.get("kinds", []))] or \
               [{"layer": "netlist", "clause": clause, "kind": "?"}]
    if clause == "DeclNotReserved":
        return [{"layer": "netlist", "clause": clause, "kind": "unreserved_keyword", "name": n}
                for n in sorted(wit.get("reserved", []))]
    if clause == "OffsetReproducible":
        return [{"layer": "netlist", "clause": clause, "kind": k} for k in sorted(wit.get("offkinds", []))] or \
               [{"layer": "netlist", "clause": clause, "kind": "?"}]
    return [{"layer": "netlist", "clause": clause, "kind": {"DeclLegalSyntax": "illegal_syntax",
                                                            "EveryObjectDeclared": "undeclared",
                                                            "UsedIsDeclared": "used_not_declared",
                                                            "Reproducible": "not_reproducible"}.get(clause, "?")}]


class _Collector:
    """keeps, per distinct signature, the smallest rejected input; reports each once"""

    def __init__(self, report):
        self.report = report
        self.best = {}

    def add(self, sig, size, replay, text):
        key = json.dumps(sig, sort_keys=True)
        cur = self.best.get(key)
        if cur is None:
            self.best[key] = [size, sig, replay, text, 1]
        else:
            cur[4] += 1
            if size < cur[0]:
                cur[0:4] = [size, sig, replay, text]

    def flush(self, cap=3):
        """known findings are always matched; of the others at most `cap` per (layer, clause) are written out as
        VIOLATION with a replay file, the rest is counted in a note (a broken keyword set alone gives 248 signatures)"""
        shown, hidden = {}, 0
        for key in sorted(self.best):
            size, sig, replay, text, count = self.best[key]
            grp = (sig.get("layer"), sig.get("clause"))
            if self.report.match_known(sig) is None:
                if shown.get(grp, 0) >= cap:
                    hidden += 1
                    continue
                shown[grp] = shown.get(grp, 0) + 1
            replay = dict(replay)
            replay["rejected_inputs_with_this_signature"] = count
            self.report.violation(sig, replay, "%s (%d rejected input(s) with this signature)" % (text, count))
        if hidden:
            self.report.note("%d further distinct rejection signatures not written out (cap %d per clause)" % (hidden, cap))
        n = len(self.best)
        self.best = {}
        return n


# ------------------------------------------------------------------------------------------ T-mode runner
_VIOL = re.compile(r"^Error: Invariant (\w+) is violated by the initial state:\n((?:[^\n]+\n)+)", re.M)


def _parse_state(txt):
    out = {}
    for part in re.split(r"(?m)^/\\ ", txt):
        part = part.strip()
        if not part:
            continue
        k, sep, val = part.partition(" = ")
        if not sep:
            continue
        try:
            out[k.strip()] = tlc.parse_value(val.strip())
        except Exception:
            out[k.strip()] = val.strip()
    return out


def tlc_judge(module, records, invariants, extra_env=None, timeout=1700, heap="4g"):
    """every record is one initial state of `module` (variable tid); all clauses are INVARIANTs; TLC runs with
    -continue and prints each rejected record with its witness variables.  Total: the run is accepted only if
    TLC generated exactly one state per record.  returns (failures [dict(tid 0-based, clause, vars)], stats)"""
    scratch = _scratch()
    try:
        path = os.path.join(scratch, "traces.json")
        with open(path, "w") as f:
            json.dump(records, f, separators=(",", ":"))
        cfg = ["INIT Init", "NEXT Next", "CHECK_DEADLOCK FALSE", "INVARIANT EnvLegal"] + ["INVARIANT %s" % i for i in invariants]
        env = {"TRACES": path}
        env.update(extra_env or {})
        res = _tlc(module, "\n".join(cfg) + "\n", env=env, timeout=timeout, scratch=scratch, workers=2,
                      extra=("-continue",), heap=heap)
        if res.errors:
            raise MachineryError("TLC failed on %s: %s\n%s" % (module, " | ".join(res.errors[:6]), res.out[-1500:]))
        fails = []
        for m in _VIOL.finditer(res.out):
            vs = _parse_state(m.group(2))
            if not isinstance(vs.get("tid"), int):
                raise MachineryError("cannot read the rejected state TLC printed for %s" % m.group(1))
            fails.append({"tid": vs["tid"] - 1, "clause": m.group(1), "vars": vs})
        for f in fails:
            if f["clause"] == "EnvLegal":
                raise MachineryError("%s: record %d is not a legal recording (harness obligation EnvLegal)" % (module, f["tid"]))
        if res.distinct != len(records):
            raise MachineryError("%s judged %d records, expected %d" % (module, res.distinct, len(records)))
        return fails, {"states": res.distinct, "transitions": res.generated, "wall": res.wall}
    finally:
        shutil.rmtree(scratch, ignore_errors=True)


def judge_traces(traces, implpath, timeout=1700):
    """NamerTrace.tla over `traces`; returns (failures, states, transitions); failures carry the trace index"""
    fails, states, trans = [], 0, 0
    batches = [(o, traces[o:o + BATCH]) for o in range(0, len(traces), BATCH)]

    def one(b):
        off, part = b
        slim = [{"n": t["n"], "variant": t["variant"], "bases": t["bases"], "ev": t["ev"], "err": t["err"]} for t in part]
        f, st = tlc_judge("namer/NamerTrace", slim, NAMER_CLAUSES + L2_CLAUSES, extra_env={"IMPL": implpath}, timeout=timeout)
        for x in f:
            x["tid"] += off
        return f, st

    with ThreadPoolExecutor(max_workers=6) as ex:
        for f, st in ex.map(one, batches):
            fails += f
            states += st["states"]
            trans += st["transitions"]
    return fails, states, trans


def _describe_case(case):
    def one(d):
        s = ".".join("%s%d" % (a, b) for a, b in d["bt"])
        if d["ov"]:
            s += " override=%s" % d["ov"]
        if d["rel"]:
            s += " related=#%d" % d["rel"]
        return s
    return "[" + "; ".join(one(d) for d in case) + "]"


def _handle_namer_failures(report, coll, fails, traces, meta, origin):
    drift = {"L2Agrees": 0, "L2AgreesFixed": 0}
    for f in fails:
        t = traces[f["tid"]]
        case, run, space = meta[f["tid"]]
        if f["clause"] in drift:
            drift[f["clause"]] += 1
            continue
        wit = f["vars"].get("wit", {})
        names = [e[1] for e in t["ev"]]
        for sig in _namer_sigs(f["clause"], wit if isinstance(wit, dict) else {}):
            replay = {"kind": "namer_case", "origin": origin, "space": space, "case": case, "run": run,
                      "variant": t["variant"], "clause": f["clause"], "observed": t["ev"], "bases": t["bases"]}
            text = "%s: signals %s requested in order %s got %s (bases %s)" % (
                f["clause"], _describe_case(case), run["req"], names, t["bases"])
            coll.add(sig, len(case) * 100 + len(run["req"]), replay, text)
    return drift


# ------------------------------------------------------------------------------------------ M-mode
def m_mode(report, coll, tier, implpath, design):
    """explores the L2 design the real code was observed to follow (rt_mode) under every request order"""
    nsig = 3 if tier == "quick" else 5
    fixed_now = design == "repaired"
    base = "INIT Init\nNEXT Next\nCHECK_DEADLOCK FALSE\nCONSTANT NSig = %d\nCONSTANT Fixed = %s\nCONSTANT Resv = \"%s\"\n"

    def one(args):
        fixed, resv, inv = args
        cfg = base % (nsig, "TRUE" if fixed else "FALSE", resv) + "".join("INVARIANT %s\n" % i for i in inv)
        return fixed, resv, inv, _tlc("namer/NamerM", cfg, env={"IMPL": implpath}, workers=4, timeout=900, heap="4g")

    jobs = [(fixed_now, "impl", [c]) for c in M_CLAUSES] + [(True, "std", M_CLAUSES)]
    with ThreadPoolExecutor(max_workers=5) as ex:
        results = list(ex.map(one, jobs))
    replays, rmeta = [], []
    mstat = {"design_explored": "L2GetFixed" if fixed_now else "L2Get", "signals": nsig}
    for fixed, resv, inv, r in results:
        if r.errors:
            raise MachineryError("TLC failed on NamerM: " + " | ".join(r.errors[:5]))
        report.add(states=r.distinct, transitions=r.generated)
        if resv == "std":
            mstat["proposed_repair_holds_in_model"] = r.violated is None
            mstat["proposed_repair_states"] = r.distinct
            if r.violated is not None:
                report.note("M-mode: the proposed repair (L2GetFixed, standard keyword list) violates %s in the model" % r.violated)
            continue
        mstat["%s_states" % inv[0]] = r.distinct
        if r.violated is None:
            mstat[inv[0]] = "holds in the model"
            continue
        bases = list(r.trace[0]["vars"]["base"])
        calls = [list(s["vars"]["last"]) for s in r.trace[1:]]
        mstat[inv[0]] = {"model_counterexample": {"bases": bases, "calls": calls}}
        case = [{"bt": [["a", 0]], "ov": b, "rel": 0} for b in bases]
        req = [c[0] for c in calls]
        req += [s for s in range(1, len(bases) + 1) if s not in req]      # the trace spec wants every signal asked
        replays.append((case, {"req": req, "dr": 0, "cl": 0}, 0))
        rmeta.append((inv[0], [c[1] for c in calls]))
    report.add(m_mode=mstat)
    if not replays:
        return
    # confirm on the real code, judge with the trace specification
    traces = fam.run_jobs(replays)
    fails, st, tr = judge_traces(traces, implpath)
    report.add(states=st, transitions=tr, traces_validated_against_impl=len(traces))
    meta = [(c, r, "m-mode") for (c, r, v) in replays]
    _handle_namer_failures(report, coll, fails, traces, meta, "counterexample of NamerM.tla replayed on the real code")
    for k, (clause, predicted) in enumerate(rmeta):
        got = [e[1] for e in traces[k]["ev"]][:len(predicted)]
        confirmed = any(f["tid"] == k and f["clause"] == clause for f in fails)
        if got != predicted or not confirmed:
            print("MODEL-DRIFT namer: counterexample of %s predicted %s, the real code answered %s (%s)" % (
                clause, predicted, got, "rejected" if confirmed else "accepted by the trace specification"))
            report.note("MODEL-DRIFT: NamerM counterexample for %s not reproduced on the real code" % clause)


# ------------------------------------------------------------------------------------------ R/T-mode (namer)
SAMPLE_CHUNK = 25000   # sampled cases per TLC enumeration run


def rt_mode(report, coll, tier, seed, implpath, scratch, pool):
    scale = 0 if tier == "quick" else 1
    units = []          # (space, mode, chunk number, size)
    for space, mode in SPACES[tier]:
        if mode == "all":
            units.append((space, "all", 0, 0))
        else:
            k = 0
            while k * SAMPLE_CHUNK < mode:
                units.append((space, "sample", k, min(SAMPLE_CHUNK, mode - k * SAMPLE_CHUNK)))
                k += 1

    def enum(u):
        space, mode, k, size = u
        env = {}
        if mode != "all":
            rp = os.path.join(scratch, "rnd_%s_%d.json" % (space, k))
            with open(rp, "w") as f:
                json.dump(_entropy(seed, "namer-%s-%d" % (space, k), size, 96), f)
            env["RND"] = rp
        cfg = ('INIT Init\nNEXT Next\nCHECK_DEADLOCK FALSE\nCONSTANT Space = "%s"\nCONSTANT Mode = "%s"\n'
               'CONSTANT Scale = %d\nINVARIANT SampleInSpace\n' % (space, mode, scale))
        r = _tlc("namer/NamerInputs", cfg, env=env, workers=1, timeout=1700, heap="4g")
        if r.errors or r.violated:
            raise MachineryError("NamerInputs(%s) failed: %s %s" % (space, r.violated, " | ".join(r.errors[:5])))
        return r

    spaces_ev = {}
    timing = {"tlc_enumeration_s": 0.0, "real_code_s": 0.0, "tlc_judgement_s": 0.0}
    wit = {"runs_with_repeated_request": 0, "runs_with_override": 0, "runs_with_related": 0, "runs_with_suffixed_name": 0,
           "runs_reverse_creation": 0, "runs_list_collection": 0}
    total = nerr_total = 0
    drift_total = {"L2Agrees": 0, "L2AgreesFixed": 0}
    drift_example = {}
    t0 = time.time()
    ex = ThreadPoolExecutor(max_workers=6)
    futures = [ex.submit(enum, u) for u in units]
    try:
        for u, fut in zip(units, futures):
            space, mode, k, size = u
            r = fut.result()
            timing["tlc_enumeration_s"] = round(time.time() - t0, 1)      # wall, enumerations overlap with the rest
            jobs, meta = [], []
            ncase = 0
            if mode == "all":
                tables = fam.extract_prints(r.out, "RUNS")
                if len(tables) != 1:
                    raise MachineryError("NamerInputs(%s): no RUNS table printed" % space)
                runtab = [[fam.plain_run(x) for x in per_k] for per_k in tables[0][1]]
                cases = fam.extract_prints(r.out, "CASE")
                if len(cases) != r.distinct:
                    raise MachineryError("NamerInputs(%s): %d cases parsed, TLC enumerated %d" % (space, len(cases), r.distinct))
                for c in cases:
                    case = fam.plain_case(c[1])
                    ncase += 1
                    for v, run in enumerate(runtab[len(case) - 1]):
                        jobs.append((case, run, v))
                        meta.append((case, run, space))
            else:
                cases = fam.extract_prints(r.out, "SCASE")
                if len(cases) != r.distinct or len(cases) != size:
                    raise MachineryError("NamerInputs(%s): %d cases parsed, TLC produced %d of %d" % (space, len(cases), r.distinct, size))
                for c in cases:
                    case = fam.plain_case(c[2])
                    ncase += 1
                    for v, run in enumerate(c[3]):
                        run = fam.plain_run(run)
                        jobs.append((case, run, v))
                        meta.append((case, run, space))
            r.out = ""
            report.add(states=r.distinct, transitions=r.generated)
            e = spaces_ev.setdefault(space, {"mode": "exhaustive" if mode == "all" else "sampled", "cases": 0, "runs": 0})
            e["cases"] += ncase
            e["runs"] += len(jobs)
            t1 = time.time()
            traces = fam.run_jobs(jobs, pool)
            timing["real_code_s"] += time.time() - t1
            nerr = sum(1 for t in traces if t["err"])
            if nerr:
                bad = next(t for t in traces if t["err"])
                report.note("%s: the implementation raised on %d of %d runs (not judged: nothing was named), e.g. %s" % (
                    space, nerr, len(traces), bad["errtext"][:120]))
            nerr_total += nerr
            total += len(traces)
            t1 = time.time()
            fails, st, tr = judge_traces(traces, implpath)
            timing["tlc_judgement_s"] += time.time() - t1
            report.add(states=st, transitions=tr, traces_validated_against_impl=len(traces))
            drift = _handle_namer_failures(report, coll, fails, traces, meta, "input enumerated by NamerInputs.tla")
            for cl in drift:
                if drift[cl] and cl not in drift_example:
                    i = next(f["tid"] for f in fails if f["clause"] == cl)
                    drift_example[cl] = "bases %s -> %s" % (traces[i]["bases"], traces[i]["ev"])
                drift_total[cl] += drift[cl]
            if k == 0:                           # a real sample per space for the evidence
                i = (2 * len(traces)) // 3
                report.sample({"space": space, "case": _describe_case(meta[i][0]), "request_order": meta[i][1]["req"],
                               "names_returned_by_real_code": [x[1] for x in traces[i]["ev"]]}, cap=7)
            wit["runs_with_repeated_request"] += sum(1 for t in traces if len(t["ev"]) > t["n"])
            wit["runs_with_override"] += sum(1 for m in meta if any(d["ov"] for d in m[0]))
            wit["runs_with_related"] += sum(1 for m in meta if any(d["rel"] for d in m[0]))
            wit["runs_with_suffixed_name"] += sum(1 for t in traces if any(x[1] != t["bases"][x[0] - 1] for x in t["ev"]))
            wit["runs_reverse_creation"] += sum(1 for m in meta if m[1]["dr"])
            wit["runs_list_collection"] += sum(1 for m in meta if m[1]["cl"])
    finally:
        ex.shutdown(wait=True, cancel_futures=True)
    if nerr_total * 2 > total:
        raise MachineryError("the real namer raised on %d of %d runs: nothing left to judge" % (nerr_total, total))
    if drift_total["L2Agrees"] == 0:
        design = "as_implemented"        # Namer!L2Get: per-base counter only
    elif drift_total["L2AgreesFixed"] == 0:
        design = "repaired"              # Namer!L2GetFixed: names handed out are never reused
    else:
        design = "unknown"
        print("MODEL-DRIFT namer: the real get_name follows neither L2 design (L2Get: %d runs differ, e.g. %s; "
              "L2GetFixed: %d runs differ, e.g. %s)" % (drift_total["L2Agrees"], drift_example.get("L2Agrees"),
                                                        drift_total["L2AgreesFixed"], drift_example.get("L2AgreesFixed")))
        report.note("MODEL-DRIFT: real get_name differs from Namer!L2Get on %d runs and from Namer!L2GetFixed on %d runs" % (
            drift_total["L2Agrees"], drift_total["L2AgreesFixed"]))
    timing = {k: round(v, 1) for k, v in timing.items()}
    report.add(namer_spaces=spaces_ev, namer_timing=timing, namer_runs_rejected_by_impl=nerr_total,
               l2_design_followed_by_code=design, l2_runs_differing={"L2Get": drift_total["L2Agrees"],
                                                                     "L2GetFixed": drift_total["L2AgreesFixed"]},
               namer_witnesses=wit)
    for k, v in wit.items():      # witnesses against vacuity
        if v == 0:
            raise MachineryError("vacuity: witness %s is zero" % k)
    return design


# ------------------------------------------------------------------------------------------ end to end
VARIANTS = [
    {"tag": "shim_h0", "shim": 1, "hashseed": 0, "grp": 1},
    {"tag": "shim_h1", "shim": 1, "hashseed": 1, "grp": 1},
    {"tag": "shim_h0b", "shim": 1, "hashseed": 0, "grp": 1},
    {"tag": "noshim_h0", "shim": 0, "hashseed": 0, "grp": 0},
    {"tag": "noshim_h1", "shim": 0, "hashseed": 1, "grp": 0},
    # audit extension: same as shim_h0, but the interpreter creates unrelated Signals before every design (all DUIDs of
    # the design shifted by 1, 2, 3, ... for the 1st, 2nd, ... design); judged by Netlist!OffsetReproducible
    {"tag": "shim_h0_off", "shim": 1, "hashseed": 0, "grp": 1, "off": 1},
]


def _design_records(sources, labels, scratch):
    try:
        out = fam.convert_in_fresh_interpreters(sources, VARIANTS, scratch)
    except RuntimeError as ex:
        raise MachineryError(str(ex))
    recs = []
    for k, src in enumerate(sources):
        runs = []
        for v in VARIANTS:
            o = out[v["tag"]][k]
            run = {"grp": v["grp"], "off": int(v.get("off", 0)), "tag": v["tag"], "ok": bool(o["ok"]), "decls": [], "used": [],
                   "table": [], "lines": [], "ndate": 3, "err": o["err"], "multiattr": 0}
            if o["ok"]:
                try:
                    run["decls"] = fam.declared_identifiers(o["text"])
                    run["used"] = fam.used_identifiers(o["text"])
                except fam.TextFormatError as ex:
                    raise MachineryError("design %s (%s): %s" % (labels[k], v["tag"], ex))
                run["table"] = o["table"]
                run["lines"], run["ndate"] = fam.strip_dates(o["text"])
                run["multiattr"] = fam.multi_attribute_lines(o["text"])
            runs.append(run)
        recs.append({"label": labels[k], "runs": runs})
    return recs


def judge_designs(recs, chunk=250):
    slim = [{"runs": [{k: r[k] for k in ("grp", "off", "ok", "decls", "used", "table", "lines", "ndate")} for r in d["runs"]]} for d in recs]
    parts = [(o, slim[o:o + chunk]) for o in range(0, len(slim), chunk)]

    def one(p):
        off, part = p
        f, st = tlc_judge("namer/Netlist", part, NETLIST_CLAUSES, heap="4g")
        for x in f:
            x["tid"] += off
        return f, st

    fails, stats = [], {"states": 0, "transitions": 0}
    with ThreadPoolExecutor(max_workers=4) as ex:
        for f, st in ex.map(one, parts):
            fails += f
            stats["states"] += st["states"]
            stats["transitions"] += st["transitions"]
    return fails, stats


def e2e_mode(report, coll, tier, seed, scratch):
    n = NSHAPES[tier]
    rp = os.path.join(scratch, "rnd_shapes.json")
    with open(rp, "w") as f:
        json.dump(_entropy(seed, "shapes", n, 40), f)
    cfg = "INIT Init\nNEXT Next\nCHECK_DEADLOCK FALSE\nINVARIANT InSpace\n"
    r = _tlc("namer/NamerModules", cfg, env={"RND": rp}, workers=1, timeout=900, heap="4g")
    if r.errors or r.violated:
        raise MachineryError("NamerModules failed: %s %s" % (r.violated, " | ".join(r.errors[:5])))
    shapes = fam.extract_prints(r.out, "SHAPE")
    corpus = fam.extract_prints(r.out, "CORPUS")
    if len(shapes) != r.distinct or len(corpus) != 1:
        raise MachineryError("NamerModules: %d shapes parsed, TLC produced %d" % (len(shapes), r.distinct))
    report.add(states=r.distinct, transitions=r.generated)
    sources, labels, inputs = [], [], []
    for s in shapes:
        shape = {k: (list(v) if isinstance(v, tuple) else v) for k, v in s[3].items()}
        sources.append(fam.render(shape))
        labels.append("%s#%d" % (s[1], s[2]))
        inputs.append(shape)
    for name in corpus[0][1]:
        sources.append(fam.corpus_source(name))
        labels.append("corpus:" + name)
        inputs.append({"corpus": name})
    t0 = time.time()
    recs = _design_records(sources, labels, scratch)
    t_conv = time.time() - t0
    nruns = sum(1 for d in recs for x in d["runs"] if x["ok"])
    nfail = sum(1 for d in recs for x in d["runs"] if not x["ok"])
    for d in recs:
        # the corpus needs the tracer shim for unnamed CSRs; a design that converts in no group at all is a harness problem
        if not any(x["ok"] for x in d["runs"]):
            raise MachineryError("design %s did not convert in any interpreter: %s" % (d["label"], d["runs"][0]["err"]))
        for g in (0, 1):
            oks = [x["ok"] for x in d["runs"] if x["grp"] == g]
            if any(oks) and not all(oks):
                raise MachineryError("design %s converts in some interpreters of group %d only" % (d["label"], g))
    if nfail:
        ex = next(x for d in recs for x in d["runs"] if not x["ok"])
        report.note("%d conversions raised (not judged), e.g. %s: %s" % (nfail, ex["tag"], ex["err"][:100]))
    t0 = time.time()
    fails, st = judge_designs(recs)
    t_judge = time.time() - t0
    ndecl = sum(len(x["decls"]) for d in recs for x in d["runs"])
    report.add(states=st["states"], transitions=st["transitions"], traces_validated_against_impl=nruns,
               e2e={"designs": len(recs), "conversions_judged": nruns, "conversions_raised": nfail,
                    "declared_identifiers_judged": ndecl,
                    "used_identifiers_judged": sum(len(x["used"]) for d in recs for x in d["runs"]), "convert_s": round(t_conv, 1), "tlc_judgement_s": round(t_judge, 1),
                    "interpreters": [v["tag"] for v in VARIANTS]})
    for f in fails:
        d = recs[f["tid"]]
        wit = f["vars"].get("wit", {})
        wit = wit if isinstance(wit, dict) else {}
        for sig in _netlist_sigs(f["clause"], wit):
            what = {"DeclUnique": "declared more than once: %s" % sorted(wit.get("dup", [])),
                    "TableInjective": "ns.get_name gave one name to several objects: %s" % sorted(wit.get("tcollide", [])),
                    "DeclLegalSyntax": "illegal identifiers: %s" % sorted(wit.get("syntax", [])),
                    "DeclNotReserved": "keywords declared as identifiers: %s" % sorted(wit.get("reserved", [])),
                    "EveryObjectDeclared": "named but never declared: %s" % sorted(wit.get("undeclared", [])),
                    "UsedIsDeclared": "used in statements but never declared: %s" % sorted(wit.get("undeclareduse", [])),
                    "Reproducible": "texts differ between interpreter runs %s" % sorted(wit.get("unrepro", [])),
                    "OffsetReproducible": "texts differ between interpreter runs %s that differ only in how many unrelated "
                                          "Signals were created before the design (DUID offset)" % sorted(wit.get("unreprooff", []))
                    }[f["clause"]]
            replay = {"kind": "design", "label": d["label"], "input": inputs[f["tid"]], "source": sources[f["tid"]],
                      "clause": f["clause"], "witness": {k: sorted(v, key=repr) if isinstance(v, (set, frozenset)) else v
                                                         for k, v in wit.items()}}
            coll.add(sig, len(sources[f["tid"]]), replay, "%s: design %s, %s" % (f["clause"], d["label"], what))
    for d in recs[:2] + recs[-1:]:
        x = next(x for x in d["runs"] if x["ok"])
        report.sample({"design": d["label"], "interpreter": x["tag"], "declared": [n for _, n in x["decls"]][:24]}, cap=10)
    kinds = {}
    for d in recs:
        for x in d["runs"]:
            for k, _ in x["decls"]:
                kinds[k] = kinds.get(k, 0) + 1
    report.add(e2e_decl_kinds=kinds)
    for k in ("port", "net", "memory", "instance"):
        if not kinds.get(k):
            raise MachineryError("vacuity: no %s declaration was judged" % k)
    # witnesses of the audit extensions
    xw = {"designs_with_attribute_sets": sum(1 for i in inputs if i.get("attrs")),
          "designs_with_attr_translate": sum(1 for i in inputs if i.get("xlate")),
          "emitted_lines_with_two_or_more_attributes": sum(x["multiattr"] for d in recs for x in d["runs"]),
          "designs_judged_under_duid_offset": sum(1 for d in recs if any(x["ok"] and x["off"] for x in d["runs"])
                                                  and any(x["ok"] and not x["off"] and x["grp"] == 1 for x in d["runs"])),
          "designs_under_duid_offset_with_equal_bases": sum(
              1 for d in recs if any(x["ok"] and x["off"] and len({r[1] for r in x["table"] if r[1]}) < len([r for r in x["table"] if r[1]])
                                     for x in d["runs"]))}
    report.add(e2e_extension_witnesses=xw)
    for k, v in xw.items():
        if v == 0:
            raise MachineryError("vacuity: witness %s is zero" % k)


# ------------------------------------------------------------------------------------------ entry points
def _merge_notes_findings(report):
    """findings of this family recorded in notes/C02_findings.json but not (yet) merged into known_findings.json by the
    main agent are matched, too (entries already present there, by id, keep the status they have there)"""
    path = os.path.join(fam.ROOT, "notes", "C02_findings.json")
    try:
        with open(path) as f:
            extra = json.load(f)
    except (OSError, ValueError):
        return
    have = {f.get("id") for f in report.findings}
    for e in extra:
        if e.get("property") == report.prop and e.get("id") not in have:
            report.findings.append(e)


def run(prop, report, tier, seed):
    scratch = _scratch()
    pool = fam.make_pool()          # forked before any thread exists
    try:
        implpath = os.path.join(scratch, "impl_reserved.json")
        with open(implpath, "w") as f:
            json.dump(sorted(fam.impl_reserved()), f)
        report.assume("back-traces have at least one step; names chosen by the user (attribute names, name_override) are "
                      "ASCII Python identifiers, keywords of the standard included (migen rejects anything else)")
        report.assume("a request the implementation answers by raising is not judged (nothing was generated); "
                      "more than half of the runs raising is a machinery error")
        report.assume("Reserved = IEEE 1800-2017 Annex B (248 keywords), transcribed in specs/namer/VerilogLex.tla")
        _merge_notes_findings(report)
        coll = _Collector(report)
        design = rt_mode(report, coll, tier, seed, implpath, scratch, pool)
        m_mode(report, coll, tier, implpath, design)
        e2e_mode(report, coll, tier, seed, scratch)
        nsig = coll.flush()
        report.add(distinct_rejection_signatures=nsig, clauses=NAMER_CLAUSES + NETLIST_CLAUSES)
    finally:
        pool.terminate()
        pool.join()
        shutil.rmtree(scratch, ignore_errors=True)


def replay(path):
    """./check C02 --replay P : re-execute the recorded input on the real code and judge it again"""
    with open(path) as f:
        rp = json.load(f)
    scratch = _scratch()
    try:
        if rp.get("kind") == "namer_case":
            implpath = os.path.join(scratch, "impl_reserved.json")
            with open(implpath, "w") as f:
                json.dump(sorted(fam.impl_reserved()), f)
            traces = fam.run_jobs([(rp["case"], rp["run"], rp["variant"])])
            fails, _, _ = judge_traces(traces, implpath)
        else:
            recs = _design_records([rp["source"]], [rp.get("label", "replay")], scratch)
            fails, _ = judge_designs(recs)
        fails = [f for f in fails if f["clause"] not in L2_CLAUSES]
        return any(f["clause"] == rp["clause"] for f in fails), fails
    finally:
        shutil.rmtree(scratch, ignore_errors=True)
