"""C18: ECC (SECDED) corrects every single-bit error and flags every double-bit error.

TLC prints the plan (which data widths a tier covers and how: specs/secded/Secded.tla, Plan), the
harness evaluates the cases on the REAL combinational ECCEncoder / ECCDecoder netlists with the FHDL
stepper (16 processes), and TLC judges every recorded case (clauses of Secded.tla) together with the
coverage and well-formedness of what was recorded.
"""
import json
import multiprocessing as mp
import os
import random
import shutil
import tempfile
import time

from .. import tlc as tlcmod
from ..report import MachineryError
from ..families import secded as fam

MODULE = "secded/Secded"
CLAUSES = ["NoErrorClean", "SingleCorrected", "SingleFlagged", "DoubleDetected", "DisabledPassThrough",
           "DisabledWiring", "DisabledSameWires", "EncoderAffine", "Coverage"]
ENVCLAUSES = ["EnvLegal"]
CHUNK_RUNS = 120000          # recorded cases per TLC invocation
TASK_RUNS = 250              # decoder evaluations per pool task


def _scratch():
    return tempfile.mkdtemp(prefix="verif-c18-", dir=os.environ.get("VERIF_SCRATCH", "/var/tmp"))


def _cfg(invs, init="Init", nxt="Next"):
    return "INIT %s\nNEXT %s\nCHECK_DEADLOCK FALSE\n" % (init, nxt) + "".join("INVARIANT %s\n" % i for i in invs)


def initial_violations(out):
    """TLC prints an invariant violated by an *initial* state without a numbered trace; harness/tlc.py
    only collects numbered traces.  -> list of (invariant name, variables of the state)"""
    import re
    res = []
    for m in re.finditer(r"(?m)^Error: Invariant (\w+) is violated by the initial state:\n((?:.+\n)+)", out):
        vs = {}
        for part in re.split(r"(?m)^/\\ ", m.group(2)):
            part = part.strip()
            if not part:
                continue
            k, _, val = part.partition(" = ")
            try:
                vs[k.strip()] = tlcmod.parse_value(val.strip())
            except Exception:
                vs[k.strip()] = val.strip()
        res.append((m.group(1), vs))
    return res


def tlc_plan(tier, scratch):
    empty = os.path.join(scratch, "empty.json")
    with open(empty, "w") as f:
        f.write("[]")
    res = tlcmod.run(MODULE, _cfg([], "PlanInit", "PlanNext"), env={"SECDED_TIER": tier, "TRACES": empty},
                     workers=1, timeout=300, scratch=scratch)
    if res.errors or res.violated:
        raise MachineryError("TLC failed on the plan: " + " | ".join(res.errors[:4]) + res.out[-1500:])
    plan = sorted({(int(t[1]), t[2]) for t in tlcmod.print_lines(res.out, "PLAN")})
    if not plan:
        raise MachineryError("TLC printed an empty plan")
    return plan


def judge(groups, clauses, scratch, timeout=2400):
    """one TLC run over a list of groups -> (failure or None, stats).  failure = dict(tid, l, clause)"""
    path = os.path.join(scratch, "cases%d.json" % (time.time_ns() % 10**9))
    with open(path, "w") as f:
        json.dump(groups, f, separators=(",", ":"))
    try:
        res = tlcmod.run(MODULE, _cfg(ENVCLAUSES + list(clauses)), env={"TRACES": path, "SECDED_TIER": "none"},
                         workers=4, timeout=timeout, scratch=scratch, heap="12g")
    finally:
        os.unlink(path)
    if res.errors:
        raise MachineryError("TLC failed while judging: " + " | ".join(res.errors[:6]) + "\n" + res.out[-2000:])
    st = {"states": res.distinct, "transitions": res.generated, "wall": res.wall}
    if res.violated:
        iv = initial_violations(res.out)
        if not iv or not isinstance(iv[0][1].get("tid"), int):
            raise MachineryError("TLC reported a violation of %s but no state could be parsed" % res.violated)
        name, v = iv[0]
        if name in ENVCLAUSES:
            g = groups[v["tid"] - 1]
            raise MachineryError("recorded group is not what it claims to be (EnvLegal): k=%s mode=%s data=%s"
                                 % (g.get("k"), g.get("mode"), g.get("data")))
        return {"tid": v["tid"] - 1, "l": v["l"], "clause": name}, st
    expect = sum(len(g.get("runs", ())) + 1 for g in groups)
    if res.distinct != expect:
        raise MachineryError("judge consumed %d states, expected %d" % (res.distinct, expect))
    return None, st


def set_refs(groups):
    """every enable=0 group names (1-based index into this TLC run's group list) the first enable=0 group
    of its width that holds all single flips; Secded.tla checks the reference (EnvLegal) and judges the
    group's outputs against the wires read off it (DisabledSameWires)"""
    first = {}
    for i, g in enumerate(groups):
        if g.get("en") == 0 and g["mode"] in ("all01", "all012") and g["k"] not in first:
            first[g["k"]] = i + 1
    for g in groups:
        if "runs" in g:
            g["ref"] = first.get(g["k"], 0) if g["en"] == 0 else 0
    return groups


def _describe(g, run):
    return "ECC k=%d (code word %d bits) data=%s enable=%d flipped bits %s -> o=%s sec=%d ded=%d" % (
        g["k"], g["w"], _hexw(g["data"]), g["en"], run[0], _hexw(run[1]), run[2], run[3])


def _hexw(pos):
    return "0x%x" % fam.word(pos)


def _confirm_and_report(report, groups, fail):
    g = groups[fail["tid"]]
    clause = fail["clause"]
    if clause == "Coverage":
        raise MachineryError("the recorded cases do not cover what Secded.tla demands for k=%d (%s)" % (g["k"], g.get("cls")))
    if clause == "DisabledWiring":
        # a verdict on a whole enable=0 group (l = 1): all its single flips are re-evaluated
        k, data = g["k"], fam.word(g["data"])
        singles = [r for r in g["runs"] if len(r[0]) == 1]
        cw, runs = fam.eval_runs((k, data, 0, [tuple(r[0]) for r in singles], "ref"))
        fam._ST.pop((k, "ref"), None)
        if runs != singles:
            raise MachineryError("DisabledWiring counterexample not reproduced by the reference evaluator (k=%d)" % k)
        hit = [r[0][0] for r in singles if r[1] != g["data"]]
        report.violation({"k": k, "clause": clause, "en": 0, "data": g["data"]},
                         {"kind": "wiring", "k": k, "data": g["data"], "en": 0, "clause": clause},
                         "DisabledWiring violated: ECCDecoder(%d) enable=0 data=%s: flipping one code word bit changes "
                         "the output for %d of the %d positions (%s...), expected: for exactly k=%d positions, each "
                         "a different output bit" % (k, _hexw(g["data"]), len(hit), g["w"], hit[:12], k))
        return
    if clause == "EncoderAffine":
        a, b = fam.word(g["a"]), fam.word(g["b"])
        k = g["k"]
        ref = [fam.encode(k, x, "ref") for x in (a, b, a ^ b, 0)]
        if [fam.ones(x) for x in ref] != [g["ea"], g["eb"], g["ec"], g["e0"]]:
            raise MachineryError("EncoderAffine counterexample not reproduced by the reference evaluator")
        report.violation({"k": k, "clause": clause, "a": g["a"], "b": g["b"]},
                         {"kind": "lin", "k": k, "a": g["a"], "b": g["b"], "clause": clause},
                         "EncoderAffine: ECCEncoder(%d): E(a^b) != E(a)^E(b)^E(0) for a=%s b=%s" % (k, _hexw(g["a"]), _hexw(g["b"])))
        return
    run = g["runs"][fail["l"] - 2]
    # confirmation: the same case on fresh netlists with the repository's reference evaluator
    cw, runs = fam.eval_runs((g["k"], fam.word(g["data"]), g["en"], [tuple(run[0])], "ref"))
    fam._ST.pop((g["k"], "ref"), None)
    if runs[0] != run or fam.ones(cw) != g["cw"]:
        raise MachineryError("case not reproduced by the reference evaluator: " + _describe(g, run))
    sig = {"k": g["k"], "clause": clause, "en": g["en"], "data": g["data"], "flips": run[0]}
    rep = {"kind": "case", "k": g["k"], "data": g["data"], "en": g["en"], "flips": run[0],
           "observed": run, "clause": clause}
    if g["en"] == 0 and g.get("ref"):
        rep["ref_data"] = groups[g["ref"] - 1]["data"]
    report.violation(sig, rep,
                     "%s violated: %s" % (clause, _describe(g, run)))


def _pool():
    ctx = mp.get_context("fork")
    return ctx.Pool(min(16, os.cpu_count() or 4))


def record(plan, tier, seed, report, log=print):
    """-> dict k -> list of groups (incl. lin and summary pseudo groups)"""
    rnd = random.Random(seed * 65537 + 18)
    t0 = time.time()
    pool = _pool()
    try:
        widths = dict(zip([k for k, _ in plan], pool.map(fam.width, [k for k, _ in plan], chunksize=1)))
        jobs = []        # (gid, job)
        groups = []      # gid -> group under construction
        lin_jobs = []
        xjobs = []
        bykey = {}
        for k, cls in plan:
            w = widths[k]
            G, lin = fam.plan_groups(k, cls, tier, rnd)
            for data, en, mode, flips in G:
                if flips is None:
                    flips = fam.flip_sets(w, mode)
                gid = len(groups)
                groups.append({"k": k, "w": w, "data": fam.ones(data), "en": en, "mode": mode, "cw": None, "runs": [],
                               "ref": 0, "_parts": {}})
                if flips == "cwones":          # mode "unit": the driver reads the flip sets off the code word
                    jobs.append((gid, 0, (k, data, en, flips, "compiled")))
                    continue
                for c in range(0, len(flips), TASK_RUNS):
                    jobs.append((gid, c, (k, data, en, flips[c:c + TASK_RUNS], "compiled")))
            if lin:
                lin_jobs.append((k, lin))
            # compiled-vs-reference cross-check cases (cheap for small k, a few for big k)
            x = rnd.getrandbits(k)
            fl = [(1, ()), (1, (rnd.randrange(w),)), (1, tuple(sorted(rnd.sample(range(w), 2)))), (0, (rnd.randrange(w),))]
            xjobs.append((k, x, fl if k <= 64 or tier == "thorough" or k in (64, 128) else fl[:2]))
        # biggest tasks first
        jobs.sort(key=lambda j: -j[2][0])
        res_iter = pool.imap_unordered(_run_job, jobs, chunksize=1)
        nruns = 0
        for gid, c, cw, runs in res_iter:
            g = groups[gid]
            g["_parts"][c] = runs
            cwl = fam.ones(cw)
            if g["cw"] is not None and g["cw"] != cwl:
                raise MachineryError("encoder not deterministic?")
            g["cw"] = cwl
            nruns += len(runs)
        for g in groups:
            for c in sorted(g["_parts"]):
                g["runs"].extend(g["_parts"][c])
            del g["_parts"]
        lins = []
        for (k, lin), outs in zip(lin_jobs, pool.map(_lin_job, lin_jobs, chunksize=1)):
            for (a, b), (ea, eb, ec, e0) in zip(lin, outs):
                lins.append({"k": k, "mode": "lin", "a": fam.ones(a), "b": fam.ones(b), "c": fam.ones(a ^ b),
                             "ea": fam.ones(ea), "eb": fam.ones(eb), "ec": fam.ones(ec), "e0": fam.ones(e0)})
        nx = sum(pool.imap_unordered(fam.crosscheck_job, xjobs, chunksize=1))
    finally:
        pool.terminate()
    report.add(reference_evaluator_crosschecks=nx, netlist_evaluations=nruns + 4 * len(lins),
               record_wall_s=round(time.time() - t0, 1))
    by_k = {}
    for g in groups + lins:
        by_k.setdefault(g["k"], []).append(g)
    for k, cls in plan:
        by_k[k].append({"k": k, "mode": "summary", "cls": cls})
    log("recorded %d decoder cases for %d widths in %.1fs" % (nruns, len(plan), time.time() - t0))
    return by_k, widths


def _run_job(j):
    gid, c, job = j
    cw, runs = fam.eval_runs(job)
    return gid, c, cw, runs


def _lin_job(j):
    k, lin = j
    out = []
    for a, b in lin:
        out.append(tuple(fam.eval_enc((k, [a, b, a ^ b, 0]))))
    return out


def run(prop, report, tier, seed, log=print):
    scratch = _scratch()
    try:
        report.assume("FHDL netlist semantics = litex/gen/sim/core.py (compiled stepper cross-checked against it)")
        report.assume("bit 0 of the code word is the overall parity bit (ECCEncoder.o = Cat(parity, codeword)); "
                      "every other position is a data or check bit")
        report.assume("k > 32 (quick: k > 6 partly): all data words are covered through the GF(2)-linearity argument "
                      "in Secded.tla (all flip sets on data 0, unit vectors incl. a single flip that shows their even "
                      "overall parity and a flip of each of their 1 bits, affine encoder), the linear structure "
                      "itself only probed on random data words")
        report.assume("enable = 0: 'pass through' is read as wiring - every output bit is one fixed code word bit, the "
                      "same for every data word (DisabledWiring, DisabledSameWires)")
        plan = tlc_plan(tier, scratch)
        by_k, widths = record(plan, tier, seed, report, log)
        report.add(widths_covered=len(plan), plan={"small": [k for k, c in plan if c == "small"],
                                                  "mid": [k for k, c in plan if c == "mid"],
                                                  "big": [k for k, c in plan if c == "big"]},
                   code_word_widths={str(k): widths[k] for k, _ in plan if k in (1, 4, 8, 11, 12, 26, 27, 32, 57, 58, 64, 120, 121, 128)})
        # chunks of whole widths
        chunks, cur, n = [], [], 0
        for k, _ in plan:
            sz = sum(len(g.get("runs", ())) + 1 for g in by_k[k])
            if cur and n + sz > CHUNK_RUNS:
                chunks.append(cur)
                cur, n = [], 0
            cur.extend(by_k[k])
            n += sz
        if cur:
            chunks.append(cur)
        shown = 0
        for ci, groups in enumerate(chunks):
            set_refs(groups)
            fail, st = judge(groups, CLAUSES, scratch)
            log("judge chunk %d/%d: %d groups, %d states, TLC %.1fs%s" % (
                ci + 1, len(chunks), len(groups), st["states"], st["wall"], " -> %s" % fail["clause"] if fail else ""))
            report.add(states=st["states"], transitions=st["transitions"])
            if fail is None:
                ncase = sum(len(g.get("runs", ())) for g in groups)
                report.add(traces_validated_against_impl=ncase)
                for g in groups:
                    if shown < 4 and g.get("runs") and g["k"] in (4, 16, 64, 128) and g["mode"] in ("all012", "sample") and g["en"] == 1:
                        r = g["runs"][len(g["runs"]) // 2]
                        report.sample({"k": g["k"], "data": _hexw(g["data"]), "code_word": _hexw(g["cw"]), "flipped": r[0],
                                       "o": _hexw(r[1]), "sec": r[2], "ded": r[3]})
                        shown += 1
                continue
            # one failing case per clause of this chunk (TLC stops at the first one it meets)
            # (Coverage last: a broken encoder may also make the demanded cases unreachable, e.g. a
            # parity bit that is never 1 - the property clauses are judged and reported first)
            fails = [] if fail["clause"] == "Coverage" else [fail]
            for c in CLAUSES:
                if c == fail["clause"] or c == "Coverage":
                    continue
                f2, st2 = judge(groups, [c], scratch)
                report.add(states=st2["states"], transitions=st2["transitions"])
                if f2 is not None:
                    fails.append(f2)
            for f in fails:
                _confirm_and_report(report, groups, f)
            if not fails:
                _confirm_and_report(report, groups, fail)      # Coverage alone: machinery error
            break       # a broken code fails everywhere: the remaining widths add nothing
        report.cov["exhaustive"] = True
    finally:
        shutil.rmtree(scratch, ignore_errors=True)


def replay(path):
    """re-evaluate a recorded failing case on the current code and let TLC judge it again"""
    with open(path) as f:
        r = json.load(f)
    scratch = _scratch()
    try:
        k = r["k"]
        if r["kind"] == "lin":
            a, b = fam.word(r["a"]), fam.word(r["b"])
            e = [fam.ones(fam.encode(k, x, "ref")) for x in (a, b, a ^ b, 0)]
            groups = [{"k": k, "mode": "lin", "a": r["a"], "b": r["b"], "c": fam.ones(a ^ b),
                       "ea": e[0], "eb": e[1], "ec": e[2], "e0": e[3]}]
        elif r["kind"] == "wiring":
            w = fam.width(k)
            cw, runs = fam.eval_runs((k, fam.word(r["data"]), 0, fam.flip_sets(w, "all01"), "ref"))
            groups = [{"k": k, "w": w, "data": r["data"], "en": 0, "mode": "all01", "cw": fam.ones(cw), "runs": runs}]
        else:
            w = fam.width(k)
            groups = []
            if r["en"] == 0:
                # the group the wires are read off (DisabledSameWires)
                cw, runs = fam.eval_runs((k, fam.word(r.get("ref_data", [])), 0, fam.flip_sets(w, "all01"), "ref"))
                groups.append({"k": k, "w": w, "data": r.get("ref_data", []), "en": 0, "mode": "all01",
                               "cw": fam.ones(cw), "runs": runs})
            cw, runs = fam.eval_runs((k, fam.word(r["data"]), r["en"], [tuple(r["flips"])], "ref"))
            groups.append({"k": k, "w": w, "data": r["data"], "en": r["en"], "mode": "sample",
                           "cw": fam.ones(cw), "runs": runs})
        set_refs(groups)
        try:
            fail, _ = judge(groups, [r["clause"]], scratch)
        except MachineryError as ex:
            return False, [{"clause": "case no longer well-formed on this code: %s" % ex}]
        return fail is not None, ([fail] if fail else [])
    finally:
        shutil.rmtree(scratch, ignore_errors=True)
