"""C01: generated Verilog behaves exactly like the simulated FHDL design (family `vlog`).

 Layer 1  expressions   R  specs/vlog/ExprSpace.tla   TLC enumerates / samples the expression ASTs (17 operators,
                                                      slices, Cat, Replicate; two variables) and prints the plan of
                                                      shapes, targets and positions;
                        T  specs/vlog/ExprJudge.tla   clause ExprEquivalent: the Verilog the real back end printed for
                                                      the expression in its position, evaluated under
                                                      specs/vlog/VerilogSem.tla (IEEE 1364-2005), stores the bits the
                                                      real reference simulator stored - for every valuation.
 Layer 2  statements    T  specs/vlog/VlogTrace.tla   clause StepEq: seeded FHDL fragments (comb + sync, If/Case/Array,
          and processes                               slices and Cat on the left, 1-2 clock domains, resets) converted
                                                      by the real convert(), simulated by the real Simulator; VerilogSem
                                                      steps the parsed text through the recorded input sequence.
 Layer 3  memories and  T  same clauses               the memory template of litex/gen/fhdl/memory.py (every port mode,
          real cores                                  granularity, init; clause ImageLegal for the $readmemh data file)
                                                      and a corpus of real LiteX blocks at small parameters.
 VlogTrace.tla also carries the structural clause SingleDriver (no variable is assigned by two processes).
Mismatches are classified by TLC (hypotheses of VerilogSem, see ExprJudge.tla / the hypothesis chain of VlogTrace.tla);
every distinct classification is one signature, reported once with its smallest input.  The verdict is always given by the
plain IEEE reading; a hypothesis only names the cause of an established mismatch.
"""
import json
import multiprocessing as mp
import os
import random
import re
import shutil
import tempfile
import threading
import time
from concurrent.futures import ThreadPoolExecutor

from .. import tlc
from ..report import MachineryError
from ..families import vlog as fam

NPROC = 12                       # concurrent single-worker TLC processes (TLC evaluates initial states on one thread)
CHUNK_COST = 90000               # judged (target, valuation) pairs per TLC process, fragments weighted
ALL_POS = ("rhs", "if", "case", "index", "cmp")

L1 = {   # per tier: sampled ASTs (depth 2 / depth 3), shape pairs per sampled two-variable AST, full depth-2 space
    "quick":    {"s2": 700, "s3": 300, "kshapes": 3, "d2": False, "kd2": 0, "klower": 2},
    "thorough": {"s2": 3000, "s3": 3000, "kshapes": 3, "d2": True, "kd2": 2, "klower": 27},
}


def _tlc(*a, **kw):
    r = tlc.run(*a, **kw)
    if any("TLC exit code 143" in e or "TLC exit code 137" in e for e in r.errors):
        r = tlc.run(*a, **kw)
    return r


def _scratch():
    return tempfile.mkdtemp(prefix="verif-c01-", dir=os.environ.get("VERIF_SCRATCH", "/var/tmp"))


def _norm(out):
    return re.sub(r'<<\s+"', '<<"', out)


def _pool(n=16):
    return mp.get_context("fork").Pool(min(n, os.cpu_count() or 4))


class _Deferred:
    """stands in for the Report and the Collector in the side thread: records the calls, replays them later"""

    def __init__(self):
        self.calls = []

    def add(self, *a, **kw):
        # Collector.add has positional arguments, Report.add only keywords
        self.calls.append(("coll.add" if a else "report.add", a, kw))

    def sample(self, *a, **kw):
        self.calls.append(("report.sample", a, kw))

    def note(self, *a, **kw):
        self.calls.append(("report.note", a, kw))

    def assume(self, *a, **kw):
        self.calls.append(("report.assume", a, kw))

    def log(self, *a, **kw):
        self.calls.append(("log", a, kw))

    def replay(self, report, coll, log):
        for name, a, kw in self.calls:
            if name == "log":
                log(*a, **kw)
            elif name == "coll.add":
                coll.add(*a, **kw)
            else:
                getattr(report, name.split(".")[1])(*a, **kw)


# ------------------------------------------------------------------------------------------ collector
class Collector:
    """keeps, per distinct signature, the smallest rejected input; reports each once"""

    def __init__(self, report):
        self.report = report
        self.best = {}

    def add(self, sig, size, replay, text, count=1):
        key = json.dumps(sig, sort_keys=True)
        cur = self.best.get(key)
        if cur is None:
            self.best[key] = [size, sig, replay, text, count]
        else:
            cur[4] += count
            if size < cur[0]:
                cur[0:4] = [size, sig, replay, text]

    def flush(self, cap=6):
        shown, hidden = {}, 0
        classes = []
        for key in sorted(self.best):
            size, sig, replay, text, count = self.best[key]
            classes.append({"signature": sig, "mismatching_cases": count, "smallest": text})
            grp = sig.get("layer")
            if self.report.match_known(sig) is None:
                if shown.get(grp, 0) >= cap:
                    hidden += 1
                    continue
                shown[grp] = shown.get(grp, 0) + 1
            replay = dict(replay)
            replay["mismatching_cases_with_this_signature"] = count
            self.report.violation(sig, replay, "%s (%d mismatching case(s) with this signature)" % (text, count))
        if hidden:
            self.report.note("%d further distinct signatures not written out (cap %d per layer)" % (hidden, cap))
        self.report.add(mismatch_classes=classes)
        n = len(self.best)
        self.best = {}
        return n


# ------------------------------------------------------------------------------------------ layer 1
def enum_space(part, scratch, depth=3, rnd=None):
    cfg = ('INIT Init\nNEXT Next\nCHECK_DEADLOCK FALSE\nCONSTANT Part = "%s"\nCONSTANT Depth = %d\nINVARIANT InSpace\n'
           % (part, depth))
    env = {"RND": rnd} if rnd else {}
    r = _tlc("vlog/ExprSpace", cfg, workers=1, timeout=1200, env=env, scratch=scratch, heap="4g")
    if r.errors or r.violated:
        raise MachineryError("ExprSpace(%s) failed: %s %s\n%s" % (part, r.violated, " | ".join(r.errors[:5]), r.out[-800:]))
    out = _norm(r.out)
    if part == "plan":
        p = tlc.print_lines(out, "PLAN")
        if not p:
            raise MachineryError("ExprSpace printed no plan")
        return p[0][1], r
    lines = tlc.print_lines(out, "AST")
    asts = {}
    for _, n, t in lines:
        asts.setdefault((n, t), None)
    if part != "sample" and len({t for _, t in asts}) != r.distinct:
        raise MachineryError("ExprSpace(%s): %d ASTs parsed, TLC enumerated %d" % (part, len(asts), r.distinct))
    return sorted(asts, key=repr), r


def _entropy(seed, salt, n, width=40):
    rng = random.Random("%s/%s" % (seed, salt))
    return [[rng.randrange(1 << 15) for _ in range(width)] for _ in range(n)]


def check_plan(plan):
    """the constants of the driver are the ones the specification of the space declares"""
    def s(x):
        return sorted(tuple(y) if isinstance(y, (tuple, list)) else y for y in x)
    ok = (s(plan["varshapes"]) == s(fam.VARSHAPES) and s(plan["targets"]) == s(fam.TARGETS)
          and s(plan["positions"]) == s(ALL_POS) and s(plan["caselabels"]) == s(fam.CASE_LABELS)
          and list(plan["indexchoices"]) == list(fam.INDEX_CHOICES))
    if not ok:
        raise MachineryError("harness constants differ from the plan of ExprSpace.tla: %r" % (plan,))


def expr_sig(c):
    causes = sorted(c["causes"])
    bk = set(c.get("bk", ()))
    sig = {"layer": "expr"}
    for k in ("overflow", "neglit", "caselabel", "unexplained"):
        sig[k] = 1 if k in causes else 0
    # where the back end's belief about signedness was wrong (hypothesis `belief`)
    sig["signedsel"] = 1 if "sel" in bk else 0
    sig["cmpsign"] = 1 if "cmp" in bk else 0
    sig["shiftsign"] = 1 if "shift" in bk else 0
    sig["belief_other"] = 1 if ("belief" in causes and not (bk & {"sel", "cmp", "shift"})) else 0
    # 1: every promotion hypothesis `belief` adds / removes sits at an operand the back end's own rule takes for signed
    sig["believed"] = 0 if "unbelieved" in bk else 1
    sig.update(producer=c["producer"], consumer=c["consumer"], rel=c["rel"], mf=c["mf"])
    return sig


def _fix_lex(e):
    if isinstance(e, dict):
        e = dict(e)
        if e.get("k") == "num":
            e["t"] = str(e["v"])
            e.setdefault("b", "d")
        if e.get("k") == "int":
            e["t"] = str(e["v"])
        return {k: _fix_lex(v) for k, v in e.items()}
    if isinstance(e, list):
        return [_fix_lex(x) for x in e]
    return e


def group_text(g):
    from .. import verilog_parse as vp
    toks = []
    if g["kind"] == "rhs":
        vp.unparse_expr(_fix_lex(g["e"]), toks)
        return "<target> = " + " ".join(toks)
    for it in _fix_lex(g["items"]):
        if it["k"] == "assign":
            toks.append("assign")
            vp.unparse_expr(it["l"], toks)
            toks.append("=")
            vp.unparse_expr(it["r"], toks)
            toks.append(";")
        else:
            toks.extend(["always", "@(*)", "begin"])
            for s in it["b"]:
                vp.unparse_stmt(s, toks)
            toks.append("end")
    return " ".join(toks)


def _cost(g):
    return (len(g["tg"]) if g["kind"] == "rhs" else 14) * len(g["envs"])


def judge_exprs(groups, scratch, timeout=1500):
    """one TLC process over a list of recorded groups -> (mismatches [(group index, [witness ...])], stats)"""
    path = os.path.join(scratch, "cases%d.json" % (time.time_ns() % 10**10))
    with open(path, "w") as f:
        json.dump(groups, f, separators=(",", ":"))
    cfg = "INIT Init\nNEXT Next\nCHECK_DEADLOCK FALSE\nINVARIANT EnvLegal\nINVARIANT ExprEquivalent\n"
    try:
        r = _tlc("vlog/ExprJudge", cfg, env={"TRACES": path}, workers=1, timeout=timeout, extra=("-continue",),
                 heap="3g", scratch=scratch)
    finally:
        os.unlink(path)
    if r.errors:
        raise MachineryError("TLC failed on ExprJudge: %s\n%s" % (" | ".join(r.errors[:6]), r.out[-1500:]))
    if "Invariant EnvLegal is violated" in r.out:
        raise MachineryError("a recorded expression case is not a legal recording (EnvLegal)")
    if r.distinct != len(groups):
        raise MachineryError("ExprJudge judged %d records, expected %d" % (r.distinct, len(groups)))
    mm = []
    for _, tid, wits in tlc.print_lines(_norm(r.out), "MISMATCH"):
        ws = []
        for w in wits:
            c = dict(w[0]) if isinstance(w[0], tuple) else w[0]
            ws.append((c, tuple(w[1]), w[2]))
        mm.append((tid - 1, ws))
    nviol = len(re.findall(r"Invariant ExprEquivalent is violated", r.out))
    if nviol != len(mm):
        raise MachineryError("ExprJudge: %d violations reported, %d witnesses parsed" % (nviol, len(mm)))
    pairs = sum((len(g["tg"]) if g["kind"] == "rhs" else 1) * len(g["envs"]) for g in groups)
    return mm, {"states": r.distinct, "transitions": r.generated, "wall": r.wall, "pairs": pairs}


def _shape_pairs(rng, k):
    allp = [(a, b) for a in fam.VARSHAPES for b in fam.VARSHAPES]
    return rng.sample(allp, k)


def plan_jobs(entries, chunk=60):
    """entries: (aid, ast, [(sa, sb, positions)]) -> jobs for fam.record_batch"""
    buckets = {}
    for aid, ast, uses in entries:
        two = 2 in fam.ast_vars(ast)
        for sa, sb, pos in uses:
            key = (tuple(sa), tuple(sb) if two else (1, 0), tuple(pos), two)
            buckets.setdefault(key, {})[aid] = ast
    jobs = []
    for (sa, sb, pos, two), d in sorted(buckets.items()):
        items = sorted(d.items())
        step = chunk if two else chunk * 4
        if len(pos) == 1:
            step *= 2
        for k in range(0, len(items), step):
            jobs.append((sa, sb, items[k:k + step], pos, two))
    return jobs


def layer1(report, tier, seed, scratch, coll, log=print):
    t0 = time.time()
    cfg = L1[tier]
    plan, _ = enum_space("plan", scratch)
    check_plan(plan)
    d1, r1 = enum_space("d1", scratch)
    spaces = {"depth1_all": len(d1)}
    asts = []            # aid -> ast
    entries = []
    allpairs = [(a, b) for a in fam.VARSHAPES for b in fam.VARSHAPES]

    def add(ast, uses):
        asts.append(ast)
        entries.append((len(asts) - 1, ast, uses))

    for _, t in d1:
        add(t, [(a, b, ALL_POS) for a, b in allpairs] if 2 in fam.ast_vars(t) else [(a, (1, 0), ALL_POS) for a in fam.VARSHAPES])
    seen = {t for _, t in d1}
    rng = random.Random("%s/c01-shapes" % seed)
    # the slice-lowering space: every unsigned shape pair (each element boundary is then crossed by 0, 1, 2 bits) plus a few
    # signed ones, as right-hand side
    lw, _ = enum_space("lower", scratch)
    upairs = [(a, b) for a, b in allpairs if not a[1] and not b[1]]
    spairs = [p for p in allpairs if p not in upairs]
    before = len(asts)
    for _, t in lw:
        if t in seen:
            continue
        seen.add(t)
        if 2 in fam.ast_vars(t):
            add(t, [(a, b, ("rhs",)) for a, b in upairs + rng.sample(spairs, cfg["klower"])])
        else:
            add(t, [(a, (1, 0), ("rhs",)) for a in fam.VARSHAPES])
    spaces["slice_lowering_all"] = len(asts) - before

    def add_sampled(t, k):
        if t in seen:
            return
        seen.add(t)
        if 2 in fam.ast_vars(t):
            ps = _shape_pairs(rng, k)
            add(t, [(a, b, ALL_POS if i == 0 else ("rhs",)) for i, (a, b) in enumerate(ps)])
        else:
            ss = rng.sample(fam.VARSHAPES, min(len(fam.VARSHAPES), k + 1))
            add(t, [(a, (1, 0), ALL_POS if i == 0 else ("rhs",)) for i, a in enumerate(ss)])

    if cfg["d2"]:
        d2, r2 = enum_space("d2", scratch)
        spaces["depth2_spine_all"] = len(d2)
        for _, t in d2:
            add_sampled(t, cfg["kd2"])
    for depth, n in ((2, cfg["s2"]), (3, cfg["s3"])):
        if not n:
            continue
        rp = os.path.join(scratch, "rnd%d.json" % depth)
        with open(rp, "w") as f:
            json.dump(_entropy(seed, "c01-ast-%d" % depth, n), f)
        smp, _ = enum_space("sample", scratch, depth=depth, rnd=rp)
        before = len(asts)
        for _, t in smp:
            add_sampled(t, cfg["kshapes"])
        spaces["depth%d_sampled" % depth] = len(asts) - before
    jobs = plan_jobs(entries)
    log("layer 1: %d ASTs (%s), %d recording jobs" % (len(asts), spaces, len(jobs)))

    stats = {"groups": 0, "pairs": 0, "states": 0, "transitions": 0, "evals": 0, "unannotated": 0, "tlc_wall": 0.0}
    skipped = {}
    classes = {}
    pool = _pool()
    ex = ThreadPoolExecutor(max_workers=NPROC)
    futures = []
    cur, cost = [], 0
    shape_of = {}

    def submit():
        nonlocal cur, cost
        if cur:
            futures.append((cur, ex.submit(judge_exprs, cur, scratch)))
            cur, cost = [], 0

    try:
        jobs.sort(key=lambda j: -len(j[2]) * (36 if j[4] else 6))
        for (sa, sb, items, pos, two), res in zip(jobs, pool.imap(fam.record_batch, jobs, chunksize=1)):
            for k, v in res["skipped"].items():
                skipped[k] = skipped.get(k, 0) + v
            stats["evals"] += res["evals"]
            stats["unannotated"] += res["unannotated"]
            for g in res["groups"]:
                g["sa"], g["sb"] = list(sa), list(sb)
                cur.append(g)
                cost += _cost(g)
                if cost >= CHUNK_COST:
                    submit()
        submit()
        pool.close()
        for groups, fu in futures:
            mm, st = fu.result()
            stats["groups"] += len(groups)
            for k in ("pairs", "states", "transitions"):
                stats[k] += st[k]
            stats["tlc_wall"] += st["wall"]
            for gi, ws in mm:
                g = groups[gi]
                ast = asts[g["aid"]]
                for c, (j, i), n in ws:
                    if "diverges" in c["causes"]:
                        raise MachineryError("combinational fragment does not settle under VerilogSem: " + group_text(g))
                    sig = expr_sig(c)
                    tgt = g["tg"][j - 1] if g["kind"] == "rhs" else {"w": g["D"][g["t"]]["w"], "s": g["D"][g["t"]]["s"],
                                                                      "rec": g["rec"]}
                    text = ("ExprEquivalent: %s in position %s with a=%s%s, inputs %s: simulator stores %d in the %d-bit "
                            "%s target, the emitted Verilog `%s` does not" % (
                                fam.ast_text(ast), g["pos"], _shape(g["sa"]),
                                (", b=%s" % _shape(g["sb"])) if len(g["ins"]) == 2 else "", g["envs"][i - 1],
                                tgt["rec"][i - 1], tgt["w"], "signed" if tgt["s"] else "unsigned", group_text(g)[:300]))
                    replay = {"kind": "expr", "ast": ast, "sa": g["sa"], "sb": g["sb"], "pos": g["pos"],
                              "twovar": len(g["ins"]) == 2, "env": g["envs"][i - 1], "target": [tgt["w"], tgt["s"]],
                              "simulator_value": tgt["rec"][i - 1], "verilog": group_text(g), "clause": "ExprEquivalent"}
                    coll.add(sig, fam.ast_size(ast) * 100 + g["sa"][0] + g["sb"][0], replay, text, n)
                    ck = "+".join(sorted(c["causes"]))
                    classes[ck] = classes.get(ck, 0) + n
    finally:
        pool.terminate()
        ex.shutdown(wait=False, cancel_futures=True)
    report.add(states=stats["states"], transitions=stats["transitions"], traces_validated_against_impl=stats["pairs"])
    report.add(layer1={"asts": len(asts), "spaces": spaces, "recorded_groups": stats["groups"],
                       "judged_target_valuation_pairs": stats["pairs"], "simulator_evaluations": stats["evals"],
                       "skipped_ast_shape_combinations": skipped, "fragments_without_width_annotation": stats["unannotated"],
                       "mismatching_pairs_by_cause": classes, "tlc_cpu_s": round(stats["tlc_wall"], 1),
                       "wall_s": round(time.time() - t0, 1)})
    for aid in (len(d1) // 3, len(d1) // 2, len(asts) - 1):
        report.sample({"layer": 1, "ast": fam.ast_text(asts[aid])})
    log("layer 1: %d groups, %d (target, valuation) pairs judged, %d mismatching pairs in %d classes, %.1fs" % (
        stats["groups"], stats["pairs"], sum(classes.values()), len(classes), time.time() - t0))


def _shape(s):
    return "%s%d" % ("s" if s[1] else "u", s[0])


# ------------------------------------------------------------------------------------------ layers 2 and 3 (T-mode)
TRACE_CLAUSES = ["SingleDriver", "ImageLegal", "StepEq"]


def judge_traces(traces, scratch, workers=8, timeout=1700):
    """VlogTrace.tla over recorded designs, every design as a plain chain (hyp 0) and, where it has port registers
    with a non-zero FHDL reset value, a hypothesis chain (hyp 1).  A rejected chain stops, so -continue names each
    rejected chain once.  -> (failures [dict(idx, clause, step, diff, cause)], stats)"""
    slim = [{k: t[k] for k in ("D", "items", "ini", "pini", "ins", "cmp", "v0", "ev")} for t in traces]
    cfg = "INIT Init\nNEXT Next\nCHECK_DEADLOCK FALSE\nINVARIANT EnvLegal\n" + "".join("INVARIANT %s\n" % c for c in TRACE_CLAUSES)
    path = os.path.join(scratch, "traces%d.json" % (time.time_ns() % 10**10))
    with open(path, "w") as f:
        json.dump(slim, f, separators=(",", ":"))
    try:
        r = _tlc("vlog/VlogTrace", cfg, env={"TRACES": path}, workers=workers, timeout=timeout, heap="8g", scratch=scratch,
                 extra=("-continue",))
    finally:
        os.unlink(path)
    if r.errors:
        raise MachineryError("TLC failed on VlogTrace: %s\n%s" % (" | ".join(r.errors[:6]), r.out[-1500:]))
    if "Invariant EnvLegal is violated" in r.out:
        raise MachineryError("a recorded design is not a legal recording or its combinational logic does not settle under "
                             "VerilogSem (EnvLegal)\n" + r.out[-1200:])
    rejected = {}
    for d in tlc.print_lines(_norm(r.out), "DIFF"):
        tid, hyp, step, diff = d[1], d[2], d[3], d[4]
        rejected[(tid - 1, hyp)] = (step, diff if isinstance(diff, dict) else dict(diff))
    nviol = len(re.findall(r"Invariant StepEq is violated", r.out))
    if nviol != len(rejected):
        raise MachineryError("VlogTrace: %d violations reported, %d rejected chains parsed" % (nviol, len(rejected)))
    multi = {}
    for d in tlc.print_lines(_norm(r.out), "MULTI"):
        multi[d[1] - 1] = sorted(d[2])
    if len(re.findall(r"Invariant SingleDriver is violated", r.out)) != len(multi):
        raise MachineryError("VlogTrace: SingleDriver violations and witnesses differ")
    expect = 0
    for i, t in enumerate(slim):
        for h in ((0, 1) if t["pini"] else (0,)):
            expect += (rejected[(i, h)][0] + 1) if (i, h) in rejected else len(t["ev"]) + 1
    if r.distinct != expect:
        raise MachineryError("VlogTrace consumed %d states, expected %d (a chain stopped early)" % (r.distinct, expect))
    fails = []
    for d in tlc.print_lines(_norm(r.out), "IMAGE"):
        fails.append({"idx": d[1] - 1, "clause": "ImageLegal", "step": 0, "cause": "-", "hyp1": None,
                      "diff": {n: ("$readmemh image does not fit the memory", "-") for n in sorted(d[2])}})
    if len(re.findall(r"Invariant ImageLegal is violated", r.out)) != len(fails):
        raise MachineryError("VlogTrace: ImageLegal violations and witnesses differ")
    for i, names in sorted(multi.items()):
        fails.append({"idx": i, "clause": "SingleDriver", "step": 0, "diff": {n: ("driven by several processes", "-") for n in names},
                      "cause": "multi-driver", "hyp1": None})
    for (i, h), (step, diff) in sorted(rejected.items()):
        if h == 0:
            cause = "multi-driver" if i in multi else \
                "port-reg-init" if (slim[i]["pini"] and (i, 1) not in rejected) else \
                ("feat:" + traces[i]["memfeat"]) if traces[i].get("memfeat") else "-"
            fails.append({"idx": i, "clause": "StepEq", "step": step, "diff": diff, "cause": cause,
                          "hyp1": rejected.get((i, 1))})
    return fails, {"states": r.distinct, "transitions": r.generated, "wall": r.wall,
                   "hyp_chains": sum(1 for t in slim if t["pini"])}


L2 = {"quick": {"fragments": 150, "cycles": 28}, "thorough": {"fragments": 1500, "cycles": 36}}


def _module_text(v):
    a = v.find("module top")
    return re.sub(r"\n\s*\n+", "\n", re.sub(r"//[^\n]*", "", v[a:])) if a >= 0 else v


def report_trace_failures(report, coll, traces, fails, layer):
    for f in fails:
        t = traces[f["idx"]]
        names = sorted(f["diff"]) if isinstance(f["diff"], dict) else []
        shown = {n: {"verilog": f["diff"][n][0], "simulator": f["diff"][n][1]} for n in names[:6]}
        if f["cause"] != "-":
            sig = {"layer": layer, "clause": f["clause"], "cause": f["cause"]}
            if f["cause"] == "multi-driver":
                sig["regular_comb"] = t.get("regular_comb")
        else:
            sig = {"layer": layer, "clause": f["clause"], "cause": "-", "design": t.get("label"),
                   "regular_comb": t.get("regular_comb")}
            sig.update(t.get("sigextra", {}))
        if t.get("sigfamily"):
            sig["family"] = t["sigfamily"]
        replay = {"kind": "trace", "layer": layer, "factory": t.get("factory"), "clause": f["clause"], "step": f["step"],
                  "differs": shown, "verilog": _module_text(t.get("verilog", ""))}
        text = "%s: %s (regular_comb=%s): after tick %d the emitted Verilog and the simulator differ on %s" % (
            f["clause"], t.get("label"), t.get("regular_comb"), f["step"], shown)
        coll.add(sig, len(t.get("verilog", "")), replay, text)


def layer2(report, tier, seed, scratch, coll, log=print):
    t0 = time.time()
    cfg = L2[tier]
    # two of three designs with regular_comb=True; with regular_comb=False concatenated comb targets only in one of four
    # (they run into the multiple-driver finding at once and would leave the rest of that generator unexercised)
    # Arrays over elements of both signednesses (a finding of their own) in one of ten designs
    jobs = [("%s-%d" % (seed, k), cfg["cycles"], k % 3 != 2, k % 3 != 2 or k % 12 == 2, k % 10 == 7) for k in range(cfg["fragments"])]
    pool = _pool()
    try:
        traces = pool.map(fam.record_fragment, jobs, chunksize=4)
    finally:
        pool.terminate()
    skipped = [t for t in traces if "skip" in t]
    traces = [t for t in traces if "skip" not in t]
    traces.append(fam.record_mixed_array_probe(seed))
    for t, in zip(traces):
        t["factory"] = {"kind": "fragment", "seed": t["seed"], "cycles": cfg["cycles"], "regular_comb": t["regular_comb"],
                        "comb_cat": t["comb_cat"], "mixed_arr": t["mixed_arr"]}
        t["sigextra"] = {"seed": t["seed"]}
    traces[-1]["factory"] = {"kind": "mixed-array-probe", "seed": seed}
    # slices of a Cat on the LEFT (the lowerer's target context): every slice of up to 4 bits of 2 / 3 elements of 1-3 bits
    ljobs = [(w, m, seed, cfg["cycles"]) for w in fam.LOWER_LHS_WIDTHS for m in ("inside", "crossing")] + [((2, 3), "crossing-driven", seed, cfg["cycles"])]
    pool = _pool()
    try:
        lt = pool.map(fam.record_lower_lhs, ljobs, chunksize=1)
    finally:
        pool.terminate()
    for j, t in zip(ljobs, lt):
        if "skip" in t:
            raise MachineryError("slice-of-Cat target design %s not recordable: %s" % (j[:2], t["skip"]))
        t["factory"] = {"kind": "lower-lhs", "widths": list(j[0]), "mode": j[1], "seed": seed, "cycles": cfg["cycles"]}
        t["sigextra"] = {"widths": list(j[0])}
    nlower = len(lt)
    traces += lt
    trec = time.time() - t0
    fails, st = [], {"states": 0, "transitions": 0, "wall": 0.0, "hyp_chains": 0}
    B = 400
    for k in range(0, len(traces), B):
        f, s2 = judge_traces(traces[k:k + B], scratch)
        for x in f:
            x["idx"] += k
        fails += f
        for kk in st:
            st[kk] += s2[kk]
    report_trace_failures(report, coll, traces, fails, "proc")
    ok = len(traces) - len({f["idx"] for f in fails if f["cause"] == "-"})
    wit = {"two_clock_domains": sum(1 for t in traces if len(t["spec"]["dom"]) == 2),
           "with_reset": sum(1 for t in traces if any(d[1] for d in t["spec"]["dom"])),
           "regular_comb_false": sum(1 for t in traces if not t["regular_comb"]),
           "always_comb_blocks": sum(1 for t in traces for it in t["items"] if it["k"] == "always" and it["ev"] == "*"),
           "case_statements": sum(json.dumps(t["items"]).count('"k": "case"') + json.dumps(t["items"]).count('"k":"case"') for t in traces),
           "simultaneous_edges": sum(1 for t in traces for e in t["ev"] if len(e["r"]) > 1)}
    for k, v in wit.items():
        if v == 0 and cfg["fragments"] >= 100:
            raise MachineryError("layer 2 witness %s is zero: the generated fragments do not exercise it" % k)
    report.add(states=st["states"], transitions=st["transitions"], traces_validated_against_impl=ok)
    report.add(layer2={"fragments": len(traces), "slice_of_cat_target_designs": nlower, "skipped": len(skipped), "cycles": cfg["cycles"], "ticks_validated": st["states"],
                       "rejected": len([f for f in fails if f["cause"] == "-"]),
                       "rejected_by_cause": {c: len([f for f in fails if f["cause"] == c and f["clause"] == "StepEq"])
                                             for c in ("port-reg-init", "multi-driver")},
                       "hypothesis_chains": st["hyp_chains"], "witnesses": wit, "record_wall_s": round(trec, 1), "tlc_wall_s": round(st["wall"], 1),
                       "wall_s": round(time.time() - t0, 1)})
    if traces:
        report.sample({"layer": 2, "fragment": traces[0]["seed"], "verilog": _module_text(traces[0]["verilog"])[:600]})
    log("layer 2: %d fragments (%d skipped), %d ticks validated, %d rejected, %.1fs" % (
        len(traces), len(skipped), st["states"], len(fails), time.time() - t0))


L3 = {"quick": {"memories": 60, "mem_cycles": 48, "corpus": fam.QUICK_CORPUS, "cycles": 64, "seeds": 1, "both_modes": ("csr_bus.CSRBank", "EventManager")},
      "thorough": {"memories": 500, "mem_cycles": 64, "corpus": None, "cycles": 256, "seeds": 2, "both_modes": None}}


def layer3(report, tier, seed, scratch, coll, log=print):
    t0 = time.time()
    cfg = L3[tier]
    names = cfg["corpus"] or sorted(fam.corpus())
    mjobs = [("%s-m%d" % (seed, k), cfg["mem_cycles"]) for k in range(cfg["memories"])]
    cjobs = []
    for sd in range(cfg["seeds"]):
        for n in names:
            cjobs.append((n, "%s-%d" % (seed, sd), cfg["cycles"], True))
            if cfg["both_modes"] is None or n in cfg["both_modes"]:
                cjobs.append((n, "%s-%d" % (seed, sd), cfg["cycles"], False))
    pool = _pool()
    try:
        mres = pool.map_async(fam.record_memory, mjobs, chunksize=4)
        cres = pool.map_async(fam.record_corpus, cjobs, chunksize=1)
        probe = pool.apply_async(fam.record_memory_reset_probe, (seed,))
        mtr, ctr, ptr = mres.get(), cres.get(), probe.get()
    finally:
        pool.terminate()
    skipped = [t for t in mtr + ctr if "skip" in t]
    mtr = [t for t in mtr if "skip" not in t]
    ctr = [t for t in ctr if "skip" not in t]
    for t in mtr:
        t["factory"] = {"kind": "memory", "seed": t["seed"], "cycles": cfg["mem_cycles"]}
        t["sigextra"] = {"seed": t["seed"]}
    for t in ctr:
        t["factory"] = {"kind": "corpus", "name": t["name"], "seed": t["seed"], "cycles": cfg["cycles"], "regular_comb": t["regular_comb"]}
        t["sigextra"] = {"seed": t["seed"]}
    ptr["factory"] = {"kind": "memory-reset-probe", "seed": seed}
    trec = time.time() - t0
    with ThreadPoolExecutor(max_workers=3) as ex:
        fm = ex.submit(judge_traces, mtr + [ptr], scratch, 6)
        fc = [ex.submit(judge_traces, ctr[k::2], scratch, 5) for k in range(2)]
        mf, mst = fm.result()
        cparts = [f.result() for f in fc]
    report_trace_failures(report, coll, mtr + [ptr], mf, "mem")
    cst = {"states": 0, "transitions": 0, "wall": 0.0}
    cfails = 0
    for k, (f, st) in enumerate(cparts):
        report_trace_failures(report, coll, ctr[k::2], f, "corpus")
        cfails += len({x["idx"] for x in f})
        for kk in cst:
            cst[kk] += st[kk]
    wit = {"write_first": 0, "read_first": 0, "no_change": 0, "async_read": 0, "read_enable": 0, "granular_we": 0, "short_init": 0,
           "no_init": 0, "two_ports": 0, "two_clocks": 0, "memory_words_written": 0}
    for t in mtr:
        sp = t["spec"]
        for p in sp["ports"]:
            wit[{"wf": "write_first", "rf": "read_first", "nc": "no_change"}[p["mode"]]] += 1
            wit["async_read"] += p["async"]
            wit["read_enable"] += p["re"]
            wit["granular_we"] += 1 if p["gran"] else 0
        wit["short_init"] += 1 if sp["init"] is not None and len(sp["init"]) < sp["d"] else 0
        wit["no_init"] += 1 if sp["init"] is None else 0
        wit["two_ports"] += 1 if len(sp["ports"]) == 2 else 0
        wit["two_clocks"] += sp["two_clocks"]
        wit["memory_words_written"] += sum(len(v) for e in t["ev"] for v in e["m"].values())
    for k, v in wit.items():
        if v == 0 and cfg["memories"] >= 40:
            raise MachineryError("layer 3 witness %s is zero: the generated memories do not exercise it" % k)
    report.add(states=mst["states"] + cst["states"], transitions=mst["transitions"] + cst["transitions"],
               traces_validated_against_impl=len(mtr) + len(ctr) + 1 - len({x["idx"] for x in mf}) - cfails)
    report.add(layer3={"memory_designs": len(mtr), "memory_ticks_validated": mst["states"], "memory_witnesses": wit,
                       "memory_designs_rejected": len({x["idx"] for x in mf}),
                       "corpus": sorted({t["name"] for t in ctr}), "corpus_traces": len(ctr), "corpus_cycles": cfg["cycles"],
                       "corpus_ticks_validated": cst["states"], "corpus_traces_rejected": cfails,
                       "corpus_names_compared": {t["name"]: len(t["cmp"]) for t in ctr},
                       "skipped": [(t.get("label"), t["skip"]) for t in skipped][:10],
                       "record_wall_s": round(trec, 1), "tlc_wall_s": round(mst["wall"] + cst["wall"], 1),
                       "wall_s": round(time.time() - t0, 1)})
    report.note("observed, not a verdict: convert() raises TypeError (memory.py: `if (!we)` with we = None) for a read-only port in "
                "NO_CHANGE mode, which the simulator accepts; such ports are not generated")
    if ctr:
        report.sample({"layer": 3, "core": ctr[0]["name"], "names_compared": ctr[0]["cmp"][:12], "ticks": len(ctr[0]["ev"])})
    log("layer 3: %d memory designs (%d ticks), %d corpus traces of %d cores (%d ticks), %d + %d rejected, %.1fs" % (
        len(mtr), mst["states"], len(ctr), len({t["name"] for t in ctr}), cst["states"], len({x["idx"] for x in mf}), cfails,
        time.time() - t0))


# ------------------------------------------------------------------------------------------ entry points
def run(prop, report, tier, seed, log=print):
    scratch = _scratch()
    try:
        report.assume("IEEE 1364-2005 semantics = specs/vlog/VerilogSem.tla (2-state, zero-delay subset that convert() emits; "
                      "worked examples of the standard kept as ASSUMEs); FHDL semantics = litex/gen/sim/core.py, executed")
        report.assume("the reference simulator raises on a negative shift amount and on a slice outside its operand: such "
                      "(AST, shape) combinations are not part of the space (counted as skipped)")
        report.assume("Case labels are those of -1..3 representable in the selector's FHDL shape; Array indices are "
                      "unsigned-typed expressions")
        report.assume("zero-delay synthesis semantics: continuous assignments and always @(*) blocks are settled combinational "
                      "logic, also at time 0 (an event-driven simulator may not run an always @(*) block before its first input "
                      "event); for loop-free logic the fixed point does not depend on the process order")
        report.assume("2-state: a variable declared without initial value and a memory word beyond the $readmemh image start at 0 "
                      "(the simulator's and an FPGA's power-up value; X in an event-driven simulator); memory depths are powers of "
                      "two (an address beyond the depth is undefined in Verilog and clamped by the simulator)")
        report.assume("instances of vendor primitives, tristates and clocks read as data are opaque to VerilogSem: a design "
                      "containing one is skipped and counted; all signals at most 30 bits wide (TLC integers)")
        report.assume("clock edges are the ticks of the reference simulator's TimeManager (periods 10 and 14: single and "
                      "simultaneous edges); inputs change with the edge and are sampled by the next one, as a generator's "
                      "`yield sig.eq(v)` does")
        coll = Collector(report)
        which = os.environ.get("VERIF_C01_LAYERS", "123")
        # layers 2 and 3 run beside layer 1 (whose TLC processes are single threaded); what they report is replayed
        # into the report afterwards, in a fixed order
        side = _Deferred()
        err = []

        def others():
            try:
                if "2" in which:
                    layer2(side, tier, seed, scratch, side, side.log)
                if "3" in which:
                    layer3(side, tier, seed, scratch, side, side.log)
            except BaseException as ex:          # re-raised in the main thread
                err.append(ex)

        th = threading.Thread(target=others)
        th.start()
        try:
            if "1" in which:
                layer1(report, tier, seed, scratch, coll, log)
        finally:
            th.join()
        if err:
            raise err[0]
        side.replay(report, coll, log)
        coll.flush()
    finally:
        shutil.rmtree(scratch, ignore_errors=True)


def replay(path):
    with open(path) as f:
        r = json.load(f)
    scratch = _scratch()
    try:
        if r["kind"] == "expr":
            ast = _totuple(r["ast"])
            job = (tuple(r["sa"]), tuple(r["sb"]), [(0, ast)], (r["pos"],), r["twovar"])
            res = fam.record_batch(job)
            mm, _ = judge_exprs(res["groups"], scratch)
            want = r["signature"]
            fails = []
            for gi, ws in mm:
                for c, p, n in ws:
                    fails.append({"clause": "ExprEquivalent", "signature": expr_sig(c)})
            ok = any(f["signature"] == want for f in fails)
            return ok, fails
        if r["kind"] == "trace":
            fa = r["factory"]
            if fa["kind"] == "mixed-array-probe":
                t = fam.record_mixed_array_probe(fa["seed"])
            elif fa["kind"] == "fragment":
                t = fam.record_fragment((fa["seed"], fa["cycles"], fa["regular_comb"], fa.get("comb_cat", True), fa.get("mixed_arr", False)))
            elif fa["kind"] == "lower-lhs":
                t = fam.record_lower_lhs((tuple(fa["widths"]), fa["mode"], fa["seed"], fa["cycles"]))
            elif fa["kind"] == "memory":
                t = fam.record_memory((fa["seed"], fa["cycles"]))
            elif fa["kind"] == "corpus":
                t = fam.record_corpus((fa["name"], fa["seed"], fa["cycles"], fa["regular_comb"]))
            elif fa["kind"] == "memory-reset-probe":
                t = fam.record_memory_reset_probe(fa["seed"])
            else:
                raise MachineryError("unknown design factory %r" % fa)
            if "skip" in t:
                return False, [{"clause": "design no longer convertible: %s" % t["skip"]}]
            fails, _ = judge_traces([t], scratch, workers=2)
            ok = any(f["clause"] == r["clause"] for f in fails)
            return ok, [{"clause": f["clause"], "step": f["step"], "cause": f["cause"]} for f in fails]
        raise MachineryError("unknown replay kind %r" % r.get("kind"))
    finally:
        shutil.rmtree(scratch, ignore_errors=True)


def _totuple(x):
    return tuple(_totuple(y) for y in x) if isinstance(x, list) else x
