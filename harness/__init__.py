"""Verification harness for enjoy-digital/litex (TLA+ model-based; see /verif/DESIGN.md)."""
