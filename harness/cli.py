"""./check <ID> [--tier quick|thorough] [--replay PATH]"""
import argparse
import importlib
import os
import sys
import traceback

CHECKS = {
    "C01": ("harness.checks.vlogfam", "model_checking"),
    "C02": ("harness.checks.namer", "model_checking"),
    "C03": ("harness.checks.streamfam", "model_checking"),
    "C04": ("harness.checks.streamfam", "model_checking"),
    "C05": ("harness.checks.cdcfam", "model_checking"),
    "C06": ("harness.checks.wbicfam", "model_checking"),
    "C07": ("harness.checks.wbmemfam", "model_checking"),
    "C08": ("harness.checks.axilicfam", "model_checking"),
    "C09": ("harness.checks.bridgesfam", "model_checking"),
    "C10": ("harness.checks.axiburstfam", "model_checking"),
    "C11": ("harness.checks.timeoutfam", "model_checking"),
    "C12": ("harness.checks.csrbankfam", "model_checking"),
    "C13": ("harness.checks.socalloc", "model_checking"),
    "C14": ("harness.checks.exporttruth", "model_checking"),
    "C15": ("harness.checks.eventfam", "model_checking"),
    "C16": ("harness.checks.packetfam", "model_checking"),
    "C17": ("harness.checks.code8b10b", "model_checking"),
    "C18": ("harness.checks.secded", "model_checking"),
    "C19": ("harness.checks.periphfam", "model_checking"),
    "C20": ("harness.checks.pll", "model_checking"),
}


def main(argv=None):
    ap = argparse.ArgumentParser()
    ap.add_argument("prop")
    ap.add_argument("--tier", default=os.environ.get("VERIF_TIER", "quick"), choices=["quick", "thorough"])
    ap.add_argument("--replay")
    a = ap.parse_args(argv)
    seed = int(os.environ.get("VERIF_SEED", "0") or 0)
    os.environ.setdefault("PYTHONHASHSEED", "0")
    from . import py312_tracer
    py312_tracer.install()
    from .report import Report, MachineryError
    if a.prop not in CHECKS:
        print("unknown property " + a.prop)
        return 2
    modname, level = CHECKS[a.prop]
    mod = importlib.import_module(modname)
    if a.replay:
        from .gcheck import replay_file
        fn = getattr(mod, "replay", None)
        ok, fails = (fn(a.replay) if fn else replay_file(a.replay))
        if ok:
            print("VIOLATION property=%s replay=%s" % (a.prop, a.replay))
            return 1
        print("replay did not reproduce the violation (clauses failing now: %r)" % [f["clause"] for f in fails])
        return 0
    rep = Report(a.prop, a.tier, seed, level)
    try:
        mod.run(a.prop, rep, a.tier, seed)
    except MachineryError as ex:
        print("MACHINERY-ERROR: %s" % ex)
        rep.note("machinery error: %s" % ex)
        rc = rep.finish()
        # violations that were already confirmed and printed stand (exit 1); otherwise exit 2
        return 1 if rc == 1 else 2
    except Exception:
        traceback.print_exc()
        print("MACHINERY-ERROR: unexpected exception")
        if rep.violations:
            rep.note("machinery error after confirmed violations")
            rep.finish()
            return 1
        return 2
    return rep.finish()


if __name__ == "__main__":
    sys.exit(main())
