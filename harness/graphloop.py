"""G-mode: closed-loop construction of the implementation's transition graph.

TLC explores  Env x Monitor x G  where G (a JSON constant) holds the edges of the real
netlist computed so far.  For a missing edge TLC prints <<"NEED", dut, s, iv>>; this
module computes the requested edges with the FHDL stepper on the real code (in a process
pool), appends them, and runs TLC again until no NEED is left.  The last run (with the
temporal properties) is then an exhaustive check of every behaviour the real code has
under every environment the specification allows, for that parameterisation.
"""
import json
import re
import multiprocessing as mp
import os
import random
import time

from . import tlc as tlcmod

_NEED_RE = re.compile(r'<<"NEED", (\d+), (-?\d+), <<([-\d, ]*)>>>>')
_W = {}          # per-worker: family factory + steppers


def _winit(factory_path, shim):
    import importlib
    if shim:
        from . import py312_tracer
        py312_tracer.install()
    mod, _, fn = factory_path.rpartition(":")
    _W["make"] = getattr(importlib.import_module(mod), fn)
    _W["st"] = {}


def _stepper(spec_json):
    from .fhdl_step import Stepper
    st = _W["st"].get(spec_json)
    if st is None:
        spec = json.loads(spec_json)
        made = _W["make"](spec)
        dut, ins, outs = made[0], made[1], made[2]
        opts = made[3] if len(made) > 3 else {}
        st = Stepper(dut, ins, outs, clocks=tuple(opts.get("clocks", ("sys",))),
                     record_multireg=bool(opts.get("meta")))
        st.opts = opts
        _W["st"][spec_json] = st
    return st


def _work(job):
    spec_json, items = job
    st = _stepper(spec_json)
    cdsel = st.opts.get("cds_from_input")
    out = []
    for state, iv in items:
        try:
            strip = st.opts.get("strip_input", lambda x: x)
            if st.opts.get("meta"):
                o, ds = st.step_meta(state, strip(iv), cdsel(iv))
                out.append((state, iv, o, ("multi", tuple(ds)), None))
                continue
            if cdsel is not None:
                cds = cdsel(iv)
                o, d = st.step(state, strip(iv), cds)
            else:
                o, d = st.step(state, iv)
            out.append((state, iv, o, d, None))
        except Exception as ex:     # noqa
            out.append((state, iv, None, None, "%s: %s" % (type(ex).__name__, ex)))
    return spec_json, out, st.sig


def _wreset(spec_json):
    st = _stepper(spec_json)
    rs = list(st.reset_state)
    # seeded start states (deep counter values no bounded search reaches from reset): the
    # factory names registers (by signal name) to be overridden in the initial state
    ov = st.opts.get("init_override")
    if ov:
        hit = 0
        for i, sig in enumerate(st.regs):
            nm = getattr(sig, "backtrace", None)
            nm = nm[-1][0] if nm else getattr(sig, "name_override", None)
            if sig.name_override in ov or nm in ov:
                rs[i] = ov[sig.name_override if sig.name_override in ov else nm]
                hit += 1
        if hit != len(ov):
            raise ValueError("init_override: %d of %d registers found" % (hit, len(ov)))
    return spec_json, tuple(rs), len(st.regs), st.sig


def ghash(iv):
    """must equal GHash of specs/common/GraphLookup.tla"""
    return sum((int(x) % 65536) * ((((i + 1) * 7919 + 13) % 1009) + 1) for i, x in enumerate(iv))


class NoHint:
    """default context hint: every requested input vector is tried in every state"""
    def init(self, cfg):
        return None

    def allowed(self, cfg, ctx, iv):
        return True

    def next(self, cfg, ctx, iv, o):
        return None


class DutGraph:
    def __init__(self, spec, cfg):
        self.spec = spec
        self.spec_json = json.dumps(spec, sort_keys=True)
        self.cfg = cfg
        self.states = []            # id -> tuple
        self.ids = {}
        self.succ = []              # id -> {key: (o, d)}
        self.alphabet = {}          # key -> iv
        self.errors = []
        self.nregs = 0
        self.ctxs = {}              # state id -> set of env context hints under which it was reached
        self._nedges = 0
        self.sig = None

    def intern(self, st):
        i = self.ids.get(st)
        if i is None:
            i = len(self.states)
            self.ids[st] = i
            self.states.append(st)
            self.succ.append({})
        return i

    @property
    def nedges(self):
        return self._nedges


class GraphLoop:
    def __init__(self, module, factory_path, duts, invariants, properties=(), constants=None,
                 workers=None, shim=True, spec_budget=60000, max_rounds=40, tlc_timeout=3600,
                 constraint=None, log=print, extra_cfg="", heap="12g", scratch=None,
                 action_constraints=(), check_deadlock=False, spec_batch=2000, hint=None, spec_name=None, alias="Alias", total_budget=900000, tlc_workers=4, fmt="record"):
        """duts: list of (spec dict for the python factory, cfg dict passed to TLA+)"""
        self.module = module
        self.factory_path = factory_path
        self.duts = [DutGraph(s, c) for s, c in duts]
        self.invariants = list(invariants)
        self.properties = list(properties)
        self.constants = constants or {}
        self.nproc = workers or min(16, os.cpu_count() or 4)
        self.shim = shim
        self.spec_budget = spec_budget
        self.total_budget = total_budget
        self.tlc_workers = tlc_workers
        self.fmt = fmt
        self.max_rounds = max_rounds
        self.tlc_timeout = tlc_timeout
        self.log = log
        self.extra_cfg = extra_cfg
        self.heap = heap
        self.rounds = 0
        self.tlc_wall = 0.0
        self.py_wall = 0.0
        self.scratch = scratch
        self.final = None
        self.pool = None
        self.check_deadlock = check_deadlock
        self.spec_batch = spec_batch
        self.hint = hint or NoHint()
        self.spec_name = spec_name
        self.alias = alias

    # ------------------------------------------------------------------ pool
    def _pool(self):
        if self.pool is None:
            ctx = mp.get_context("fork")
            self.pool = ctx.Pool(self.nproc, initializer=_winit, initargs=(self.factory_path, self.shim))
        return self.pool

    def close(self):
        if self.pool is not None:
            self.pool.terminate()
            self.pool = None

    # ------------------------------------------------------------------ graph io
    def graph_json(self, path):
        duts = []
        for g in self.duts:
            succ = []
            if self.fmt == "hash":
                # buckets by GHash (specs/common/GraphLookup.tla): constant-time lookup in TLC
                for e in g.succ:
                    nb = max(1, len(e))
                    row = [[] for _ in range(nb)] if e else []
                    for k, (o, d) in e.items():
                        iv = g.alphabet.get(k)
                        if iv is None:
                            iv = tuple(int(x) for x in k.strip("<>").split(",")) if k.strip("<>").strip() else ()
                        row[ghash(iv) % nb].append([list(iv), list(o), d])
                    succ.append(row)
            else:
                for e in g.succ:
                    succ.append({k: {"o": list(o), "d": d} for k, (o, d) in e.items()})
            duts.append({"cfg": g.cfg, "succ": succ})
        with open(path, "w") as f:
            json.dump({"duts": duts}, f, separators=(",", ":"))

    def cfg_text(self, final):
        if final and self.spec_name:
            lines = ["SPECIFICATION %s" % self.spec_name]
        else:
            lines = ["INIT Init", "NEXT Next"]
        lines.append("CHECK_DEADLOCK %s" % ("TRUE" if self.check_deadlock else "FALSE"))
        for k, v in self.constants.items():
            lines.append("CONSTANT %s = %s" % (k, v))
        for inv in self.invariants:
            lines.append("INVARIANT %s" % inv)
        if final:
            for p in self.properties:
                lines.append("PROPERTY %s" % p)
        if self.alias:
            lines.append("ALIAS %s" % self.alias)
        if self.extra_cfg:
            lines.append(self.extra_cfg)
        return "\n".join(lines) + "\n"

    # ------------------------------------------------------------------ edge computation
    def _compute(self, needs):
        """needs: dict dut_index -> set of (state_id, iv tuple). Adds edges, returns count."""
        pool = self._pool()
        jobs = []
        by_json = {g.spec_json: g for g in self.duts}
        for di, items in needs.items():
            g = self.duts[di]
            items = [(g.states[s], iv) for s, iv in items if tlcmod.tuple_key(iv) not in g.succ[s]]
            # chunk
            step = max(50, min(self.spec_batch, len(items) // (self.nproc * 2) + 1))
            for k in range(0, len(items), step):
                jobs.append((g.spec_json, items[k:k + step]))
        n = 0
        new_states = {}
        for spec_json, out, sig in pool.imap_unordered(_work, jobs):
            g = by_json[spec_json]
            if g.sig is None:
                g.sig = sig
            elif g.sig != sig:
                raise tlcmod.TLCError("register ordering differs between worker processes for %r" % (g.spec,))
            for state, iv, o, d, err in out:
                s = g.ids[state]
                if err is not None:
                    g.errors.append((s, iv, err))
                    continue
                before = len(g.states)
                if isinstance(d, tuple) and len(d) == 2 and d[0] == "multi":
                    di = [g.intern(x) for x in d[1]]      # one successor per metastable resolution
                else:
                    di = g.intern(d)
                if len(g.states) > before:
                    new_states.setdefault(spec_json, []).extend(range(before, len(g.states)))
                kk = tlcmod.tuple_key(iv)
                if kk not in g.succ[s]:
                    g._nedges += 1
                g.succ[s][kk] = (o, di)
                n += 1
        return n, new_states

    def _speculate(self, computed):
        """Speculative closure.  `computed` = list of (dut index, s, iv) edges just computed on
        TLC's request.  From their targets the harness explores further on its own, using
        the family's *context hint* (ctx) to follow only inputs the environment is likely
        to allow (e.g. a stream producer repeats an unaccepted offer).  The hint is an
        accelerator only: if it prunes too much TLC asks again (NEED), if it prunes too
        little some unused edges are computed.  Verdicts never depend on it."""
        hint = self.hint
        total = 0
        if self.total_budget <= 0 or self.spec_budget <= 0:
            return 0
        frontier = []       # (di, s, ctx)
        for di, s, iv in computed:
            g = self.duts[di]
            e = g.succ[s].get(tlcmod.tuple_key(iv))
            if e is None:
                continue
            o, dd = e
            for ctx in list(g.ctxs.get(s, ())) or [hint.init(g.cfg)]:
                if not hint.allowed(g.cfg, ctx, iv):
                    continue
                nctx = hint.next(g.cfg, ctx, iv, o)
                for d in (dd if isinstance(dd, list) else [dd]):
                    if nctx not in g.ctxs.setdefault(d, set()):
                        g.ctxs[d].add(nctx)
                        frontier.append((di, d, nctx))
        while frontier:
            needs = {}
            if sum(g.nedges for g in self.duts) >= self.total_budget:
                break
            for di, s, ctx in frontier:
                g = self.duts[di]
                if g.nedges >= self.spec_budget:
                    continue
                for k, iv in g.alphabet.items():
                    if k not in g.succ[s] and hint.allowed(g.cfg, ctx, iv):
                        needs.setdefault(di, set()).add((s, iv))
            if needs:
                # never overshoot the budgets within one wave
                room = self.total_budget - sum(g.nedges for g in self.duts)
                for di in list(needs):
                    g = self.duts[di]
                    lim = max(0, min(self.spec_budget - g.nedges, room))
                    if len(needs[di]) > lim:
                        needs[di] = set(sorted(needs[di])[:lim])
                    room -= len(needs[di])
                    if not needs[di]:
                        del needs[di]
                if not needs:
                    break
                n, _ = self._compute(needs)
                total += n
                for g in self.duts:
                    g.spec_errors = getattr(g, "spec_errors", 0) + len(g.errors)
                    g.errors = []
            nxt = []
            for di, s, ctx in frontier:
                g = self.duts[di]
                for k, iv in g.alphabet.items():
                    e = g.succ[s].get(k)
                    if e is None or not hint.allowed(g.cfg, ctx, iv):
                        continue
                    o, dd = e
                    nctx = hint.next(g.cfg, ctx, iv, o)
                    for d in (dd if isinstance(dd, list) else [dd]):
                        if nctx not in g.ctxs.setdefault(d, set()):
                            g.ctxs[d].add(nctx)
                            nxt.append((di, d, nctx))
            frontier = nxt
        return total

    # ------------------------------------------------------------------ main loop
    def run(self):
        import tempfile
        import shutil
        scratch = self.scratch or tempfile.mkdtemp(prefix="verif-g-", dir=os.environ.get("VERIF_SCRATCH", "/var/tmp"))
        os.makedirs(scratch, exist_ok=True)
        gpath = os.path.join(scratch, "graph.json")
        pool = self._pool()
        try:
            for sj, rs, nregs, sig in pool.imap_unordered(_wreset, [g.spec_json for g in self.duts]):
                for g in self.duts:
                    if g.spec_json == sj:
                        g.intern(tuple(rs))
                        g.nregs = nregs
                        g.sig = sig
            res = None
            while True:
                self.rounds += 1
                if self.rounds > self.max_rounds:
                    raise tlcmod.TLCError("graph loop did not close in %d rounds" % self.max_rounds)
                self.graph_json(gpath)
                res = tlcmod.run(self.module, self.cfg_text(final=False), env={"GRAPH": gpath},
                                 timeout=self.tlc_timeout, scratch=scratch, heap=self.heap, workers=self.tlc_workers)
                self.tlc_wall += res.wall
                if res.errors:
                    raise tlcmod.TLCError("TLC failed: " + " | ".join(res.errors[:6]) + "\n" + res.out[-3000:])
                if res.violated:
                    self.final = res
                    return res
                needs = {}
                nneed = 0
                for m in _NEED_RE.finditer(res.out):
                    d, s = int(m.group(1)), int(m.group(2))
                    iv = tuple(int(x) for x in m.group(3).split(",")) if m.group(3).strip() else ()
                    g = self.duts[d - 1]
                    g.alphabet[tlcmod.tuple_key(iv)] = iv
                    needs.setdefault(d - 1, set()).add((s, iv))
                    nneed += 1
                self.log("  round %d: TLC %.1fs, %d distinct product states, %d NEED" % (
                    self.rounds, res.wall, res.distinct, nneed))
                if not needs:
                    break
                t0 = time.time()
                n, new_states = self._compute(needs)
                for g in self.duts:
                    if g.errors:
                        raise tlcmod.TLCError("stepper failed on a requested edge: %r" % (g.errors[:3],))
                nspec = self._speculate([(di, s_, iv_) for di, items in needs.items() for s_, iv_ in items])
                self.py_wall += time.time() - t0
                self.log("           stepper: %d requested + %d speculative edges, %.1fs" % (
                    n, nspec, time.time() - t0))
            if self.properties:
                res = tlcmod.run(self.module, self.cfg_text(final=True), env={"GRAPH": gpath},
                                 timeout=self.tlc_timeout, scratch=scratch, heap=self.heap, workers=self.tlc_workers)
                self.tlc_wall += res.wall
                if res.errors:
                    raise tlcmod.TLCError("TLC failed: " + " | ".join(res.errors[:6]) + "\n" + res.out[-3000:])
                self.log("  final run with liveness: TLC %.1fs, %d distinct, depth %d" % (
                    res.wall, res.distinct, res.depth))
            self.final = res
            return res
        finally:
            if self.scratch is None:
                shutil.rmtree(scratch, ignore_errors=True)

    # ------------------------------------------------------------------ statistics / drift check
    def stats(self):
        return {
            "rounds": self.rounds,
            "impl_states": sum(len(g.states) for g in self.duts),
            "impl_edges": sum(g.nedges for g in self.duts),
            "duts": len(self.duts),
            "tlc_wall_s": round(self.tlc_wall, 1),
            "stepper_wall_s": round(self.py_wall, 1),
        }

    def crosscheck(self, per_dut=60, seed=0):
        """re-compute a sample of edges of every DUT with the *reference* evaluator
        (litex.gen.sim.core.Evaluator) and compare with the compiled stepper's edges."""
        import importlib
        from .fhdl_step import Stepper
        mod, _, fn = self.factory_path.rpartition(":")
        make = getattr(importlib.import_module(mod), fn)
        rnd = random.Random(seed)
        n = 0
        for g in self.duts:
            made = make(g.spec)
            opts = made[3] if len(made) > 3 else {}
            st = Stepper(made[0], made[1], made[2], clocks=tuple(opts.get("clocks", ("sys",))), engine="ref",
                         record_multireg=bool(opts.get("meta")))
            if g.sig is not None and st.sig != g.sig:
                raise AssertionError("register ordering of the reference instance differs for %r" % (g.spec,))
            cdsel = opts.get("cds_from_input")
            strip = opts.get("strip_input", lambda x: x)
            edges = [(s, k) for s in range(len(g.succ)) for k in g.succ[s]]
            rnd.shuffle(edges)
            for s, k in edges[:per_dut]:
                iv = g.alphabet.get(k)
                if iv is None:
                    continue
                if opts.get("meta"):
                    o, dd = st.step_meta(g.states[s], strip(iv), cdsel(iv))
                    eo, ed = g.succ[s][k]
                    if tuple(o) != tuple(eo) or sorted(g.states[x] for x in ed) != sorted(dd):
                        raise AssertionError("compiled stepper disagrees with reference evaluator (meta): dut %r" % (g.spec,))
                    n += 1
                    continue
                if cdsel is not None:
                    o, d = st.step(g.states[s], strip(iv), cdsel(iv))
                else:
                    o, d = st.step(g.states[s], iv)
                eo, ed = g.succ[s][k]
                if tuple(o) != tuple(eo) or g.states[ed] != d:
                    raise AssertionError("compiled stepper disagrees with reference evaluator: dut %r state %r iv %r"
                                         % (g.spec, g.states[s], iv))
                n += 1
        return n


def _wnames(spec_json):
    """debug helper: register names/order as seen by a worker"""
    from .fhdl_step import _signame
    st = _stepper(spec_json)
    return [(_signame(s), s.nbits) for s in st.regs]
