"""FHDL stepper: puts a real LiteX/Migen netlist into any register state, applies any
input vector and returns combinational outputs and the successor state.

Semantics are those of the repository's reference simulator ``litex/gen/sim/core.py``
(delta-cycle comb fix-point, two-phase sync commit).  Two engines:

* ``RefEngine``   - drives ``litex.gen.sim.core.Evaluator`` directly (slow, reference);
* ``CompiledEngine`` - a statement-for-statement transliteration of ``Evaluator.eval /
  assign / execute`` into generated Python source (10-30x faster).  ``Stepper.crosscheck``
  compares both engines on sampled (state, input) pairs; every G-mode run does that, so
  the compiled engine never gives a verdict the reference evaluator would not give.

The elaboration (get_fragment, MemoryToArray, lower_specials, insert_resets, comb
defaults) is done by ``Simulator.__init__`` itself, i.e. by repository code.
"""
import collections

from migen.fhdl.structure import (Constant, Signal, Cat, Replicate, If, Case, Display, ClockSignal,
                                  ResetSignal, _Operator, _Slice, _ArrayProxy, _Assign, _Value, _Fragment)
from migen.fhdl.bitcontainer import value_bits_sign
from migen.fhdl.tools import list_targets, list_signals
from migen.fhdl.specials import _MemoryLocation
from migen.genlib.cdc import MultiReg

from litex.gen.sim.core import Simulator, Evaluator

_PYOP = {"+": "+", "*": "*", ">>>": ">>", "<<<": "<<", "&": "&", "^": "^", "|": "|",
         "<": "<", "<=": "<=", "==": "==", "!=": "!=", ">": ">", ">=": ">="}


def _ts(value, nbits):
    value &= (1 << nbits) - 1
    if value & (1 << (nbits - 1)):
        value -= 1 << nbits
    return value


def _chk(i, n):
    if not (-n <= i < n):
        raise IndexError("memory index out of range")
    return i


class _Compiler:
    """Generates Python source equivalent to Evaluator.execute over a statement list."""

    def __init__(self, sigidx, clock_domains, replaced_memories):
        self.sigidx = sigidx
        self.cds = clock_domains
        self.mems = replaced_memories
        self.consts = {}
        self.lines = []
        self.tmp = 0

    def idx(self, sig):
        i = self.sigidx.get(sig)
        if i is None:
            i = len(self.sigidx)
            self.sigidx[sig] = i
        return i

    def newtmp(self):
        self.tmp += 1
        return "t%d" % self.tmp

    def const(self, obj):
        k = "K%d" % len(self.consts)
        self.consts[k] = obj
        return k

    # ---------------------------------------------------------------- expressions
    def E(self, node, post=False):
        if isinstance(node, Constant):
            return "(%d)" % node.value
        if isinstance(node, Signal):
            i = self.idx(node)
            if post:
                return "n.get(%d, v[%d])" % (i, i)
            return "v[%d]" % i
        if isinstance(node, _Operator):
            ops = [self.E(o, post) for o in node.operands]
            if node.op == "-":
                if len(ops) == 1:
                    return "(-%s)" % ops[0]
                return "(%s - %s)" % (ops[0], ops[1])
            if node.op == "~":
                return "(~%s)" % ops[0]
            if node.op == "m":
                return "(%s if %s else %s)" % (ops[1], ops[0], ops[2])
            return "(%s %s %s)" % (ops[0], _PYOP[node.op], ops[1])
        if isinstance(node, _Slice):
            w = node.stop - node.start
            if w <= 0:
                return "(0)"
            return "((%s >> %d) & %d)" % (self.E(node.value, post), node.start, (1 << w) - 1)
        if isinstance(node, Cat):
            parts, shift = [], 0
            for e in node.l:
                nb = len(e)
                if nb:
                    parts.append("((%s & %d) << %d)" % (self.E(e, post), (1 << nb) - 1, shift))
                shift += nb
            return "(" + " | ".join(parts) + ")" if parts else "(0)"
        if isinstance(node, Replicate):
            nb = len(node.v)
            k = sum(1 << (i*nb) for i in range(node.n))
            return "((%s & %d) * %d)" % (self.E(node.v, post), (1 << nb) - 1, k)
        if isinstance(node, _ArrayProxy):
            n = len(node.choices)
            key = "min(%d, %s)" % (n - 1, self.E(node.key, post))
            if all(isinstance(c, Signal) for c in node.choices) and not post:
                tbl = self.const(tuple(self.idx(c) for c in node.choices))
                return "v[%s[%s]]" % (tbl, key)
            ch = ", ".join("(lambda: %s)" % self.E(c, post) for c in node.choices)
            return "((%s,)[%s]())" % (ch, key)
        if isinstance(node, _MemoryLocation):
            arr = self.mems[node.memory]
            tbl = self.const(tuple(self.idx(c) for c in arr))
            i = "_chk(%s, %d)" % (self.E(node.index, post), len(arr))
            if post:
                return "(lambda j: n.get(j, v[j]))(%s[%s])" % (tbl, i)
            return "v[%s[%s]]" % (tbl, i)
        if isinstance(node, ClockSignal):
            return self.E(self.cds[node.cd].clk, post)
        if isinstance(node, ResetSignal):
            rst = self.cds[node.cd].rst
            if rst is None:
                if node.allow_reset_less:
                    return "(0)"
                raise ValueError("reset of resetless domain " + node.cd)
            return self.E(rst, post)
        raise NotImplementedError(node)

    # ---------------------------------------------------------------- assignment
    def A(self, node, val, ind):
        """emit code assigning python expression string `val` to l-value node"""
        p = "    " * ind
        if isinstance(node, Signal):
            i = self.idx(node)
            if node.signed:
                self.lines.append("%sn[%d] = _ts(%s, %d)" % (p, i, val, node.nbits))
            else:
                self.lines.append("%sn[%d] = %s & %d" % (p, i, val, (1 << node.nbits) - 1))
        elif isinstance(node, Cat):
            t = self.newtmp()
            self.lines.append("%s%s = %s" % (p, t, val))
            for e in node.l:
                nb = len(e)
                self.A(e, "(%s & %d)" % (t, (1 << nb) - 1), ind)
                self.lines.append("%s%s >>= %d" % (p, t, nb))
        elif isinstance(node, _Slice):
            t = self.newtmp()
            clr = ((1 << node.stop) - 1) - ((1 << node.start) - 1)
            w = node.stop - node.start
            self.lines.append("%s%s = (%s & ~%d) | ((%s & %d) << %d)" % (
                p, t, self.E(node.value, True), clr, val, (1 << w) - 1 if w > 0 else 0, node.start))
            self.A(node.value, t, ind)
        elif isinstance(node, _ArrayProxy):
            nch = len(node.choices)
            k = self.newtmp()
            tv = self.newtmp()
            self.lines.append("%s%s = %s" % (p, tv, val))
            self.lines.append("%s%s = min(%d, %s)" % (p, k, nch - 1, self.E(node.key)))
            self.lines.append("%sif %s < 0: %s += %d" % (p, k, k, nch))
            if all(isinstance(c, Signal) for c in node.choices) and \
               len({(c.nbits, c.signed) for c in node.choices}) == 1:
                c0 = node.choices[0]
                tbl = self.const(tuple(self.idx(c) for c in node.choices))
                if c0.signed:
                    self.lines.append("%sn[%s[%s]] = _ts(%s, %d)" % (p, tbl, k, tv, c0.nbits))
                else:
                    self.lines.append("%sn[%s[%s]] = %s & %d" % (p, tbl, k, tv, (1 << c0.nbits) - 1))
            else:
                for j, c in enumerate(node.choices):
                    self.lines.append("%s%s %s == %d:" % (p, "if" if j == 0 else "elif", k, j))
                    self.A(c, tv, ind + 1)
        elif isinstance(node, _MemoryLocation):
            arr = self.mems[node.memory]
            # arr[int] -> Signal; the reference evaluates index (non post) then assigns
            k = self.newtmp()
            tv = self.newtmp()
            self.lines.append("%s%s = %s" % (p, tv, val))
            self.lines.append("%s%s = _chk(%s, %d)" % (p, k, self.E(node.index), len(arr)))
            for j, c in enumerate(arr):
                self.lines.append("%s%s %s == %d:" % (p, "if" if j == 0 else "elif", k, j))
                self.A(c, tv, ind + 1)
        else:
            raise NotImplementedError(node)

    # ---------------------------------------------------------------- statements
    def S(self, stmts, ind):
        p = "    " * ind
        emitted = False
        for s in stmts:
            if isinstance(s, _Assign):
                self.A(s.l, self.E(s.r), ind)
                emitted = True
            elif isinstance(s, If):
                nb = len(s.cond)
                self.lines.append("%sif %s & %d:" % (p, self.E(s.cond), (1 << nb) - 1))
                if not self.S(s.t, ind + 1):
                    self.lines.append(p + "    pass")
                if s.f:
                    self.lines.append(p + "else:")
                    if not self.S(s.f, ind + 1):
                        self.lines.append(p + "    pass")
                emitted = True
            elif isinstance(s, Case):
                nbits, signed = value_bits_sign(s.test)
                t = self.newtmp()
                if signed:
                    self.lines.append("%s%s = _ts(%s, %d)" % (p, t, self.E(s.test), nbits))
                else:
                    self.lines.append("%s%s = %s & %d" % (p, t, self.E(s.test), (1 << nbits) - 1))
                first = True
                for k, body in s.cases.items():
                    if isinstance(k, Constant):
                        self.lines.append("%s%s %s == %d:" % (p, "if" if first else "elif", t, k.value))
                        if not self.S(body, ind + 1):
                            self.lines.append(p + "    pass")
                        first = False
                if "default" in s.cases:
                    if first:
                        self.lines.append("%sif True:" % p)
                    else:
                        self.lines.append("%selse:" % p)
                    if not self.S(s.cases["default"], ind + 1):
                        self.lines.append(p + "    pass")
                emitted = True
            elif isinstance(s, Display):
                pass
            elif isinstance(s, collections.abc.Iterable):
                emitted = self.S(s, ind) or emitted
            else:
                raise NotImplementedError(s)
        return emitted

    def function(self, name, stmts):
        self.lines = ["def %s(v, n):" % name]
        if not self.S(stmts, 1):
            self.lines.append("    pass")
        return "\n".join(self.lines)


class _RecordingMultiReg:
    """special override: lowers MultiReg normally but records (source, first stage, domain)."""
    log = None

    @staticmethod
    def lower(dr):
        from migen.genlib.cdc import MultiRegImpl
        impl = MultiRegImpl(dr.i, dr.o, dr.odomain, dr.n, dr.reset)
        if _RecordingMultiReg.log is not None:
            _RecordingMultiReg.log.append((dr.i, impl.regs[0], dr.odomain))
        return impl


def _signame(s):
    bt = getattr(s, "backtrace", None)
    return s.name_override or (bt[-1][0] if bt else "?")


class _DuidOrderedSet(set):
    def __iter__(self):
        return iter(sorted(set.__iter__(self), key=lambda x: x.duid))


class Stepper:
    """One elaborated DUT.  ``inputs``/``outputs`` are lists of Signals (or expressions for
    outputs).  State = values of all sync targets (memories included), ordered by duid."""

    def __init__(self, dut, inputs, outputs, clocks=("sys",), engine="compiled",
                 extra_state=(), record_multireg=False):
        self.dut = dut
        self.multiregs = []
        overrides = {}
        if record_multireg:
            _RecordingMultiReg.log = self.multiregs
            overrides[MultiReg] = _RecordingMultiReg
        # migen's MemoryToArray iterates the raw `specials` set (id-hash order): with two or more
        # memories the order in which the array signals are created - and with it the duid order of
        # the state registers - would differ from process to process.  Iterate in duid order.
        frag = dut if isinstance(dut, _Fragment) else dut.get_fragment()
        frag.specials = _DuidOrderedSet(frag.specials)
        self.sim = Simulator(frag, [], clocks={cd: 10 for cd in clocks}, special_overrides=overrides)
        _RecordingMultiReg.log = None
        self.f = self.sim.fragment
        self.ev = self.sim.evaluator
        self.clocks = tuple(clocks)
        regs = set()
        for cd, st in self.f.sync.items():
            regs |= list_targets(st)
        regs |= set(extra_state)
        self.regs = sorted(regs, key=lambda s: s.duid)
        self.regs_by_cd = {cd: sorted(list_targets(st), key=lambda s: s.duid)
                           for cd, st in self.f.sync.items()}
        self.inputs = list(inputs)
        self.outputs = list(outputs)
        comb_t = list_targets(self.f.comb)
        for s in self.inputs:
            if s in regs or s in comb_t:
                raise ValueError("input signal %r is driven by the DUT" % s)
        self.reset_state = tuple(s.reset.value for s in self.regs)
        # ordering signature (call-stack independent): widths, signedness, reset values, explicit names
        self.sig = hash(tuple((s.name_override, s.nbits, s.signed, s.reset.value) for s in self.regs))
        self.engine = engine
        self.reg_names = None
        if engine == "compiled":
            self._compile()
        self.load(self.reset_state, tuple(0 for _ in self.inputs))

    # ------------------------------------------------------------------ compiled engine
    def _compile(self):
        sigidx = {}
        for s in self.regs:
            sigidx[s] = len(sigidx)
        for s in self.inputs:
            if s not in sigidx:
                sigidx[s] = len(sigidx)
        c = _Compiler(sigidx, self.f.clock_domains, self.ev.replaced_memories)
        src = [c.function("comb", self.f.comb)]
        for cd, st in self.f.sync.items():
            src.append(c.function("sync_" + cd, st))
        self._outsrc = []
        outs = ", ".join(c.E(o) for o in self.outputs)
        src.append("def outs(v):\n    return (%s%s)" % (outs, "," if self.outputs else ""))
        ns = {"_ts": _ts, "_chk": _chk}
        ns.update(c.consts)
        self.source = "\n\n".join(src)
        exec(compile(self.source, "<fhdl_step>", "exec"), ns)
        self._comb = ns["comb"]
        self._sync = {cd: ns["sync_" + cd] for cd in self.f.sync}
        self._outs = ns["outs"]
        self.sigidx = sigidx
        self.v = [0] * len(sigidx)
        for s, i in sigidx.items():
            self.v[i] = s.reset.value
        self.n = {}
        self._regidx = [sigidx[s] for s in self.regs]
        self._inidx = [sigidx[s] for s in self.inputs]

    def _commit(self):
        v, n = self.v, self.n
        ch = False
        for i, x in n.items():
            if v[i] != x:
                v[i] = x
                ch = True
        n.clear()
        return ch

    # ------------------------------------------------------------------ common API
    def settle(self):
        if self.engine == "compiled":
            for _ in range(2000):
                self._comb(self.v, self.n)
                if not self._commit():
                    return
        else:
            for _ in range(2000):
                self.ev.execute(self.f.comb)
                if not self.ev.commit():
                    return
        raise RuntimeError("combinational logic does not converge")

    def load(self, state, inputs):
        if self.engine == "compiled":
            v = self.v
            for i, x in zip(self._regidx, state):
                v[i] = x
            for i, x in zip(self._inidx, inputs):
                v[i] = x
        else:
            sv = self.ev.signal_values
            sv.update(zip(self.regs, state))
            sv.update(zip(self.inputs, inputs))
        self.settle()

    def peek(self):
        if self.engine == "compiled":
            return tuple(int(x) for x in self._outs(self.v))
        return tuple(int(self.ev.eval(o)) for o in self.outputs)

    def state(self):
        if self.engine == "compiled":
            v = self.v
            return tuple(v[i] for i in self._regidx)
        sv = self.ev.signal_values
        return tuple(sv.get(s, s.reset.value) for s in self.regs)

    def value(self, sig):
        if self.engine == "compiled":
            return self.v[self.sigidx[sig]]
        return self.ev.eval(sig)

    def poke(self, sig, val):
        """overwrite one register (metastability injection / seeding)"""
        if self.engine == "compiled":
            self.v[self.sigidx[sig]] = val
        else:
            self.ev.signal_values[sig] = val

    def tick(self, cds=None):
        cds = self.clocks if cds is None else cds
        if self.engine == "compiled":
            for cd in cds:
                f = self._sync.get(cd)
                if f is not None:
                    f(self.v, self.n)
            self._commit()
        else:
            for cd in cds:
                if cd in self.f.sync:
                    self.ev.execute(self.f.sync[cd])
            self.ev.commit()
        self.settle()
        return self.state()

    def step(self, state, inputs, cds=None):
        """(outputs under `inputs` in `state`, successor state)"""
        self.load(state, inputs)
        o = self.peek()
        d = self.tick(cds)
        return o, d

    def step_meta(self, state, inputs, cds):
        """like step(), for multi-clock DUTs with synchronisers: if a MultiReg's destination
        domain ticks in the same instant in which its source changes (simultaneous edges), the
        first stage may capture, per bit, the old or the new source value.  Returns
        (outputs, [successor states]) - one successor per combination of resolutions."""
        self.load(state, inputs)
        o = self.peek()
        old = [self._val(src) for src, reg, dom in self.multiregs]
        base = self.tick(cds)
        cand = []       # (first-stage register, [possible values])
        for (src, reg, dom), ov in zip(self.multiregs, old):
            if dom not in cds:
                continue
            nv = self._val(src)
            if nv == ov:
                continue
            diff = (nv ^ ov) & ((1 << reg.nbits) - 1)
            bits = [b for b in range(reg.nbits) if (diff >> b) & 1]
            vals = []
            for m in range(1 << len(bits)):
                v = ov
                for k, b in enumerate(bits):
                    if (m >> k) & 1:
                        v = (v & ~(1 << b)) | (nv & (1 << b))
                vals.append(v & ((1 << reg.nbits) - 1))
            cand.append((reg, vals))
        if not cand:
            return o, [base]
        out = []
        import itertools
        for combo in itertools.product(*[v for _, v in cand]):
            self.load(base, inputs)
            for (reg, _), v in zip(cand, combo):
                self.poke(reg, v)
            self.settle()
            st = self.state()
            if st not in out:
                out.append(st)
        return o, out

    def _val(self, expr):
        if self.engine == "compiled" and isinstance(expr, Signal) and expr in self.sigidx:
            return self.v[self.sigidx[expr]]
        if self.engine == "compiled":
            # generic expression: evaluate with the reference evaluator on a copy of the values
            sv = self.ev.signal_values
            for sgn, i in self.sigidx.items():
                sv[sgn] = self.v[i]
            return self.ev.eval(expr)
        return self.ev.eval(expr)

    def names(self):
        if self.reg_names is None:
            from migen.fhdl.namer import build_namespace
            ns = build_namespace(list_signals(self.f) | set(self.regs))
            self.reg_names = [ns.get_name(s) for s in self.regs]
        return self.reg_names


def crosscheck(make, samples, clocks=("sys",)):
    """compare compiled and reference engines on (state, inputs[, cds]) samples.
    `make()` -> (dut, inputs, outputs).  Returns number of comparisons; raises on mismatch."""
    d1, i1, o1 = make()
    a = Stepper(d1, i1, o1, clocks=clocks, engine="compiled")
    d2, i2, o2 = make()
    b = Stepper(d2, i2, o2, clocks=clocks, engine="ref")
    assert a.reset_state == b.reset_state
    n = 0
    for smp in samples:
        st, iv = smp[0], smp[1]
        cds = smp[2] if len(smp) > 2 else None
        ra = a.step(st, iv, cds)
        rb = b.step(st, iv, cds)
        if ra != rb:
            raise AssertionError("compiled/reference engine mismatch at %r: %r vs %r" % (smp, ra, rb))
        n += 1
    return n
