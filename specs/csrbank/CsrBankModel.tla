---------------------------- MODULE CsrBankModel ----------------------------
(***************************************************************************)
(* L2: implementation-shaped model of the LiteX CSR machinery, written     *)
(* register for register from litex/soc/interconnect/csr.py and            *)
(* csr_bus.py (names follow the code):                                     *)
(*                                                                         *)
(*   CSRFieldAggregate   check_ordering_overlap / get_size / get_reset     *)
(*   _sort_gathered_items  fixed locations, automatic placement, reserved  *)
(*                       fillers, the two ways the constructor refuses     *)
(*   CSRStorage          storage, re, atomic_write back-store, write_from_ *)
(*                       dev, plain and pulse fields (do_finalize)         *)
(*   CSRStatus           status from fields, we, re, writable variant (r)  *)
(*   GenericBank/CSRBank simple CSR list in address order, address decode, *)
(*                       registered read multiplexer                       *)
(*   CSRBankArray + Interconnect / InterconnectShared: one bank per        *)
(*                       object, master dat_r = OR of the banks            *)
(*   csr_bus.SRAM        (second part) page register, sub-word staging     *)
(*                                                                         *)
(* m (model configuration) is the DECLARATION of the register set: bus     *)
(* word w, little (ordering), pb (address bits inside a page), bankadr     *)
(* (page of each bank) and regs = <<[bank, kind, size, reset, n (fixed     *)
(* location or -1), fields <<[size, offset (-1: none), reset, pulse]>>,    *)
(* dvs (non-empty: the harness drives the device side)]>> in creation      *)
(* (duid) order.  Everything else - field offsets, sizes, the address map, *)
(* the simple CSRs - is computed here the way the code computes it.        *)
(*                                                                         *)
(*   MTab(m)          tables (evaluated once per configuration)            *)
(*   MInit(t)         registers after reset                                *)
(*   MStep(t, r, iv)  = [o |-> outputs of this cycle, r |-> next registers]*)
(*   r  = [datr (per bank: CSRBank.bus.dat_r), sto / re / back / r2 (per   *)
(*        register: storage, re, back-store, CSRStatus.r; 0 where the      *)
(*        register kind has no such flip-flops)]                           *)
(*   iv, o as in CsrBankContract (iv = <<op, adr, dat, dv_1 .. dv_n>>,     *)
(*        o = <<master dat_r, bank dat_r ..>> \o per register              *)
(*        <<v, re, we, f, r2>>).                                           *)
(*                                                                         *)
(* The model gives no verdict (DESIGN.md 9): CsrBankModelConf checks that  *)
(* it reproduces every edge of the G-mode graphs and every cycle of the    *)
(* long runs of the real netlists, and every address map / refusal of the  *)
(* construction cases; CsrBankModelM checks it against CsrBankContract for *)
(* register sets the Python stepper cannot afford.                         *)
(***************************************************************************)
EXTENDS Integers, Sequences, FiniteSets

B(x) == IF x THEN 1 ELSE 0
P2(n) == 2^n
MinI(a, b) == IF a < b THEN a ELSE b
Field(x, pos, w) == (x \div P2(pos)) % P2(w)                       \* x[pos +: w]
SetField(x, pos, w, v) == x - Field(x, pos, w) * P2(pos) + (v % P2(w)) * P2(pos)
RECURSIVE BitOr(_, _)
BitOr(a, b) == IF a = 0 THEN b ELSE IF b = 0 THEN a
               ELSE B(a % 2 = 1 \/ b % 2 = 1) + 2 * BitOr(a \div 2, b \div 2)
RECURSIVE OrAll(_, _)
OrAll(q, n) == IF n = 0 THEN 0 ELSE BitOr(q[n], OrAll(q, n - 1))    \* Reduce("OR", q[1..n])
RECURSIVE Flatten(_, _)
Flatten(qq, n) == IF n = 0 THEN <<>> ELSE Flatten(qq, n - 1) \o qq[n]

IsStorage(k) == k \in {"storage", "storage_atomic", "storage_dev", "storage_atomic_dev"}
IsAtomic(k)  == k \in {"storage_atomic", "storage_atomic_dev"}
IsDev(k)     == k \in {"storage_dev", "storage_atomic_dev"}
IsStatus(k)  == k \in {"status", "status_rw"}

---------------------------------------------------------------------------
(* CSRFieldAggregate.  check_ordering_overlap walks the fields with a      *)
(* running offset: a field with an explicit offset moves it, one without   *)
(* takes it.  get_size = end of the last field, get_reset = OR of the      *)
(* shifted field resets (fields do not overlap and a reset fits its field, *)
(* so the OR is a sum).                                                    *)
RECURSIVE AggOffset(_, _), AggReset(_, _), AggPos(_, _)
AggOffset(fs, j) == IF fs[j].offset # -1 THEN fs[j].offset
                    ELSE IF j = 1 THEN 0 ELSE AggOffset(fs, j - 1) + fs[j - 1].size
AggSize(fs) == AggOffset(fs, Len(fs)) + fs[Len(fs)].size
AggReset(fs, j) == IF j = 0 THEN 0 ELSE AggReset(fs, j - 1) + fs[j].reset * P2(AggOffset(fs, j))
AggPos(fs, j) == IF j = 1 THEN 0 ELSE AggPos(fs, j - 1) + fs[j - 1].size     \* position in Cat(*fields) (harness)
RegSize(reg)  == IF reg.fields = <<>> THEN reg.size  ELSE AggSize(reg.fields)
RegReset(reg) == IF reg.fields = <<>> THEN reg.reset ELSE AggReset(reg.fields, Len(reg.fields))

---------------------------------------------------------------------------
(* _sort_gathered_items(items): items = the registers of one object in     *)
(* duid order.  items_length starts as len(items) and grows to n + 1 for   *)
(* every fixed item with n > items_length (sequentially); fixed items are  *)
(* placed first (IndexError when n = items_length - the `>` should be `>=`*)
(* -, ValueError on an occupied slot), then the variable items fill the    *)
(* lowest free slots in duid order, the rest becomes reserved one-bit CSRs.*)
(* -> [err |-> "" | exception name, slots |-> <<register or 0 (reserved)>>]*)
SortItems(regs, items) ==
  LET fixed == SelectSeq(items, LAMBDA g : regs[g].n # -1)
      var   == SelectSeq(items, LAMBDA g : regs[g].n = -1)
      RECURSIVE Length(_, _), Place(_, _), Fill(_, _)
      Length(k, len) == IF k > Len(fixed) THEN len
                        ELSE Length(k + 1, IF regs[fixed[k]].n > len THEN regs[fixed[k]].n + 1 ELSE len)
      L == Length(1, Len(items))
      Place(k, slots) == IF k > Len(fixed) THEN [err |-> "", slots |-> slots]
                         ELSE LET n == regs[fixed[k]].n IN
                              IF n >= L THEN [err |-> "IndexError", slots |-> slots]
                              ELSE IF slots[n + 1] # -1 THEN [err |-> "ValueError", slots |-> slots]
                              ELSE Place(k + 1, [slots EXCEPT ![n + 1] = fixed[k]])
      Fill(k, slots) == IF k > Len(var) THEN slots
                        ELSE LET free == { i \in 1..L : slots[i] = -1 }
                                 lo   == CHOOSE i \in free : \A j \in free : i <= j
                             IN Fill(k + 1, [slots EXCEPT ![lo] = var[k]])
      placed == Place(1, [i \in 1..L |-> -1])
  IN IF placed.err # "" THEN [err |-> placed.err, slots |-> <<>>]
     ELSE LET s == Fill(1, placed.slots) IN
          [err |-> "", slots |-> [i \in 1..L |-> IF s[i] = -1 THEN 0 ELSE s[i]]]

---------------------------------------------------------------------------
(* do_finalize(busword, ordering) of CSRStorage / CSRStatus: the register  *)
(* is cut into nwords simple CSRs, word i holds bits [i*w, i*w + nbits);   *)
(* they are created (= laid out at ascending addresses) most significant   *)
(* word first for "big", least significant first for "little".  `last`     *)
(* marks the simple CSR the loop variable `sc` still names after the loop: *)
(* its strobes drive the register's own re / we.  A raw CSR is its own     *)
(* simple CSR; a reserved filler is CSR(size 1) with nothing behind it.    *)
NWords(m, g) == (RegSize(m.regs[g]) + m.w - 1) \div m.w
Simple(m, g) ==
  IF m.regs[g].kind = "csr"
  THEN << [g |-> g, i |-> 0, lo |-> 0, nb |-> m.regs[g].size, last |-> TRUE, pos |-> 0] >>
  ELSE [k \in 1..NWords(m, g) |->
          LET i == IF m.little = 1 THEN k - 1 ELSE NWords(m, g) - k IN
          [g |-> g, i |-> i, lo |-> i * m.w, nb |-> MinI(RegSize(m.regs[g]) - i * m.w, m.w),
           last |-> k = NWords(m, g), pos |-> k - 1]]
Reserved == [g |-> 0, i |-> 0, lo |-> 0, nb |-> 1, last |-> TRUE, pos |-> 0]
(* GenericBank: the simple CSRs of the sorted description, in order = at word addresses 0, 1, ..  *)
BankCsrs(m, slots) == Flatten([k \in 1..Len(slots) |-> IF slots[k] = 0 THEN <<Reserved>> ELSE Simple(m, slots[k])],
                              Len(slots))

(* tables of one configuration; CSRBankArray.scan builds the banks in object order and the first *)
(* refusal (also GenericBank's `assert c.size <= busword` for a raw CSR) ends the construction    *)
MTab(m) ==
  LET nr == Len(m.regs)
      nb == Len(m.bankadr)
      ids == [g \in 1..nr |-> g]
      srt == [b \in 1..nb |-> SortItems(m.regs, SelectSeq(ids, LAMBDA g : m.regs[g].bank = b))]
      wide(b) == \E g \in 1..nr : m.regs[g].bank = b /\ m.regs[g].kind = "csr" /\ m.regs[g].size > m.w
      errs == [b \in 1..nb |-> IF srt[b].err # "" THEN srt[b].err ELSE IF wide(b) THEN "AssertionError" ELSE ""]
      bad == { b \in 1..nb : errs[b] # "" }
      built == bad = {}
      csrs == [b \in 1..nb |-> IF built THEN BankCsrs(m, srt[b].slots) ELSE <<>>]
  IN [w |-> m.w, little |-> m.little, pb |-> m.pb, nr |-> nr, nb |-> nb, bankadr |-> m.bankadr, regs |-> m.regs,
      kind  |-> [g \in 1..nr |-> m.regs[g].kind],
      bank  |-> [g \in 1..nr |-> m.regs[g].bank],
      size  |-> [g \in 1..nr |-> RegSize(m.regs[g])],
      reset |-> [g \in 1..nr |-> RegReset(m.regs[g])],
      atom  |-> [g \in 1..nr |-> IsAtomic(m.regs[g].kind) /\ NWords(m, g) > 1],
      foff  |-> [g \in 1..nr |-> [j \in 1..Len(m.regs[g].fields) |-> AggOffset(m.regs[g].fields, j)]],
      fpos  |-> [g \in 1..nr |-> [j \in 1..Len(m.regs[g].fields) |-> AggPos(m.regs[g].fields, j)]],
      built |-> B(built),
      error |-> IF built THEN "" ELSE errs[CHOOSE b \in bad : \A b2 \in bad : b <= b2],
      csrs  |-> csrs,
      (* the address map in the form of harness.families.csrbank.layout_of *)
      map   |-> [b \in 1..nb |-> [k \in 1..Len(csrs[b]) |-> <<csrs[b][k].g, csrs[b][k].pos>>]]]

---------------------------------------------------------------------------
MInit(t) ==
  [datr |-> [b \in 1..t.nb |-> 0],
   sto  |-> [g \in 1..t.nr |-> IF IsStorage(t.kind[g]) THEN t.reset[g] ELSE 0],
   re   |-> [g \in 1..t.nr |-> 0],
   back |-> [g \in 1..t.nr |-> 0],
   r2   |-> [g \in 1..t.nr |-> 0]]

(* CSRStatus.status: driven from the field signals (each at its offset, the bits between fields keep the *)
(* composed reset = 0), or directly; an undriven status / field shows its reset value                    *)
StatusVal(t, g, dv) ==
  LET fs == t.regs[g].fields
      driven == t.regs[g].dvs # <<>>
      RECURSIVE Sum(_)
      Sum(j) == IF j = 0 THEN 0
                ELSE Sum(j - 1) + (IF driven THEN Field(dv, t.fpos[g][j], fs[j].size) ELSE fs[j].reset) * P2(t.foff[g][j])
  IN IF fs = <<>> THEN (IF driven THEN dv % P2(t.size[g]) ELSE t.reset[g]) ELSE Sum(Len(fs))

(* CSRStorage field signals packed in declaration order: field = storage[offset +: size]; a pulse field is *)
(* assigned only under `re` (otherwise the comb default, its reset value)                                  *)
FieldsVal(t, g, sto, re) ==
  LET fs == t.regs[g].fields
      RECURSIVE Sum(_)
      Sum(j) == IF j = 0 THEN 0
                ELSE Sum(j - 1) + (IF fs[j].pulse = 1 /\ re = 0 THEN fs[j].reset
                                   ELSE Field(sto, t.foff[g][j], fs[j].size)) * P2(t.fpos[g][j])
  IN Sum(Len(fs))

NoCsr == [g |-> -1, i |-> 0, lo |-> 0, nb |-> 0, last |-> FALSE, pos |-> 0]

MStep(t, r, iv) ==
  LET op  == iv[1]
      adr == iv[2]
      dat == iv[3]
      buswe == op = 1                                   \* harness: master.we = (op == 1), master.re = (op == 2)
      busre == op = 2
      (* Interconnect(Shared): adr / we / re / dat_w of the master(s) reach every bank *)
      page == adr \div P2(t.pb)
      idx  == adr % P2(t.pb)
      (* CSRBank: sel = (adr[pb:] == address); simple CSR i is addressed when sel & (adr[:pb] == i) *)
      Hit == [b \in 1..t.nb |-> IF t.bankadr[b] = page /\ idx < Len(t.csrs[b]) THEN t.csrs[b][idx + 1] ELSE NoCsr]
      DV(g) == iv[3 + g]
      h(g)  == Hit[t.bank[g]]
      mine(g) == h(g).g = g
      scre(g) == buswe /\ mine(g)                       \* sc.re = bus.we  of the addressed simple CSR of g
      scwe(g) == busre /\ mine(g)                       \* sc.we = bus.re
      scr(g)  == dat % P2(h(g).nb)                      \* sc.r = bus.dat_w[:sc.size]
      k(g) == t.kind[g]
      status == [g \in 1..t.nr |-> IF IsStatus(t.kind[g]) THEN StatusVal(t, g, DV(g)) ELSE 0]
      (* value a simple CSR puts on the read multiplexer (sc.w) *)
      W(sc) == IF sc.g <= 0 THEN 0
               ELSE IF k(sc.g) = "csr" THEN DV(sc.g) % P2(t.size[sc.g])        \* harness: CSR.w = dv
               ELSE IF IsStorage(k(sc.g)) THEN Field(r.sto[sc.g], sc.lo, sc.nb)
               ELSE Field(status[sc.g], sc.lo, sc.nb)
      (* ---- outputs *)
      per == [g \in 1..t.nr |->
                IF k(g) = "csr" THEN <<dat % P2(t.size[g]), B(scre(g)), B(scwe(g)), 0, 0>>
                ELSE IF IsStorage(k(g)) THEN <<r.sto[g], r.re[g], 0, FieldsVal(t, g, r.sto[g], r.re[g]), 0>>
                ELSE <<status[g], r.re[g], B(scwe(g) /\ h(g).last), 0, r.r2[g]>>]
      (* ---- next registers *)
      (* write_from_dev: If(we, storage.eq(dat_w)) stands before the bus writes in the sync block; harness: *)
      (* we = (dv != 0), dat_w = dv - 1                                                                      *)
      v0(g) == IF IsDev(k(g)) /\ DV(g) # 0 THEN (DV(g) - 1) % P2(t.size[g]) ELSE r.sto[g]
      sto2(g) == IF ~IsStorage(k(g)) THEN 0
                 ELSE IF ~scre(g) THEN v0(g)
                 ELSE IF t.atom[g]
                      THEN (IF h(g).i = 0 THEN scr(g) + P2(t.w) * r.back[g]           \* storage.eq(Cat(sc.r, backstore))
                            ELSE v0(g))                                               \* word i > 0: back-store only
                      ELSE SetField(v0(g), h(g).lo, h(g).nb, scr(g))                  \* storage[lo:hi].eq(sc.r)
      back2(g) == IF t.atom[g] /\ scre(g) /\ h(g).i # 0
                  THEN SetField(r.back[g], h(g).lo - t.w, h(g).nb, scr(g)) ELSE r.back[g]
      re2(g) == IF k(g) = "csr" THEN 0 ELSE B(scre(g) /\ h(g).last)                   \* self.sync += self.re.eq(sc.re)
      r22(g) == IF k(g) = "status_rw" /\ scre(g) THEN SetField(r.r2[g], h(g).lo, h(g).nb, scr(g)) ELSE r.r2[g]
      (* CSRBank read multiplexer: dat_r <= 0; If(sel, Case(adr[:pb], {i: dat_r.eq(c.w)}))  (no bus.re involved) *)
      datr2(b) == IF Hit[b].g >= 0 THEN W(Hit[b]) ELSE 0
      N == 1 + t.nb + 5 * t.nr
  IN [o |-> [x \in 1..N |-> IF x = 1 THEN OrAll(r.datr, t.nb)                           \* master.dat_r = OR of the banks
                            ELSE IF x <= 1 + t.nb THEN r.datr[x - 1]
                            ELSE per[((x - 2 - t.nb) \div 5) + 1][((x - 2 - t.nb) % 5) + 1]],
      r |-> [datr |-> [b \in 1..t.nb |-> datr2(b)],
             sto  |-> [g \in 1..t.nr |-> sto2(g)],
             re   |-> [g \in 1..t.nr |-> re2(g)],
             back |-> [g \in 1..t.nr |-> back2(g)],
             r2   |-> [g \in 1..t.nr |-> r22(g)]]]

---------------------------------------------------------------------------
(* csr_bus.SRAM: a memory window.  s = [w, pb, sadr (page of the window),  *)
(* mw, depth (memory geometry), ro, init, pgbits (width of the page        *)
(* register, 0: none), pgadr (bus address of the page register), badr (the *)
(* page of the bank that holds it)].  Registers: mem (1-based), adr_reg    *)
(* (write-first synchronous read port: the address is registered, dat_r =  *)
(* mem[adr_reg]), sel_r, word_index, wregs (staging registers of the       *)
(* chunks 0 .. n-2, 1-based), page / page_re (the CSRStorage), pdatr (dat_r*)
(* of the page register's bank).  A read-only window has no write port:    *)
(* its memory is the constant s.init, not a register (mem = <<>>).         *)
(*   iv = <<op, adr, dat>>,  o = <<master dat_r, window dat_r, page>>      *)
NCh(s) == (s.mw + s.w - 1) \div s.w                       \* csrw_per_memw
RECURSIVE Log2(_)
Log2(n) == IF n <= 1 THEN 0 ELSE 1 + Log2(n \div 2)       \* log2_int of a power of two
SInit(s) == [mem |-> IF s.ro = 1 THEN <<>> ELSE s.init, adr_reg |-> 0, sel_r |-> 0, word_index |-> 0,
             wregs |-> [j \in 1..(IF s.ro = 1 THEN 0 ELSE NCh(s) - 1) |-> 0],
             page |-> 0, page_re |-> 0, pdatr |-> 0]
SStep(s, r, iv) ==
  LET op == iv[1]
      adr == iv[2]
      dat == iv[3]
      n == NCh(s)
      wb == Log2(n)                                                     \* word_bits
      ab == Log2(s.depth)                                               \* len(port.adr)
      sel == adr \div P2(s.pb) = s.sadr
      chunk == adr % P2(wb)                                             \* bus.adr[:word_bits]
      (* port.adr = bus.adr[word_bits : word_bits + len(port.adr)]  or  Cat(bus.adr[..len - len(pv)], page) *)
      padr == IF s.pgbits = 0 THEN Field(adr, wb, ab)
              ELSE Field(adr, wb, ab - s.pgbits) + P2(ab - s.pgbits) * r.page
      memword == IF s.ro = 1 THEN s.init[r.adr_reg + 1] ELSE r.mem[r.adr_reg + 1]      \* port.dat_r
      (* chooser(word_expanded, word_index, dat_r, n, reverse=True): chunk 0 is the most significant *)
      wdatr == IF r.sel_r = 0 THEN 0
               ELSE IF wb = 0 THEN memword % P2(s.w)
               ELSE Field(memword, (n - 1 - r.word_index) * s.w, s.w)
      wr == s.ro = 0 /\ sel /\ op = 1
      pwe == wr /\ chunk = n - 1                                        \* port.we
      (* port.dat_w = Cat(bus.dat_w, reversed(wregs)): staging register of chunk j sits at position n-1-j *)
      RECURSIVE Cat(_)
      Cat(j) == IF j = 0 THEN 0 ELSE Cat(j - 1) + r.wregs[j] * P2((n - j) * s.w)
      pdatw == (dat + Cat(n - 1)) % P2(s.mw)
      (* the page register: a one-word CSRStorage in its own bank *)
      phit == s.pgbits > 0 /\ adr = s.pgadr
  IN [o |-> <<BitOr(wdatr, r.pdatr), wdatr, r.page>>,
      r |-> [mem |-> IF pwe THEN [r.mem EXCEPT ![padr + 1] = pdatw] ELSE r.mem,
             adr_reg |-> padr,
             sel_r |-> B(sel),
             word_index |-> IF wb = 0 THEN 0 ELSE chunk,
             wregs |-> [j \in 1..Len(r.wregs) |-> IF wr /\ chunk = j - 1 THEN dat ELSE r.wregs[j]],
             page |-> IF phit /\ op = 1 THEN dat % P2(s.pgbits) ELSE r.page,
             page_re |-> B(phit /\ op = 1),
             pdatr |-> IF phit THEN r.page ELSE 0]]
=============================================================================
