--------------------------- MODULE CsrSramContract ---------------------------
(***************************************************************************)
(* L1 contract of a memory window on the CSR bus (csr_bus.SRAM as created  *)
(* by CSRBankArray for every memory an object returns from get_memories),  *)
(* second part of property C12: software sees a flat array of bus words.   *)
(*                                                                         *)
(* One step = one clock cycle.                                             *)
(*   iv = <<op, adr, dat>>   op: 0 idle, 1 write, 2 read                   *)
(*   o  = <<master dat_r, dat_r of the window, page register>>             *)
(* c: w, pb (address bits in a page), npages, sadr (page of the window),   *)
(*    mw / depth (memory word width / words), ro (read-only window),       *)
(*    init (initial memory words), pgbits (width of the page register the  *)
(*    window needs when the memory is larger than a page, 0: none), pgadr  *)
(*    (bus address of that register), dats / hdat (write data alphabets)   *)
(*                                                                         *)
(* Address map (csr_bus.SRAM): a memory word wider than the bus occupies   *)
(* n = ceil(mw / w) consecutive addresses (n a power of two), most         *)
(* significant chunk first; word m of the memory sits at window offset     *)
(* n * (m mod words-per-page), in page m div words-per-page of the window  *)
(* (selected by the page register).  A read returns the chunk one cycle    *)
(* later.  Writes to the chunks 0 .. n-2 are staged, the write to the last *)
(* chunk stores the whole memory word (staged chunks and this one).        *)
(***************************************************************************)
EXTENDS Integers, Sequences, FiniteSets, TLC

VARIABLES mem,     \* memory as software must see it: word (from 1) -> chunk (from 1) -> value, -1 unknown
          stw,     \* staged chunks 1..n-1 (-1: nothing staged yet)
          page,    \* value of the page register
          rd,      \* <<data due on dat_r in this cycle>> or <<>>
          ssel,    \* the window's page was addressed in the previous cycle
          obs

cvars == <<mem, stw, page, rd, ssel, obs>>

Slice(x, lo, n) == (x \div (2^lo)) % (2^n)
SeqSet(q) == { q[i] : i \in DOMAIN q }
NCh(c) == (c.mw + c.w - 1) \div c.w                       \* chunks (bus words) per memory word
ChBits(c, j) == IF j = 0 THEN c.mw - (NCh(c) - 1) * c.w ELSE c.w     \* chunk j (from 0) is the j-th from the top
ChOf(c, v, j) == Slice(v, (NCh(c) - 1 - j) * c.w, ChBits(c, j))
WPP(c) == (2^c.pb) \div NCh(c)                            \* memory words per page
InWin(c, a) == /\ a \div (2^c.pb) = c.sadr
               /\ (c.pgbits = 0 => (a % (2^c.pb)) \div NCh(c) < c.depth)
(* memory word (from 0) and chunk addressed by a, under page register value p *)
MWord(c, a, p) == (IF c.pgbits = 0 THEN 0 ELSE p * WPP(c)) + (a % (2^c.pb)) \div NCh(c)
MChunk(c, a) == a % NCh(c)

Adrs(c) == 0..(c.npages * (2^c.pb) - 1)
Inputs(c) == {<<0, 0, 0>>} \cup { <<2, a, 0>> : a \in { b \in Adrs(c) : InWin(c, b) \/ b \div (2^c.pb) # c.sadr } } \cup
             UNION { { <<1, a, x>> : x \in (IF InWin(c, a) THEN SeqSet(c.dats)
                                           ELSE IF a = c.pgadr THEN 0..(2^c.pgbits - 1) ELSE {c.hdat}) } :
                     a \in { b \in Adrs(c) : InWin(c, b) \/ b \div (2^c.pb) # c.sadr } }
(* addresses of the window's page beyond the end of a memory smaller than a page alias into the memory
   (partial decoding); software is assumed not to use them *)

CInit(c) ==
  /\ mem = [m \in 1..c.depth |-> [j \in 1..NCh(c) |-> ChOf(c, c.init[m], j - 1)]]
  /\ stw = [j \in 1..NCh(c) |-> -1]
  /\ page = 0
  /\ rd = <<>>
  /\ ssel = FALSE
  /\ obs = [okread |-> TRUE, okzero |-> TRUE, okpage |-> TRUE]

CStep(c, iv, o) ==
  LET op == iv[1]
      adr == iv[2]
      dat == iv[3]
      n == NCh(c)
      win == op # 0 /\ InWin(c, adr)
      m == MWord(c, adr, page) + 1
      j == MChunk(c, adr)
      tr(x, k) == IF x = -1 THEN -1 ELSE x % (2^ChBits(c, k))
      stored == [k \in 1..n |-> IF k = n THEN tr(dat, n - 1) ELSE tr(stw[k], k - 1)]
  IN
  /\ mem' = IF win /\ op = 1 /\ c.ro = 0 /\ j = n - 1 THEN [mem EXCEPT ![m] = stored] ELSE mem
  /\ stw' = IF win /\ op = 1 /\ c.ro = 0 /\ j < n - 1 THEN [stw EXCEPT ![j + 1] = dat] ELSE stw
  /\ page' = IF op = 1 /\ c.pgbits > 0 /\ adr = c.pgadr THEN dat % (2^c.pgbits) ELSE page
  /\ rd' = IF win /\ op = 2 /\ mem[m][j + 1] # -1 THEN <<mem[m][j + 1]>> ELSE <<>>
  /\ ssel' = (adr \div (2^c.pb) = c.sadr)
  /\ obs' = [okread |-> (rd # <<>> => o[1] = rd[1]),
             okzero |-> (~ssel => o[2] = 0),
             okpage |-> (c.pgbits > 0 => o[3] = page)]

(* flat memory through the window: a read returns, one cycle later, the chunk last stored at that
   address (initial content before); read-only windows ignore writes; pages select memory words *)
WindowReadsLastWrite == obs.okread
(* a window whose page is not addressed drives dat_r = 0 *)
WindowZeroWhenUnselected == obs.okzero
(* the page register holds the last value written to it *)
WindowPageRegister == obs.okpage
=============================================================================
