--------------------------- MODULE CsrBankContract ---------------------------
(***************************************************************************)
(* L1 contract of LiteX CSR banks (litex/soc/interconnect/csr.py,          *)
(* csr_bus.py), property C12: "CSR banks give software exact, side-effect- *)
(* free register semantics".                                               *)
(*                                                                         *)
(* One step = one clock cycle of the CSR bus.  The environment performs at *)
(* most one bus operation per cycle (any address: other pages, holes) and  *)
(* drives the device side of the registers.                                *)
(*   iv = <<op, adr, dat, dv_1, .., dv_n>>                                  *)
(*        op: 0 idle, 1 write, 2 read;  dv_r: device-side input of         *)
(*        register r (status: the `status` value resp. the packed field    *)
(*        inputs; raw CSR: `w`; device-writable storage: 0 = `we` low,     *)
(*        1 + x = `we` high with dat_w = x; otherwise 0)                   *)
(*   o  = <<master dat_r, dat_r of bank 1 .. nb>> \o per register          *)
(*        <<v, re, we, f, r2>>:  v = storage / status / CSR.r,             *)
(*        f = the field signals packed in declaration order,               *)
(*        r2 = CSRStatus.r of a writable status                            *)
(* c (configuration, from the harness):                                    *)
(*   w, little, pb (address bits inside a page), npages, bankadr (page of  *)
(*   every bank), dats / hdat (write data alphabet for mapped / unmapped   *)
(*   addresses), regs (declaration, creation order, all banks):            *)
(*     [bank, kind, size, reset, n (fixed location or -1),                 *)
(*      fields: <<[size, offset (-1: follows its predecessor), reset,      *)
(*      pulse]>>, dvs (alphabet of the device-side input)],                *)
(*   built (0: the real constructor raised), map (the address map the real *)
(*   code built: per bank, per word address <<register, position of the    *)
(*   word inside the register in address order>>, register 0 = reserved)   *)
(*                                                                         *)
(* Documented behaviour the clauses are taken from (docstrings of csr.py   *)
(* and csr_bus.py): writes complete in one cycle, reads in two; CSR.re /   *)
(* CSRStorage.re are "active for one cycle, after or during a write from   *)
(* the bus", CSR.we likewise for reads; atomic_write: "writes to the first *)
(* CSR addresses go to a back-buffer whose contents are atomically copied  *)
(* to the main buffer when the last address is written"; pulse fields are  *)
(* "only valid for one cycle"; registers wider than the bus span several   *)
(* addresses in big or little word order.                                  *)
(***************************************************************************)
EXTENDS Integers, Sequences, FiniteSets, TLC

VARIABLES exp,     \* per register: values its software-visible content may have in this cycle
                   \*   [why: clause in charge, alts: set of patterns <<value, words left free>>]
          stg,     \* per register: abstract back-buffer of atomic writes (per word, -1 = not written since
                   \*   the last commit: such a word is left free at the next commit)
          rd,      \* <<data due on the master's dat_r in this cycle>> or <<>>
          bsel,    \* bank whose page was addressed in the previous cycle (0: none)
          owe,     \* per register <<re strobes owed, we strobes owed, data of the owed re>>: the strobe a
                   \*   previous access may still cause: 0 none, 1 may come, 2 must come in this cycle
                   \*   (a set: every way of attributing the strobes seen so far to accesses)
          obs      \* verdict bits

cvars == <<exp, stg, rd, bsel, owe, obs>>

MaxW == 4          \* words per register (sizes up to 4 bus words)

Min(a, b) == IF a < b THEN a ELSE b
Max(a, b) == IF a > b THEN a ELSE b
Slice(x, lo, n) == (x \div (2^lo)) % (2^n)          \* n bits of x from bit lo
SeqSet(q) == { q[i] : i \in DOMAIN q }

NR(c) == Len(c.regs)
NB(c) == Len(c.bankadr)
Kind(c, r) == c.regs[r].kind
IsStorage(k) == k \in {"storage", "storage_atomic", "storage_dev", "storage_atomic_dev"}
IsAtomic(k)  == k \in {"storage_atomic", "storage_atomic_dev"}
IsDev(k)     == k \in {"storage_dev", "storage_atomic_dev"}
IsStatus(k)  == k \in {"status", "status_rw"}
Writable(c, r) == IsStorage(Kind(c, r)) \/ Kind(c, r) = "status_rw"

---------------------------------------------------------------------------
(* fields (CSRField / CSRFieldAggregate): a field without offset follows   *)
(* its predecessor; the register is as wide as the end of its last field;  *)
(* its reset value is composed from the fields' reset values.              *)
RECURSIVE FOff(_, _), FPos(_, _), FReset(_, _)
FOff(fs, j) == IF fs[j].offset # -1 THEN fs[j].offset
               ELSE IF j = 1 THEN 0 ELSE FOff(fs, j - 1) + fs[j - 1].size
FPos(fs, j) == IF j = 1 THEN 0 ELSE FPos(fs, j - 1) + fs[j - 1].size      \* position in the packed f output
FReset(fs, j) == IF j = 0 THEN 0 ELSE FReset(fs, j - 1) + fs[j].reset * (2^FOff(fs, j))
DSize(c, r) == LET fs == c.regs[r].fields IN
               IF fs = <<>> THEN c.regs[r].size ELSE FOff(fs, Len(fs)) + fs[Len(fs)].size
DReset(c, r) == LET fs == c.regs[r].fields IN
                IF fs = <<>> THEN c.regs[r].reset ELSE FReset(fs, Len(fs))
(* register r spans DNW bus words *)
DNW(c, r) == (DSize(c, r) + c.w - 1) \div c.w

---------------------------------------------------------------------------
(* address decoding: page = high bits, bank b answers on page bankadr[b]   *)
BankAt(c, a) == LET p == a \div (2^c.pb)
                    S == { b \in 1..NB(c) : c.bankadr[b] = p }
                IN IF S = {} THEN 0 ELSE CHOOSE b \in S : TRUE
DTgt(c, a) == LET b == BankAt(c, a)
                  lo == a % (2^c.pb)
              IN IF b = 0 \/ c.built = 0 THEN <<0, 0>>
                 ELSE IF lo >= Len(c.map[b]) THEN <<0, 0>> ELSE c.map[b][lo + 1]

(* Address map of a bank (csr.py: AutoCSR, _sort_gathered_items, GenericBank).  What software relies  *)
(* on: the bank's list consists of its registers and reserved one-word fillers; every register owns *)
(* exactly its DNW words, at consecutive addresses, in position order; a register with a fixed      *)
(* location n is the n-th entry (from 0) of the list; the same declaration always yields the same   *)
(* map.  The order of the automatically placed registers is left open.  A construction may be       *)
(* refused only because of fixed locations (two registers at one location, or a location beyond     *)
(* the number of registers).                                                                        *)
BRegs(c, b) == { r \in 1..NR(c) : c.regs[r].bank = b }
Conflict(c, b) == \E r1, r2 \in BRegs(c, b) : r1 # r2 /\ c.regs[r1].n # -1 /\ c.regs[r1].n = c.regs[r2].n
WellFormed(c, b, m) ==
  /\ \A a \in 1..Len(m) : \/ m[a] = <<0, 0>>
                          \/ m[a][1] \in BRegs(c, b) /\ m[a][2] \in 0..(DNW(c, m[a][1]) - 1)
  /\ \A r \in BRegs(c, b) :
       /\ Cardinality({ a \in 1..Len(m) : m[a][1] = r }) = DNW(c, r)
       /\ \E a \in 1..Len(m) :
            /\ a + DNW(c, r) - 1 <= Len(m)
            /\ \A k \in 0..(DNW(c, r) - 1) : m[a + k] = <<r, k>>
            /\ c.regs[r].n # -1 =>                                   \* list entries before it = its location
                 Cardinality({ a2 \in 1..(a - 1) : m[a2][2] = 0 }) = c.regs[r].n
RejectAllowed(c) ==
  \E b \in 1..NB(c) : \/ Conflict(c, b)
                      \/ \E r \in BRegs(c, b) : c.regs[r].n >= Cardinality(BRegs(c, b))
LayoutOK(c) == IF c.built = 1
               THEN /\ \A b \in 1..NB(c) : ~Conflict(c, b) /\ WellFormed(c, b, c.map[b])
                    /\ c.map2 = c.map                                \* a second construction gives the same map
               ELSE RejectAllowed(c)

---------------------------------------------------------------------------
(* environment *)
Adrs(c) == 0..(c.npages * (2^c.pb) - 1)
Z(c) == [i \in 1..NR(c) |-> 0]
BusOps(c) == {<<0, 0, 0>>} \cup { <<2, a, 0>> : a \in Adrs(c) } \cup
             UNION { { <<1, a, x>> : x \in (IF DTgt(c, a)[1] # 0 THEN SeqSet(c.dats) ELSE {c.hdat}) } : a \in Adrs(c) }
DvSet(c, r) == IF IsDev(Kind(c, r)) THEN { x + 1 : x \in SeqSet(c.regs[r].dvs) }
               ELSE SeqSet(c.regs[r].dvs) \ {0}
OwnAdrs(c, r) == { a \in Adrs(c) : DTgt(c, a)[1] = r }
(* bus operations a device-side activity of register r is combined with: idle, accesses to r
   itself and (for the read path) reads of every address *)
Rel(c, r) == {<<0, 0, 0>>} \cup
             (IF IsDev(Kind(c, r))
              THEN { <<2, a, 0>> : a \in OwnAdrs(c, r) } \cup { <<1, a, x>> : a \in OwnAdrs(c, r), x \in SeqSet(c.dats) }
              ELSE { <<2, a, 0>> : a \in Adrs(c) })
DInputs(c) == { b \o Z(c) : b \in BusOps(c) } \cup
              UNION { { b \o [Z(c) EXCEPT ![r] = v] : b \in Rel(c, r), v \in DvSet(c, r) } : r \in 1..NR(c) }

---------------------------------------------------------------------------
(* Tables: the definitions above evaluated once per configuration (the drivers keep Ext(cfg) of
   every DUT / trace in a constant, so that a step only looks values up).  From here on `c` is an
   extended configuration. *)
Ext(c) == [w |-> c.w, little |-> c.little, pb |-> c.pb, npages |-> c.npages, bankadr |-> c.bankadr,
           regs |-> c.regs, map |-> c.map, map2 |-> c.map2, built |-> c.built, free |-> c.free, dats |-> c.dats, hdat |-> c.hdat,
           nr     |-> NR(c),
           ob     |-> 1 + NB(c),                                     \* outputs before the first register
           kind   |-> [r \in 1..NR(c) |-> c.regs[r].kind],
           size   |-> [r \in 1..NR(c) |-> DSize(c, r)],
           reset  |-> [r \in 1..NR(c) |-> DReset(c, r)],
           nw     |-> [r \in 1..NR(c) |-> DNW(c, r)],
           wrt    |-> [r \in 1..NR(c) |-> Writable(c, r)],
           atom   |-> [r \in 1..NR(c) |-> IsAtomic(c.regs[r].kind) /\ DNW(c, r) > 1],
           dev    |-> [r \in 1..NR(c) |-> IsDev(c.regs[r].kind)],
           const  |-> { r \in 1..NR(c) : IsStatus(c.regs[r].kind) /\ c.regs[r].dvs = <<>> },
           fregs  |-> { r \in 1..NR(c) : c.regs[r].fields # <<>> },
           foff   |-> [r \in 1..NR(c) |-> [j \in 1..Len(c.regs[r].fields) |-> FOff(c.regs[r].fields, j)]],
           fpos   |-> [r \in 1..NR(c) |-> [j \in 1..Len(c.regs[r].fields) |-> FPos(c.regs[r].fields, j)]],
           tgt    |-> IF c.free = 1 THEN <<>> ELSE [a \in 1..(c.npages * (2^c.pb)) |-> DTgt(c, a - 1)],
           inputs |-> IF c.free = 1 THEN {} ELSE DInputs(c),
           layoutok |-> LayoutOK(c)]
Inputs(c) == c.inputs
RSize(c, r) == c.size[r]
RReset(c, r) == c.reset[r]
NW(c, r) == c.nw[r]
Tgt(c, a) == IF c.free = 1 THEN DTgt(c, a) ELSE c.tgt[a + 1]
(* word geometry: the word at position k (address order) of register r holds bits [i*w, i*w + WBits)
   with i = k for little ordering and i = NW-1-k for big ordering (most significant word first) *)
WIdx(c, r, k) == IF c.little = 1 THEN k ELSE NW(c, r) - 1 - k
WBits(c, r, i) == Min(c.w, RSize(c, r) - i * c.w)
Word(c, r, v, i) == Slice(v, i * c.w, WBits(c, r, i))
SetWord(c, r, v, i, x) == v + (x - Word(c, r, v, i)) * (2^(i * c.w))      \* v with word i replaced by x
(* a pattern <<v, free>> stands for every value that agrees with v on all words outside `free` *)
Match(c, r, x, p) == IF p[2] = {} THEN x = p[1]
                     ELSE \A i \in (0..(NW(c, r) - 1)) \ p[2] : Word(c, r, x, i) = Word(c, r, p[1], i)

---------------------------------------------------------------------------
NoExp == [why |-> "N", alts |-> {}]
AllOk == [okwrite |-> TRUE, okatomic |-> TRUE, okread |-> TRUE, okstrobe |-> TRUE, okisol |-> TRUE,
          okzero |-> TRUE, okfield |-> TRUE, okpulse |-> TRUE, okreset |-> TRUE, okdev |-> TRUE,
          oklayout |-> TRUE]
NoOwe == <<{0}, {0}, 0>>

CInit(c) ==
  /\ exp = [r \in 1..c.nr |->
              IF c.wrt[r]
              THEN [why |-> "R", alts |-> {<<IF c.kind[r] = "status_rw" THEN 0 ELSE RReset(c, r), {}>>}]
              ELSE NoExp]
  /\ stg = [r \in 1..c.nr |-> [i \in 1..MaxW |-> -1]]
  /\ rd = <<>>
  /\ bsel = 0
  /\ owe = [r \in 1..c.nr |-> NoOwe]
  /\ obs = [AllOk EXCEPT !.oklayout = c.layoutok]

(* strobe accounting.  An access causes its strobe in the same or in the next cycle ("after or during").
   S: what may be owed from the previous cycle, cur: what this cycle's access causes, x: the strobe seen.
   x = 1 is attributed to the owed strobe (this cycle's cause is then owed to the next cycle) or to this
   cycle's access (nothing mandatory may then be left over); x = 0 is legal if nothing mandatory is owed. *)
OweSet(S, cur, x) == IF x = 1
                     THEN (IF \E q \in S : q # 0 THEN {cur} ELSE {}) \cup
                          (IF cur # 0 /\ \E q \in S : q # 2 THEN {0} ELSE {})
                     ELSE IF \E q \in S : q # 2 THEN {cur} ELSE {}
StrobeOk(S, cur, x) == OweSet(S, cur, x) # {}
OweNext(S, cur, x)  == IF OweSet(S, cur, x) = {} THEN {cur} ELSE OweSet(S, cur, x)

CStep(c, iv, o) ==
  LET op  == iv[1]
      adr == iv[2]
      dat == iv[3]
      N   == c.nr
      tg  == Tgt(c, adr)
      tr  == IF op = 0 THEN 0 ELSE tg[1]                              \* accessed register (0: none)
      V(r)  == o[c.ob + 5 * r - 4]
      RE(r) == o[c.ob + 5 * r - 3]
      WE(r) == o[c.ob + 5 * r - 2]
      FF(r) == o[c.ob + 5 * r - 1]
      R2(r) == o[c.ob + 5 * r]
      DV(r) == iv[3 + r]
      wr(r) == op = 1 /\ tr = r
      last == tg[2] = NW(c, tr) - 1                                   \* highest address of the register
      wi == WIdx(c, tr, tg[2])                                        \* word index of the addressed word
      wdat == dat % (2^WBits(c, tr, wi))
      devw(r) == c.dev[r] /\ DV(r) # 0
      devv(r) == (DV(r) - 1) % (2^RSize(c, r))
      (* the bus-writable content of every register in this cycle *)
      cur == [r \in 1..N |-> IF c.kind[r] = "status_rw" THEN R2(r) ELSE V(r)]
      (* ---- what the content of register r may be in the next cycle ---- *)
      over(v) == SetWord(c, tr, v, wi, wdat)
      cmw(r, i) == IF i >= NW(c, r) THEN 0 ELSE IF i = wi THEN wdat ELSE IF stg[r][i + 1] = -1 THEN 0 ELSE stg[r][i + 1]
      cmt(r, i) == IF i >= NW(c, r) THEN 0 ELSE cmw(r, i) * (2^(i * c.w))
      commit(r) == << cmt(r, 0) + cmt(r, 1) + cmt(r, 2) + cmt(r, 3),
                      { i \in 0..(NW(c, r) - 1) : i # wi /\ stg[r][i + 1] = -1 } >>
      expn(r) ==
        IF ~c.wrt[r] THEN NoExp
        ELSE IF wr(r)
        THEN IF c.atom[r]
             THEN IF last                                             \* commit (a same-cycle device write may win)
                  THEN [why |-> "A", alts |-> {commit(r)}]            \* the bus write takes effect, also against a same-cycle device write
                  ELSE [why |-> "A",                                  \* staged only: the bus does not change the register
                        alts |-> {<<IF devw(r) THEN devv(r) ELSE cur[r], {}>>}]
             ELSE IF devw(r)                                          \* same-cycle conflict: the addressed word takes the bus data
                  \* ("a bus write changes exactly the addressed register bits"); the other words may keep
                  \* their value or take the device's
                  THEN [why |-> "D", alts |-> {<<over(cur[r]), {}>>, <<over(devv(r)), {}>>}]
                  ELSE [why |-> "W", alts |-> {<<over(cur[r]), {}>>}]
        ELSE IF devw(r) THEN [why |-> "D", alts |-> {<<devv(r), {}>>}]
        ELSE [why |-> "I", alts |-> {<<cur[r], {}>>}]
      (* ---- judgement of this cycle's content against the previous step's expectation ---- *)
      badset == { r \in 1..N : c.wrt[r] /\ ~\E p \in exp[r].alts : Match(c, r, cur[r], p) }
      bad(code) == \E r \in badset : exp[r].why = code
      (* ---- strobes: what this cycle's access causes (2: must, 1: may) ---- *)
      cre(r) == IF op # 1 \/ tr # r THEN 0
                ELSE IF c.kind[r] = "csr" THEN 2
                ELSE IF c.kind[r] = "status" THEN 1
                ELSE IF last THEN 2 ELSE 1
      cwe(r) == IF op # 2 \/ tr # r THEN 0
                ELSE IF c.kind[r] = "csr" THEN 2
                ELSE IF IsStatus(c.kind[r]) THEN (IF last THEN 2 ELSE 1)
                ELSE 0
      quiet(r) == owe[r] = NoOwe /\ tr # r                            \* nothing owed, not accessed
      sbad == { r \in 1..N : IF quiet(r) THEN RE(r) = 1 \/ WE(r) = 1
                             ELSE ~StrobeOk(owe[r][1], cre(r), RE(r)) \/ ~StrobeOk(owe[r][2], cwe(r), WE(r)) }
      spurious(r) == \/ RE(r) = 1 /\ owe[r][1] = {0} /\ cre(r) = 0
                     \/ WE(r) = 1 /\ owe[r][2] = {0} /\ cwe(r) = 0
      csrdata(r) == (c.kind[r] = "csr" /\ RE(r) = 1 /\ r \notin sbad) =>
                       \/ owe[r][1] # {0} /\ V(r) = owe[r][3]
                       \/ cre(r) # 0 /\ V(r) = dat % (2^RSize(c, r))
      owen(r) == IF quiet(r) /\ RE(r) = 0 /\ WE(r) = 0 THEN NoOwe
                 ELSE LET a == OweNext(owe[r][1], cre(r), RE(r)) IN
                      <<a, OweNext(owe[r][2], cwe(r), WE(r)), IF a # {0} THEN dat % (2^RSize(c, r)) ELSE 0>>
      (* ---- reads ---- *)
      rdval == IF c.kind[tr] = "csr" THEN DV(tr) % (2^RSize(c, tr)) ELSE Word(c, tr, V(tr), wi)
      (* ---- fields ---- *)
      fs(r) == c.regs[r].fields
      fieldok(r) ==
        IF IsStorage(c.kind[r])
        THEN \A j \in 1..Len(fs(r)) : fs(r)[j].pulse = 0 =>
               Slice(FF(r), c.fpos[r][j], fs(r)[j].size) = Slice(V(r), c.foff[r][j], fs(r)[j].size)
        ELSE c.regs[r].dvs # <<>> =>
               \A b \in 0..(RSize(c, r) - 1) :
                  Slice(V(r), b, 1) =
                    (IF \E j \in 1..Len(fs(r)) : c.foff[r][j] <= b /\ b < c.foff[r][j] + fs(r)[j].size
                     THEN LET j == CHOOSE j \in 1..Len(fs(r)) : c.foff[r][j] <= b /\ b < c.foff[r][j] + fs(r)[j].size
                          IN Slice(DV(r), c.fpos[r][j] + b - c.foff[r][j], 1)
                     ELSE 0)
      pulseok(r) ==
        IsStorage(c.kind[r]) =>
          \A j \in 1..Len(fs(r)) : fs(r)[j].pulse = 1 =>
            Slice(FF(r), c.fpos[r][j], 1) = (IF RE(r) = 1 THEN Slice(V(r), c.foff[r][j], 1) ELSE 0)
  IN
  /\ exp' = [r \in 1..N |-> expn(r)]
  /\ stg' = IF tr = 0 \/ op # 1 \/ ~c.atom[tr] THEN stg
            ELSE IF ~last THEN [stg EXCEPT ![tr][wi + 1] = wdat]
            ELSE [stg EXCEPT ![tr] = [i \in 1..MaxW |-> -1]]       \* whether the back-buffer survives a commit is left open
  /\ rd' = IF op = 2 /\ tr # 0 THEN <<rdval>> ELSE <<>>
  /\ bsel' = BankAt(c, adr)
  /\ owe' = [r \in 1..N |-> owen(r)]
  /\ obs' = [okwrite  |-> ~bad("W") /\ \A r \in 1..N : csrdata(r),
             okatomic |-> ~bad("A"),
             okdev    |-> ~bad("D"),
             okisol   |-> ~bad("I") /\ (op # 0 => \A r \in sbad : ~spurious(r)),
             okreset  |-> ~bad("R") /\ \A r \in c.const : V(r) = RReset(c, r),
             okstrobe |-> \A r \in sbad : op # 0 /\ spurious(r),
             okread   |-> rd # <<>> => o[1] = rd[1],
             okzero   |-> /\ \A b \in 1..NB(c) : b # bsel => o[1 + b] = 0
                          /\ bsel = 0 => o[1] = 0,
             okfield  |-> \A r \in c.fregs : fieldok(r),
             okpulse  |-> \A r \in c.fregs : pulseok(r),
             oklayout |-> TRUE]

---------------------------------------------------------------------------
(* a bus write changes exactly the addressed word of the addressed register, in the same cycle
   (visible in the next one); CSR.r carries the written data while CSR.re is high *)
WriteExact          == obs.okwrite
(* atomic_write: words written to the lower addresses only reach the back-buffer; the register
   changes as a whole, and only, when its last address is written *)
AtomicCommit        == obs.okatomic
(* dat_r one cycle after a read = the addressed word's value in the read cycle *)
ReadNextCycle       == obs.okread
(* re / we of a register pulse once (in the cycle of or after the access) per write / read that
   completes the register (its last address; its only address for a raw CSR), at most once per
   other access to it, and never without one *)
StrobesSingleCycle  == obs.okstrobe
(* accesses to other registers, holes, other pages change nothing and cause no strobe *)
Isolation           == obs.okisol
(* a bank whose page is not addressed drives dat_r = 0 *)
ZeroWhenUnselected  == obs.okzero
(* field signals are the register bits at the declared offsets *)
FieldOffsets        == obs.okfield
(* a pulse field shows its bit during the write strobe only *)
PulseFieldsOneCycle == obs.okpulse
(* declared / composed reset values after reset; an undriven status keeps its reset value *)
ResetValues         == obs.okreset
(* write_from_dev: the device's we/dat_w replaces the value *)
DeviceWrite         == obs.okdev
(* the address map is well formed: every register owns its words once, consecutively; fixed
   locations honoured, conflicts refused; reproducible *)
AddressesDisjoint   == obs.oklayout
=============================================================================
