----------------------------- MODULE CsrSramTrace -----------------------------
EXTENDS CsrSramContract, Json, IOUtils
T == JsonDeserialize(IOEnv.TRACES)
VARIABLES tid, l, envbad
vars == <<tid, l, envbad, mem, stw, page, rd, ssel, obs>>
C == T[tid].cfg
Init == /\ tid \in 1..Len(T) /\ l = 1 /\ envbad = FALSE /\ CInit(C)
Next ==
  /\ l <= Len(T[tid].ev)
  /\ LET iv == T[tid].ev[l][1]
         o  == T[tid].ev[l][2]
     IN /\ envbad' = (envbad \/ iv \notin Inputs(C))
        /\ CStep(C, iv, o)
  /\ l' = l + 1 /\ tid' = tid
EnvLegal == ~envbad
=============================================================================
