---------------------------- MODULE CsrBankCases ----------------------------
(***************************************************************************)
(* Input space of the construction part of C12 (clause AddressesDisjoint): *)
(* register lists of one CSR bank with automatic and fixed locations.      *)
(* A case is a sequence of registers <<number of bus words, location>>,    *)
(* location -1 = automatic, otherwise the fixed position `n` of the        *)
(* register in the bank's list (csr.py: _CSRBase(n=...)).  The harness     *)
(* builds every printed case with the real AutoCSR / CSRBankArray code and *)
(* CsrBankTrace judges the address map (or the refusal) that comes back.   *)
(* Locations range over 0 .. k+1 for k registers: conflicts, holes, the    *)
(* last list position and positions beyond the list all occur.             *)
(***************************************************************************)
EXTENDS Integers, Sequences, TLC, IOUtils

VARIABLE x

Shapes(k, words) == { <<nw, n>> : nw \in words, n \in -1..(k + 1) }
Lists(k, words) == [1..k -> Shapes(k, words)]
Cases(tier) ==
  IF tier = "quick"
  THEN Lists(1, {1, 2}) \cup Lists(2, {1, 2}) \cup Lists(3, {1, 2})
  ELSE Lists(1, {1, 2, 3}) \cup Lists(2, {1, 2, 3}) \cup Lists(3, {1, 2}) \cup Lists(4, {1}) \cup
       { q \in Lists(4, {1, 2}) : q[1][1] = 2 /\ q[2][1] = 1 /\ q[3][1] = 2 /\ q[4][1] = 1 }

Init == /\ x = 0
        /\ \A q \in Cases(IOEnv.CSRBANK_TIER) :
              PrintT(<<"CASE", [i \in 1..Len(q) |-> q[i][1]], [i \in 1..Len(q) |-> q[i][2]]>>)
Next == FALSE /\ UNCHANGED x
=============================================================================
