-------------------------- MODULE CsrBankModelConf --------------------------
(* Conformance of the L2 model (CsrBankModel) to the real netlists and to    *)
(* the real constructor.                                                     *)
(*  (a) T.duts[i] = [m, reset, cases |-> << <<r, iv, o, r2>>, .. >>]: every  *)
(*      recorded step (registers read by name from the netlist, inputs,      *)
(*      outputs, registers after the clock edge) must be what MStep / SStep  *)
(*      computes.  Cases = ALL edges of the complete G-mode graphs of the    *)
(*      CSRBankArray and csr_bus.SRAM DUTs + every cycle of the long runs at *)
(*      8/16/32-bit bus words.  m.map = the address map the real code built. *)
(*  (b) T.layouts[i] = [m, built, error, map]: outcome of the real AutoCSR / *)
(*      _sort_gathered_items / GenericBank construction for a register list  *)
(*      (the TLC-enumerated construction cases): the model must build the    *)
(*      same map or refuse with the same exception.                          *)
(* A disagreement is MODEL-DRIFT, never a verdict.                           *)
EXTENDS Integers, Sequences, TLC, Json, IOUtils

M == INSTANCE CsrBankModel
T == JsonDeserialize(IOEnv.CASES)

VARIABLES i, j
vars == <<i, j>>
Init == i \in 1..Len(T.duts) /\ j \in 1..Len(T.duts[i].cases)
Next == UNCHANGED vars

IsBank(x) == T.duts[x].m.cls = "bank"
TB == [x \in 1..Len(T.duts) |-> IF IsBank(x) THEN M!MTab(T.duts[x].m) ELSE T.duts[x].m]    \* evaluated once
K == T.duts[i].cases[j]
E == IF IsBank(i) THEN M!MStep(TB[i], K[1], K[2]) ELSE M!SStep(TB[i], K[1], K[2])
OutputsAgree == E.o = K[3]
NextStateAgrees == E.r = K[4]
ResetAgrees == T.duts[i].reset = (IF IsBank(i) THEN M!MInit(TB[i]) ELSE M!SInit(TB[i]))
LayoutAgrees == IsBank(i) => TB[i].built = 1 /\ TB[i].map = T.duts[i].m.map

(* (b): one initial state per construction case *)
InitL == i \in 1..Len(T.layouts) /\ j = 0
LT == [x \in 1..Len(T.layouts) |-> M!MTab(T.layouts[x].m)]
ConstructionAgrees ==
  /\ LT[i].built = T.layouts[i].built
  /\ LT[i].error = T.layouts[i].error
  /\ T.layouts[i].built = 1 => LT[i].map = T.layouts[i].map
=============================================================================
