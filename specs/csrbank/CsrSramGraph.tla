----------------------------- MODULE CsrSramGraph -----------------------------
EXTENDS CsrSramContract, Json, IOUtils
G == JsonDeserialize(IOEnv.GRAPH)
NDuts == Len(G.duts)
VARIABLES d, s
vars == <<d, s, mem, stw, page, rd, ssel, obs>>
C == G.duts[d].cfg
Init == /\ d \in 1..NDuts /\ s = 0 /\ CInit(C)
Step(iv) ==
  /\ s >= 0
  /\ LET k == ToString(iv) IN
       IF k \in DOMAIN G.duts[d].succ[s + 1]
       THEN LET e == G.duts[d].succ[s + 1][k] IN
            /\ s' = e.d /\ d' = d
            /\ CStep(C, iv, e.o)
       ELSE /\ PrintT(<<"NEED", d, s, iv>>)
            /\ s' = -1 /\ d' = d /\ UNCHANGED cvars
Next == \E iv \in Inputs(C) : Step(iv)
Spec == Init /\ [][Next]_vars
Alias == [d |-> d, s |-> s, obs |-> obs, mem |-> mem, stw |-> stw, page |-> page, rd |-> rd,
          iv |-> CHOOSE iv \in Inputs(C) : Step(iv)]
=============================================================================
