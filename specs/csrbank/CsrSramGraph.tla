----------------------------- MODULE CsrSramGraph -----------------------------
EXTENDS CsrSramContract, Json, IOUtils, GraphLookup
G == JsonDeserialize(IOEnv.GRAPH)
NDuts == Len(G.duts)
VARIABLES d, s
vars == <<d, s, mem, stw, page, rd, ssel, obs>>
C == G.duts[d].cfg
Init == /\ d \in 1..NDuts /\ s = 0 /\ CInit(C)
Step(iv) ==
  /\ s >= 0
  /\ LET e == GLookup(G.duts[d].succ[s + 1], iv) IN        \* <<iv, outputs, successor>> or <<>>
       IF e # <<>>
       THEN /\ s' = e[3] /\ d' = d
            /\ CStep(C, iv, e[2])
       ELSE /\ PrintT(<<"NEED", d, s, iv>>)
            /\ s' = -1 /\ d' = d /\ UNCHANGED cvars
Next == \E iv \in Inputs(C) : Step(iv)
Spec == Init /\ [][Next]_vars
Alias == [d |-> d, s |-> s, obs |-> obs, mem |-> mem, stw |-> stw, page |-> page, rd |-> rd,
          iv |-> CHOOSE iv \in Inputs(C) : Step(iv)]
=============================================================================
