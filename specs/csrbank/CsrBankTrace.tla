---------------------------- MODULE CsrBankTrace ----------------------------
(* T-mode: recorded cycles of the real netlist (linear replay of G-mode      *)
(* counterexamples, long runs at real bus widths) and construction outcomes  *)
(* (traces without events: only AddressesDisjoint is evaluated) are judged   *)
(* by the same contract.                                                     *)
EXTENDS CsrBankContract, Json, IOUtils
T == JsonDeserialize(IOEnv.TRACES)
VARIABLES tid, l, envbad
vars == <<tid, l, envbad, exp, stg, rd, bsel, owe, obs>>
K == [i \in 1..Len(T) |-> Ext(T[i].cfg)]         \* evaluated once (constant)
C == K[tid]
Init == /\ tid \in 1..Len(T) /\ l = 1 /\ envbad = FALSE /\ CInit(C)
(* legality of a recorded stimulus: G-mode schedules come from Inputs; long runs (cfg.free = 1)
   may combine any bus operation with any device-side values of the declared alphabets *)
Legal(c, iv) ==
  IF c.free = 1
  THEN /\ Len(iv) = 3 + NR(c)
       /\ iv[1] \in 0..2 /\ iv[2] \in Adrs(c) /\ iv[3] >= 0 /\ (c.w < 31 => iv[3] < 2^c.w)
       /\ \A r \in 1..NR(c) : iv[3 + r] = 0 \/ iv[3 + r] \in DvSet(c, r)
  ELSE iv \in Inputs(c)
Next ==
  /\ l <= Len(T[tid].ev)
  /\ LET iv == T[tid].ev[l][1]
         o  == T[tid].ev[l][2]
     IN /\ envbad' = (envbad \/ ~Legal(C, iv))
        /\ CStep(C, iv, o)
  /\ l' = l + 1 /\ tid' = tid
EnvLegal == ~envbad
=============================================================================
