---------------------------- MODULE CsrBankModelM ----------------------------
(* M-mode:  L2 model (CsrBankModel) x Env x CsrBankContract monitor, no code *)
(* involved.  This is CsrBankGraph with the lookup in the graph of the real  *)
(* netlist replaced by the model's step function: environment and clauses    *)
(* are literally those that judge the real code.  The address map the        *)
(* contract judges (AddressesDisjoint) and uses for decoding is the one the  *)
(* MODEL of _sort_gathered_items / GenericBank computes.                     *)
(* MC = list of [c |-> declaration part of the L1 configuration (map, map2,  *)
(* built are placeholders), m |-> model configuration].                      *)
EXTENDS CsrBankContract, Json, IOUtils

M == INSTANCE CsrBankModel
MC == JsonDeserialize(IOEnv.MCFG)

VARIABLES d,   \* which configuration
          r    \* the model's registers
vars == <<d, r, exp, stg, rd, bsel, owe, obs>>

TB == [i \in 1..Len(MC) |-> M!MTab(MC[i].m)]                                   \* evaluated once (constant)
K  == [i \in 1..Len(MC) |-> Ext([MC[i].c EXCEPT !.built = TB[i].built, !.map = TB[i].map, !.map2 = TB[i].map])]
C == K[d]

Init == /\ d \in 1..Len(MC) /\ r = M!MInit(TB[d]) /\ CInit(C)

Step(iv) ==
  LET e == M!MStep(TB[d], r, iv) IN
    /\ r' = e.r /\ d' = d
    /\ CStep(C, iv, e.o)

Next == \E iv \in Inputs(C) : Step(iv)
Spec == Init /\ [][Next]_vars
Alias == [d |-> d, r |-> r, obs |-> obs, exp |-> exp, stg |-> stg, rd |-> rd, owe |-> owe,
          iv |-> CHOOSE iv \in Inputs(C) : Step(iv)]
=============================================================================
