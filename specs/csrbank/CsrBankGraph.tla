---------------------------- MODULE CsrBankGraph ----------------------------
(* G-mode product of CsrBankContract with the transition graph of the real   *)
(* CSRBankArray + interconnect netlists (harness/graphloop.py).              *)
EXTENDS CsrBankContract, Json, IOUtils, GraphLookup

G == JsonDeserialize(IOEnv.GRAPH)
NDuts == Len(G.duts)
VARIABLES d, s
vars == <<d, s, exp, stg, rd, bsel, owe, obs>>
K == [i \in 1..NDuts |-> Ext(G.duts[i].cfg)]     \* evaluated once (constant)
C == K[d]

Init == /\ d \in 1..NDuts /\ s = 0 /\ CInit(C)

Step(iv) ==
  /\ s >= 0
  /\ LET e == GLookup(G.duts[d].succ[s + 1], iv) IN        \* <<iv, outputs, successor>> or <<>>
       IF e # <<>>
       THEN /\ s' = e[3] /\ d' = d
            /\ CStep(C, iv, e[2])
       ELSE /\ PrintT(<<"NEED", d, s, iv>>)
            /\ s' = -1 /\ d' = d /\ UNCHANGED cvars

Next == \E iv \in Inputs(C) : Step(iv)
Spec == Init /\ [][Next]_vars
Alias == [d |-> d, s |-> s, obs |-> obs, exp |-> exp, stg |-> stg, rd |-> rd, owe |-> owe,
          iv |-> CHOOSE iv \in Inputs(C) : Step(iv)]
=============================================================================
