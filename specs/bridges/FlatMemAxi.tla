----------------------------- MODULE FlatMemAxi -----------------------------
(***************************************************************************)
(* L1 contract "an AXI4 master sees a flat byte-addressable memory"        *)
(* (property C09) with short bursts at full bus width.                     *)
(*                                                                         *)
(* One step = one clock cycle.                                             *)
(*  miv = <<awv, wa, wlen, wburst, wv, wstrb, wdata, wlast, bready,        *)
(*          arv, ra, rlen, rburst, rready>>                                *)
(*    <<wa, wlen, wburst>> is the write request ("plan") the master is     *)
(*    carrying out: start word, beats - 1, burst type (0 FIXED, 1 INCR,    *)
(*    2 WRAP); it is fixed when the first of AW / W is presented, because  *)
(*    data may precede the address and WLAST depends on the length; the    *)
(*    harness puts it on the AW wires only while awv = 1.  The transaction *)
(*    id is (start word + len) % 2.  Likewise <<ra, rlen, rburst>>.        *)
(*  mo  = <<awready, wready, bvalid, bresp, bid, arready, rvalid, rresp,    *)
(*          rid, rlast, lane_0 .. lane_(L-1)>>                             *)
(* One write and one read request at a time (c.serial = 1: one request).   *)
(* AW and the W beats are presented in any interleaving, each offer held.  *)
(* Memory semantics as in FlatMemAxiLite: effect between first             *)
(* presentation and B, the reference memory is updated at B with all beats *)
(* in order; a read snapshots at its presentation, bytes of words that a   *)
(* write in flight may touch are unconstrained.                            *)
(* c: lanes, words, init, plans (list of <<start, len, burst>>), walpha,   *)
(*    dirs, serial, readonly, badlo                                        *)
(***************************************************************************)
EXTENDS Integers, Sequences, FiniteSets, TLC

VARIABLES mem, ms, mobs

Bit(x, i) == (x \div (2^i)) % 2
LaneSet(c) == 0..(c.lanes - 1)

(* word addressed by beat n of a burst (full-width beats) *)
BeatWord(p, n) ==
  LET a == p[1]  len == p[2]  b == p[3] IN
  CASE b = 0 -> a
    [] b = 1 -> a + n
    [] OTHER -> (a \div (len + 1)) * (len + 1) + ((a + n) % (len + 1))
BurstWords(p) == { BeatWord(p, n) : n \in 0..p[2] }
TxId(p) == (p[1] + p[2]) % 2

MInit(c) ==
  /\ mem = [b \in 1..(c.words * c.lanes) |-> c.init[b]]
  /\ ms = [wreq |-> <<>>,    \* write request being carried out
           awst |-> 0,       \* its AW: 0 not yet presented, 1 offered (held), 2 accepted
           wd   |-> <<>>,    \* its accepted beats <<strb, data>>
           wh   |-> 0,       \* held W offer: index into c.walpha
           rreq |-> <<>>,    \* read request
           arst |-> 0,       \* 1 offered (held), 2 accepted
           rexp |-> <<>>,    \* expected lanes of the beats not yet received
           bh   |-> <<>>, rh |-> <<>>]
  /\ mobs = [okread |-> TRUE, okresp |-> TRUE, okcode |-> TRUE, okhold |-> TRUE, okburst |-> TRUE,
             wwait |-> FALSE, rwait |-> FALSE, mfair |-> TRUE]

MInputs(c) ==
  LET WAct == ms.wreq # <<>>
      RAct == ms.rreq # <<>>
      \* ---- write side: <<awv, a, len, burst, wv, strb, data, last>>
      WBeat(p, w) == IF w = 0 THEN <<0, 0, 0, 0>>
                     ELSE <<1, c.walpha[w][1], c.walpha[w][2], IF Len(ms.wd) = p[2] THEN 1 ELSE 0>>
      WSide ==
        IF WAct
        THEN LET p == ms.wreq
                 AV == CASE ms.awst = 0 -> {0, 1} [] ms.awst = 1 -> {1} [] OTHER -> {0}
                 WV == IF ms.wh # 0 THEN { ms.wh }
                       ELSE IF Len(ms.wd) <= p[2] THEN 0..Len(c.walpha) ELSE {0}
             IN { <<av, p[1], p[2], p[3]>> \o WBeat(p, w) : av \in AV, w \in WV }
        ELSE { <<0, 0, 0, 0, 0, 0, 0, 0>> } \cup
             (IF c.dirs = "r" THEN {}
              ELSE { <<x[1], c.plans[i][1], c.plans[i][2], c.plans[i][3]>> \o
                     (IF x[2] = 0 THEN <<0, 0, 0, 0>>
                      ELSE <<1, c.walpha[x[2]][1], c.walpha[x[2]][2], IF c.plans[i][2] = 0 THEN 1 ELSE 0>>) :
                     i \in 1..Len(c.plans),
                     x \in { y \in {0, 1} \X (0..Len(c.walpha)) : y[1] = 1 \/ y[2] # 0 } })
      \* ---- read side: <<arv, a, len, burst>>
      RSide ==
        IF RAct THEN { <<IF ms.arst = 1 THEN 1 ELSE 0, IF ms.arst = 1 THEN ms.rreq[1] ELSE 0,
                         IF ms.arst = 1 THEN ms.rreq[2] ELSE 0, IF ms.arst = 1 THEN ms.rreq[3] ELSE 0>> }
        ELSE { <<0, 0, 0, 0>> } \cup
             (IF c.dirs = "w" THEN {} ELSE { <<1, c.plans[i][1], c.plans[i][2], c.plans[i][3]>> : i \in 1..Len(c.plans) })
      WNow(w) == WAct \/ w[1] = 1 \/ w[5] = 1
      RNow(r) == RAct \/ r[1] = 1
  IN UNION { { wr[1] \o <<b>> \o wr[2] \o <<rr>> :
                 b \in (IF WNow(wr[1]) THEN {0, 1} ELSE {1}), rr \in (IF RNow(wr[2]) THEN {0, 1} ELSE {1}) } :
             wr \in { x \in WSide \X RSide : c.serial = 1 => ~(WNow(x[1]) /\ RNow(x[2])) } }

WIndex(c, strb, data) == CHOOSE i \in 1..Len(c.walpha) : c.walpha[i] = <<strb, data>>
BadWord(c, a) == c.badlo > 0 /\ a * c.lanes + 1 >= c.badlo
IsErr(resp) == resp \in {2, 3}

MStep(c, miv, mo) ==
  LET awv == miv[1] = 1   wv == miv[5] = 1   arv == miv[10] = 1
      awfire == awv /\ mo[1] = 1
      wfire  == wv /\ mo[2] = 1
      bvalid == mo[3] = 1
      bfire  == bvalid /\ miv[9] = 1
      arfire == arv /\ mo[6] = 1
      rvalid == mo[7] = 1
      rfire  == rvalid /\ miv[14] = 1
      B(a, l) == a * c.lanes + l + 1
      \* ---- write request of this cycle
      wreq1 == IF ms.wreq # <<>> THEN ms.wreq ELSE IF awv \/ wv THEN <<miv[2], miv[3], miv[4]>> ELSE <<>>
      awst1 == IF awfire THEN 2 ELSE IF awv THEN 1 ELSE ms.awst
      wd1   == IF wfire THEN Append(ms.wd, <<miv[6], miv[7]>>) ELSE ms.wd
      bok   == wreq1 # <<>> /\ awst1 = 2 /\ Len(wd1) = wreq1[2] + 1      \* the response is owed
      Touched(a) == wreq1 # <<>> /\ a \in BurstWords(wreq1)
      \* memory after the whole burst
      RECURSIVE Apply(_, _)
      Apply(m, n) == IF n > Len(wd1) THEN m
                     ELSE LET a == BeatWord(wreq1, n - 1)  st == wd1[n][1]  da == wd1[n][2] IN
                          Apply(IF BadWord(c, a) THEN m
                                ELSE [b \in DOMAIN m |-> IF \E l \in LaneSet(c) : b = B(a, l) /\ Bit(st, l) = 1
                                                         THEN Bit(da, b - a * c.lanes - 1) ELSE m[b]], n + 1)
      werrmust == \E n \in 1..Len(wd1) : BadWord(c, BeatWord(wreq1, n - 1)) /\ wd1[n][1] # 0
      werrmay  == \E n \in 1..Len(wd1) : BadWord(c, BeatWord(wreq1, n - 1))
      \* ---- read request of this cycle
      newr  == ms.rreq = <<>> /\ arv
      rreq1 == IF newr THEN <<miv[11], miv[12], miv[13]>> ELSE ms.rreq
      arst1 == IF arfire THEN 2 ELSE IF arv THEN 1 ELSE ms.arst
      rexp0 == IF newr THEN [n \in 1..(rreq1[2] + 1) |->
                               [l \in LaneSet(c) |-> IF BadWord(c, BeatWord(rreq1, n - 1)) THEN 2
                                                     ELSE mem[B(BeatWord(rreq1, n - 1), l)]]]
               ELSE ms.rexp
      nrecv == IF rreq1 = <<>> THEN 0 ELSE rreq1[2] + 1 - Len(rexp0)       \* beats received so far
      rexp1 == [i \in 1..Len(rexp0) |->
                  [l \in LaneSet(c) |-> IF Touched(BeatWord(rreq1, nrecv + i - 1)) THEN 2 ELSE rexp0[i][l]]]
      rok   == rreq1 # <<>> /\ arst1 = 2 /\ rexp1 # <<>>                   \* a beat is owed
      islast == Len(rexp1) = 1
      beatw == BeatWord(rreq1, nrecv)
      okread == (rvalid /\ rok /\ ~IsErr(mo[8])) =>
                  \A l \in LaneSet(c) : rexp1[1][l] = 2 \/ mo[11 + l] = rexp1[1][l]
      okcode == /\ (bvalid /\ bok) => (IF werrmust THEN IsErr(mo[4]) ELSE IF werrmay THEN TRUE ELSE mo[4] = 0)
                /\ (rvalid /\ rok) => (IF BadWord(c, beatw) THEN IsErr(mo[8]) ELSE mo[8] = 0)
      okburst == /\ (bvalid /\ bok) => mo[5] = TxId(wreq1)
                 /\ (rvalid /\ rok) => (mo[9] = TxId(rreq1) /\ (mo[10] = 1 <=> islast))
      bcur == <<mo[4], mo[5]>>
      rcur == <<mo[8], mo[9], mo[10]>> \o [l \in 1..c.lanes |-> mo[10 + l]]
      okhold == /\ (ms.bh # <<>> => (bvalid /\ bcur = ms.bh))
                /\ (ms.rh # <<>> => (rvalid /\ rcur = ms.rh))
      wend == bfire /\ bok
      rbeat == rfire /\ rok
      rend == rbeat /\ islast
  IN
  /\ mem' = IF wend /\ c.readonly = 0 THEN Apply(mem, 1) ELSE mem
  /\ ms' = [wreq |-> IF wend THEN <<>> ELSE wreq1,
            awst |-> IF wend THEN 0 ELSE awst1,
            wd   |-> IF wend THEN <<>> ELSE wd1,
            wh   |-> IF wv /\ ~wfire THEN WIndex(c, miv[6], miv[7]) ELSE 0,
            rreq |-> IF rend THEN <<>> ELSE rreq1,
            arst |-> IF rend THEN 0 ELSE arst1,
            rexp |-> IF rbeat THEN Tail(rexp1) ELSE rexp1,
            bh   |-> IF bvalid /\ ~bfire THEN bcur ELSE <<>>,
            rh   |-> IF rvalid /\ ~rfire THEN rcur ELSE <<>>]
  /\ mobs' = [okread |-> okread,
              okresp |-> (bvalid => bok) /\ (rvalid => rok),
              okcode |-> okcode,
              okhold |-> okhold,
              okburst |-> okburst,
              wwait  |-> wreq1 # <<>> /\ ~wend,
              rwait  |-> rreq1 # <<>> /\ ~rbeat,
              \* the master cooperates: ready for responses and presenting everything it owes
              mfair  |-> /\ miv[9] = 1 /\ miv[14] = 1
                         /\ (wreq1 # <<>> => ((awst1 >= 1) /\ (Len(wd1) = wreq1[2] + 1 \/ wv)))]

MEvents(c, miv, mo) == [wdone |-> FALSE, wany |-> FALSE, rdone |-> FALSE]

ReadReturnsLastWrite  == mobs.okread
OneResponsePerRequest == mobs.okresp    \* B only after AW and all W beats, R beats only for an accepted read, never more than len + 1
ErrorsPropagated      == mobs.okcode
MasterValidHold       == mobs.okhold
BurstsAnswered        == mobs.okburst   \* RLAST exactly on the last beat, BID / RID are the request's id
=============================================================================
