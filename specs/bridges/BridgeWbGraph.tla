------------------------- MODULE BridgeWbGraph -------------------------
(* G-mode product: Wishbone master Env x flat-memory monitor x slave-side monitors x graph   *)
(* of the real netlist (bridge / converter + stall shim + the repository's own memory).       *)
(* iv = master inputs (5) \o shim gates (5);  o = master outputs (c.mo) \o slave-side signals  *)
EXTENDS FlatMemWb, SlaveSide, Json, IOUtils
G == JsonDeserialize(IOEnv.GRAPH)
NDuts == Len(G.duts)
VARIABLES d, s, par
vars == <<d, s, par, mem, ms, mobs, sl>>
C == G.duts[d].cfg
NM == 5
Inputs(c) == { a \o b : a \in MInputs(c), b \in SInputs(c) }
Init == /\ d \in 1..NDuts /\ s = 0 /\ par = 0 /\ MInit(G.duts[d].cfg) /\ SInit
Step(iv) ==
  /\ s >= 0
  /\ LET k == ToString(iv) IN
       IF k \in DOMAIN G.duts[d].succ[s + 1]
       THEN LET e == G.duts[d].succ[s + 1][k]
                miv == SubSeq(iv, 1, NM)
                g   == SubSeq(iv, NM + 1, NM + NG)
                mo  == SubSeq(e.o, 1, C.mo)
                so  == SubSeq(e.o, C.mo + 1, Len(e.o))
            IN /\ s' = e.d /\ d' = d
               /\ MStep(C, miv, mo)
               /\ SStep(C, g, so, MEvents(C, miv, mo))
               \* a cooperative cycle in which a request keeps waiting flips par, so that a hang in one
               \* product state is a visible 2-cycle and not a stuttering step
               /\ par' = IF sl'.sfair /\ mobs'.mfair /\ (mobs'.wwait \/ mobs'.rwait) THEN 1 - par ELSE 0
       ELSE /\ PrintT(<<"NEED", d, s, iv>>)
            /\ s' = -1 /\ d' = d /\ UNCHANGED <<par, mem, ms, mobs, sl>>
Next == \E iv \in Inputs(C) : Step(iv)
Spec == Init /\ [][Next]_vars /\ WF_vars(Next)
Alias == [d |-> d, s |-> s, mobs |-> mobs, sl |-> sl, mem |-> mem, ms |-> ms,
          iv |-> CHOOSE iv \in Inputs(C) : Step(iv)]
(* every request is eventually answered, provided the partners cooperate from some point on  *)
(* (shim gates open, master ready for responses and supplying both halves of its writes):    *)
(* <>[]fair => []<>~wwait /\ []<>~rwait, written in the equivalent form TLC checks fastest    *)
Fair == sl.sfair /\ mobs.mfair
Served == ([]<>(~(Fair /\ mobs.wwait))) /\ ([]<>(~(Fair /\ mobs.rwait)))
=============================================================================
