------------------------------ MODULE SlaveSide ------------------------------
(***************************************************************************)
(* Slave side of a bus bridge (property C09): the bridge acts as a master  *)
(* of its slave-side protocol and must keep that protocol's master         *)
(* obligations for every protocol-legal partner.                           *)
(*                                                                         *)
(* The partner is the repository's own memory of that protocol behind a    *)
(* harness "stall shim" whose handshakes are delayed by Env-chosen gates:  *)
(*   g = <<g1..g5>>                                                        *)
(*   wb  : g1 = 1 lets cyc/stb through (the SRAM acknowledges one cycle    *)
(*         later), i.e. an acknowledge latency of 1 + any number of cycles *)
(*   axil/axi : g1..g5 gate AW, W, B, AR, R (valid and ready together; the *)
(*         shim itself keeps an offer it has shown, so the partner is a    *)
(*         legal slave whose readys come and go and whose responses are    *)
(*         delayed arbitrarily)                                            *)
(* c.gfree[i] = 0: gate i is always open, otherwise gates with the same    *)
(* number move together (sizes the Env choice per configuration).          *)
(*                                                                         *)
(* so = what the bridge drives / sees on its slave side in this cycle:     *)
(*   wb   <<cyc, stb, we, adr, sel, datw, ack>>                            *)
(*   axil <<awv, awaddr, awr, wv, wstrb, wdata, wr, bv, br,                *)
(*          arv, araddr, arr, rv, rr>>                                     *)
(*   axi  the same followed by <<awlen, awsize, awburst, wlast,            *)
(*          arlen, arsize, arburst>>                                       *)
(*   csr  <<adr, we, re, datw>>                                            *)
(* ev = master-side events of the same cycle (wdone / rdone: a write / read *)
(*   is answered, wany: the answered write had an enabled byte); only the   *)
(*   CSR clause uses them.                                                 *)
(* c.ahead = 1 (optional; the harness shim then has a buffer stage on AR   *)
(*   and / or W, i.e. the partner accepts read addresses ahead of its      *)
(*   answers / write data ahead of the address): the monitor counts the    *)
(*   reads the partner has accepted and not answered (nar) and the W beats *)
(*   accepted beyond the accepted AWs (dw), for the vacuity witnesses only. *)
(***************************************************************************)
EXTENDS Integers, Sequences, FiniteSets, TLC, BridgeWit

VARIABLES sl

NG == 5
Groups(c) == { c.gfree[i] : i \in 1..NG } \ {0}
SInputs(c) == { [i \in 1..NG |-> IF c.gfree[i] = 0 THEN 1 ELSE f[c.gfree[i]]] : f \in [Groups(c) -> {0, 1}] }

SInit == sl = [aw |-> <<>>, w |-> <<>>, ar |-> <<>>, wb |-> <<>>, nwe |-> 0, nre |-> 0,
               wcnt |-> 0, alen |-> <<>>, wlen |-> <<>>, nar |-> 0, dw |-> 0,
               okhold |-> TRUE, okwb |-> TRUE, okcsr |-> TRUE, okaxi |-> TRUE, sfair |-> TRUE]

Min2(a, b) == IF a < b THEN a ELSE b

(* ---- Wishbone classic: stb => cyc; a cycle once started is held with stable  *)
(* we/adr/sel (and dat_w for writes) until it is acknowledged                   *)
WbNext(c, so) ==
  LET cyc == so[1]  stb == so[2]  we == so[3]  ack == so[7]
      cur == <<we, so[4], so[5], IF we = 1 THEN so[6] ELSE 0>>
  IN [sl EXCEPT !.wb = IF cyc = 1 /\ stb = 1 /\ ack = 0 THEN cur ELSE <<>>,
                !.okwb = /\ (stb = 1 => cyc = 1)
                         /\ (sl.wb # <<>> => (cyc = 1 /\ stb = 1 /\ cur = sl.wb))]

(* ---- AXI4-Lite / AXI4 request channels: valid and payload held until ready *)
AxPay(c, so, ch) ==
  IF c.sp = "axi"
  THEN CASE ch = "aw" -> <<so[2], so[15], so[16], so[17]>>
         [] ch = "w"  -> <<so[5], so[6], so[18]>>
         [] ch = "ar" -> <<so[11], so[19], so[20], so[21]>>
  ELSE CASE ch = "aw" -> <<so[2]>>
         [] ch = "w"  -> <<so[5], so[6]>>
         [] ch = "ar" -> <<so[11]>>

(* AXI4 burst attributes the bridge may issue: size within the bus width, no reserved burst *)
(* type, WRAP only with 2/4/8/16 beats and an aligned start                                 *)
AxLegal(c, addr, len, size, burst) ==
  /\ 2^size <= c.slanes
  /\ burst \in {0, 1, 2}
  /\ burst = 2 => (len \in {1, 3, 7, 15} /\ addr % (2^size) = 0)

AxiNext(c, so) ==
  LET awv == so[1] = 1   awfire == awv /\ so[3] = 1
      wv  == so[4] = 1   wfire  == wv /\ so[7] = 1
      arv == so[10] = 1  arfire == arv /\ so[12] = 1
      full == c.sp = "axi"
      hold(old, v, pay) == old # <<>> => (v /\ pay = old)
      \* W beats are counted into bursts; every burst is matched in order with the length its AW announced
      wlast == full /\ wfire /\ so[18] = 1
      wcnt1 == IF ~full \/ ~wfire THEN sl.wcnt ELSE IF wlast THEN 0 ELSE Min2(sl.wcnt + 1, 20)
      alenA == IF full /\ awfire THEN Append(sl.alen, so[15]) ELSE sl.alen
      wlenA == IF wlast THEN Append(sl.wlen, sl.wcnt) ELSE sl.wlen
      both  == alenA # <<>> /\ wlenA # <<>>
      okbeats == /\ (both => Head(alenA) = Head(wlenA))
                 /\ (full /\ wfire /\ ~wlast /\ sl.wlen = <<>> /\ sl.alen # <<>> => sl.wcnt < Head(sl.alen))
      ahead == Flag(c, "ahead")
      rfire == so[13] = 1 /\ so[14] = 1
      Clip(x) == IF x > 3 THEN 3 ELSE IF x < 0 - 3 THEN 0 - 3 ELSE x
  IN [sl EXCEPT !.nar = IF ahead THEN Clip(sl.nar + (IF arfire THEN 1 ELSE 0) - (IF rfire THEN 1 ELSE 0)) ELSE 0,
                !.dw  = IF ahead THEN Clip(sl.dw + (IF wfire THEN 1 ELSE 0) - (IF awfire THEN 1 ELSE 0)) ELSE 0,
                !.aw = IF awv /\ ~awfire THEN AxPay(c, so, "aw") ELSE <<>>,
                !.w  = IF wv /\ ~wfire THEN AxPay(c, so, "w") ELSE <<>>,
                !.ar = IF arv /\ ~arfire THEN AxPay(c, so, "ar") ELSE <<>>,
                !.wcnt = wcnt1,
                !.alen = IF both THEN Tail(alenA) ELSE IF Len(alenA) > 3 THEN sl.alen ELSE alenA,
                !.wlen = IF both THEN Tail(wlenA) ELSE IF Len(wlenA) > 3 THEN sl.wlen ELSE wlenA,
                !.okhold = /\ hold(sl.aw, awv, AxPay(c, so, "aw"))
                           /\ hold(sl.w, wv, AxPay(c, so, "w"))
                           /\ hold(sl.ar, arv, AxPay(c, so, "ar")),
                !.okaxi = IF ~full THEN TRUE
                          ELSE /\ (awv => AxLegal(c, so[2], so[15], so[16], so[17]))
                               /\ (arv => AxLegal(c, so[11], so[19], so[20], so[21]))
                               /\ okbeats]

(* ---- CSR bus: we and re are one-cycle strobes with side effects in the registers behind:  *)
(* never both, exactly one we per answered write that enables a byte (none otherwise), and    *)
(* exactly one re per answered read                                                          *)
CsrNext(c, so, ev) ==
  LET we == so[2] = 1  re == so[3] = 1
      nwe1 == Min2(sl.nwe + (IF we THEN 1 ELSE 0), 3)
      nre1 == Min2(sl.nre + (IF re THEN 1 ELSE 0), 3)
  IN [sl EXCEPT !.nwe = IF ev.wdone THEN 0 ELSE nwe1,
                !.nre = IF ev.rdone THEN 0 ELSE nre1,
                !.okcsr = /\ ~(we /\ re)
                          /\ (ev.wdone => (nwe1 = (IF ev.wany THEN 1 ELSE 0) \/ (~ev.wany /\ nwe1 <= 1)))
                          /\ (ev.rdone => nre1 = 1)
                          /\ nwe1 <= 1 /\ nre1 <= 1]

SStep(c, g, so, ev) ==
  LET n == CASE c.sp = "wb"   -> WbNext(c, so)
             [] c.sp = "axil" -> AxiNext(c, so)
             [] c.sp = "axi"  -> AxiNext(c, so)
             [] c.sp = "csr"  -> CsrNext(c, so, ev)
             [] OTHER         -> sl
  IN /\ sl' = [n EXCEPT !.sfair = \A i \in 1..NG : g[i] = 1]
     /\ WitIf(n.nar >= 2, c, 8, "second AR accepted before first R")
     /\ WitIf(n.dw >= 1, c, 9, "W accepted before its AW")

SlaveValidHold   == sl.okhold    \* AW/W/AR: a raised valid is not withdrawn or changed before its ready
SlaveWishbone    == sl.okwb      \* stb => cyc, cycle held stable until acknowledged
SlaveAxiBurst    == sl.okaxi     \* legal burst attributes, WLAST on the announced last beat
SlaveCsrStrobes  == sl.okcsr     \* one we / re strobe per request
=============================================================================
