--------------------------- MODULE FlatMemAxiLite ---------------------------
(***************************************************************************)
(* L1 contract "an AXI4-Lite master sees a flat byte-addressable memory"   *)
(* (property C09): environment = any legal AXI4-Lite master, monitor =     *)
(* reference byte memory.                                                  *)
(*                                                                         *)
(* One step = one clock cycle.                                             *)
(*  miv = <<awv, awa, wv, wstrb, wdata, bready, arv, ara, rready>>          *)
(*        awa/ara: word index (byte address = base + index * lanes),       *)
(*        wstrb/wdata: bit masks over the byte lanes, a byte carries one   *)
(*        of two values; payload fields are 0 while valid = 0              *)
(*  mo  = <<awready, wready, bvalid, bresp, arready, rvalid, rresp,         *)
(*          lane_0 .. lane_(L-1)>>   (read data, whole bytes)              *)
(* Master freedom: AW and W in any order and independently, every offer is *)
(* held with its payload until accepted, up to c.k requests per direction  *)
(* accepted and unanswered, b.ready / r.ready come and go.                 *)
(*                                                                         *)
(* Memory semantics: a write takes effect between the moment both its      *)
(* address and its data have been presented and its response; a read       *)
(* samples between the presentation of its address and its response.  The  *)
(* reference memory is updated at the write response; bytes of a read that *)
(* overlap in time a write to the same byte may carry either value ("2").  *)
(*                                                                         *)
(* c: lanes, words, init (master view, byte index adr*lanes+lane+1),       *)
(*    wwords / rwords (the words the master writes / reads), k,            *)
(*    dirs ("w", "r", "rw"), walpha (list of <<strb, data>> the master     *)
(*    uses), serial (1: the master has either writes or reads in flight,   *)
(*    never both - used with the full data alphabet), awfirst (1: the      *)
(*    master presents write data not before its address), readonly, badlo (0: none; else bytes with index >= badlo form *)
(*    a faulting region, aligned to the widest word of the chain: accesses *)
(*    to it are answered with an error by the backing slave)               *)
(*    badhi (optional, > 0): the faulting region is the bytes with index   *)
(*    badlo .. badhi only, aligned to the NARROWEST word of the chain, so  *)
(*    that a master word can be partly faulting (one sub-word access of a  *)
(*    down-converter is answered with an error, another one with OKAY).    *)
(*    A read of a word that has a faulting byte must report the error; a   *)
(*    write must report it if it enables a faulting byte, may report it if *)
(*    the word has a faulting byte, and must report OKAY otherwise.        *)
(***************************************************************************)
EXTENDS Integers, Sequences, FiniteSets, TLC, BridgeWit

VARIABLES mem,   \* reference memory: byte index (from 1) -> 0 / 1
          ms,    \* master / monitor state
          mobs   \* verdict bits of the last cycle + what liveness needs

Bit(x, i) == (x \div (2^i)) % 2
LaneSet(c) == 0..(c.lanes - 1)

MInit(c) ==
  /\ mem = [b \in 1..(c.words * c.lanes) |-> c.init[b]]
  /\ ms = [aw |-> 0,        \* held AW offer: word index + 1
           w  |-> 0,        \* held W offer: index into c.walpha
           wa |-> <<>>,     \* accepted, unanswered write addresses (oldest first)
           wd |-> <<>>,     \* accepted, unanswered write data <<strb, data>>
           rl |-> <<>>,     \* live reads <<adr, expected lanes, accepted>>; only the last may be unaccepted
           bh |-> <<>>,     \* B offer shown by the DUT and not yet accepted: <<resp>>
           rh |-> <<>>]     \* R offer likewise: <<resp, lanes>>
  /\ mobs = [okread |-> TRUE, okresp |-> TRUE, okcode |-> TRUE, okhold |-> TRUE,
             wwait |-> FALSE, rwait |-> FALSE, mfair |-> TRUE]

ArHeld == ms.rl # <<>> /\ ms.rl[Len(ms.rl)][3] = 0
NAcc   == Len(ms.rl) - (IF ArHeld THEN 1 ELSE 0)

MInputs(c) ==
  LET AOpts == IF ms.aw # 0 THEN { ms.aw }
               ELSE IF c.dirs # "r" /\ Len(ms.wa) < c.k THEN {0} \cup { c.wwords[j] + 1 : j \in 1..Len(c.wwords) } ELSE {0}
      WOpts == IF ms.w # 0 THEN { ms.w }
               ELSE IF c.dirs # "r" /\ Len(ms.wd) < c.k THEN 0..Len(c.walpha) ELSE {0}
      ROpts == IF ArHeld THEN { ms.rl[Len(ms.rl)][1] + 1 }
               ELSE IF c.dirs # "w" /\ NAcc < c.k THEN {0} \cup { c.rwords[j] + 1 : j \in 1..Len(c.rwords) } ELSE {0}
      BOpts(a, w) == IF (ms.wa # <<>> \/ a # 0) /\ (ms.wd # <<>> \/ w # 0) THEN {0, 1} ELSE {1}
      ROk(r) == IF ms.rl # <<>> \/ r # 0 THEN {0, 1} ELSE {1}
      WBusy == ms.wa # <<>> \/ ms.wd # <<>>
      RFor(a, w) == { r \in ROpts : c.serial = 1 => ~((a # 0 \/ w # 0 \/ WBusy) /\ (r # 0 \/ ms.rl # <<>>)) }
      Vec(a, w, r, b, rr) ==
          <<IF a = 0 THEN 0 ELSE 1, IF a = 0 THEN 0 ELSE a - 1,
            IF w = 0 THEN 0 ELSE 1, IF w = 0 THEN 0 ELSE c.walpha[w][1], IF w = 0 THEN 0 ELSE c.walpha[w][2],
            b, IF r = 0 THEN 0 ELSE 1, IF r = 0 THEN 0 ELSE r - 1, rr>>
  IN UNION { UNION { { Vec(aw[1], aw[2], r, b, rr) : b \in BOpts(aw[1], aw[2]), rr \in ROk(r) } : r \in RFor(aw[1], aw[2]) } :
             aw \in { x \in AOpts \X WOpts :
                        c.awfirst = 1 => (x[2] # 0 => Len(ms.wd) + 1 <= Len(ms.wa) + (IF x[1] # 0 THEN 1 ELSE 0)) } }

WIndex(c, strb, data) == CHOOSE i \in 1..Len(c.walpha) : c.walpha[i] = <<strb, data>>
BadByte(c, b) == c.badlo > 0 /\ b >= c.badlo /\ (Field(c, "badhi", 0) > 0 => b <= c.badhi)
BadWord(c, a) == \E l \in LaneSet(c) : BadByte(c, a * c.lanes + l + 1)       \* the word has a faulting byte
AllBad(c, a)  == \A l \in LaneSet(c) : BadByte(c, a * c.lanes + l + 1)
IsErr(resp) == resp \in {2, 3}

MStep(c, miv, mo) ==
  LET awv == miv[1] = 1   awa == miv[2]
      wv  == miv[3] = 1   wst == miv[4]   wda == miv[5]
      arv == miv[7] = 1   ara == miv[8]
      awfire == awv /\ mo[1] = 1
      wfire  == wv /\ mo[2] = 1
      bvalid == mo[3] = 1
      bfire  == bvalid /\ miv[6] = 1
      arfire == arv /\ mo[5] = 1
      rvalid == mo[6] = 1
      rfire  == rvalid /\ miv[9] = 1
      B(a, l) == a * c.lanes + l + 1
      \* ---- writes
      wa1 == IF awfire THEN Append(ms.wa, awa) ELSE ms.wa
      wd1 == IF wfire THEN Append(ms.wd, <<wst, wda>>) ELSE ms.wd
      bok == wa1 # <<>> /\ wd1 # <<>>          \* a response is owed
      \* writes "in flight" in this cycle: both address and data presented (accepted or offered)
      AWs == ms.wa \o (IF awv THEN <<awa>> ELSE <<>>)
      Ws  == ms.wd \o (IF wv THEN <<<<wst, wda>>>> ELSE <<>>)
      NFl == IF Len(AWs) < Len(Ws) THEN Len(AWs) ELSE Len(Ws)
      Touched(a, l) == \E i \in 1..NFl : AWs[i] = a /\ Bit(Ws[i][1], l) = 1
      \* ---- reads
      rl0 == IF arv /\ ~ArHeld
             THEN Append(ms.rl, <<ara, [l \in LaneSet(c) |-> IF BadWord(c, ara) THEN 2 ELSE mem[B(ara, l)]], 0>>)
             ELSE ms.rl
      rl1 == [i \in 1..Len(rl0) |->
                <<rl0[i][1],
                  [l \in LaneSet(c) |-> IF Touched(rl0[i][1], l) THEN 2 ELSE rl0[i][2][l]],
                  IF i = Len(rl0) /\ arfire THEN 1 ELSE rl0[i][3]>>]
      rok == rl1 # <<>> /\ rl1[1][3] = 1       \* a read response is owed
      okread == (rvalid /\ rok /\ ~IsErr(mo[7])) =>
                  \A l \in LaneSet(c) : rl1[1][2][l] = 2 \/ mo[8 + l] = rl1[1][2][l]
      \* ---- response codes: OKAY for the memory, an error for the faulting region
      okcode == /\ (bvalid /\ bok) =>
                     LET a == Head(wa1)  st == Head(wd1)[1]
                         must == \E l \in LaneSet(c) : Bit(st, l) = 1 /\ BadByte(c, B(a, l))
                     IN IF must THEN IsErr(mo[4]) ELSE IF BadWord(c, a) THEN TRUE ELSE mo[4] = 0
                /\ (rvalid /\ rok) =>
                     (IF BadWord(c, rl1[1][1]) THEN IsErr(mo[7]) ELSE mo[7] = 0)
      rcur == <<mo[7]>> \o [l \in 1..c.lanes |-> mo[7 + l]]
      okhold == /\ (ms.bh # <<>> => (bvalid /\ <<mo[4]>> = ms.bh))
                /\ (ms.rh # <<>> => (rvalid /\ rcur = ms.rh))
      wa2 == IF bfire /\ bok THEN Tail(wa1) ELSE wa1
      wd2 == IF bfire /\ bok THEN Tail(wd1) ELSE wd1
      rl2 == IF rfire /\ rok THEN Tail(rl1) ELSE rl1
  IN
  /\ mem' = IF bfire /\ bok /\ c.readonly = 0 /\ ~BadWord(c, Head(wa1))
            THEN LET a == Head(wa1)  st == Head(wd1)[1]  da == Head(wd1)[2] IN
                 [b \in DOMAIN mem |->
                    IF \E l \in LaneSet(c) : b = B(a, l) /\ Bit(st, l) = 1
                    THEN Bit(da, b - a * c.lanes - 1) ELSE mem[b]]
            ELSE mem
  /\ ms' = [aw |-> IF awv /\ ~awfire THEN awa + 1 ELSE 0,
            w  |-> IF wv /\ ~wfire THEN WIndex(c, wst, wda) ELSE 0,
            wa |-> wa2, wd |-> wd2, rl |-> rl2,
            bh |-> IF bvalid /\ ~bfire THEN <<mo[4]>> ELSE <<>>,
            rh |-> IF rvalid /\ ~rfire THEN rcur ELSE <<>>]
  /\ mobs' = [okread |-> okread,
              okresp |-> (bvalid => bok) /\ (rvalid => rok),
              okcode |-> okcode,
              okhold |-> okhold,
              \* a write / read is pending and none was answered in this cycle (requests are answered in
              \* order, so "infinitely often not waiting" means every request is answered)
              wwait  |-> (awv \/ wv \/ wa1 # <<>> \/ wd1 # <<>>) /\ ~(bfire /\ bok),
              rwait  |-> rl1 # <<>> /\ ~(rfire /\ rok),
              \* the master cooperates: ready for responses, and it supplies both halves of its writes
              mfair  |-> miv[6] = 1 /\ miv[9] = 1 /\ Len(AWs) = Len(Ws)]
  /\ WitIf(bvalid /\ bok /\ IsErr(mo[4]) /\ BadWord(c, Head(wa1)) /\ ~AllBad(c, Head(wa1)), c, 1,
           "write error, partly faulting word")
  /\ WitIf(rvalid /\ rok /\ IsErr(mo[7]) /\ BadWord(c, rl1[1][1]) /\ ~AllBad(c, rl1[1][1]), c, 2,
           "read error, partly faulting word")

(* master-side events of this cycle, for the slave-side CSR clause *)
MEvents(c, miv, mo) ==
  LET wa1 == IF miv[1] = 1 /\ mo[1] = 1 THEN Append(ms.wa, miv[2]) ELSE ms.wa
      wd1 == IF miv[3] = 1 /\ mo[2] = 1 THEN Append(ms.wd, <<miv[4], miv[5]>>) ELSE ms.wd
  IN [wdone |-> mo[3] = 1 /\ miv[6] = 1 /\ wa1 # <<>> /\ wd1 # <<>>,
      wany  |-> wd1 # <<>> /\ Head(wd1)[1] # 0,
      rdone |-> mo[6] = 1 /\ miv[9] = 1]

ReadReturnsLastWrite  == mobs.okread   \* per byte: last enabled write (or initial content)
OneResponsePerRequest == mobs.okresp   \* B only for a write whose address and data were accepted, R only for an accepted read
ErrorsPropagated      == mobs.okcode   \* OKAY from the memory, SLVERR/DECERR from the faulting region, never EXOKAY
MasterValidHold       == mobs.okhold   \* B and R offers are held with their payload until accepted
=============================================================================
