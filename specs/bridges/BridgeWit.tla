----------------------------- MODULE BridgeWit -----------------------------
(***************************************************************************)
(* Shared helpers of the C09 contracts: optional configuration flags and   *)
(* witnesses against vacuity.                                              *)
(*                                                                         *)
(* Flag(c, f): the configuration record c has the field f and it is 1.     *)
(* Environment freedoms that were added after the first configurations     *)
(* were written sit behind such flags, so a configuration (or a stored     *)
(* replay file) without the field keeps its meaning.                       *)
(*                                                                         *)
(* Wit(c, k, name): called in the step in which a stimulus / event that a  *)
(* configuration exists for is observed; TLC prints <<"WIT", c.wi, name>>  *)
(* once per worker (TLC registers 10 + 16 * c.wi + k, k < 16).  The        *)
(* harness fails the run as a machinery error if a witness a configuration *)
(* requires (spec key "wit") was never printed.                            *)
(***************************************************************************)
EXTENDS Integers, TLC

ASSUME \A i \in 1..1700 : TLCSet(i, 0)

Flag(c, f) == f \in DOMAIN c /\ c[f] = 1
Field(c, f, dflt) == IF f \in DOMAIN c THEN c[f] ELSE dflt

Wit(c, k, name) ==
  IF "wi" \in DOMAIN c
  THEN LET i == 10 + 16 * (c.wi % 100) + k IN
       IF TLCGet(i) = 0 THEN TLCSet(i, 1) /\ PrintT(<<"WIT", c.wi, name>>) ELSE TRUE
  ELSE TRUE
WitIf(p, c, k, name) == IF p THEN Wit(c, k, name) ELSE TRUE
=============================================================================
