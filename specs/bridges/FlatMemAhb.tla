----------------------------- MODULE FlatMemAhb -----------------------------
(***************************************************************************)
(* L1 contract "an AHB-Lite master sees a flat byte-addressable memory"    *)
(* (property C09, AHB2Wishbone) including the slave's side of the AHB      *)
(* two-phase rules.                                                        *)
(*                                                                         *)
(* One step = one clock cycle.                                             *)
(*  miv = <<trans, addr, write, size, wdata>>                              *)
(*    trans/addr/write/size: the address phase presented in this cycle     *)
(*    (trans 0 IDLE, 1 NONSEQ; addr: byte index, aligned to 2^size bytes); *)
(*    wdata: bit mask over the byte lanes, the write data of the transfer  *)
(*    that is in its data phase                                            *)
(*  mo  = <<readyout, resp, lane_0 .. lane_(L-1)>>                         *)
(* Master rules (AMBA 3 AHB-Lite): single transfers (HBURST = SINGLE, the  *)
(* bridge has no burst support); a NONSEQ address phase presented while    *)
(* HREADY is low is held; write data is held during the whole data phase.  *)
(* Slave rules checked: HREADYOUT high and OKAY when no transfer is in its *)
(* data phase; a transfer completes in the data-phase cycle with HREADYOUT *)
(* high; an ERROR response takes two cycles (ERROR with HREADYOUT low,     *)
(* then ERROR with HREADYOUT high), OKAY otherwise.                        *)
(* c: lanes, words, init, addrs (byte addresses used), sizes, datas (write *)
(*    data patterns), dirs, badlo                                          *)
(*    xfers (optional): explicit list of <<addr, write, size>> the master  *)
(*    uses instead of addrs x {read, write} x sizes (keeps the memory and  *)
(*    read-data register state space of 64-bit buses small)                *)
(*    nosel = 1 (optional): the master may also present trans = 2: a       *)
(*    NONSEQ address phase with HSEL low (a transfer to another slave of   *)
(*    the AHB segment), with the attributes of any transfer.  It is not a  *)
(*    transfer to this slave: no data phase follows, the zero-wait OKAY    *)
(*    clause applies and the memory does not change.                       *)
(***************************************************************************)
EXTENDS Integers, Sequences, FiniteSets, TLC, BridgeWit

VARIABLES mem, ms, mobs

Bit(x, i) == (x \div (2^i)) % 2
LaneSet(c) == 0..(c.lanes - 1)

MInit(c) ==
  /\ mem = [b \in 1..(c.words * c.lanes) |-> c.init[b]]
  /\ ms = [dp |-> <<>>,      \* transfer in its data phase: <<addr, write, size, data index (0: not yet chosen)>>
           ap |-> <<>>,      \* address phase held during wait states: <<addr, write, size>>
           e1 |-> FALSE]     \* the first cycle of an ERROR response was seen for dp
  /\ mobs = [okread |-> TRUE, okresp |-> TRUE, okcode |-> TRUE, okhold |-> TRUE,
             wwait |-> FALSE, rwait |-> FALSE, mfair |-> TRUE]

Transfers(c) ==
  IF "xfers" \in DOMAIN c /\ c.xfers # <<>>
  THEN { <<c.xfers[i][1], c.xfers[i][2], c.xfers[i][3]>> : i \in { j \in 1..Len(c.xfers) : c.xfers[j][1] % (2^c.xfers[j][3]) = 0 } }
  ELSE
  { <<a, w, sz>> \in { c.addrs[i] : i \in 1..Len(c.addrs) } \X {0, 1} \X { c.sizes[i] : i \in 1..Len(c.sizes) } :
      (a % (2^sz)) = 0 /\ (c.dirs = "w" => w = 1) /\ (c.dirs = "r" => w = 0) }

MInputs(c) ==
  LET APs == IF ms.ap # <<>> THEN { <<1>> \o ms.ap }
             ELSE { <<0, 0, 0, 0>> } \cup { <<1>> \o t : t \in Transfers(c) } \cup
                  (IF Flag(c, "nosel") THEN { <<2>> \o t : t \in Transfers(c) } ELSE {})
      WDs == IF ms.dp # <<>> /\ ms.dp[2] = 1
             THEN (IF ms.dp[4] = 0 THEN { c.datas[i] : i \in 1..Len(c.datas) } ELSE { c.datas[ms.dp[4]] })
             ELSE {0}
  IN { ap \o <<wd>> : ap \in APs, wd \in WDs }

BadByte(c, a) == c.badlo > 0 /\ a + 1 >= c.badlo

MStep(c, miv, mo) ==
  LET ready == mo[1] = 1
      resp  == mo[2] = 1
      act   == ms.dp # <<>>
      a     == ms.dp[1]
      wr    == ms.dp[2] = 1
      sz    == ms.dp[3]
      Active(l) == l >= (a % c.lanes) /\ l < (a % c.lanes) + 2^sz      \* byte lanes of the transfer
      wbase == (a \div c.lanes) * c.lanes
      bad   == act /\ BadByte(c, a)
      done  == act /\ ready
      didx  == CHOOSE i \in 1..Len(c.datas) : c.datas[i] = miv[5]
      newdp == IF ready /\ miv[1] = 1 THEN <<miv[2], miv[3], miv[4], 0>> ELSE <<>>
  IN
  /\ mem' = IF done /\ wr /\ ~bad /\ ~resp
            THEN [b \in DOMAIN mem |-> IF b > wbase /\ b <= wbase + c.lanes /\ Active(b - wbase - 1)
                                       THEN Bit(miv[5], b - wbase - 1) ELSE mem[b]]
            ELSE mem
  /\ ms' = [dp |-> IF act /\ ~ready THEN (IF wr THEN <<a, 1, sz, didx>> ELSE ms.dp) ELSE newdp,
            ap |-> IF ~ready /\ miv[1] = 1 THEN <<miv[2], miv[3], miv[4]>> ELSE <<>>,
            e1 |-> act /\ ~ready /\ resp]
  /\ mobs' = [okread |-> (done /\ ~wr /\ ~bad /\ ~resp) =>
                            \A l \in LaneSet(c) : Active(l) => mo[3 + l] = mem[wbase + l + 1],
              \* zero-wait OKAY while no transfer is in its data phase
              okresp |-> (~act => (ready /\ ~resp)),
              \* OKAY from the memory, two-cycle ERROR from the faulting region
              okcode |-> /\ (done => (resp <=> bad))
                         /\ (act /\ resp /\ ready => ms.e1)
                         /\ (act /\ ms.e1 => (resp /\ ready))
                         /\ (act /\ resp => bad),
              okhold |-> TRUE,
              wwait  |-> act /\ ~ready,
              rwait  |-> FALSE,
              mfair  |-> TRUE]
  /\ WitIf(miv[1] = 2, c, 4, "NONSEQ without sel")
  /\ WitIf(done /\ wr /\ ~resp /\ sz = 3, c, 1, "64-bit write")
  /\ WitIf(done /\ ~wr /\ ~resp /\ sz = 3, c, 2, "64-bit read")
  /\ WitIf(done /\ wr /\ ~resp /\ sz < 3 /\ a % c.lanes >= 4, c, 3, "narrow write to upper half")

MEvents(c, miv, mo) == [wdone |-> FALSE, wany |-> FALSE, rdone |-> FALSE]

ReadReturnsLastWrite  == mobs.okread
OneResponsePerRequest == mobs.okresp
ErrorsPropagated      == mobs.okcode
MasterValidHold       == mobs.okhold
=============================================================================
