------------------------- MODULE BridgeAhbTrace -------------------------
(* T-mode: a recorded cycle-by-cycle run of the real netlist judged by the same contract *)
EXTENDS FlatMemAhb, SlaveSide, Json, IOUtils
T == JsonDeserialize(IOEnv.TRACES)
VARIABLES tid, l, envbad, stallw, stallr
vars == <<tid, l, envbad, stallw, stallr, mem, ms, mobs, sl>>
C == T[tid].cfg
NM == 5
Inputs(c) == { a \o b : a \in MInputs(c), b \in SInputs(c) }
Init == /\ tid \in 1..Len(T) /\ l = 1 /\ envbad = FALSE /\ stallw = 0 /\ stallr = 0 /\ MInit(T[tid].cfg) /\ SInit
Next ==
  /\ l <= Len(T[tid].ev)
  /\ LET iv == T[tid].ev[l][1]
         o  == T[tid].ev[l][2]
         miv == SubSeq(iv, 1, NM)
         g   == SubSeq(iv, NM + 1, NM + NG)
         mo  == SubSeq(o, 1, C.mo)
         so  == SubSeq(o, C.mo + 1, Len(o))
     IN /\ envbad' = (envbad \/ iv \notin Inputs(C))
        /\ MStep(C, miv, mo)
        /\ SStep(C, g, so, MEvents(C, miv, mo))
        /\ stallw' = IF mobs'.wwait /\ mobs'.mfair /\ sl'.sfair THEN stallw + 1 ELSE 0
        /\ stallr' = IF mobs'.rwait /\ mobs'.mfair /\ sl'.sfair THEN stallr + 1 ELSE 0
  /\ l' = l + 1 /\ tid' = tid
EnvLegal == ~envbad
BoundedService == stallw < C.stallbound /\ stallr < C.stallbound
=============================================================================
