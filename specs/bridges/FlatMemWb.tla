------------------------------ MODULE FlatMemWb ------------------------------
(***************************************************************************)
(* L1 contract "a Wishbone (classic) master sees a flat byte-addressable   *)
(* memory" for the bridges of property C09 (the C07 contract               *)
(* specs/wbmem/FlatMemContract.tla extended by error termination and the   *)
(* bookkeeping the bridge product needs).                                  *)
(*                                                                         *)
(* One step = one clock cycle.                                             *)
(*  miv = <<req, adr, we, sel, data>>  req: 1 = cyc & stb; adr: word index *)
(*        (bus address = base + index); sel, data: bit masks over the byte *)
(*        lanes, a byte carries one of two values                          *)
(*  mo  = <<ack, err, lane_0 .. lane_(L-1)>>                               *)
(* A request is held unchanged until it is terminated by ack and/or err.   *)
(* c: lanes, words, init, wwords / rwords (words written / read), walpha   *)
(*    (write <<sel, data>> pairs), rsels (sel values of reads), dirs,      *)
(*    readonly, badlo (see FlatMemAxiLite)                                 *)
(* c.wbidle = 1 (optional): between its requests the master may also       *)
(*    drive req = 2: cyc without stb (a wait state of a master that keeps  *)
(*    the bus), or req = 3: stb without cyc (what every slave behind       *)
(*    wishbone.Decoder sees while another slave is addressed: the decoder  *)
(*    gates cyc only), in both cases with the we/adr/sel/data of any       *)
(*    request on the other lines.  Neither is a request: it must not be    *)
(*    terminated and must not change the memory.                           *)
(***************************************************************************)
EXTENDS Integers, Sequences, FiniteSets, TLC, BridgeWit

VARIABLES mem, ms, mobs

Bit(x, i) == (x \div (2^i)) % 2
LaneSet(c) == 0..(c.lanes - 1)

MInit(c) ==
  /\ mem = [b \in 1..(c.words * c.lanes) |-> c.init[b]]
  /\ ms = [open |-> <<>>]
  /\ mobs = [okread |-> TRUE, okresp |-> TRUE, okcode |-> TRUE, okhold |-> TRUE,
             wwait |-> FALSE, rwait |-> FALSE, mfair |-> TRUE]

Requests(c) ==
       (IF c.dirs = "w" THEN {} ELSE { <<1, c.rwords[j], 0, c.rsels[i], 0>> : j \in 1..Len(c.rwords), i \in 1..Len(c.rsels) }) \cup
       (IF c.dirs = "r" THEN {} ELSE { <<1, c.wwords[j], 1, c.walpha[i][1], c.walpha[i][2]>> : j \in 1..Len(c.wwords), i \in 1..Len(c.walpha) })

MInputs(c) ==
  IF ms.open # <<>> THEN { ms.open }
  ELSE { <<0, 0, 0, 0, 0>> } \cup Requests(c) \cup
       (IF Flag(c, "wbidle") THEN { <<q, x[2], x[3], x[4], x[5]>> : q \in {2, 3}, x \in Requests(c) } ELSE {})

BadWord(c, a) == c.badlo > 0 /\ a * c.lanes + 1 >= c.badlo

MStep(c, miv, mo) ==
  LET req  == miv[1] = 1
      adr  == miv[2]
      we   == miv[3]
      sel  == miv[4]
      dat  == miv[5]
      term == mo[1] = 1 \/ mo[2] = 1
      err  == mo[2] = 1
      bad  == BadWord(c, adr)
      B(l) == adr * c.lanes + l + 1
  IN
  /\ mem' = IF term /\ req /\ we = 1 /\ c.readonly = 0 /\ ~bad
            THEN [b \in DOMAIN mem |->
                    IF \E l \in LaneSet(c) : b = B(l) /\ Bit(sel, l) = 1
                    THEN Bit(dat, b - adr * c.lanes - 1) ELSE mem[b]]
            ELSE mem
  /\ ms' = [open |-> IF req /\ ~term THEN miv ELSE <<>>]
  /\ mobs' = [okread |-> (term /\ req /\ we = 0 /\ ~err /\ ~bad) =>
                            \A l \in LaneSet(c) : Bit(sel, l) = 1 => mo[3 + l] = mem[B(l)],
              okresp |-> (term => req),          \* a termination only for a pending request: exactly one per cycle
              okcode |-> (term /\ req) => (IF bad THEN (err \/ (we = 1 /\ sel = 0)) ELSE ~err),
              okhold |-> TRUE,
              wwait  |-> req /\ we = 1 /\ ~term,
              rwait  |-> req /\ we = 0 /\ ~term,
              mfair  |-> TRUE]
  /\ WitIf(miv[1] = 2, c, 1, "cyc without stb")
  /\ WitIf(miv[1] = 3, c, 2, "stb without cyc")

MEvents(c, miv, mo) ==
  LET term == mo[1] = 1 \/ mo[2] = 1 IN
  [wdone |-> term /\ miv[1] = 1 /\ miv[3] = 1, wany |-> miv[4] # 0, rdone |-> term /\ miv[1] = 1 /\ miv[3] = 0]

ReadReturnsLastWrite  == mobs.okread
OneResponsePerRequest == mobs.okresp
ErrorsPropagated      == mobs.okcode
MasterValidHold       == mobs.okhold
=============================================================================
