--------------------------- MODULE ErrCounterGraph ---------------------------
(* C11, last clause: the SoC bus-error counter (SoCController) counts one per  *)
(* error pulse and saturates at 2^32-1.  The 32-bit value is observed through  *)
(* two saturating views computed by the harness wrapper (TLC integers are      *)
(* 32-bit): lo = min(count, 7), hi = min(2^32-1-count, 7).  G-mode product     *)
(* with the real netlist; the DUT is started from reset (count 0) and from a   *)
(* seeded state four counts below saturation (cfg.seeded = 1).                 *)
(*   iv = <<pulse>>      o = <<lo, hi>>                                        *)
EXTENDS Integers, Sequences, TLC, Json, IOUtils, GraphLookup
G == JsonDeserialize(IOEnv.GRAPH)
NDuts == Len(G.duts)
VARIABLES d, s, lo, hi, pp, left, obs
vars == <<d, s, lo, hi, pp, left, obs>>
C == G.duts[d].cfg
Init == /\ d \in 1..NDuts /\ s = 0 /\ lo = -1 /\ hi = -1 /\ pp = 0 /\ left = 10 /\ obs = [okcount |-> TRUE, oksat |-> TRUE]
\* the environment issues at most 10 error pulses per behaviour (the counter has 2^32 states)
Inputs(c) == IF left > 0 THEN { <<0>>, <<1>> } ELSE { <<0>> }
Min(a, b) == IF a < b THEN a ELSE b
Max(a, b) == IF a > b THEN a ELSE b
Step(iv) ==
  /\ s >= 0
  /\ LET ed == GLookup(G.duts[d].succ[s + 1], iv) IN
       IF ed # <<>>
       THEN LET nlo == ed[2][1]
                nhi == ed[2][2]
            IN /\ s' = ed[3] /\ d' = d
               \* lo/hi/pp: views and pulse of the previous cycle (-1: none yet)
               /\ lo' = nlo /\ hi' = nhi /\ pp' = iv[1] /\ left' = left - iv[1]
               /\ obs' = [okcount |-> (lo >= 0 =>
                                         /\ (lo < 7 => nlo = Min(lo + pp, 7))
                                         /\ (lo = 7 => nlo = 7)
                                         /\ (hi < 7 => nhi = Max(hi - pp, 0))
                                         /\ (hi = 7 => nhi \in (IF pp = 1 THEN {6, 7} ELSE {7}))),
                          \* saturated: never wraps back to a small count
                          oksat |-> (lo >= 0 /\ hi = 0 => nhi = 0 /\ nlo = 7)]
       ELSE /\ PrintT(<<"NEED", d, s, iv>>)
            /\ s' = -1 /\ d' = d /\ UNCHANGED <<lo, hi, pp, left, obs>>
Next == \E iv \in Inputs(C) : Step(iv)
Spec == Init /\ [][Next]_vars /\ WF_vars(Next)
Alias == [d |-> d, s |-> s, lo |-> lo, hi |-> hi, obs |-> obs, iv |-> CHOOSE iv \in Inputs(C) : Step(iv)]
CountsEachPulseOnce == obs.okcount
SaturatesAtMax == obs.oksat
(* witness that the seeded run really reaches saturation *)
ReachesSaturation == hi # 0
=============================================================================
