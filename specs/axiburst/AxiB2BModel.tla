----------------------------- MODULE AxiB2BModel -----------------------------
(***************************************************************************)
(* L2: an implementation-shaped model of LiteX' AXIBurst2Beat              *)
(* (litex/soc/interconnect/axi/axi_full.py), register for register:        *)
(*    beat_count   8 bit                                                   *)
(*    beat_offset  13 bit, signed (two's complement)                       *)
(*    beat_size  = 1 << size              (12 bit)                         *)
(*    beat_wrap  = len << size            (12 bit)                         *)
(*    addr out   = burst.addr + beat_offset                                *)
(*    first = (beat_count = 0), last = (beat_count = len)                  *)
(*    on a beat handshake: last -> count, offset := 0; otherwise count+1   *)
(*    and, for INCR/WRAP, offset + beat_size; then, for WRAP, if           *)
(*    (addr out & beat_wrap) = beat_wrap : offset := offset - beat_wrap    *)
(* checked by TLC (M-mode, no code involved) against the L1 clauses of     *)
(* AxiB2BContract, i.e. against the AMBA formulae of AxiBurst, for the     *)
(* whole parameter space  addr[7:0] x len 0..255 x size 0..3 x burst       *)
(* (thorough; quick: a sub-lattice).  Stall cycles do not change any       *)
(* register of the element (the synchronous block is guarded by valid &    *)
(* ready), so only the handshake steps are modelled.                       *)
(*                                                                         *)
(* What this run means: the ALGORITHM (beat counter, signed offset, wrap   *)
(* test by mask) implements the AXI address rules on the whole space.  By  *)
(* itself it says nothing about the code: the binding is the Drift check   *)
(* below (the model reproduces, address bit for address bit, the beats     *)
(* recorded from the real netlist) and the verdicts come from the R/T and  *)
(* G checks of the real netlist.  A disagreement is reported as            *)
(* MODEL-DRIFT, never as a violation.                                      *)
(***************************************************************************)
EXTENDS AxiBurst, Bitwise, Json, IOUtils

TIER == IOEnv.AXI_TIER
T == JsonDeserialize(IOEnv.TRACES)

BASE == 4096                     \* addresses are BASE + addr[7:0]: offsets never borrow below 0
SExt13(x) == LET y == x % 8192 IN IF y >= 4096 THEN y - 8192 ELSE y      \* 13-bit two's complement
Trunc12(x) == x % 4096

AddrLow(tier) == IF tier = "thorough" THEN 0..255 ELSE (0..15) \cup (120..135) \cup (240..255)
LenSet(tier)  == IF tier = "thorough" THEN 0..255 ELSE (0..16) \cup {31, 63, 127, 255}
Space(tier) ==
  { r \in AddrLow(tier) \X LenSet(tier) \X (0..3) \X {FIXED, INCR, WRAP} :
      LegalShape(BASE + r[1], r[2], r[3], r[4], 8) }

VARIABLES req,    \* <<addr, len, size, burst>> held on the sink
          cnt,    \* beat_count
          off,    \* beat_offset (signed)
          n,      \* L1 monitor: beats taken so far
          done,   \* the sink handshake happened
          tid     \* drift check only: which recorded burst
vars == <<req, cnt, off, n, done, tid>>

Addr  == req[1]
RLen  == req[2]
Size  == req[3]
Burst == req[4]

BeatSize == Trunc12(2^Size)
BeatWrap == Trunc12(RLen * 2^Size)
AddrOut(a, o) == (a + o) % (2^30)
First(c) == IF c = 0 THEN 1 ELSE 0
Last(c, len) == IF c = len THEN 1 ELSE 0

(* next value of beat_offset / beat_count after a beat handshake *)
OffNext(a, len, size, burst, c, o) ==
  LET o1 == IF c = len THEN 0
            ELSE IF burst \in {INCR, WRAP} THEN SExt13(o + Trunc12(2^size)) ELSE o
      wrap == Trunc12(len * 2^size)
  IN IF burst = WRAP /\ (AddrOut(a, o) & wrap) = wrap THEN SExt13(o - wrap) ELSE o1
CntNext(len, c) == IF c = len THEN 0 ELSE (c + 1) % 256

Init == /\ req \in { <<BASE + r[1], r[2], r[3], r[4]>> : r \in Space(TIER) }
        /\ cnt = 0 /\ off = 0 /\ n = 0 /\ done = FALSE /\ tid = 0

Fire == /\ ~done
        /\ cnt' = CntNext(RLen, cnt)
        /\ off' = OffNext(Addr, RLen, Size, Burst, cnt, off)
        /\ n' = n + 1
        /\ done' = (cnt = RLen)            \* burst.ready = beat.ready & last
        /\ UNCHANGED <<req, tid>>
Next == Fire

(* ---- L1 clauses on the model *)
M_BeatAddress == ~done => (n <= RLen /\ Gran(AddrOut(Addr, off), Size) = Gran(BeatAddr(Addr, RLen, Size, Burst, n), Size))
M_FirstLast   == ~done => (First(cnt) = (IF n = 0 THEN 1 ELSE 0) /\ Last(cnt, RLen) = (IF n = RLen THEN 1 ELSE 0))
M_ConsumedOnce == done => n = RLen + 1
(* after the last beat the registers are back at their reset values: a sequence of requests is *)
(* the concatenation of single-request behaviours                                              *)
M_ReturnsToIdle == done => (cnt = 0 /\ off = 0)
M_OffsetFits == off \in -4096..4095

(* ---- drift: the model against beats recorded from the real netlist (cases of AxiB2BCases) *)
RECURSIVE ModelBeats(_, _, _, _, _, _)
ModelBeats(a, len, size, burst, c, o) ==
  <<AddrOut(a, o), First(c), Last(c, len)>> \o
    (IF c = len THEN <<>> ELSE ModelBeats(a, len, size, burst, CntNext(len, c), OffNext(a, len, size, burst, c, o)))

DriftInit == /\ tid \in 1..Len(T.cases)
             /\ req = <<0, 0, 0, 0>> /\ cnt = 0 /\ off = 0 /\ n = 0 /\ done = TRUE
DriftNext == UNCHANGED vars
ModelAgrees ==
  LET k     == T.cases[tid]
      fired == SelectSeq(k.cyc, LAMBDA c : c[4] = 1 /\ c[2] = 1)
      rec   == [i \in 1..Len(fired) |-> <<fired[i][6], fired[i][7], fired[i][8]>>]
      mb    == ModelBeats(k.req[2], k.req[3], k.req[4], k.req[5], 0, 0)
  IN Len(rec) * 3 = Len(mb) /\ \A i \in 1..Len(rec) : rec[i] = <<mb[3 * i - 2], mb[3 * i - 1], mb[3 * i]>>
=============================================================================
