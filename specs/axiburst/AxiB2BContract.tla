--------------------------- MODULE AxiB2BContract ---------------------------
(***************************************************************************)
(* L1 contract of a burst-to-beat expander (LiteX: AXIBurst2Beat) seen as  *)
(* a stream element: property C10, first sentence.                         *)
(*                                                                         *)
(*   sink   : one request <<addr, len, size, burst, id>> per AXI burst      *)
(*   source : one item per beat, <<addr, first, last, id>>                  *)
(*                                                                         *)
(* One step of the contract consumes the interface activity of one clock   *)
(* cycle:                                                                  *)
(*   iv = <<valid, addr, len, size, burst, id, ready>>      (environment)  *)
(*   o  = <<sink_ready, valid, addr, first, last, id>>      (element)      *)
(*                                                                         *)
(* Environment: a stream producer that keeps an unaccepted request         *)
(* unchanged, a consumer that drives ready freely (every stall pattern).   *)
(* Requests are the legal bursts (AxiBurst!LegalShape) of the configured   *)
(* parameter set  c = [bus, addrs, lens, maxsize, bursts, ids].            *)
(* Optional field  c.junk  (a sequence of <<addr, len, size, burst, id>>): *)
(* if present, the producer may drive ANYTHING of JunkLines(c) on the      *)
(* request lines while it offers nothing (valid low): the stream protocol  *)
(* defines the payload only under valid.  JunkLines = every request of the *)
(* set (stale / early payload of a neighbouring request) and the listed    *)
(* tuples (values that are no legal request at all, e.g. burst = 3).       *)
(* Configurations without the field keep the all-zero idle lines.          *)
(*                                                                         *)
(* Clauses (what the property's statement demands, nothing internal):      *)
(*   BeatAddress  a presented beat belongs to the offered request, it is   *)
(*                beat number n (= beats of this request already taken)    *)
(*                and its address, at transfer-size granularity, is        *)
(*                AxiBurst!BeatAddr(request, n); the id is the request's   *)
(*   FirstLast    first is set exactly on beat 0, last exactly on beat len *)
(*   ConsumedOnce the request is taken from the sink in the very cycle in  *)
(*                which beat len is taken from the source, and at no other *)
(*                time: exactly len+1 beats per request, no request        *)
(*                expanded twice or cut short                              *)
(*   ValidHold    a beat presented and not taken stays presented unchanged *)
(***************************************************************************)
EXTENDS AxiBurst

VARIABLES hold,   \* request offered by the producer and not yet accepted (<<>> if none)
          n,      \* beats of the offered request the consumer has taken so far
          oprev,  \* beat presented and not yet taken (<<>> if none)
          obs     \* verdict bits and progress flags of the last cycle

cvars == <<hold, n, oprev, obs>>

SeqRange(s) == {s[i] : i \in 1..Len(s)}

Requests(c) ==
  { r \in SeqRange(c.addrs) \X SeqRange(c.lens) \X (0..c.maxsize) \X SeqRange(c.bursts) \X SeqRange(c.ids) :
      LegalShape(r[1], r[2], r[3], r[4], c.bus) }

ReqOf(iv) == <<iv[2], iv[3], iv[4], iv[5], iv[6]>>

IdleJunk(c) == "junk" \in DOMAIN c
JunkLines(c) == IF IdleJunk(c) THEN Requests(c) \cup { <<j[1], j[2], j[3], j[4], j[5]>> : j \in SeqRange(c.junk) } ELSE {}

Inputs(c) ==
  IF hold # <<>>
  THEN { <<1, hold[1], hold[2], hold[3], hold[4], hold[5], r>> : r \in {0, 1} }
  ELSE { <<0, 0, 0, 0, 0, 0, r>> : r \in {0, 1} } \cup
       { <<1, q[1], q[2], q[3], q[4], q[5], r>> : q \in Requests(c), r \in {0, 1} } \cup
       { <<0, q[1], q[2], q[3], q[4], q[5], r>> : q \in JunkLines(c), r \in {0, 1} }

(* the same as  iv \in Inputs(c)  without building the set (trace validation) *)
InputLegal(c, iv) ==
  /\ iv[7] \in {0, 1}
  /\ IF hold # <<>> THEN iv[1] = 1 /\ ReqOf(iv) = hold
     ELSE IF iv[1] = 0 THEN (ReqOf(iv) = <<0, 0, 0, 0, 0>> \/ ReqOf(iv) \in JunkLines(c))
     ELSE iv[1] = 1 /\ ReqOf(iv) \in Requests(c)

CInit ==
  /\ hold = <<>> /\ n = 0 /\ oprev = <<>>
  /\ obs = [okaddr |-> TRUE, okfl |-> TRUE, okonce |-> TRUE, okhold |-> TRUE,
            sinkfire |-> FALSE, srcfire |-> FALSE, coop |-> FALSE, stalled |-> FALSE]

CStep(c, iv, o) ==
  LET offered  == iv[1] = 1
      req      == ReqOf(iv)
      len      == req[2]
      sinkfire == offered /\ o[1] = 1
      present  == o[2] = 1
      srcfire  == present /\ iv[7] = 1
      ot       == <<o[3], o[4], o[5], o[6]>>
      okaddr   == present =>
                    /\ offered /\ n <= len
                    /\ Gran(o[3], req[3]) = Gran(BeatAddr(req[1], req[2], req[3], req[4], n), req[3])
                    /\ o[6] = req[5]
      okfl     == (present /\ offered) =>
                    /\ o[4] = (IF n = 0 THEN 1 ELSE 0)
                    /\ o[5] = (IF n = len THEN 1 ELSE 0)
      okonce   == /\ sinkfire => (srcfire /\ n = len)
                  /\ (srcfire /\ offered /\ n = len) => sinkfire
  IN
  /\ hold'  = IF offered /\ ~sinkfire THEN req ELSE <<>>
  /\ n'     = IF sinkfire \/ ~offered THEN 0
              ELSE IF srcfire /\ n <= len THEN n + 1 ELSE n   \* saturates at len+1 (BeatAddress then false)
  /\ oprev' = IF present /\ ~srcfire THEN ot ELSE <<>>
  /\ obs'   = [okaddr   |-> okaddr,
               okfl     |-> okfl,
               okonce   |-> okonce,
               okhold   |-> (oprev # <<>> => (present /\ ot = oprev)),
               sinkfire |-> sinkfire,
               srcfire  |-> srcfire,
               coop     |-> (offered /\ iv[7] = 1),
               stalled  |-> (present /\ ~srcfire)]

BeatAddress  == obs.okaddr
FirstLast    == obs.okfl
ConsumedOnce == obs.okonce
ValidHold    == obs.okhold
=============================================================================
