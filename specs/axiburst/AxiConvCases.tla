----------------------------- MODULE AxiConvCases -----------------------------
(***************************************************************************)
(* C10, second sentence: "The AXI data-width converters translate length   *)
(* and size so that the same bytes are transferred in the same order, and  *)
(* deliver all data beats with last on the final one."                     *)
(*                                                                         *)
(* L1 contract of an AXI data-width converter between a master on a bus of *)
(* fb bytes ("from" side) and a slave on a bus of tb bytes ("to" side),    *)
(* judged on recorded runs of the REAL AXIConverter / AXIUpConverter /     *)
(* AXIDownConverter netlists against a harness AXI master and AXI slave.   *)
(*                                                                         *)
(* (1) Plan: TLC enumerates, per configuration <<fb, tb>>, the legal       *)
(*     bursts of the reduced request space together with their class       *)
(*     (Class: "supported" = what the LiteX code claims to handle, the     *)
(*     other labels name the kind of request its comments or its structure *)
(*     exclude) and writes them to IOEnv.PLAN_OUT.                         *)
(* (2) Judge: every recorded run (case) is one initial state.  A case      *)
(*     holds the intended operations                                       *)
(*        writes, reads : sequences of <<addr, len, size, burst, id, resp>>*)
(*     (resp = the response the slave gives to that burst) and, for both   *)
(*     sides (f_ = master side, t_ = slave side), every TRANSFER (cycle    *)
(*     with valid and ready) of each channel in order:                     *)
(*        aw, ar : <<cycle, addr, len, size, burst, id>>                   *)
(*        w      : <<cycle, data bytes (lane 0 first), strobe bits, last>> *)
(*        b      : <<cycle, id, resp>>                                     *)
(*        r      : <<cycle, data bytes, resp, id, last>>                   *)
(*     The slave's memory is byte-tagged: the byte at address a reads as   *)
(*     MemByte(a); on lanes that are not active in a read beat the slave   *)
(*     drives POISON (AXI only defines the active byte lanes).  Write data *)
(*     is chosen by the master; the contract compares what was written.    *)
(*     junk = 1: while the valid of a channel driven by the environment    *)
(*     (master AW/W/AR, slave B/R) was low its payload lines and `last`    *)
(*     carried arbitrary bits instead of zeros (junk_cycles such           *)
(*     channel-cycles, junk_last of them on W/R with last high): AXI       *)
(*     defines the lines of a channel only under valid, so the transfers   *)
(*     recorded here - and every clause - are unaffected by them.          *)
(*                                                                         *)
(* Clauses (all at interface level, all refer to AxiBurst for addresses):  *)
(*   AxForwarded  every AW/AR request is forwarded exactly once, in order, *)
(*                with its id                                              *)
(*   AxLegalOut   every forwarded request is a legal AXI burst on the      *)
(*                slave's bus                                              *)
(*   AxBytes      Bytes(in burst) is an ordered sub-sequence of Bytes(out  *)
(*                burst) and the out burst touches nothing outside the     *)
(*                bus words (of the wider bus) the in burst touches:       *)
(*                same bytes, same order, over-fetch only inside a word    *)
(*   WBeats       the out W stream has exactly len+1 beats per out burst   *)
(*                with last exactly on the final one                       *)
(*   WStrbLanes   out write strobes are high only on lanes that are active *)
(*                in that out beat                                         *)
(*   WData        per burst, the sequence of <<byte address, value>> that  *)
(*                the strobed lanes of the out beats write is the sequence *)
(*                the master wrote                                         *)
(*   BCarried     write responses return unchanged (id, resp), in order    *)
(*   RBeats       the master receives exactly len+1 read beats per burst,  *)
(*                last exactly on the final one                            *)
(*   RData        every active lane of every read beat carries the memory  *)
(*                byte of its address                                      *)
(*   RIdResp      every read beat carries the id of its request and the    *)
(*                response the slave gave to that burst                    *)
(*   Completes    everything above happened before the harness' time-out   *)
(***************************************************************************)
EXTENDS AxiBurst, Json, IOUtils

T == JsonDeserialize(IOEnv.TRACES)
TIER == IOEnv.AXI_TIER

MemByte(a) == 1 + (a % 251)
POISON == 255
Log2(x) == CHOOSE k \in 0..10 : 2^k = x
Max(a, b) == IF a > b THEN a ELSE b
Min(a, b) == IF a < b THEN a ELSE b

(* ----------------------------------------------------------------- request space and classes *)
(* <<fb, fb>>: AXIConverter between buses of equal width (its third branch: neither AXIUpConverter nor          *)
(* AXIDownConverter, the interfaces are connected) - every legal burst must pass unchanged.                     *)
Configs(tier) ==
  IF tier = "thorough"
  THEN {<<4, 8>>, <<8, 4>>, <<4, 16>>, <<16, 4>>, <<8, 16>>, <<16, 8>>, <<1, 8>>, <<8, 1>>, <<2, 16>>, <<16, 2>>,
        <<4, 4>>, <<8, 8>>}
  ELSE {<<4, 8>>, <<8, 4>>, <<4, 16>>, <<16, 4>>, <<1, 8>>, <<8, 1>>, <<4, 4>>}

ShortLens == {0, 1, 2, 3, 4, 7, 8, 15}
LongLens  == {16, 31, 127, 255}
Wide(c) == Max(c[1], c[2])
(* start addresses: every byte offset of two words of the wider bus, further word-aligned ones, and   *)
(* the last two words of the 4 KB page                                                               *)
FullOffsets(c) == (0..(2 * Wide(c) - 1)) \cup { k * Wide(c) : k \in 2..9 } \cup ((4096 - 2 * Wide(c))..4095)
FullRequests(c) ==
  { r \in FullOffsets(c) \X (ShortLens \cup LongLens) \X {Log2(c[1])} \X {FIXED, INCR, WRAP} :
      /\ LegalBurst(r[1], r[2], r[3], r[4], c[1])
      /\ r[2] \in LongLens => r[1] \in {0, c[1]}
      (* multi-beat FIXED bursts (outside the claimed class of both converters): fewer start addresses *)
      /\ (r[4] = FIXED /\ r[2] > 0) => (r[1] < Wide(c) \/ r[1] >= 4096 - Wide(c)) }
NarrowRequests(c) ==
  { r \in (0..(Wide(c) - 1)) \X {0, 1, 3, 4} \X (0..(Log2(c[1]) - 1)) \X {FIXED, INCR, WRAP} :
      LegalBurst(r[1], r[2], r[3], r[4], c[1]) }
Requests(c) == FullRequests(c) \cup NarrowRequests(c)

(* What the anchored code claims.  AXIUpConverter: "Assuming size of axi_from burst >= axi_to     *)
(* data_width" - it shifts len right and packs `ratio` master beats into one slave beat whatever   *)
(* the address is: only full-width bursts that start on a slave-bus word and consist of whole      *)
(* slave-bus words can work.  AXIDownConverter: aligns the address, multiplies len, clamps size,   *)
(* turns FIXED into INCR: written for full-width bursts; FIXED only works for one beat, and the    *)
(* multiplied length must still be a legal length.                                                 *)
Class(c, r) ==
  LET fb == c[1]  tb == c[2] IN
  IF fb = tb THEN "supported"       \* equal widths: nothing is converted, no request is outside the claimed class
  ELSE IF fb < tb
  THEN LET ratio == tb \div fb IN
       IF r[3] < Log2(fb) THEN "narrow"
       ELSE IF r[4] = FIXED /\ r[2] > 0 THEN "fixed-multibeat"
       ELSE IF r[1] % tb # 0 THEN "unaligned-to-wide-bus"
       ELSE IF (r[2] + 1) % ratio # 0 THEN "partial-wide-word"
       ELSE IF r[4] = WRAP /\ (r[2] + 1) \div ratio < 2 THEN "wrap-too-short"
       ELSE "supported"
  ELSE LET ratio == fb \div tb IN
       IF r[3] < Log2(fb) THEN "narrow"
       ELSE IF r[4] = FIXED /\ r[2] > 0 THEN "fixed-multibeat"
       ELSE IF r[4] = WRAP /\ (r[2] + 1) * ratio > 16 THEN "wrap-too-long"
       ELSE IF (r[2] + 1) * ratio > 256 THEN "incr-too-long"
       ELSE "supported"

VARIABLES tid
vars == <<tid>>

PlanInit == /\ tid = 0
            /\ JsonSerialize(IOEnv.PLAN_OUT,
                 [cfgs |-> { [fb |-> c[1], tb |-> c[2],
                              reqs |-> { <<r[1], r[2], r[3], r[4], Class(c, r)>> : r \in Requests(c) }] :
                             c \in Configs(TIER) }])
Next == UNCHANGED vars

(* ----------------------------------------------------------------- one recorded run *)
K == T.cases[tid]
FB == K.cfg.fb
TB == K.cfg.tb
Cfg == <<FB, TB>>
BurstOf(e) == <<e[2], e[3], e[4], e[5]>>          \* of an aw/ar transfer
OpBurst(op) == <<op[1], op[2], op[3], op[4]>>     \* of an intended operation
BAddr(b, n) == BeatAddr(b[1], b[2], b[3], b[4], n)
BLow(b, n)  == BeatLow(b[1], b[2], b[3], b[4], n)
BHigh(b, n) == BeatHigh(b[1], b[2], b[3], b[4], n)
BLegal(b, bus) == LegalBurst(b[1], b[2], b[3], b[4], bus)
SaneShape(b, bus) == b[4] \in {FIXED, INCR, WRAP} /\ NumBytes(b[3]) <= bus

(* index (0-based) in the data stream of the first beat of burst k, for a sequence of aw/ar transfers *)
RECURSIVE BeatsBefore(_, _)
BeatsBefore(ax, k) == IF k <= 1 THEN 0 ELSE BeatsBefore(ax, k - 1) + ax[k - 1][3] + 1
TotalBeats(ax) == BeatsBefore(ax, Len(ax) + 1)
RECURSIVE OpBeatsBefore(_, _)
OpBeatsBefore(ops, k) == IF k <= 1 THEN 0 ELSE OpBeatsBefore(ops, k - 1) + ops[k - 1][2] + 1

(* ---- ordered sub-sequence *)
RECURSIVE SubseqFrom(_, _, _, _)
SubseqFrom(a, b, i, j) ==
  IF i > Len(a) THEN TRUE
  ELSE IF j > Len(b) THEN FALSE
  ELSE IF a[i] = b[j] THEN SubseqFrom(a, b, i + 1, j + 1)
  ELSE SubseqFrom(a, b, i, j + 1)

(* ---- what a W stream writes: <<byte address, value>> of the strobed lanes, beat after beat *)
BeatWritten(b, n, w, bus) ==
  LET base  == BusWord(BAddr(b, n), bus)
      lanes == SelectSeq([i \in 1..bus |-> i], LAMBDA i : w[3][i] = 1)
  IN [j \in 1..Len(lanes) |-> <<base + lanes[j] - 1, w[2][lanes[j]]>>]
RECURSIVE BurstWritten(_, _, _, _, _)
BurstWritten(b, ws, off, n, bus) ==
  IF n > b[2] \/ off + n + 1 > Len(ws) THEN <<>>
  ELSE BeatWritten(b, n, ws[off + n + 1], bus) \o BurstWritten(b, ws, off, n + 1, bus)

(* ----------------------------------------------------------------- harness obligations *)
OpsLegal(ops) ==
  \A k \in 1..Len(ops) :
    /\ <<ops[k][1] % 4096, ops[k][2], ops[k][3], ops[k][4]>> \in Requests(Cfg)
    /\ BLegal(OpBurst(ops[k]), FB)
    /\ Class(Cfg, <<ops[k][1] % 4096, ops[k][2], ops[k][3], ops[k][4]>>) =
         (IF k = Len(ops) THEN K.cls ELSE "supported")

EnvLegal ==
  tid > 0 =>
    /\ <<FB, TB>> \in Configs(TIER)
    /\ K.junk \in {0, 1} /\ K.junk_last <= K.junk_cycles /\ (K.junk = 0 => K.junk_cycles = 0)
    /\ OpsLegal(K.writes) /\ OpsLegal(K.reads)
    (* the master issued what was intended *)
    /\ Len(K.f_aw) <= Len(K.writes) /\ Len(K.f_ar) <= Len(K.reads)
    /\ \A k \in 1..Len(K.f_aw) : <<K.f_aw[k][2], K.f_aw[k][3], K.f_aw[k][4], K.f_aw[k][5], K.f_aw[k][6]>>
                                   = <<K.writes[k][1], K.writes[k][2], K.writes[k][3], K.writes[k][4], K.writes[k][5]>>
    /\ \A k \in 1..Len(K.f_ar) : <<K.f_ar[k][2], K.f_ar[k][3], K.f_ar[k][4], K.f_ar[k][5], K.f_ar[k][6]>>
                                   = <<K.reads[k][1], K.reads[k][2], K.reads[k][3], K.reads[k][4], K.reads[k][5]>>
    (* master write data: len+1 beats per burst, last on the final one, strobes only on active lanes *)
    /\ \A k \in 1..Len(K.writes) : \A n \in 0..K.writes[k][2] :
         LET idx == OpBeatsBefore(K.writes, k) + n + 1  b == OpBurst(K.writes[k]) IN
         idx <= Len(K.f_w) =>
           /\ K.f_w[idx][4] = (IF n = b[2] THEN 1 ELSE 0)
           /\ \A i \in 1..FB : K.f_w[idx][3][i] = 1 => (i - 1) \in BeatLanes(b[1], b[2], b[3], b[4], n, FB)
    (* slave write responses: id of the request, the intended resp *)
    /\ \A k \in 1..Len(K.t_b) :
         /\ k <= Len(K.t_aw) /\ K.t_b[k][2] = K.t_aw[k][6]
         /\ k <= Len(K.writes) => K.t_b[k][3] = K.writes[k][6]
    (* slave read data: per legal out burst len+1 beats of the byte-tagged memory *)
    /\ \A k \in 1..Len(K.t_ar) :
         LET b == BurstOf(K.t_ar[k]) IN
         SaneShape(b, TB) =>
           \A n \in 0..b[2] :
             LET idx == BeatsBefore(K.t_ar, k) + n + 1 IN
             idx <= Len(K.t_r) =>
               /\ K.t_r[idx][5] = (IF n = b[2] THEN 1 ELSE 0)
               /\ K.t_r[idx][4] = K.t_ar[k][6]
               /\ k <= Len(K.reads) => K.t_r[idx][3] = K.reads[k][6]
               /\ \A i \in 1..TB :
                    K.t_r[idx][2][i] = (IF (i - 1) \in BeatLanes(b[1], b[2], b[3], b[4], n, TB)
                                        THEN MemByte(BusWord(BAddr(b, n), TB) + i - 1) ELSE POISON)

(* ----------------------------------------------------------------- the contract *)
AxFwd(fax, tax) ==
  /\ Len(tax) = Len(fax)
  /\ \A k \in 1..Min(Len(fax), Len(tax)) : tax[k][6] = fax[k][6]
AxForwarded == tid > 0 => (AxFwd(K.f_aw, K.t_aw) /\ AxFwd(K.f_ar, K.t_ar))

AxLegalOut ==
  tid > 0 => /\ \A k \in 1..Len(K.t_aw) : BLegal(BurstOf(K.t_aw[k]), TB)
             /\ \A k \in 1..Len(K.t_ar) : BLegal(BurstOf(K.t_ar[k]), TB)

BytesRel(bi, bo) ==
  LET inb  == Bytes(bi)
      outb == Bytes(bo)
      W    == Max(FB, TB)
      words == { BusWord(inb[i], W) : i \in 1..Len(inb) }
  IN /\ SubseqFrom(inb, outb, 1, 1)
     /\ \A j \in 1..Len(outb) : BusWord(outb[j], W) \in words
AxBytesOf(fax, tax) ==
  \A k \in 1..Min(Len(fax), Len(tax)) :
    SaneShape(BurstOf(tax[k]), 128) /\ BytesRel(BurstOf(fax[k]), BurstOf(tax[k]))
AxBytes == tid > 0 => (AxBytesOf(K.f_aw, K.t_aw) /\ AxBytesOf(K.f_ar, K.t_ar))

WBeats ==
  tid > 0 =>
    /\ Len(K.t_w) = TotalBeats(K.t_aw)
    /\ \A k \in 1..Len(K.t_aw) : \A n \in 0..K.t_aw[k][3] :
         LET idx == BeatsBefore(K.t_aw, k) + n + 1 IN
         idx <= Len(K.t_w) => K.t_w[idx][4] = (IF n = K.t_aw[k][3] THEN 1 ELSE 0)

WStrbLanes ==
  tid > 0 =>
    \A k \in 1..Len(K.t_aw) :
      LET b == BurstOf(K.t_aw[k]) IN
      SaneShape(b, TB) =>
        \A n \in 0..b[2] :
          LET idx == BeatsBefore(K.t_aw, k) + n + 1 IN
          idx <= Len(K.t_w) =>
            \A i \in 1..TB : K.t_w[idx][3][i] = 1 => (i - 1) \in BeatLanes(b[1], b[2], b[3], b[4], n, TB)

WData ==
  tid > 0 =>
    \A k \in 1..Min(Len(K.f_aw), Len(K.t_aw)) :
      BurstWritten(BurstOf(K.f_aw[k]), K.f_w, BeatsBefore(K.f_aw, k), 0, FB)
        = BurstWritten(BurstOf(K.t_aw[k]), K.t_w, BeatsBefore(K.t_aw, k), 0, TB)

BCarried ==
  tid > 0 =>
    /\ Len(K.f_b) = Len(K.t_b)
    /\ \A k \in 1..Min(Len(K.f_b), Len(K.t_b)) : <<K.f_b[k][2], K.f_b[k][3]>> = <<K.t_b[k][2], K.t_b[k][3]>>

RBeats ==
  tid > 0 =>
    /\ Len(K.f_r) = TotalBeats(K.f_ar)
    /\ \A k \in 1..Len(K.f_ar) : \A n \in 0..K.f_ar[k][3] :
         LET idx == BeatsBefore(K.f_ar, k) + n + 1 IN
         idx <= Len(K.f_r) => K.f_r[idx][5] = (IF n = K.f_ar[k][3] THEN 1 ELSE 0)

RData ==
  tid > 0 =>
    \A k \in 1..Len(K.f_ar) :
      LET b == BurstOf(K.f_ar[k]) IN
      \A n \in 0..b[2] :
        LET idx == BeatsBefore(K.f_ar, k) + n + 1 IN
        idx <= Len(K.f_r) =>
          \A a \in BLow(b, n)..BHigh(b, n) : K.f_r[idx][2][Lane(a, FB) + 1] = MemByte(a)

RIdResp ==
  tid > 0 =>
    \A k \in 1..Len(K.f_ar) : \A n \in 0..K.f_ar[k][3] :
      LET idx == BeatsBefore(K.f_ar, k) + n + 1 IN
      idx <= Len(K.f_r) => (K.f_r[idx][4] = K.reads[k][5] /\ K.f_r[idx][3] = K.reads[k][6])

Completes ==
  tid > 0 =>
    /\ K.done = 1
    /\ Len(K.f_aw) = Len(K.writes) /\ Len(K.f_ar) = Len(K.reads)
    /\ Len(K.f_b) = Len(K.writes)
    /\ Len(K.f_w) = OpBeatsBefore(K.writes, Len(K.writes) + 1)

(* ----------------------------------------------------------------- verdicts *)
(* Init is used to replay a single case (every clause an INVARIANT, TLC names the first  *)
(* failing one).  VerdictInit judges thousands of recorded runs in one TLC run and       *)
(* prints, for EVERY case, the set of clauses it violates (most requests outside the     *)
(* "supported" class fail; stopping at the first failing case would hide the others).    *)
Failing ==
  (IF AxForwarded THEN {} ELSE {"AxForwarded"}) \cup (IF AxLegalOut THEN {} ELSE {"AxLegalOut"}) \cup
  (IF AxBytes THEN {} ELSE {"AxBytes"}) \cup (IF WBeats THEN {} ELSE {"WBeats"}) \cup
  (IF WStrbLanes THEN {} ELSE {"WStrbLanes"}) \cup (IF WData THEN {} ELSE {"WData"}) \cup
  (IF BCarried THEN {} ELSE {"BCarried"}) \cup (IF RBeats THEN {} ELSE {"RBeats"}) \cup
  (IF RData THEN {} ELSE {"RData"}) \cup (IF RIdResp THEN {} ELSE {"RIdResp"}) \cup
  (IF Completes THEN {} ELSE {"Completes"})
Init == tid \in 1..Len(T.cases)
VerdictInit == /\ tid \in 1..Len(T.cases)
               /\ PrintT(<<"VERDICT", tid, Failing>>)
=============================================================================
