----------------------------- MODULE AxiB2BTrace -----------------------------
(* T-mode: cycle-by-cycle interface traces recorded from the real            *)
(* AXIBurst2Beat (linear replay of a G-mode counterexample, or a long        *)
(* simulation with seeded random stalls) judged by the same contract.        *)
EXTENDS AxiB2BContract, Json, IOUtils

T == JsonDeserialize(IOEnv.TRACES)

VARIABLES tid, l, envbad, stall
vars == <<tid, l, envbad, stall, hold, n, oprev, obs>>

C == T[tid].cfg

Init == /\ tid \in 1..Len(T) /\ l = 1 /\ envbad = FALSE /\ stall = 0 /\ CInit

Next ==
  /\ l <= Len(T[tid].ev)
  /\ LET iv == T[tid].ev[l][1]
         o  == T[tid].ev[l][2]
     IN /\ envbad' = (envbad \/ ~InputLegal(C, iv))
        /\ CStep(C, iv, o)
        /\ stall' = IF obs'.coop /\ ~obs'.sinkfire THEN stall + 1 ELSE 0
  /\ l' = l + 1 /\ tid' = tid

EnvLegal == ~envbad                 \* harness obligation, not a property of the code
BeatAddressT  == obs.okaddr
FirstLastT    == obs.okfl
ConsumedOnceT == obs.okonce
ValidHoldT    == obs.okhold
(* bounded form of BurstTerminates for replayed lassos: never C.stallbound consecutive   *)
(* cooperative cycles without the request being consumed                                 *)
BoundedTermination == stall < C.stallbound
=============================================================================
