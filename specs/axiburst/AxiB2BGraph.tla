----------------------------- MODULE AxiB2BGraph -----------------------------
(* G-mode product:  Env x AxiB2BContract monitor x implementation graph G.   *)
(* G is the transition graph of the REAL AXIBurst2Beat netlist, computed on  *)
(* demand by harness/graphloop.py (DESIGN.md 2, mode G): every request of    *)
(* the configured set, back to back in every order, under EVERY stall        *)
(* pattern of the beat consumer.                                             *)
EXTENDS AxiB2BContract, Json, IOUtils, GraphLookup

G == JsonDeserialize(IOEnv.GRAPH)
NDuts == Len(G.duts)

VARIABLES d,   \* which DUT of the batch this behaviour is about
          s,   \* implementation state (node of G.duts[d]); -1 = edge not yet known
          ph   \* toggles on a step that changes nothing else: an expander that hangs (a fixpoint of the
               \* product) must be an infinite NON-stuttering behaviour, or WF_vars(Next) would not see it
vars == <<d, s, ph, hold, n, oprev, obs>>

C == G.duts[d].cfg

Init == /\ d \in 1..NDuts /\ s = 0 /\ ph = 0 /\ CInit

Step(iv) ==
  /\ s >= 0
  /\ LET e == GLookup(G.duts[d].succ[s + 1], iv) IN
       IF e # <<>>
       THEN /\ s' = e[3] /\ d' = d
            /\ CStep(C, iv, e[2])
            /\ ph' = IF e[3] = s /\ cvars' = cvars THEN 1 - ph ELSE 0
       ELSE /\ PrintT(<<"NEED", d, s, iv>>)
            /\ s' = -1 /\ d' = d /\ ph' = 0 /\ UNCHANGED cvars

Next == \E iv \in Inputs(C) : Step(iv)

Alias == [d |-> d, s |-> s, hold |-> hold, n |-> n, obs |-> obs, iv |-> CHOOSE iv \in Inputs(C) : Step(iv)]

Spec == Init /\ [][Next]_vars /\ WF_vars(Next)

(* with a consumer that eventually is always ready every offered request is consumed, i.e. *)
(* the expansion ends (the safety clauses then say: after exactly len+1 beats)             *)
BurstTerminates == (<>[](obs.coop)) => ([]<>(obs.sinkfire))
=============================================================================
