----------------------------- MODULE AxiB2BGraph -----------------------------
(* G-mode product:  Env x AxiB2BContract monitor x implementation graph G.   *)
(* G is the transition graph of the REAL AXIBurst2Beat netlist, computed on  *)
(* demand by harness/graphloop.py (DESIGN.md 2, mode G): every request of    *)
(* the configured set, back to back in every order, under EVERY stall        *)
(* pattern of the beat consumer.                                             *)
EXTENDS AxiB2BContract, Json, IOUtils

G == JsonDeserialize(IOEnv.GRAPH)
NDuts == Len(G.duts)

VARIABLES d,   \* which DUT of the batch this behaviour is about
          s    \* implementation state (node of G.duts[d]); -1 = edge not yet known
vars == <<d, s, hold, n, oprev, obs>>

C == G.duts[d].cfg

Init == /\ d \in 1..NDuts /\ s = 0 /\ CInit

Step(iv) ==
  /\ s >= 0
  /\ LET k == ToString(iv) IN
       IF k \in DOMAIN G.duts[d].succ[s + 1]
       THEN LET e == G.duts[d].succ[s + 1][k] IN
            /\ s' = e.d /\ d' = d
            /\ CStep(C, iv, e.o)
       ELSE /\ PrintT(<<"NEED", d, s, iv>>)
            /\ s' = -1 /\ d' = d /\ UNCHANGED cvars

Next == \E iv \in Inputs(C) : Step(iv)

Alias == [d |-> d, s |-> s, hold |-> hold, n |-> n, obs |-> obs, iv |-> CHOOSE iv \in Inputs(C) : Step(iv)]

Spec == Init /\ [][Next]_vars /\ WF_vars(Next)

(* with a consumer that eventually is always ready every offered request is consumed, i.e. *)
(* the expansion ends (the safety clauses then say: after exactly len+1 beats)             *)
BurstTerminates == (<>[](obs.coop)) => ([]<>(obs.sinkfire))
=============================================================================
