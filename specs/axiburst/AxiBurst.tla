------------------------------ MODULE AxiBurst ------------------------------
(***************************************************************************)
(* The address rules of AMBA AXI (ARM IHI 0022, chapter "Address           *)
(* structure": burst length, burst size, burst type, burst address, and    *)
(* chapter "Write and read data channels": byte lanes) as TLA+ operators.  *)
(* Every other module of the family (contracts of AXIBurst2Beat and of the *)
(* AXI data-width converters, the L2 model) refers to THESE definitions;   *)
(* nothing here was derived from the LiteX code.                           *)
(*                                                                         *)
(* A burst is the tuple  <<addr, len, size, burst>>                        *)
(*    addr  = AxADDR   start address (a byte address)                      *)
(*    len   = AxLEN    number of transfers ("beats") - 1                   *)
(*    size  = AxSIZE   log2 of the bytes of one transfer                   *)
(*    burst = AxBURST  0 FIXED, 1 INCR, 2 WRAP  (3 is reserved)            *)
(* Beats are numbered n = 0 .. len (the specification's N = n + 1).        *)
(***************************************************************************)
EXTENDS Integers, Sequences, FiniteSets, TLC

FIXED == 0
INCR  == 1
WRAP  == 2

NumBytes(size) == 2^size                        \* Number_Bytes
BurstLength(len) == len + 1                     \* Burst_Length
AlignTo(a, m) == (a \div m) * m                 \* INT(a / m) x m
AlignedAddr(addr, size) == AlignTo(addr, NumBytes(size))          \* Aligned_Address
Aligned(addr, size) == addr % NumBytes(size) = 0
WrapBytes(len, size) == NumBytes(size) * BurstLength(len)
WrapBoundary(addr, len, size) == AlignTo(addr, WrapBytes(len, size))   \* Wrap_Boundary

(***************************************************************************)
(* Address of beat n.                                                      *)
(*   Address_1 = Start_Address                                             *)
(*   FIXED: every transfer uses the start address                          *)
(*   INCR : Address_N = Aligned_Address + (N - 1) x Number_Bytes           *)
(*   WRAP : as INCR until Address_N = Wrap_Boundary + Number_Bytes x       *)
(*          Burst_Length, that beat uses Wrap_Boundary instead, and all    *)
(*          later ones Start_Address + (N-1) x Number_Bytes - Number_Bytes *)
(*          x Burst_Length                                                 *)
(***************************************************************************)
BeatAddr(addr, len, size, burst, n) ==
  IF n = 0 \/ burst = FIXED THEN addr
  ELSE IF burst = INCR THEN AlignedAddr(addr, size) + n * NumBytes(size)
  ELSE LET a == AlignedAddr(addr, size) + n * NumBytes(size)
       IN IF a >= WrapBoundary(addr, len, size) + WrapBytes(len, size)
          THEN a - WrapBytes(len, size) ELSE a

(* the same address "taken at transfer-size granularity": which size-aligned container *)
Gran(a, size) == a \div NumBytes(size)

(***************************************************************************)
(* Legality.  busbytes = width of the data bus in bytes.                   *)
(*  - the size of a transfer must not exceed the bus width                 *)
(*  - AXI4: INCR 1..256 transfers, FIXED and WRAP at most 16               *)
(*  - WRAP: 2, 4, 8 or 16 transfers and a start address aligned to the     *)
(*    transfer size                                                        *)
(*  - no burst crosses a 4 KB address boundary                             *)
(***************************************************************************)
LastByte(addr, len, size, burst) ==
  IF burst = INCR THEN AlignedAddr(addr, size) + BurstLength(len) * NumBytes(size) - 1
  ELSE IF burst = WRAP THEN WrapBoundary(addr, len, size) + WrapBytes(len, size) - 1
  ELSE AlignedAddr(addr, size) + NumBytes(size) - 1
FirstByte(addr, len, size, burst) ==
  IF burst = WRAP THEN WrapBoundary(addr, len, size) ELSE addr

LegalShape(addr, len, size, burst, busbytes) ==
  /\ burst \in {FIXED, INCR, WRAP}
  /\ size >= 0 /\ NumBytes(size) <= busbytes
  /\ addr >= 0
  /\ len \in 0..255
  /\ burst = WRAP => (BurstLength(len) \in {2, 4, 8, 16} /\ Aligned(addr, size))
  /\ FirstByte(addr, len, size, burst) \div 4096 = LastByte(addr, len, size, burst) \div 4096

LegalBurst(addr, len, size, burst, busbytes) ==
  /\ LegalShape(addr, len, size, burst, busbytes)
  /\ burst = FIXED => len <= 15

(* LiteX' AXIBurst2Beat has no 16-beat limit for FIXED and test_burst2beat drives FIXED   *)
(* bursts of up to 255 beats; the property's quantifier (len 0..255) follows that, so the *)
(* request sets of this family are taken from LegalShape and LegalBurst marks the AXI4    *)
(* subset.                                                                                *)

(***************************************************************************)
(* Bytes and byte lanes of a beat (chapter "byte lane"):                   *)
(*  first beat : Start_Address .. Aligned_Address + Number_Bytes - 1       *)
(*  later beats: Address_N .. Address_N + Number_Bytes - 1 (aligned)       *)
(*  FIXED      : every beat uses the byte lanes of the first               *)
(*  lane of byte address a on a bus of busbytes bytes: a mod busbytes      *)
(***************************************************************************)
BeatLow(addr, len, size, burst, n)  == BeatAddr(addr, len, size, burst, n)
BeatHigh(addr, len, size, burst, n) == AlignedAddr(BeatAddr(addr, len, size, burst, n), size) + NumBytes(size) - 1
BeatBytes(addr, len, size, burst, n) ==
  LET lo == BeatLow(addr, len, size, burst, n)
      hi == BeatHigh(addr, len, size, burst, n)
  IN [i \in 1..(hi - lo + 1) |-> lo + i - 1]
Lane(a, busbytes) == a % busbytes
BusWord(a, busbytes) == AlignTo(a, busbytes)
BeatLanes(addr, len, size, burst, n, busbytes) ==
  { Lane(a, busbytes) : a \in BeatLow(addr, len, size, burst, n)..BeatHigh(addr, len, size, burst, n) }

(* Bytes(b): the ordered list of byte addresses the burst transfers, beat after beat *)
RECURSIVE BytesFrom(_, _, _, _, _)
BytesFrom(addr, len, size, burst, n) ==
  IF n > len THEN <<>>
  ELSE BeatBytes(addr, len, size, burst, n) \o BytesFrom(addr, len, size, burst, n + 1)
Bytes(b) == BytesFrom(b[1], b[2], b[3], b[4], 0)

BeatAddrs(b) == [n \in 1..(b[2] + 1) |-> BeatAddr(b[1], b[2], b[3], b[4], n - 1)]

---------------------------------------------------------------------------
(* Self-tests: the worked examples of the AXI specification.                *)

(* narrow transfers: five 8-bit transfers from address 0 on a 32-bit bus use byte lanes 0,1,2,3,0 *)
ASSUME [n \in 0..4 |-> BeatLanes(0, 4, 0, INCR, n, 4)] = (0 :> {0} @@ 1 :> {1} @@ 2 :> {2} @@ 3 :> {3} @@ 4 :> {0})
(* narrow transfers: three 32-bit transfers from address 4 on a 64-bit bus: lanes 4-7, 0-3, 4-7 *)
ASSUME [n \in 0..2 |-> BeatLanes(4, 2, 2, INCR, n, 8)] = (0 :> 4..7 @@ 1 :> 0..3 @@ 2 :> 4..7)
(* unaligned transfers on a 32-bit bus, four 32-bit transfers:                               *)
(*   start 0x00: 0-3, 4-7, 8-B, C-F;  start 0x01: 1-3, 4-7, 8-B, C-F;  start 0x07: 7, 8-B, C-F, 10-13 *)
ASSUME Bytes(<<0, 3, 2, INCR>>) = [i \in 1..16 |-> i - 1]
ASSUME Bytes(<<1, 3, 2, INCR>>) = [i \in 1..15 |-> i]
ASSUME BeatAddrs(<<1, 3, 2, INCR>>) = <<1, 4, 8, 12>>
ASSUME BeatAddrs(<<7, 3, 2, INCR>>) = <<7, 8, 12, 16>>
ASSUME BeatBytes(7, 3, 2, INCR, 0) = <<7>> /\ BeatBytes(7, 3, 2, INCR, 3) = <<16, 17, 18, 19>>
(* unaligned transfers on a 64-bit bus, 32-bit transfers from 0x07: 7, 8-B, C-F, 10-13, ... lanes 7, 0-3, 4-7, 0-3 *)
ASSUME [n \in 0..3 |-> BeatLanes(7, 4, 2, INCR, n, 8)] = (0 :> {7} @@ 1 :> 0..3 @@ 2 :> 4..7 @@ 3 :> 0..3)
(* wrapping burst, four 32-bit transfers on a 64-bit bus from 0x04: 0x04, 0x08, 0x0C, 0x00 *)
ASSUME BeatAddrs(<<4, 3, 2, WRAP>>) = <<4, 8, 12, 0>>
ASSUME WrapBoundary(4, 3, 2) = 0
(* the two WRAP bursts of test_burst2beat (the second one with the upper address bits dropped) *)
ASSUME BeatAddrs(<<4, 3, 1, WRAP>>) = <<4, 6, 0, 2>>
ASSUME BeatAddrs(<<352, 3, 4, WRAP>>) = <<352, 368, 320, 336>>          \* 0x160,0x170,0x140,0x150
(* a wrapping burst that starts on its boundary never wraps; one that starts on the last *)
(* container wraps at once                                                                *)
ASSUME BeatAddrs(<<64, 3, 2, WRAP>>) = <<64, 68, 72, 76>>
ASSUME BeatAddrs(<<76, 3, 2, WRAP>>) = <<76, 64, 68, 72>>
ASSUME BeatAddrs(<<30, 15, 0, WRAP>>) = <<30, 31, 16, 17, 18, 19, 20, 21, 22, 23, 24, 25, 26, 27, 28, 29>>
(* FIXED: same address and same lanes for every beat *)
ASSUME BeatAddrs(<<13, 2, 2, FIXED>>) = <<13, 13, 13>>
ASSUME Bytes(<<13, 1, 2, FIXED>>) = <<13, 14, 15, 13, 14, 15>>
(* legality *)
ASSUME LegalBurst(4, 3, 2, WRAP, 4) /\ ~LegalBurst(4, 2, 2, WRAP, 4) /\ ~LegalBurst(5, 3, 2, WRAP, 4)
ASSUME ~LegalBurst(0, 0, 3, INCR, 4) /\ LegalBurst(0, 0, 3, INCR, 8)
ASSUME LegalBurst(0, 255, 2, INCR, 4) /\ ~LegalBurst(0, 255, 2, WRAP, 4) /\ ~LegalBurst(0, 16, 2, FIXED, 4)
ASSUME LegalShape(0, 16, 2, FIXED, 4)
ASSUME ~LegalBurst(4092, 1, 2, INCR, 4) /\ LegalBurst(4088, 1, 2, INCR, 4) /\ LegalBurst(4095, 0, 2, INCR, 4)
ASSUME ~LegalBurst(0, 255, 5, INCR, 32) /\ LegalBurst(0, 127, 5, INCR, 32)
ASSUME LegalBurst(4092, 3, 2, WRAP, 4)          \* wraps inside the page
=============================================================================
