----------------------------- MODULE AxiB2BCases -----------------------------
(***************************************************************************)
(* C10, burst-to-beat expansion, R/T binding.                              *)
(*                                                                         *)
(* (1) Plan: TLC enumerates the request set of a tier (Requests) and       *)
(*     writes it to IOEnv.PLAN_OUT; the harness feeds every request, back  *)
(*     to back on one instance, to the REAL AXIBurst2Beat netlist (without *)
(*     stalls and with seeded random stalls) and writes down every clock   *)
(*     cycle.                                                              *)
(* (2) Judge: every recorded burst is one initial state (tid) of this      *)
(*     module; the clauses below are invariants, so TLC names the failing  *)
(*     clause and the failing burst.  A case is                            *)
(*        [req |-> <<page, off, len, size, burst, id>>,                    *)
(*         cyc |-> sequence of cycles                                      *)
(*                 <<offered, ready, sink_ready, valid, page, off, first,  *)
(*                   last, id>>]                                           *)
(*     Addresses are split by the harness into the 4 KB page number and    *)
(*     the offset inside the page (TLC integers have 32 bits, AXI          *)
(*     addresses too): a legal burst never leaves its page, so the rules   *)
(*     of AxiBurst are evaluated on offsets and the page must not change.  *)
(*     The cycle list of a case begins when the previous request has been  *)
(*     consumed and ends with the cycle in which this one is consumed (or  *)
(*     with the harness' time-out).                                        *)
(* (3) Coverage: the recorded requests are exactly the enumerated set.     *)
(***************************************************************************)
EXTENDS AxiBurst, Json, IOUtils

T == JsonDeserialize(IOEnv.TRACES)
TIER == IOEnv.AXI_TIER

(* ----------------------------------------------------------------- request space *)
Lens == (0..16) \cup {31, 63, 127, 255}
MaxSize(tier) == IF tier = "thorough" THEN 4 ELSE 3      \* up to 128-bit / 64-bit beats
Bus(tier) == 2^MaxSize(tier)
(* address low bits 0..63 everywhere; thorough: also in the middle and at the very end of *)
(* the page (carry chains of the address adder, bursts that end on the page boundary)      *)
Offsets(tier) == IF tier = "thorough" THEN (0..63) \cup (1984..2047) \cup (4032..4095)
                 ELSE (0..63) \cup {2047, 4032, 4064, 4088, 4092, 4095}
(* wide buses (128..1024 bit beats): long INCR bursts whose byte offset passes 2048 and reaches the *)
(* end of the 4 KB page - the range in which the signed beat-offset arithmetic of an expander is  *)
(* closest to its limits                                                                          *)
Wide == { r \in {0, 64, 2048} \X {15, 31, 63, 127, 255} \X (4..7) \X {INCR, WRAP} :
            LegalShape(r[1], r[2], r[3], r[4], 128) }
Requests(tier) ==
  { r \in Offsets(tier) \X Lens \X (0..MaxSize(tier)) \X {FIXED, INCR, WRAP} :
      LegalShape(r[1], r[2], r[3], r[4], Bus(tier)) } \cup Wide
(* the subset that is also run under stalls in the quick tier *)
Short(r) == r[2] <= 16

VARIABLES tid
vars == <<tid>>

PlanInit == /\ tid = 0
            /\ JsonSerialize(IOEnv.PLAN_OUT, [reqs |-> Requests(TIER), bus |-> Bus(TIER)])
Init == tid \in 1..Len(T.cases)
CovInit == tid = 0
Next == UNCHANGED vars

(* ----------------------------------------------------------------- one recorded burst *)
Req  == T.cases[tid].req
Cyc  == T.cases[tid].cyc
RLen == Req[3]
Fired(c) == c[4] = 1 /\ c[2] = 1
Beats == SelectSeq(Cyc, Fired)
SinkFires == { i \in 1..Len(Cyc) : Cyc[i][1] = 1 /\ Cyc[i][3] = 1 }

(* harness obligations: the request is one of the plan, it was offered without interruption *)
EnvLegal ==
  tid > 0 =>
    /\ <<Req[2], Req[3], Req[4], Req[5]>> \in Requests(TIER)
    /\ Req[1] \in 0..(2^20 - 1)
    /\ \A i \in 1..(Len(Cyc) - 1) : Cyc[i][1] = 1 => Cyc[i + 1][1] = 1
    /\ \A i \in 1..Len(Cyc) : Cyc[i][1] \in {0, 1} /\ Cyc[i][2] \in {0, 1}

(* exactly len+1 beats *)
CaseBeatCount == tid > 0 => Len(Beats) = RLen + 1

(* beat n carries the request's id and the address BeatAddr(request, n) at size granularity *)
CaseBeatAddress ==
  tid > 0 =>
    \A k \in 1..Len(Beats) :
      k <= RLen + 1 =>
        /\ Beats[k][5] = Req[1]
        /\ Gran(Beats[k][6], Req[4]) = Gran(BeatAddr(Req[2], Req[3], Req[4], Req[5], k - 1), Req[4])
        /\ Beats[k][9] = Req[6]

(* first exactly on beat 0, last exactly on beat len; also while a beat is stalled *)
CaseFirstLast ==
  tid > 0 =>
    /\ \A k \in 1..Len(Beats) : /\ Beats[k][7] = (IF k = 1 THEN 1 ELSE 0)
                                /\ Beats[k][8] = (IF k = RLen + 1 THEN 1 ELSE 0)

(* the request is consumed exactly once, in the cycle in which its last beat is taken *)
CaseConsumedOnce ==
  tid > 0 =>
    /\ SinkFires = {Len(Cyc)}
    /\ Fired(Cyc[Len(Cyc)])

(* no beat is presented while no request is offered *)
CaseNoSpuriousBeat == tid > 0 => \A i \in 1..Len(Cyc) : Cyc[i][1] = 0 => Cyc[i][4] = 0

(* a presented beat that is not taken is presented unchanged in the next cycle *)
CaseValidHold ==
  tid > 0 =>
    \A i \in 1..(Len(Cyc) - 1) :
      (Cyc[i][4] = 1 /\ Cyc[i][2] = 0) =>
        /\ Cyc[i + 1][4] = 1
        /\ <<Cyc[i + 1][5], Cyc[i + 1][6], Cyc[i + 1][7], Cyc[i + 1][8], Cyc[i + 1][9]>>
             = <<Cyc[i][5], Cyc[i][6], Cyc[i][7], Cyc[i][8], Cyc[i][9]>>

(* ----------------------------------------------------------------- coverage of the plan *)
(* T.reqs = every request recorded in this tier's no-stall pass, T.stalled = in the stalled pass *)
Coverage ==
  tid = 0 =>
    /\ { <<T.reqs[i][1], T.reqs[i][2], T.reqs[i][3], T.reqs[i][4]>> : i \in 1..Len(T.reqs) } = Requests(TIER)
    /\ { r \in Requests(TIER) : Short(r) } \subseteq
         { <<T.stalled[i][1], T.stalled[i][2], T.stalled[i][3], T.stalled[i][4]>> : i \in 1..Len(T.stalled) }
=============================================================================
