------------------------------ MODULE VlogTrace ------------------------------
(***************************************************************************)
(* C01, layers 2 and 3 - clause StepEq (T-mode).                            *)
(*                                                                         *)
(* One record of IOEnv.TRACES = one design: the module the REAL back end    *)
(* (litex.gen.fhdl.verilog.convert) emitted, parsed to its syntactic AST,   *)
(* and the values the REAL reference simulator (litex.gen.sim.core          *)
(* Simulator, driven through run() with generators) gave every signal after *)
(* every clock tick.  VerilogSem executes the emitted text from its         *)
(* declared initial state through the same input sequence; after every      *)
(* rising edge and combinational settling every declared reg / wire /       *)
(* memory word that has a counterpart in the simulated design must hold     *)
(* the recorded value.                                                     *)
(*                                                                         *)
(*   D      name -> [w, s] / [w, s, d] for every port and declaration       *)
(*   items  assign / always / (opaque items are refused by the harness)     *)
(*   ini    name -> declared initial value (reg x = ...); memories: image   *)
(*          of the $readmemh data file convert() returned (words beyond     *)
(*          the image: 0, see the assumptions of the check)                 *)
(*   ins    the input ports (driven by the stimulus; taken from the record) *)
(*   cmp    the names compared                                              *)
(*   v0     recorded valuation after the simulator's initial settling       *)
(*   ev     one entry per simulator tick with a rising clock:               *)
(*          r = clock ports that rose, v = name -> new value for every      *)
(*          recorded name that changed in that tick (simulator integers,    *)
(*          memories: <<word index, value>> pairs under m)                  *)
(***************************************************************************)
EXTENDS VerilogSem, Json, IOUtils

T == JsonDeserialize(IOEnv.TRACES)

VARIABLES tid, l, st, rec, ord, bad
vars == <<tid, l, st, rec, ord, bad>>

Tr == T[tid]

Bits(tr, n, x) == ToBits(x, tr.D[n].w)
(* the recorded valuation after applying the changes of one tick *)
RECURSIVE MemUpd(_, _, _, _)
MemUpd(tr, n, seq, ch) == IF ch = <<>> THEN seq
                          ELSE MemUpd(tr, n, [seq EXCEPT ![ch[1][1] + 1] = Bits(tr, n, ch[1][2])], Tail(ch))
Merge(tr, r, e) ==
  [n \in DOMAIN r |->
     IF n \in DOMAIN e.v THEN Bits(tr, n, e.v[n])
     ELSE IF n \in DOMAIN e.m THEN MemUpd(tr, n, r[n], e.m[n])
     ELSE r[n]]

(* initial valuation of the Verilog module: declared initial values, else 0; memories from their image *)
MemImage(tr, n) == [i \in 1..tr.D[n].d |-> IF n \in DOMAIN tr.ini /\ i <= Len(tr.ini[n]) THEN tr.ini[n][i] ELSE 0]
Power(tr) == [n \in DOMAIN tr.D |->
                IF IsMem(tr.D, n) THEN MemImage(tr, n)
                ELSE IF n \in DOMAIN tr.ini THEN tr.ini[n] ELSE 0]
InsSet(tr) == {tr.ins[i] : i \in 1..Len(tr.ins)}
CmpSet(tr) == {tr.cmp[i] : i \in 1..Len(tr.cmp)}

Rec0(tr) == [n \in CmpSet(tr) \cup InsSet(tr) |->
               IF IsMem(tr.D, n) THEN [i \in 1..tr.D[n].d |-> Bits(tr, n, tr.v0[n][i])] ELSE Bits(tr, n, tr.v0[n])]

Init == /\ tid \in 1..Len(T)
        /\ l = 1
        /\ ord = Ordered(T[tid].items)
        /\ rec = Rec0(T[tid])
        /\ LET tr == T[tid]
               p == Power(tr)
               v == [n \in DOMAIN p |-> IF n \in InsSet(tr) THEN Rec0(tr)[n] ELSE p[n]]
               s == SettleO(tr.items, tr.D, v, Plain, Ordered(tr.items))
           IN st = s[1] /\ bad = ~s[2]

Next == /\ l <= Len(Tr.ev)
        /\ LET tr == Tr
               e == tr.ev[l]
               r2 == Merge(tr, rec, e)
               C == {e.r[i] : i \in 1..Len(e.r)}
               v1 == EdgeStep(tr.items, C, tr.D, st, Plain)
               v2 == [n \in DOMAIN v1 |-> IF n \in InsSet(tr) THEN r2[n] ELSE v1[n]]
               s == SettleO(tr.items, tr.D, v2, Plain, ord)
           IN /\ rec' = r2
              /\ st' = s[1]
              /\ bad' = ~s[2]
        /\ l' = l + 1
        /\ UNCHANGED <<tid, ord>>

---------------------------------------------------------------------------
(* harness obligations: the record is well formed, the combinational logic settles *)
EnvLegal ==
  /\ ~bad
  /\ l = 1 => LET tr == Tr IN
       /\ \A n \in DOMAIN tr.D : tr.D[n].w \in 1..MaxW
       /\ InsSet(tr) \subseteq DOMAIN tr.D /\ CmpSet(tr) \subseteq DOMAIN tr.D
       /\ \A n \in DOMAIN tr.ini : n \in DOMAIN tr.D
       /\ \A n \in DOMAIN tr.D : IsMem(tr.D, n) /\ n \in DOMAIN tr.ini =>
             /\ Len(tr.ini[n]) <= tr.D[n].d
             /\ \A i \in 1..Len(tr.ini[n]) : tr.ini[n][i] \in 0..(P2(tr.D[n].w) - 1)

(* the clause *)
Differs == {n \in CmpSet(Tr) : st[n] # rec[n]}
StepEq == Differs = {} \/ (PrintT(<<"DIFF", tid, l - 1, Differs, [n \in Differs |-> <<st[n], rec[n]>>]>>) /\ FALSE)
=============================================================================
