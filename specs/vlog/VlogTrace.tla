------------------------------ MODULE VlogTrace ------------------------------
(***************************************************************************)
(* C01, layers 2 and 3 - clause StepEq (T-mode).                            *)
(*                                                                         *)
(* One record of IOEnv.TRACES = one design: the module the REAL back end    *)
(* (litex.gen.fhdl.verilog.convert) emitted, parsed to its syntactic AST,   *)
(* and the values the REAL reference simulator (litex.gen.sim.core          *)
(* Simulator, driven through run() with generators) gave every signal after *)
(* every clock tick.  VerilogSem executes the emitted text from its         *)
(* declared initial state through the same input sequence; after every      *)
(* rising edge and combinational settling every declared reg / wire /       *)
(* memory word that has a counterpart in the simulated design must hold     *)
(* the recorded value.                                                     *)
(*                                                                         *)
(*   D      name -> [w, s] / [w, s, d] for every port and declaration       *)
(*   items  assign / always / (opaque items are refused by the harness)     *)
(*   ini    name -> declared initial value (reg x = ...); memories: image   *)
(*          of the $readmemh data file convert() returned (words beyond     *)
(*          the image: 0, see the assumptions of the check)                 *)
(*   ins    the input ports (driven by the stimulus; taken from the record) *)
(*   cmp    the names compared                                              *)
(*   v0     recorded valuation after the simulator's initial settling       *)
(*   ev     one entry per simulator tick with a rising clock:               *)
(*          r = clock ports that rose, v = name -> new value for every      *)
(*          recorded name that changed in that tick (simulator integers,    *)
(*          memories: <<word index, value>> pairs under m)                  *)
(*   pini   name -> FHDL reset value of the variables that are declared as  *)
(*          `output reg` ports WITHOUT an initial value (the back end used  *)
(*          to print none for them - repaired finding C01-output-reg-port-  *)
(*          without-initial-value; empty on the repaired tree, where ini    *)
(*          carries the ports' initial values like those of internal regs). *)
(*          Only used by the hypothesis chain hyp = 1, which never          *)
(*          gives the verdict: if the plain chain (hyp = 0) of a design is  *)
(*          rejected and its hyp = 1 chain is accepted, the cause of the    *)
(*          rejection is the missing initial value of a port register.      *)
(* A chain stops at its first rejected step (no successor), so a run with   *)
(* -continue names every rejected chain exactly once.                       *)
(***************************************************************************)
EXTENDS VerilogSem, Json, IOUtils

T == JsonDeserialize(IOEnv.TRACES)

VARIABLES tid, hyp, l, st, rec, ord, bad
vars == <<tid, hyp, l, st, rec, ord, bad>>

Tr == T[tid]

Bits(tr, n, x) == ToBits(x, tr.D[n].w)
(* the recorded valuation after applying the changes of one tick *)
RECURSIVE MemUpd(_, _, _, _)
MemUpd(tr, n, seq, ch) == IF ch = <<>> THEN seq
                          ELSE MemUpd(tr, n, [seq EXCEPT ![ch[1][1] + 1] = Bits(tr, n, ch[1][2])], Tail(ch))
Merge(tr, r, e) ==
  [n \in DOMAIN r |->
     IF n \in DOMAIN e.v THEN Bits(tr, n, e.v[n])
     ELSE IF n \in DOMAIN e.m THEN MemUpd(tr, n, r[n], e.m[n])
     ELSE r[n]]

(* initial valuation of the Verilog module: declared initial values, else 0; memories from their image *)
MemImage(tr, n) == [i \in 1..tr.D[n].d |-> IF n \in DOMAIN tr.ini /\ i <= Len(tr.ini[n]) THEN tr.ini[n][i] % P2(tr.D[n].w) ELSE 0]
Power(tr, h) == [n \in DOMAIN tr.D |->
                IF IsMem(tr.D, n) THEN MemImage(tr, n)
                ELSE IF n \in DOMAIN tr.ini THEN tr.ini[n]
                ELSE IF h = 1 /\ n \in DOMAIN tr.pini THEN ToBits(tr.pini[n], tr.D[n].w) ELSE 0]
InsSet(tr) == {tr.ins[i] : i \in 1..Len(tr.ins)}
CmpSet(tr) == {tr.cmp[i] : i \in 1..Len(tr.cmp)}

Rec0(tr) == [n \in CmpSet(tr) \cup InsSet(tr) |->
               IF IsMem(tr.D, n) THEN [i \in 1..tr.D[n].d |-> Bits(tr, n, tr.v0[n][i])] ELSE Bits(tr, n, tr.v0[n])]

Init == /\ tid \in 1..Len(T)
        /\ hyp \in (IF DOMAIN T[tid].pini = {} THEN {0} ELSE {0, 1})
        /\ l = 1
        /\ ord = Ordered(T[tid].items)
        /\ rec = Rec0(T[tid])
        /\ LET tr == T[tid]
               p == Power(tr, hyp)
               v == [n \in DOMAIN p |-> IF n \in InsSet(tr) THEN Rec0(tr)[n] ELSE p[n]]
               s == SettleO(tr.items, tr.D, v, Plain, Ordered(tr.items))
           IN st = s[1] /\ bad = ~s[2]

Next == /\ l <= Len(Tr.ev)
        /\ \A n \in CmpSet(Tr) : st[n] = rec[n]            \* a rejected chain stops
        /\ LET tr == Tr
               e == tr.ev[l]
               r2 == Merge(tr, rec, e)
               C == {e.r[i] : i \in 1..Len(e.r)}
               v1 == EdgeStep(tr.items, C, tr.D, st, Plain)
               v2 == [n \in DOMAIN v1 |-> IF n \in InsSet(tr) THEN r2[n] ELSE v1[n]]
               s == SettleO(tr.items, tr.D, v2, Plain, ord)
           IN /\ rec' = r2
              /\ st' = s[1]
              /\ bad' = ~s[2]
        /\ l' = l + 1
        /\ UNCHANGED <<tid, hyp, ord>>

---------------------------------------------------------------------------
(* harness obligations: the record is well formed, the combinational logic settles *)
EnvLegal ==
  /\ ~bad
  /\ l = 1 => LET tr == Tr IN
       /\ \A n \in DOMAIN tr.D : tr.D[n].w \in 1..MaxW
       /\ InsSet(tr) \subseteq DOMAIN tr.D /\ CmpSet(tr) \subseteq DOMAIN tr.D
       /\ \A n \in DOMAIN tr.ini : n \in DOMAIN tr.D

(* clause SingleDriver: a variable that two processes (always blocks / continuous assignments) assign has no   *)
(* single meaning under IEEE 1364 (the order in which the processes run is not defined, 11.4.2) and is refused  *)
(* by synthesis; memories are exempt (one process per port is the dual-port template).                          *)
MultiDriven(tr) ==
  LET its == {i \in 1..Len(tr.items) : tr.items[i].k \in {"assign", "always"}}
      drv == [i \in its |-> ItemDrives(tr.items[i])]
  IN {n \in DOMAIN tr.D : ~IsMem(tr.D, n) /\ Cardinality({i \in its : n \in drv[i]}) > 1}
SingleDriver == (l = 1 /\ hyp = 0) => (MultiDriven(Tr) = {} \/ (PrintT(<<"MULTI", tid, MultiDriven(Tr)>>) /\ FALSE))

(* clause ImageLegal: the data file convert() returned for $readmemh holds at most `depth` words and every word *)
(* fits the memory width (17.2.9: a longer file / wider word is an error or is truncated, tool dependent)          *)
BadImages(tr) == {n \in DOMAIN tr.D : IsMem(tr.D, n) /\ n \in DOMAIN tr.ini /\
                    (Len(tr.ini[n]) > tr.D[n].d \/ \E i \in 1..Len(tr.ini[n]) : tr.ini[n][i] >= P2(tr.D[n].w))}
ImageLegal == (l = 1 /\ hyp = 0) => (BadImages(Tr) = {} \/ (PrintT(<<"IMAGE", tid, BadImages(Tr)>>) /\ FALSE))

(* the clause *)
Differs == {n \in CmpSet(Tr) : st[n] # rec[n]}
StepEq == Differs = {} \/ (PrintT(<<"DIFF", tid, hyp, l - 1, [n \in Differs |-> <<st[n], rec[n]>>]>>) /\ FALSE)
=============================================================================
