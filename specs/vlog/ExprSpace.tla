------------------------------ MODULE ExprSpace ------------------------------
(***************************************************************************)
(* C01, layer 1 - the INPUT SPACE of the expression check, enumerated or    *)
(* sampled by TLC and built by the harness as real Migen objects.           *)
(*                                                                         *)
(* An expression AST over two variables (1 = a, 2 = b):                     *)
(*   <<"v", i>>            variable i                                       *)
(*   <<"c", n>>            Constant(n), n in -2..3 (Migen's own shape)      *)
(*   <<"u", op, x>>        unary operator   ~  -                            *)
(*   <<"b", op, x, y>>     binary operator  + - * & | ^ < <= == != > >=     *)
(*                                          <<< >>>                         *)
(*   <<"m", c, x, y>>      Mux(c, x, y)      (with "m" these are Migen's 17 *)
(*                                           operators of sim/core.py)      *)
(*   <<"s", x, lo, hi>>    x[lo:hi]; lo = -1: the most significant bit,     *)
(*                         lo = -2: the upper half (both relative to len(x))*)
(*   <<"cat", x, y>>       Cat(x, y)         (x = least significant)        *)
(*   <<"rep", x, n>>       Replicate(x, n), n in 1..3                       *)
(* The shapes the variables take (width 1..3, unsigned / signed), the       *)
(* target shapes and the positions in which every AST is placed are part of *)
(* the space and are printed as well.  A slice that does not fit the length *)
(* of its operand under a given shape, and a shift whose amount is signed   *)
(* (the reference simulator raises on a negative amount), are skipped by    *)
(* the harness for that shape and counted.                                  *)
(*                                                                         *)
(* Part = "d1"      every AST of depth 1                                    *)
(*        "d2"      every AST of depth 2 of the spine space D2 below        *)
(*        "sample"  ASTs of depth <= Depth decoded from entropy words the   *)
(*                  harness derives from VERIF_SEED (file IOEnv.RND)        *)
(* Variables are canonical: the first variable met in pre-order is a        *)
(* (the shape enumeration makes the mirrored AST redundant).                *)
(***************************************************************************)
EXTENDS Integers, Sequences, FiniteSets, TLC, Json, IOUtils

CONSTANTS Part, Depth

UnSeq   == <<"~", "-">>
BinSeq  == <<"+", "-", "*", "&", "|", "^", "<", "<=", "==", "!=", ">", ">=", "<<<", ">>>">>
VarSeq  == << <<"v", 1>>, <<"v", 2>> >>
ConstSeq == << <<"c", -2>>, <<"c", -1>>, <<"c", 0>>, <<"c", 1>>, <<"c", 2>>, <<"c", 3>> >>
LeafSeq == VarSeq \o ConstSeq
SliceSeq == << <<0, 1>>, <<0, 2>>, <<0, 3>>, <<1, 2>>, <<1, 3>>, <<2, 3>>, <<-1, 0>>, <<-2, 0>> >>
RepSeq  == <<1, 2, 3>>
Rng(q)  == {q[i] : i \in DOMAIN q}

Leaves  == Rng(LeafSeq)
(* the shapes, targets and positions (printed once as the PLAN of a run) *)
VarShapes    == {<<w, s>> : w \in 1..3, s \in {0, 1}}
TargetShapes == {<<w, 0>> : w \in 1..6} \cup {<<2, 1>>, <<5, 1>>}
Positions    == {"rhs", "if", "case", "index", "cmp"}
CaseLabels   == {-1, 0, 1, 2, 3}            \* those representable in the selector's Migen shape are used
IndexChoices == <<1, 2, 3>>                 \* Array([C(1,3), C(2,3), C(3,3)])[e]

(* all nodes whose children come from X (first child), Y, Z *)
Nodes(X, Y, Z) ==
       {<<"u", op, x>> : op \in Rng(UnSeq), x \in X}
  \cup {<<"b", op, x, y>> : op \in Rng(BinSeq), x \in X, y \in Y}
  \cup {<<"m", c, x, y>> : c \in X, x \in Y, y \in Z}
  \cup {<<"s", x, r[1], r[2]>> : x \in X, r \in Rng(SliceSeq)}
  \cup {<<"cat", x, y>> : x \in X, y \in Y}
  \cup {<<"rep", x, n>> : x \in X, n \in Rng(RepSeq)}

(* the slice-lowering space (Part = "lower"): verilog.py:_ComplexSliceLowerer rewrites a slice of a Cat /    *)
(* Replicate / slice into a slice of ONE element when the slice lies inside it (its own case analysis:     *)
(* _lower_slice_cat, _lower_slice_replicate, the slice-proxy fall-back).  Every slice (bounds up to 6, so   *)
(* that each element boundary of two or three 1-3 bit elements is crossed by 0, 1 and 2 bits) of every     *)
(* two- and three-level structure is enumerated; layer 1 takes them under every unsigned shape pair.       *)
LowerLeaves   == {<<"v", 1>>, <<"v", 2>>, <<"c", 2>>}
LowerVars     == {<<"v", 1>>, <<"v", 2>>}
LowerSliceSeq == SliceSeq \o << <<0, 4>>, <<1, 4>>, <<2, 4>>, <<3, 4>>, <<2, 5>>, <<3, 5>>, <<3, 6>>, <<4, 6>> >>
Struct(X, Y)  == {<<"cat", x, y>> : x \in X, y \in Y} \cup {<<"rep", x, n>> : x \in X, n \in Rng(RepSeq)}
Lower2 == Struct(LowerLeaves, LowerLeaves) \cup {<<"s", x, r[1], r[2]>> : x \in LowerLeaves, r \in Rng(SliceSeq)}
Lower3 == Struct(Struct(LowerVars, LowerVars), LowerVars)
          \cup {<<"cat", x, y>> : x \in LowerVars, y \in Struct(LowerVars, LowerVars)}
          \cup {<<"s", x, r[1], r[2]>> : x \in Struct(LowerVars, LowerVars), r \in {<<0, 2>>, <<1, 3>>, <<0, 3>>, <<1, 4>>}}
LowerSpace == {<<"s", x, r[1], r[2]>> : x \in Lower2 \cup Lower3, r \in Rng(LowerSliceSeq)}

RECURSIVE FirstVar(_), Swap(_), DepthOf(_), WellFormed(_)
Kids(t) == CASE t[1] = "u" -> <<t[3]>>
             [] t[1] = "b" -> <<t[3], t[4]>>
             [] t[1] = "m" -> <<t[2], t[3], t[4]>>
             [] t[1] \in {"s", "rep"} -> <<t[2]>>
             [] t[1] = "cat" -> <<t[2], t[3]>>
             [] OTHER -> <<>>
FirstVar(t) == IF t[1] = "v" THEN t[2]
               ELSE LET k == Kids(t)
                        RECURSIVE F(_)
                        F(i) == IF i > Len(k) THEN 0 ELSE LET v == FirstVar(k[i]) IN IF v # 0 THEN v ELSE F(i + 1)
                    IN F(1)
Swap(t) == CASE t[1] = "v" -> <<"v", 3 - t[2]>>
             [] t[1] = "c" -> t
             [] t[1] = "u" -> <<"u", t[2], Swap(t[3])>>
             [] t[1] = "b" -> <<"b", t[2], Swap(t[3]), Swap(t[4])>>
             [] t[1] = "m" -> <<"m", Swap(t[2]), Swap(t[3]), Swap(t[4])>>
             [] t[1] = "s" -> <<"s", Swap(t[2]), t[3], t[4]>>
             [] t[1] = "cat" -> <<"cat", Swap(t[2]), Swap(t[3])>>
             [] t[1] = "rep" -> <<"rep", Swap(t[2]), t[3]>>
Canon(t) == IF FirstVar(t) = 2 THEN Swap(t) ELSE t
IsCanon(t) == FirstVar(t) # 2
DepthOf(t) == LET k == Kids(t)
                  RECURSIVE Mx(_)
                  Mx(i) == IF i > Len(k) THEN 0 ELSE LET d == DepthOf(k[i]) m == Mx(i + 1) IN IF d > m THEN d ELSE m
              IN IF Len(k) = 0 THEN 0 ELSE 1 + Mx(1)
WellFormed(t) ==
  CASE t[1] = "v" -> t[2] \in {1, 2}
    [] t[1] = "c" -> t[2] \in -2..3
    [] t[1] = "u" -> t[2] \in Rng(UnSeq) /\ WellFormed(t[3])
    [] t[1] = "b" -> t[2] \in Rng(BinSeq) /\ WellFormed(t[3]) /\ WellFormed(t[4])
    [] t[1] = "m" -> WellFormed(t[2]) /\ WellFormed(t[3]) /\ WellFormed(t[4])
    [] t[1] = "s" -> <<t[3], t[4]>> \in Rng(IF Part = "lower" THEN LowerSliceSeq ELSE SliceSeq) /\ WellFormed(t[2])
    [] t[1] = "cat" -> WellFormed(t[2]) /\ WellFormed(t[3])
    [] t[1] = "rep" -> t[3] \in Rng(RepSeq) /\ WellFormed(t[2])
    [] OTHER -> FALSE

(* depth 1: every node over the leaves *)
D1 == {t \in Nodes(Leaves, Leaves, Leaves) : IsCanon(t)}
(* depth 2, spine space: a node with exactly one depth-1 child; the depth-1 child and the sibling operands *)
(* are taken over the inner leaves {a, b, -1, 2} (the full leaf set at depth 2 is covered by sampling)     *)
InnerLeaves == {<<"v", 1>>, <<"v", 2>>, <<"c", -1>>, <<"c", 2>>}
Inner == Nodes(InnerLeaves, InnerLeaves, InnerLeaves)
D2 == {t \in Nodes(Inner, InnerLeaves, InnerLeaves) \cup Nodes(InnerLeaves, Inner, InnerLeaves) \cup
             {<<"m", c, x, y>> : c \in InnerLeaves, x \in InnerLeaves, y \in Inner} : IsCanon(t)}

(* sampling: the AST is decoded from a vector of entropy words (15 bit each); the node at heap index i  *)
(* uses word rv[i], its children are at 3i-1, 3i, 3i+1                                                   *)
Rnd == IF Part = "sample" THEN JsonDeserialize(IOEnv.RND) ELSE <<>>
KindSeq == <<"b", "b", "b", "b", "b", "b", "u", "m", "s", "cat", "rep", "b">>
RECURSIVE Gen(_, _, _)
Gen(d, i, rv) ==
  LET w == rv[i] IN
  IF d = 0 \/ (i # 1 /\ w % 3 = 0) THEN LeafSeq[((w \div 3) % Len(LeafSeq)) + 1]
  ELSE LET k == KindSeq[((w \div 3) % Len(KindSeq)) + 1]
           o == w \div 64
           x == Gen(d - 1, 3 * i - 1, rv)
           y == Gen(d - 1, 3 * i, rv)
           z == Gen(d - 1, 3 * i + 1, rv)
       IN CASE k = "u" -> <<"u", UnSeq[(o % Len(UnSeq)) + 1], x>>
            [] k = "b" -> <<"b", BinSeq[(o % Len(BinSeq)) + 1], x, y>>
            [] k = "m" -> <<"m", x, y, z>>
            [] k = "s" -> LET r == SliceSeq[(o % Len(SliceSeq)) + 1] IN <<"s", x, r[1], r[2]>>
            [] k = "cat" -> <<"cat", x, y>>
            [] k = "rep" -> <<"rep", x, RepSeq[(o % Len(RepSeq)) + 1]>>
Sample(idx) == Canon(Gen(Depth, 1, Rnd[idx]))

VARIABLES n, ast
vars == <<n, ast>>

Plan == [varshapes |-> VarShapes, targets |-> TargetShapes, positions |-> Positions,
         caselabels |-> CaseLabels, indexchoices |-> IndexChoices]

(* D2 is enumerated branch by branch (no materialised set): the distinct-state count of the run is |D2| *)
InitD2 == \/ \E t \in Nodes(Inner, InnerLeaves, InnerLeaves) : IsCanon(t) /\ ast = t
          \/ \E t \in Nodes(InnerLeaves, Inner, InnerLeaves) : IsCanon(t) /\ ast = t
          \/ \E c \in InnerLeaves, x \in InnerLeaves, y \in Inner : IsCanon(<<"m", c, x, y>>) /\ ast = <<"m", c, x, y>>
Init == IF Part = "d1" THEN n = 0 /\ ast \in D1 /\ PrintT(<<"AST", 0, ast>>)
        ELSE IF Part = "d2" THEN n = 0 /\ InitD2 /\ PrintT(<<"AST", 0, ast>>)
        ELSE IF Part = "lower" THEN n = 0 /\ ast \in {t \in LowerSpace : IsCanon(t)} /\ PrintT(<<"AST", 0, ast>>)
        ELSE IF Part = "plan" THEN n = 0 /\ ast = <<"c", 0>> /\ PrintT(<<"PLAN", Plan>>)
        ELSE n \in 1..Len(Rnd) /\ ast = Sample(n) /\ PrintT(<<"AST", n, ast>>)
Next == FALSE /\ UNCHANGED vars

(* the decoder stays inside the declared space *)
InSpace == WellFormed(ast) /\ IsCanon(ast) /\ DepthOf(ast) <= (IF Part = "d1" THEN 1 ELSE IF Part = "d2" THEN 2 ELSE IF Part = "lower" THEN 3 ELSE Depth)
=============================================================================
