----------------------------- MODULE VerilogSem -----------------------------
(***************************************************************************)
(* C01 - the IEEE 1364-2005 side: an EXECUTABLE definition of the meaning   *)
(* of the Verilog subset litex.gen.fhdl.verilog.convert() emits.  It        *)
(* interprets the purely syntactic JSON AST produced by                     *)
(* harness/verilog_parse.py (module header of that file lists the nodes).   *)
(* There is no Verilog simulator in the sandbox: this module IS the         *)
(* Verilog semantics of the check and is part of the trusted base; the      *)
(* ASSUMEs at the end of each part are worked examples of the standard.     *)
(*                                                                         *)
(*  Part 1  expressions   IEEE 1364-2005 5.1 (operators), 5.4 (bit lengths) *)
(*                        5.5 (signed expressions), 3.5 (literals)          *)
(*  Part 2  statements and processes  (9.2 blocking/non-blocking, 9.4 if,   *)
(*                        9.5 case, 6.1 continuous assignment, 9.9 always)  *)
(*  Part 3  memories      (reg arrays, $readmemh image, word/part writes)   *)
(*                                                                         *)
(* Values are 2-state bit vectors: a natural v < 2^w together with its      *)
(* width w; the sign is a property of the EXPRESSION (5.5), not of v.       *)
(* Every intermediate stays below 2^31 (TLC integers): widths <= MaxW.      *)
(***************************************************************************)
EXTENDS Integers, Sequences, FiniteSets, TLC, Bitwise

MaxW == 30
P2(n) == 2^n
Max(a, b) == IF a >= b THEN a ELSE b
Min(a, b) == IF a <= b THEN a ELSE b

(* two's complement helpers on naturals *)
SExt(v, w, W)  == IF W > w /\ w > 0 /\ v >= P2(w - 1) THEN v + (P2(W) - P2(w)) ELSE v   \* sign extension w -> W
ToInt(v, w)    == IF w > 0 /\ v >= P2(w - 1) THEN v - P2(w) ELSE v                      \* bits -> signed integer
ToBits(x, w)   == IF x < 0 THEN x + P2(w) ELSE x                                        \* integer in range -> bits
Neg(v, W)      == IF v = 0 THEN 0 ELSE P2(W) - v
SubW(a, b, W)  == IF a >= b THEN a - b ELSE P2(W) - (b - a)
AddW(a, b, W)  == LET m == P2(W) IN IF a >= m - b THEN a - (m - b) ELSE a + b          \* never exceeds 2^30
BitOf(v, i)    == (v \div P2(i)) % 2
Field(v, lo, n) == (v \div P2(lo)) % P2(n)
RECURSIVE MulW(_, _, _)
MulW(a, b, W)  == IF W <= 15 THEN (a * b) % P2(W)
                  ELSE IF b = 0 THEN 0
                  ELSE LET h == MulW(a, b \div 2, W)
                           d == AddW(h, h, W)
                       IN IF b % 2 = 1 THEN AddW(d, a, W) ELSE d
ShlW(v, n, W)  == IF n >= W THEN 0 ELSE (v % P2(W - n)) * P2(n)
ShrW(v, n, W)  == IF n >= W THEN 0 ELSE v \div P2(n)
AshrW(v, n, W) == IF v < P2(W - 1) THEN ShrW(v, n, W)                                   \* sign bit 0
                  ELSE IF n >= W THEN P2(W) - 1
                  ELSE (v \div P2(n)) + (P2(W) - P2(W - n))                             \* shift in ones

ArithOps == {"+", "-", "*", "&", "|", "^"}
ShiftOps == {"<<", ">>", "<<<", ">>>"}
RelOps   == {"<", "<=", ">", ">=", "==", "!="}
LogOps   == {"&&", "||"}

(***************************************************************************)
(* Interpretation modes.  The verdict is always given in Plain mode.  The  *)
(* other modes are HYPOTHESES used only to classify a mismatch that Plain  *)
(* mode has already established (see ExprJudge.tla):                       *)
(*   all / only : Ideal mode - the self-determined size of a parenthesised *)
(*       operator node that carries the annotation mw (the width Migen's   *)
(*       value_bits_sign gives the same sub-expression; annotation added   *)
(*       by the harness, never by the parser) is raised to mw, for every   *)
(*       annotated node (all) or for the nodes whose index pi is in only.  *)
(*       Because context widths are maxima of sizes (5.4.1) this raises    *)
(*       every context width to Migen's width of the sub-expression.       *)
(*   neg : a literal written -N'dV is read as the signed literal -N'sdV    *)
(*       (how the back end printed negative constants before the repair;   *)
(*       it now prints N'sdV, which needs no hypothesis).                  *)
(*   bel : every operator node whose two context partners (operands of     *)
(*       + - * & | ^, of a comparison, branches of ?:) differ in type       *)
(*       promotes its unsigned partner as $signed({1'd0, partner}) - what   *)
(*       the back end intends to print (expression.py to_signed) and fails  *)
(*       to print where it takes an unsigned Verilog operand for signed     *)
(*       (selects of signed variables, comparisons and shifts with a signed *)
(*       operand).                                                         *)
(*   cl  : the items of a case statement are read as the integers they     *)
(*       denote in FHDL (N'dV = V, -N'dV = -V) and compared with the        *)
(*       selector in the selector's own type.  Only where the defect this  *)
(*       hypothesis names can be present at all: a SIGNED selector with at *)
(*       least one unsigned item (9.5 then compares everything unsigned);  *)
(*       a case statement whose selector and items are all signed (what    *)
(*       the repaired back end prints for a signed test) is read plainly.  *)
(***************************************************************************)
Plain == [all |-> FALSE, only |-> {}, neg |-> FALSE, bel |-> FALSE, cl |-> FALSE]
Ideal == [Plain EXCEPT !.all = TRUE]

Raised(e, M) == "mw" \in DOMAIN e /\ (M.all \/ e.pi \in M.only)
NegLit(e, M) == M.neg /\ e.k = "un" /\ e.op = "-" /\ e.a.k = "num" /\ e.a.s = 0

IsMem(D, n) == "d" \in DOMAIN D[n]

RECURSIVE BaseName(_)
BaseName(e) == IF e.k = "id" THEN e.n ELSE BaseName(e.a)
---------------------------------------------------------------------------
(* Part 1 - expressions *)

RECURSIVE ConstVal(_)
ConstVal(e) == CASE e.k = "int" -> e.v
                 [] e.k = "num" -> e.v
                 [] e.k = "par" -> ConstVal(e.a)

RECURSIVE Size(_, _, _), SumSize(_, _, _, _), Sgn(_, _, _)
(* hypothesis bel: the promotion wrappers the back end printed are taken off (Op) and re-derived from the    *)
(* Verilog types of the two context partners: x is promoted next to its partner y                            *)
IsWrap(x) == x.k = "sgn" /\ x.f = "$signed" /\ x.a.k = "cat" /\ Len(x.a.l) = 2 /\ x.a.l[1].k = "num" /\ x.a.l[1].w = 1 /\ x.a.l[1].v = 0
Op(x, M)  == IF M.bel /\ IsWrap(x) THEN x.a.l[2] ELSE x
RECURSIVE NegPat(_)
NegPat(x) == IF x.k = "par" THEN NegPat(x.a) ELSE x.k = "un" /\ x.op = "-" /\ x.a.k = "num"     \* -N'dV: the back end's own (signed) constant
Prom(x, y, D, M)  == M.bel /\ ~Sgn(x, D, M) /\ Sgn(y, D, M) /\ ~NegPat(x)
SizeP(x, y, D, M) == Size(x, D, M) + (IF Prom(x, y, D, M) THEN 1 ELSE 0)
PromNeg(e, D, M)  == M.bel /\ e.k = "un" /\ e.op = "-" /\ e.a.k # "num" /\ ~Sgn(e.a, D, M)     \* -(unsigned): (-$signed({1'd0, x}))
JoinS(x, y, D, M) == IF M.bel THEN Sgn(x, D, M) \/ Sgn(y, D, M) ELSE Sgn(x, D, M) /\ Sgn(y, D, M)
(* 5.4.1, Table 5-22: self-determined bit length *)
Size(e, D, M) ==
  CASE e.k = "id"   -> D[e.n].w
    [] e.k = "num"  -> e.w
    [] e.k = "int"  -> 32
    [] e.k = "par"  -> LET w == Size(e.a, D, M) IN IF Raised(e, M) /\ e.mw > w THEN e.mw ELSE w
    [] e.k = "un"   -> IF e.op \in {"-", "~", "+"} THEN Size(e.a, D, M) + (IF PromNeg(e, D, M) THEN 1 ELSE 0) ELSE 1
    [] e.k = "bin"  -> IF e.op \in ArithOps THEN Max(SizeP(Op(e.a, M), Op(e.b, M), D, M), SizeP(Op(e.b, M), Op(e.a, M), D, M))
                       ELSE IF e.op \in ShiftOps THEN Size(e.a, D, M)
                       ELSE 1
    [] e.k = "cond" -> Max(SizeP(Op(e.a, M), Op(e.b, M), D, M), SizeP(Op(e.b, M), Op(e.a, M), D, M))
    [] e.k = "sgn"  -> Size(e.a, D, M)
    [] e.k = "cat"  -> SumSize(e.l, 1, D, M)
    [] e.k = "rep"  -> ConstVal(e.n) * SumSize(e.l, 1, D, M)
    [] e.k = "sel"  -> IF e.a.k = "id" /\ IsMem(D, e.a.n) THEN D[e.a.n].w ELSE 1
    [] e.k = "rng"  -> e.h - e.l + 1
SumSize(l, i, D, M) == IF i > Len(l) THEN 0 ELSE Size(l[i], D, M) + SumSize(l, i + 1, D, M)

(* 5.5.1: type of an expression; depends on the operands only, never on the left-hand side *)
Sgn(e, D, M) ==
  CASE e.k = "id"   -> D[e.n].s = 1
    [] e.k = "num"  -> e.s = 1                                  \* N'dV unsigned, N'sdV signed (3.5.1)
    [] e.k = "int"  -> TRUE
    [] e.k = "par"  -> Sgn(e.a, D, M)
    [] e.k = "un"   -> IF NegLit(e, M) \/ PromNeg(e, D, M) THEN TRUE
                       ELSE IF e.op \in {"-", "~", "+"} THEN Sgn(e.a, D, M) ELSE FALSE
    [] e.k = "bin"  -> IF e.op \in ArithOps THEN JoinS(Op(e.a, M), Op(e.b, M), D, M)   \* any unsigned operand -> unsigned
                       ELSE IF e.op \in ShiftOps THEN Sgn(e.a, D, M)                  \* right operand is self-determined
                       ELSE FALSE                                                     \* comparison results are unsigned
    [] e.k = "cond" -> JoinS(Op(e.a, M), Op(e.b, M), D, M)
    [] e.k = "sgn"  -> e.f = "$signed"
    [] OTHER        -> FALSE                                    \* selects, concatenation, replication: unsigned

(* 5.5.2 last step: an operand reaching width W is sign extended only if the PROPAGATED type is signed *)
Ext(v, w, W, S) == IF S THEN SExt(v, w, W) ELSE v

RECURSIVE Ev(_, _, _, _, _, _), CatVal(_, _, _, _, _), EvP(_, _, _, _, _, _, _)
(* value of e as a W-bit vector in a context of width W >= Size(e) and type S (5.4.1, 5.5.2):       *)
(* context-determined operands inherit (W, S); self-determined ones are evaluated at their own size *)
(* and type and then extended.                                                                      *)
Self(e, D, V, M) == Ev(e, Size(e, D, M), Sgn(e, D, M), D, V, M)
(* operand x next to its context partner y: a promoted operand is evaluated on its own and is never negative *)
EvP(x, y, W, S, D, V, M) == IF Prom(x, y, D, M) THEN Self(x, D, V, M) ELSE Ev(x, W, S, D, V, M)
Ev(e, W, S, D, V, M) ==
  CASE e.k = "id"   -> Ext(V[e.n], D[e.n].w, W, S)
    [] e.k = "num"  -> Ext(e.v % P2(e.w), e.w, W, S)
    [] e.k = "int"  -> e.v                                      \* unsized decimal: only as a select index / count
    [] e.k = "par"  -> Ev(e.a, W, S, D, V, M)
    [] e.k = "un"   ->
         IF NegLit(e, M) THEN Ext(Neg(e.a.v % P2(e.a.w), e.a.w), e.a.w, W, S)
         ELSE IF PromNeg(e, D, M) THEN Neg(Self(e.a, D, V, M), W)
         ELSE IF e.op = "-" THEN Neg(Ev(e.a, W, S, D, V, M), W)
         ELSE IF e.op = "~" THEN (P2(W) - 1) - Ev(e.a, W, S, D, V, M)
         ELSE IF e.op = "+" THEN Ev(e.a, W, S, D, V, M)
         ELSE IF e.op = "!" THEN (IF Self(e.a, D, V, M) = 0 THEN 1 ELSE 0)
         ELSE Assert(FALSE, <<"unary operator outside the subset", e.op>>)
    [] e.k = "bin"  ->
         IF e.op \in ArithOps THEN
           LET x == EvP(Op(e.a, M), Op(e.b, M), W, S, D, V, M)
               y == EvP(Op(e.b, M), Op(e.a, M), W, S, D, V, M)
           IN CASE e.op = "+" -> AddW(x, y, W)
                [] e.op = "-" -> SubW(x, y, W)
                [] e.op = "*" -> MulW(x, y, W)
                [] e.op = "&" -> x & y
                [] e.op = "|" -> x | y
                [] e.op = "^" -> x ^^ y
         ELSE IF e.op \in ShiftOps THEN
           LET x == Ev(e.a, W, S, D, V, M)
               n == Self(e.b, D, V, M)                          \* always treated as unsigned (5.1.12)
           IN CASE e.op \in {"<<", "<<<"} -> ShlW(x, n, W)
                [] e.op = ">>"            -> ShrW(x, n, W)
                [] e.op = ">>>"           -> IF S THEN AshrW(x, n, W) ELSE ShrW(x, n, W)
         ELSE IF e.op \in RelOps THEN
           (* 5.4.1: the operands are sized to the larger of the two; 5.5.1: compared as signed only if both are *)
           LET a  == Op(e.a, M)
               b  == Op(e.b, M)
               w2 == Max(SizeP(a, b, D, M), SizeP(b, a, D, M))
               s2 == JoinS(a, b, D, M)
               xb == EvP(a, b, w2, s2, D, V, M)
               yb == EvP(b, a, w2, s2, D, V, M)
               x  == IF s2 THEN ToInt(xb, w2) ELSE xb
               y  == IF s2 THEN ToInt(yb, w2) ELSE yb
               r  == CASE e.op = "<"  -> x < y
                       [] e.op = "<=" -> x <= y
                       [] e.op = ">"  -> x > y
                       [] e.op = ">=" -> x >= y
                       [] e.op = "==" -> x = y
                       [] e.op = "!=" -> x # y
           IN IF r THEN 1 ELSE 0
         ELSE IF e.op = "&&" THEN (IF Self(e.a, D, V, M) # 0 /\ Self(e.b, D, V, M) # 0 THEN 1 ELSE 0)
         ELSE IF e.op = "||" THEN (IF Self(e.a, D, V, M) # 0 \/ Self(e.b, D, V, M) # 0 THEN 1 ELSE 0)
         ELSE Assert(FALSE, <<"binary operator outside the subset", e.op>>)
    [] e.k = "cond" -> IF Self(e.c, D, V, M) # 0 THEN EvP(Op(e.a, M), Op(e.b, M), W, S, D, V, M)
                       ELSE EvP(Op(e.b, M), Op(e.a, M), W, S, D, V, M)
    [] e.k = "sgn"  -> Ext(Self(e.a, D, V, M), Size(e.a, D, M), W, S)
    [] e.k = "cat"  -> CatVal(e.l, 1, D, V, M)[1]
    [] e.k = "rep"  -> LET c == CatVal(e.l, 1, D, V, M)
                           RECURSIVE Rp(_)
                           Rp(i) == IF i = 0 THEN 0 ELSE Rp(i - 1) * P2(c[2]) + c[1]
                       IN Rp(ConstVal(e.n))
    [] e.k = "sel"  ->
         IF e.a.k = "id" /\ IsMem(D, e.a.n)
         THEN LET i == Self(e.i, D, V, M) IN IF i < D[e.a.n].d THEN V[e.a.n][i + 1] ELSE 0
         ELSE LET i == Self(e.i, D, V, M) IN IF i < D[e.a.n].w THEN BitOf(V[e.a.n], i) ELSE 0
    [] e.k = "rng"  -> Field(V[e.a.n], e.l, e.h - e.l + 1)
(* {e1, e2, ...}: operands self-determined, first operand most significant; <<value, width>> of l[i..] *)
CatVal(l, i, D, V, M) ==
  IF i > Len(l) THEN <<0, 0>>
  ELSE LET rest == CatVal(l, i + 1, D, V, M)
       IN <<Self(l[i], D, V, M) * P2(rest[2]) + rest[1], Size(l[i], D, M) + rest[2]>>

(* the value an assignment stores in a left-hand side of lw bits: the right-hand side is evaluated in the   *)
(* context max(Size(rhs), lw) (5.4.1: the left-hand side takes part in the sizing) and then truncated       *)
RhsVal(r, lw, D, V, M) ==
  LET W == Max(Size(r, D, M), lw) IN Ev(r, W, Sgn(r, D, M), D, V, M) % P2(lw)
(* a condition (if, ?:, case item match) is a self-determined expression compared with zero *)
IsTrue(c, D, V, M) == Self(c, D, V, M) # 0

(* which widths an evaluation touches (for the legality check of recorded cases) *)
RECURSIVE MaxAnn(_)
MaxAnn(e) ==
  LET own == IF "mw" \in DOMAIN e THEN e.mw ELSE 0
      RECURSIVE Lst(_, _)
      Lst(l, i) == IF i > Len(l) THEN 0 ELSE Max(MaxAnn(l[i]), Lst(l, i + 1))
  IN CASE e.k \in {"par", "un", "sgn"} -> Max(own, MaxAnn(e.a))
       [] e.k = "bin"  -> Max(own, Max(MaxAnn(e.a), MaxAnn(e.b)))
       [] e.k = "cond" -> Max(own, Max(MaxAnn(e.c), Max(MaxAnn(e.a), MaxAnn(e.b))))
       [] e.k \in {"cat", "rep"} -> Max(own, Lst(e.l, 1))
       [] OTHER -> own

---------------------------------------------------------------------------
(* worked examples of IEEE 1364-2005 (scaled to small widths where the standard uses 16 bits) *)
LOCAL Id(n) == [k |-> "id", n |-> n]
LOCAL Num(w, v) == [k |-> "num", w |-> w, s |-> 0, v |-> v]
LOCAL SNum(w, v) == [k |-> "num", w |-> w, s |-> 1, v |-> v]
LOCAL Bin(op, a, b) == [k |-> "bin", op |-> op, a |-> a, b |-> b]
LOCAL Un(op, a) == [k |-> "un", op |-> op, a |-> a]
LOCAL Par(a) == [k |-> "par", a |-> a]
LOCAL Sg(f, a) == [k |-> "sgn", f |-> f, a |-> a]
LOCAL Dx == [a |-> [w |-> 4, s |-> 0], b |-> [w |-> 4, s |-> 0], c |-> [w |-> 6, s |-> 0],
             s |-> [w |-> 4, s |-> 1], r |-> [w |-> 4, s |-> 1], u |-> [w |-> 1, s |-> 0]]
LOCAL Vx == [a |-> 15, b |-> 1, c |-> 10, s |-> 8, r |-> 3, u |-> 1]
LOCAL RV(e, lw) == RhsVal(e, lw, Dx, Vx, Plain)

ASSUME Std_5_4_1_SumLosesCarry ==          \* reg [3:0] a, b, sumA; reg [4:0] sumB;  sumA = a + b  /  sumB = a + b
  /\ RV(Bin("+", Id("a"), Id("b")), 4) = 0
  /\ RV(Bin("+", Id("a"), Id("b")), 5) = 16
ASSUME Std_5_4_2_IntermediateResult ==      \* answer = (a + b) >> 1 loses the carry; in a wider context it does not
  /\ RV(Bin(">>", Par(Bin("+", Id("a"), Id("b"))), Num(1, 1)), 4) = 0
  /\ RV(Bin(">>", Par(Bin("+", Id("a"), Id("b"))), Num(1, 1)), 5) = 8
  /\ RV(Bin(">>", Par(Bin("+", Bin("+", Id("a"), Id("b")), Num(5, 0))), Num(1, 1)), 4) = 8   \* a + b + 0 with a wide 0
ASSUME Std_5_4_3_SelfDetermined ==          \* a = 4'hF, c = 6'hA: a*c is 6 bits self-determined (16), 8 bits in an 8-bit context (96 hex)
  /\ Self(Bin("*", Id("a"), Id("c")), Dx, Vx, Plain) = 22
  /\ RV(Bin("*", Id("a"), Id("c")), 8) = 150
  /\ RV([k |-> "cat", l |-> <<Bin("*", Id("a"), Id("c"))>>], 8) = 22               \* {a*c}: operand of {} is self-determined
ASSUME Std_5_1_7_NegatedLiterals ==         \* regA = -4'd12 (16 bit: 65524, here 8 bit: 244); -4'sd12 is actually 4
  /\ RV(Un("-", Num(4, 12)), 8) = 244
  /\ RV(Un("-", SNum(4, 12)), 8) = 4
ASSUME Std_5_5_1_SignedFunctions ==         \* regB = $unsigned(-4'sd4) = 8'b00001100; regS = $signed(4'b1100) = -4
  /\ RV(Sg("$unsigned", Un("-", SNum(4, 4))), 8) = 12
  /\ RV(Sg("$signed", Num(4, 12)), 8) = 252
ASSUME Std_5_1_12_Shifts ==                 \* start = 4'b1000 signed: start >>> 2 = 4'b1110; unsigned: 4'b0010; 4'b0001 << 2 = 4'b0100
  /\ RV(Par(Bin(">>>", Id("s"), Num(2, 2))), 4) = 14
  /\ RV(Par(Bin(">>>", Id("a"), Num(2, 2))), 4) = 3
  /\ RV(Par(Bin(">>", Id("s"), Num(2, 2))), 4) = 2
  /\ RV(Par(Bin("<<", Id("b"), Num(2, 2))), 4) = 4
  /\ RV(Par(Bin(">>>", Id("s"), Num(2, 2))), 6) = 62                                 \* sign extended to the context first
  /\ RV(Bin("+", Par(Bin(">>>", Id("s"), Num(2, 2))), Id("a")), 4) = (2 + 15) % 16    \* an unsigned operand makes >>> logical
ASSUME Std_5_5_MixedSignIsUnsigned ==       \* s = -8, r = 3: signed compare; with one unsigned operand the compare is unsigned
  /\ RV(Bin("<", Id("s"), Id("r")), 1) = 1
  /\ RV(Bin("<", Id("s"), Id("b")), 1) = 0
  /\ RV(Bin("<", Id("s"), Un("-", Num(4, 5))), 1) = 1                                 \* 8 < 11 unsigned
  /\ RV(Bin("<", Id("s"), Un("-", SNum(4, 5))), 1) = 1                                \* -8 < -5 signed
  /\ RV(Bin("<", Id("r"), Un("-", Num(4, 5))), 1) = 1                                 \* 3 < 11 unsigned: TRUE although 3 > -5
  /\ RV(Bin("<", Id("r"), Un("-", SNum(4, 5))), 1) = 0
  /\ RV(Bin("+", Id("s"), Id("r")), 6) = 59                                           \* signed: sign extended, -5
  /\ RV(Bin("+", Id("s"), Id("b")), 6) = 9                                            \* unsigned: zero extended, 8 + 1
  /\ RV(Bin("+", Id("s"), Sg("$signed", [k |-> "cat", l |-> <<Num(1, 0), Id("b")>>])), 6) = 57   \* -8 + 1
ASSUME Std_5_1_14_Concatenation ==          \* {a, b[..], 2'b10}, {2{u}} and selects are unsigned
  /\ RV([k |-> "cat", l |-> <<Id("b"), [k |-> "rng", a |-> Id("a"), h |-> 2, l |-> 1], Num(2, 2)>>], 8) = 16 + 12 + 2
  /\ RV([k |-> "rep", n |-> [k |-> "int", v |-> 3], l |-> <<Id("u"), Num(1, 0)>>], 8) = 42
  /\ RV([k |-> "rng", a |-> Id("s"), h |-> 3, l |-> 2], 4) = 2                        \* not sign extended
  /\ RV([k |-> "sel", a |-> Id("s"), i |-> Num(2, 3)], 4) = 1
ASSUME Std_5_1_13_Conditional ==            \* the condition is self-determined, the branches take the context
  /\ RV([k |-> "cond", c |-> Id("u"), a |-> Id("s"), b |-> Id("r")], 6) = 56
  /\ RV([k |-> "cond", c |-> Par(Bin("+", Id("a"), Id("b"))), a |-> Id("s"), b |-> Id("r")], 6) = 3   \* a+b = 0 in 4 bits
  /\ RV([k |-> "cond", c |-> Id("u"), a |-> Id("s"), b |-> Id("b")], 6) = 8           \* one unsigned branch: zero extended
ASSUME ModesExamples ==
  /\ RV(Un("~", Id("b")), 6) = 62 /\ RV(Par(Bin("==", Un("~", Id("b")), Num(4, 14))), 1) = 1
  /\ RhsVal(Bin(">>", [k |-> "par", a |-> Bin("+", Id("a"), Id("b")), mw |-> 5, pi |-> 1], Num(1, 1)), 4, Dx, Vx, Ideal) = 8
  /\ RhsVal(Bin("<", Id("r"), Un("-", Num(4, 5))), 1, Dx, Vx, [Plain EXCEPT !.neg = TRUE]) = 0
  /\ MulW(40000, 50000, 30) = (2000000000 % 1073741824) /\ MulW(1000, 1000, 30) = 1000000
  /\ AshrW(8, 5, 4) = 15 /\ ShlW(15, 2, 4) = 12 /\ SubW(1, 2, 4) = 15 /\ AddW(15, 1, 4) = 0

---------------------------------------------------------------------------
(* Part 2 - statements and processes                                       *)
(*                                                                         *)
(* D : declared objects, name -> [w, s] (vectors) or [w, s, d] (memories)   *)
(* V : valuation, name -> natural (vector) or sequence of naturals (memory) *)
(* A process body is executed statement by statement in an environment     *)
(*   x = [cur, nba]:  cur = valuation seen by reads and changed by blocking *)
(*   assignments at once (9.2.1); nba = the non-blocking updates scheduled  *)
(*   so far, in order (9.2.2); they are applied, in that order, after the  *)
(*   process has suspended, so the last one on a bit wins and partial       *)
(*   (select) updates of one variable accumulate.                          *)

(* an update: <<name, lo, n, value, word>>  bits lo..lo+n-1 of vector `name` (word = -1) or of word `word` of a memory *)
ApplyUpd(D, V, u) ==
  LET n == u[1] IN
  IF u[5] < 0
  THEN IF u[2] >= D[n].w THEN V                                                   \* select out of range: no effect
       ELSE LET k == Min(u[3], D[n].w - u[2])
                old == V[n]
            IN [V EXCEPT ![n] = (old - Field(old, u[2], k) * P2(u[2])) + (u[4] % P2(k)) * P2(u[2])]
  ELSE IF u[5] >= D[n].d \/ u[2] >= D[n].w THEN V                                 \* address out of range: no effect
       ELSE LET k == Min(u[3], D[n].w - u[2])
                old == V[n][u[5] + 1]
            IN [V EXCEPT ![n][u[5] + 1] = (old - Field(old, u[2], k) * P2(u[2])) + (u[4] % P2(k)) * P2(u[2])]
RECURSIVE ApplyAll(_, _, _, _)
ApplyAll(D, V, us, i) == IF i > Len(us) THEN V ELSE ApplyAll(D, ApplyUpd(D, V, us[i]), us, i + 1)

RECURSIVE LhsWidth(_, _), LhsSum(_, _, _)
LhsWidth(l, D) ==
  CASE l.k = "id"  -> D[l.n].w
    [] l.k = "sel" -> IF l.a.k = "id" /\ IsMem(D, l.a.n) THEN D[l.a.n].w ELSE 1
    [] l.k = "rng" -> l.h - l.l + 1
    [] l.k = "cat" -> LhsSum(l.l, 1, D)
LhsSum(l, i, D) == IF i > Len(l) THEN 0 ELSE LhsWidth(l[i], D) + LhsSum(l, i + 1, D)

RECURSIVE LhsUpd(_, _, _, _, _), CatUpd(_, _, _, _, _, _)
(* the updates that storing the lw-bit value v in left-hand side l amounts to (indices are evaluated now) *)
LhsUpd(l, v, D, V, M) ==
  CASE l.k = "id"  -> << <<l.n, 0, D[l.n].w, v, -1>> >>
    [] l.k = "sel" ->
         IF l.a.k = "id" /\ IsMem(D, l.a.n)
         THEN << <<l.a.n, 0, D[l.a.n].w, v, Self(l.i, D, V, M)>> >>                 \* mem[adr]
         ELSE << <<l.a.n, Self(l.i, D, V, M), 1, v, -1>> >>                         \* x[i]
    [] l.k = "rng" ->
         IF l.a.k = "sel"
         THEN << <<l.a.a.n, l.l, l.h - l.l + 1, v, Self(l.a.i, D, V, M)>> >>        \* mem[adr][h:l]
         ELSE << <<l.a.n, l.l, l.h - l.l + 1, v, -1>> >>                            \* x[h:l]
    [] l.k = "cat" -> CatUpd(l.l, 1, v, D, V, M)
(* {l1, l2, ...} = v : l1 takes the most significant bits *)
CatUpd(ls, i, v, D, V, M) ==
  IF i > Len(ls) THEN <<>>
  ELSE LET rest == LhsSum(ls, i + 1, D)
       IN LhsUpd(ls[i], (v \div P2(rest)) % P2(LhsWidth(ls[i], D)), D, V, M) \o CatUpd(ls, i + 1, v % P2(rest), D, V, M)

RECURSIVE Exec(_, _, _, _), ExecSeq(_, _, _, _, _), CaseSel(_, _, _, _, _, _)
(* 9.5: the case expression and ALL item expressions are sized to the widest of them and are compared as  *)
(* signed only if all of them are signed; the first matching item is taken, else default, else nothing    *)
CaseAll(s) == <<s.e>> \o
  (LET RECURSIVE Lb(_)
       Lb(i) == IF i > Len(s.items) THEN <<>>
                ELSE (IF "l" \in DOMAIN s.items[i] THEN s.items[i].l ELSE <<>>) \o Lb(i + 1)
   IN Lb(1))
CaseW(s, D, M) == LET a == CaseAll(s)
                      RECURSIVE Mx(_)
                      Mx(i) == IF i > Len(a) THEN 0 ELSE Max(Size(a[i], D, M), Mx(i + 1))
                  IN Mx(1)
CaseS(s, D, M) == LET a == CaseAll(s) IN \A i \in 1..Len(a) : Sgn(a[i], D, M)
LabelInt(l) == IF l.k = "un" /\ l.op = "-" /\ l.a.k = "num" THEN 0 - l.a.v
               ELSE IF l.s = 1 THEN ToInt(l.v % P2(l.w), l.w) ELSE l.v                \* N'sdV: two's complement
(* index of the item selected (0 = none) *)
CaseSel(s, i, dflt, D, V, M) ==
  IF i > Len(s.items) THEN dflt
  ELSE IF "l" \notin DOMAIN s.items[i] THEN CaseSel(s, i + 1, i, D, V, M)
  ELSE IF M.cl /\ Sgn(s.e, D, M) /\ ~CaseS(s, D, M)
  THEN LET W == Size(s.e, D, M)
           S == Sgn(s.e, D, M)
           x == Ev(s.e, W, S, D, V, M)
           xi == IF S THEN ToInt(x, W) ELSE x
       IN IF \E j \in 1..Len(s.items[i].l) : LabelInt(s.items[i].l[j]) = xi
          THEN i ELSE CaseSel(s, i + 1, dflt, D, V, M)
  ELSE LET W == CaseW(s, D, M)
           S == CaseS(s, D, M)
           x == Ev(s.e, W, S, D, V, M)
       IN IF \E j \in 1..Len(s.items[i].l) : Ev(s.items[i].l[j], W, S, D, V, M) = x
          THEN i ELSE CaseSel(s, i + 1, dflt, D, V, M)

Exec(s, x, D, M) ==
  CASE s.k = "ba"   -> LET v == RhsVal(s.r, LhsWidth(s.l, D), D, x.cur, M)
                       IN [x EXCEPT !.cur = ApplyAll(D, x.cur, LhsUpd(s.l, v, D, x.cur, M), 1)]
    [] s.k = "nba"  -> LET v == RhsVal(s.r, LhsWidth(s.l, D), D, x.cur, M)
                       IN [x EXCEPT !.nba = @ \o LhsUpd(s.l, v, D, x.cur, M)]
    [] s.k = "if"   -> IF IsTrue(s.c, D, x.cur, M) THEN ExecSeq(s.t, 1, x, D, M)
                       ELSE IF "f" \in DOMAIN s THEN ExecSeq(s.f, 1, x, D, M) ELSE x
    [] s.k = "case" -> LET i == CaseSel(s, 1, 0, D, x.cur, M)
                       IN IF i = 0 THEN x ELSE ExecSeq(s.items[i].b, 1, x, D, M)
    [] s.k = "sys"  -> x                                                           \* $display / $finish: no state
ExecSeq(b, i, x, D, M) == IF i > Len(b) THEN x ELSE ExecSeq(b, i + 1, Exec(b[i], x, D, M), D, M)

(* one activation of a process body on valuation V: blocking effects at once, scheduled updates afterwards *)
RunBody(b, D, V, M) == LET x == ExecSeq(b, 1, [cur |-> V, nba |-> <<>>], D, M)
                       IN ApplyAll(D, x.cur, x.nba, 1)
(* the non-blocking updates a clocked process schedules when it samples valuation V *)
BodyNba(b, D, V, M) == ExecSeq(b, 1, [cur |-> V, nba |-> <<>>], D, M)

(* combinational settling: continuous assignments (6.1) and always @* processes (9.9.5) are re-evaluated, *)
(* in text order, each seeing the current values, until nothing changes.  For loop-free logic the fixed  *)
(* point is unique, so the order of the standard's nondeterministic scheduler does not matter.           *)
IsComb(it) == it.k = "assign" \/ (it.k = "always" /\ it.ev = "*")
CombOnce(items, D, V, M) ==
  LET RECURSIVE Go(_, _)
      Go(i, v) == IF i > Len(items) THEN v
                  ELSE LET it == items[i]
                       IN IF it.k = "assign"
                          THEN Go(i + 1, ApplyAll(D, v, LhsUpd(it.l, RhsVal(it.r, LhsWidth(it.l, D), D, v, M), D, v, M), 1))
                          ELSE IF it.k = "always" /\ it.ev = "*" THEN Go(i + 1, RunBody(it.b, D, v, M))
                          ELSE Go(i + 1, v)
  IN Go(1, V)
RECURSIVE Settle(_, _, _, _, _)
(* <<valuation, converged>> ; n = sweeps still allowed *)
Settle(items, D, V, M, n) ==
  LET v2 == CombOnce(items, D, V, M)
  IN IF v2 = V THEN <<V, TRUE>> ELSE IF n = 0 THEN <<v2, FALSE>> ELSE Settle(items, D, v2, M, n - 1)

(* a rising edge of the clocks in set C (5.3, 9.2.2, 11.4): the processes sensitive to one of them run, in  *)
(* text order, on the PRE-edge valuation; what they read is what was stored before the edge because their   *)
(* non-blocking updates are only scheduled.  A blocking assignment inside a clocked process takes effect at  *)
(* once and is seen by the rest of that process and by the processes run after it (one of the orders the      *)
(* standard allows; LiteX emits none).  All scheduled updates are then applied in the order scheduled.        *)
EdgeStep(items, C, D, V, M) ==
  LET RECURSIVE Go(_, _)
      Go(i, x) == IF i > Len(items) THEN x
                  ELSE LET it == items[i]
                       IN IF it.k = "always" /\ it.ev = "posedge" /\ it.clk \in C
                          THEN Go(i + 1, ExecSeq(it.b, 1, x, D, M))
                          ELSE Go(i + 1, x)
      x == Go(1, [cur |-> V, nba |-> <<>>])
  IN ApplyAll(D, x.cur, x.nba, 1)

(* static order check: every name an item reads is driven by an earlier item or by no combinational item at *)
(* all (input, register, memory); then ONE sweep in text order reaches the fixed point.                     *)
RECURSIVE Reads(_), ReadsL(_, _), ReadsS(_), ReadsB(_, _), LhsReads(_), LhsNames(_), DrivesB(_, _)
Reads(e) ==
  CASE e.k = "id" -> {e.n}
    [] e.k \in {"par", "un", "sgn"} -> Reads(e.a)
    [] e.k = "bin" -> Reads(e.a) \cup Reads(e.b)
    [] e.k = "cond" -> Reads(e.c) \cup Reads(e.a) \cup Reads(e.b)
    [] e.k \in {"cat", "rep"} -> ReadsL(e.l, 1)
    [] e.k = "sel" -> Reads(e.a) \cup Reads(e.i)
    [] e.k = "rng" -> Reads(e.a)
    [] OTHER -> {}
ReadsL(l, i) == IF i > Len(l) THEN {} ELSE Reads(l[i]) \cup ReadsL(l, i + 1)
LhsReads(l) == CASE l.k = "sel" -> Reads(l.i) \cup LhsReads(l.a)
                 [] l.k = "rng" -> LhsReads(l.a)
                 [] l.k = "cat" -> UNION {LhsReads(l.l[i]) : i \in 1..Len(l.l)}
                 [] OTHER -> {}
LhsNames(l) == CASE l.k = "id" -> {l.n}
                 [] l.k \in {"sel", "rng"} -> LhsNames(l.a)
                 [] l.k = "cat" -> UNION {LhsNames(l.l[i]) : i \in 1..Len(l.l)}
ReadsS(s) ==
  CASE s.k \in {"nba", "ba"} -> Reads(s.r) \cup LhsReads(s.l)
    [] s.k = "if" -> Reads(s.c) \cup ReadsB(s.t, 1) \cup (IF "f" \in DOMAIN s THEN ReadsB(s.f, 1) ELSE {})
    [] s.k = "case" -> Reads(s.e) \cup UNION {ReadsB(s.items[i].b, 1) : i \in 1..Len(s.items)}
    [] OTHER -> {}
ReadsB(b, i) == IF i > Len(b) THEN {} ELSE ReadsS(b[i]) \cup ReadsB(b, i + 1)
DrivesB(b, i) ==
  IF i > Len(b) THEN {}
  ELSE (LET s == b[i] IN
        CASE s.k \in {"nba", "ba"} -> LhsNames(s.l)
          [] s.k = "if" -> DrivesB(s.t, 1) \cup (IF "f" \in DOMAIN s THEN DrivesB(s.f, 1) ELSE {})
          [] s.k = "case" -> UNION {DrivesB(s.items[j].b, 1) : j \in 1..Len(s.items)}
          [] OTHER -> {}) \cup DrivesB(b, i + 1)
ItemReads(it)  == IF it.k = "assign" THEN Reads(it.r) \cup LhsReads(it.l) ELSE ReadsB(it.b, 1)
ItemDrives(it) == IF it.k = "assign" THEN LhsNames(it.l) ELSE DrivesB(it.b, 1)
Ordered(items) ==
  LET cmb == {i \in 1..Len(items) : IsComb(items[i])}
      drv == [i \in cmb |-> ItemDrives(items[i])]
  IN \A i \in cmb : \A j \in cmb : j >= i => ItemReads(items[i]) \cap drv[j] = {}
(* settled valuation, FALSE if it does not settle; `ordered` = Ordered(items), computed once per design *)
SettleO(items, D, V, M, ordered) ==
  IF ordered THEN <<CombOnce(items, D, V, M), TRUE>> ELSE Settle(items, D, V, M, Len(items) + 2)

ASSUME StatementExamples ==
  LET D == [x |-> [w |-> 4, s |-> 0], y |-> [w |-> 4, s |-> 0], c |-> [w |-> 1, s |-> 0], m |-> [w |-> 4, s |-> 0, d |-> 2]]
      V == [x |-> 5, y |-> 9, c |-> 1, m |-> <<3, 12>>]
      nb(l, r) == [k |-> "nba", l |-> l, r |-> r]
      bl(l, r) == [k |-> "ba", l |-> l, r |-> r]
      swap == <<nb(Id("x"), Id("y")), nb(Id("y"), Id("x"))>>                          \* 9.2.2: non-blocking swap
      seqb == <<bl(Id("x"), Id("y")), bl(Id("y"), Id("x"))>>                          \* blocking: no swap
      dflt == <<nb(Id("x"), Num(4, 0)), [k |-> "if", c |-> Id("c"), t |-> <<nb([k |-> "rng", a |-> Id("x"), h |-> 2, l |-> 1], Num(2, 3))>>, tb |-> 1]>>
      cs   == [k |-> "case", e |-> Id("x"), items |-> << [l |-> <<Num(1, 1)>>, b |-> <<nb(Id("y"), Num(4, 1))>>, bb |-> 1],
                                                         [l |-> <<Num(3, 5)>>, b |-> <<nb(Id("y"), Num(4, 2))>>, bb |-> 1],
                                                         [b |-> <<nb(Id("y"), Num(4, 3))>>, bb |-> 1] >>]
      mw   == <<nb([k |-> "rng", a |-> [k |-> "sel", a |-> Id("m"), i |-> Id("c")], h |-> 3, l |-> 2], Num(2, 1))>>
  IN /\ RunBody(swap, D, V, Plain).x = 9 /\ RunBody(swap, D, V, Plain).y = 5
     /\ RunBody(seqb, D, V, Plain).x = 9 /\ RunBody(seqb, D, V, Plain).y = 9
     /\ RunBody(dflt, D, V, Plain).x = 6                                               \* default, then partial override
     /\ RunBody(<<cs>>, D, V, Plain).y = 2 /\ RunBody(<<cs>>, D, [V EXCEPT !.x = 7], Plain).y = 3
     /\ RunBody(mw, D, V, Plain).m = <<3, 4>>
     /\ RunBody(<<nb([k |-> "cat", l |-> <<Id("x"), [k |-> "sel", a |-> Id("y"), i |-> Num(1, 0)]>>], Num(5, 21))>>, D, V, Plain).x = 10
     /\ RunBody(<<nb([k |-> "cat", l |-> <<Id("x"), [k |-> "sel", a |-> Id("y"), i |-> Num(1, 0)]>>], Num(5, 20))>>, D, V, Plain).y = 8
=============================================================================
