------------------------------ MODULE ExprJudge ------------------------------
(***************************************************************************)
(* C01, layer 1 - clause ExprEquivalent.                                    *)
(*                                                                         *)
(* Judges cases recorded from the REAL code: for an FHDL expression placed  *)
(* in some position of a tiny module, (i) the Verilog the real back end     *)
(* (litex.gen.fhdl.verilog.convert) printed for it, parsed to a syntactic   *)
(* AST, and (ii) the value the real reference simulator                     *)
(* (litex.gen.sim.core: Evaluator.eval / assign / execute) stored in the    *)
(* target signal for every valuation of the input variables.  The Verilog   *)
(* is evaluated under VerilogSem (IEEE 1364-2005) and must store the same   *)
(* bits.                                                                   *)
(*                                                                         *)
(* A record of the file IOEnv.TRACES (one initial state each):              *)
(*   kind "rhs"   D      name -> [w, s] of the input variables              *)
(*                ins    the input names, in the order of the env tuples    *)
(*                e      right-hand side printed for `assign <target> = e;` *)
(*                       (the same token sequence for every target of tg)   *)
(*                envs   input valuations (simulator integers)              *)
(*                tg     targets: [w, s, rec] rec[i] = simulator value of   *)
(*                       the target under envs[i]                           *)
(*   kind "frag"  D      every name declared in the fragment                *)
(*                items  the module items (assign / always @* ) that drive   *)
(*                       the target and the internal wires it depends on    *)
(*                ini    name -> declared initial value (reg x = ...)       *)
(*                t      the target; rec[i] as above                        *)
(*   both         pos    position of the FHDL expression (rhs, if, case,    *)
(*                       index, cmp) - only used in signatures              *)
(* Parenthesised operator nodes may carry mw / pi (Migen's width of the     *)
(* same sub-expression and a node number) for the classification below.     *)
(***************************************************************************)
EXTENDS VerilogSem, Json, IOUtils

T == JsonDeserialize(IOEnv.TRACES)

VARIABLES tid
vars == <<tid>>

G == T[tid]
NoVal == 999999                      \* the simulator raised for this valuation (not judged)

(* valuation for env i: simulator integers -> bits for the inputs, declared initial value (else 0) elsewhere *)
Base(g) == IF g.kind = "rhs" THEN [n \in DOMAIN g.D |-> 0]
           ELSE [n \in DOMAIN g.D |-> IF n \in DOMAIN g.ini THEN g.ini[n] ELSE 0]
InVal(g, base, i) ==
  IF Len(g.ins) = 1
  THEN [base EXCEPT ![g.ins[1]] = ToBits(g.envs[i][1], g.D[g.ins[1]].w)]
  ELSE [base EXCEPT ![g.ins[1]] = ToBits(g.envs[i][1], g.D[g.ins[1]].w),
                    ![g.ins[2]] = ToBits(g.envs[i][2], g.D[g.ins[2]].w)]

(* the value VerilogSem gives the target (rhs kind: target j; frag kind: the target t, -1 if the logic does not settle) *)
VVal(g, j, V, M) ==
  IF g.kind = "rhs" THEN RhsVal(g.e, g.tg[j].w, g.D, V, M)
  ELSE LET r == Settle(g.items, g.D, V, M, Len(g.items) + 2)
       IN IF r[2] THEN r[1][g.t] ELSE -1
NTargets(g) == IF g.kind = "rhs" THEN Len(g.tg) ELSE 1
TW(g, j)   == IF g.kind = "rhs" THEN g.tg[j].w ELSE g.D[g.t].w
Rec(g, j, i) == IF g.kind = "rhs" THEN g.tg[j].rec[i] ELSE g.rec[i]
Agree(g, j, i, V, M) == VVal(g, j, V, M) = ToBits(Rec(g, j, i), TW(g, j))

Mismatches(g) ==
  LET base == Base(g)
  IN UNION {LET V == InVal(g, base, i)
            IN {<<j, i>> : j \in {j \in 1..NTargets(g) : Rec(g, j, i) # NoVal /\ ~Agree(g, j, i, V, Plain)}}
            : i \in 1..Len(g.envs)}

---------------------------------------------------------------------------
(* harness obligations *)
RangeOK(x, w, s) == IF s = 1 THEN x >= -P2(w - 1) /\ x < P2(w - 1) ELSE x >= 0 /\ x < P2(w)
EnvLegal ==
  LET g == G IN
  /\ g.kind \in {"rhs", "frag"}
  /\ \A n \in DOMAIN g.D : g.D[n].w \in 1..MaxW /\ g.D[n].s \in {0, 1}
  /\ Len(g.ins) \in {1, 2} /\ \A k \in 1..Len(g.ins) : g.ins[k] \in DOMAIN g.D
  /\ \A i \in 1..Len(g.envs) : /\ Len(g.envs[i]) = Len(g.ins)
                               /\ \A k \in 1..Len(g.ins) : RangeOK(g.envs[i][k], g.D[g.ins[k]].w, g.D[g.ins[k]].s)
  /\ IF g.kind = "rhs"
     THEN /\ MaxAnn(g.e) <= MaxW
          /\ \A j \in 1..Len(g.tg) : /\ g.tg[j].w \in 1..MaxW /\ Len(g.tg[j].rec) = Len(g.envs)
                                     /\ \A i \in 1..Len(g.envs) : g.tg[j].rec[i] = NoVal \/ RangeOK(g.tg[j].rec[i], g.tg[j].w, g.tg[j].s)
     ELSE /\ g.t \in DOMAIN g.D /\ Len(g.rec) = Len(g.envs)
          /\ \A i \in 1..Len(g.envs) : g.rec[i] = NoVal \/ RangeOK(g.rec[i], g.D[g.t].w, g.D[g.t].s)

---------------------------------------------------------------------------
(* classification of an established mismatch (never changes the verdict):  *)
(* the hypotheses of VerilogSem under which it disappears; for Ideal mode   *)
(* the operator whose result is wider in Migen than in its Verilog context, *)
(* the construct that observes the lost bits and whether that context gets  *)
(* its width from the assignment target ("target<mw") or is self-determined *)
(* ("self<mw").  A mismatch no hypothesis explains is described by the      *)
(* first operator for which the reference simulator is known to keep a      *)
(* NEGATIVE Python integer where FHDL's own typing (and the Verilog) is     *)
(* unsigned: binary minus or ~ over unsigned operands ("usub", "unot"), or  *)
(* the negation / product of signed operands ("sneg", "smul": -(-2^(n-1))   *)
(* and (-2^(n-1))^2 do not fit the bits FHDL's typing gives them), plus the *)
(* structural features mf of the FHDL expression the harness recorded.      *)

(* <<operator, consumer, context>> of the first node in pre-order that matches: q > 0: annotated node number q;  *)
(* q = 0: unsigned-typed binary minus / ~ .  <<>> if there is none below e.  up = what consumes e, cx = context  *)
RECURSIVE Find(_, _, _, _, _), FindL(_, _, _, _, _), FindS(_, _, _), FindB(_, _, _, _)
OpOf(a) == CASE a.k = "bin" -> a.op [] a.k = "un" -> "u" \o a.op [] a.k = "cond" -> "?:" [] OTHER -> a.k
Hit(e, q, D) == IF q > 0 THEN "pi" \in DOMAIN e /\ e.pi = q
                ELSE \/ /\ (e.a.k = "bin" /\ e.a.op = "-") \/ (e.a.k = "un" /\ e.a.op = "~")
                        /\ ~Sgn(e.a, D, Plain)
                     \/ e.a.k = "un" /\ e.a.op = "-" /\ Sgn(e.a, D, [Plain EXCEPT !.neg = TRUE])
                     \/ e.a.k = "bin" /\ e.a.op = "*" /\ Sgn(e.a, D, [Plain EXCEPT !.neg = TRUE])
Find(e, up, cx, q, D) ==
  CASE e.k = "par"  -> IF Hit(e, q, D) THEN <<IF q = 0 THEN (IF e.a.k = "bin" THEN (IF e.a.op = "-" THEN "usub" ELSE "smul")
                                                               ELSE IF e.a.op = "~" THEN "unot" ELSE "sneg") ELSE OpOf(e.a), up, cx>>
                       ELSE Find(e.a, up, cx, q, D)
    [] e.k = "un"   -> Find(e.a, "u" \o e.op, cx, q, D)
    [] e.k = "bin"  -> LET sub == IF e.op \in RelOps \cup LogOps THEN "self<mw" ELSE cx
                           nm == IF e.op \in RelOps THEN "cmp" ELSE e.op
                           l == Find(e.a, nm, sub, q, D)
                       IN IF l # <<>> THEN l
                          ELSE IF e.op \in ShiftOps THEN Find(e.b, "amount", "self<mw", q, D) ELSE Find(e.b, nm, sub, q, D)
    [] e.k = "cond" -> LET c == Find(e.c, "?:cond", "self<mw", q, D)
                           a == Find(e.a, "?:", cx, q, D)
                       IN IF c # <<>> THEN c ELSE IF a # <<>> THEN a ELSE Find(e.b, "?:", cx, q, D)
    [] e.k = "sgn"  -> IF e.a.k = "cat" /\ Len(e.a.l) = 2 /\ e.a.l[1].k = "num"
                       THEN Find(e.a.l[2], up, "self<mw", q, D)          \* the promotion wrapper $signed({1'd0, x})
                       ELSE Find(e.a, "$signed", "self<mw", q, D)
    [] e.k \in {"cat", "rep"} -> FindL(e.l, 1, e.k, q, D)
    [] e.k = "sel"  -> Find(e.i, "select", "self<mw", q, D)
    [] OTHER -> <<>>
FindL(l, i, up, q, D) == IF i > Len(l) THEN <<>>
                         ELSE LET r == Find(l[i], up, "self<mw", q, D) IN IF r # <<>> THEN r ELSE FindL(l, i + 1, up, q, D)
FindS(s, q, D) ==
  CASE s.k \in {"nba", "ba"} -> Find(s.r, "assign", "target<mw", q, D)
    [] s.k = "if" -> LET c == Find(s.c, "if", "self<mw", q, D)
                         t == FindB(s.t, 1, q, D)
                     IN IF c # <<>> THEN c ELSE IF t # <<>> THEN t
                        ELSE IF "f" \in DOMAIN s THEN FindB(s.f, 1, q, D) ELSE <<>>
    [] s.k = "case" -> LET c == Find(s.e, "case", "self<mw", q, D)
                           RECURSIVE It(_)
                           It(i) == IF i > Len(s.items) THEN <<>>
                                    ELSE LET r == FindB(s.items[i].b, 1, q, D) IN IF r # <<>> THEN r ELSE It(i + 1)
                       IN IF c # <<>> THEN c ELSE It(1)
    [] OTHER -> <<>>
FindB(b, i, q, D) == IF i > Len(b) THEN <<>> ELSE LET r == FindS(b[i], q, D) IN IF r # <<>> THEN r ELSE FindB(b, i + 1, q, D)
FindG(g, q) ==
  IF g.kind = "rhs" THEN Find(g.e, "assign", "target<mw", q, g.D)
  ELSE LET RECURSIVE It(_)
           It(i) == IF i > Len(g.items) THEN <<>>
                    ELSE LET it == g.items[i]
                             r == IF it.k = "assign" THEN Find(it.r, "assign", "target<mw", q, g.D) ELSE FindB(it.b, 1, q, g.D)
                         IN IF r # <<>> THEN r ELSE It(i + 1)
       IN It(1)

(* the causes under whose hypotheses a mismatch can disappear; a smallest explaining set is reported *)
Causes == {"overflow", "neglit", "belief", "caselabel"}
Mode(S) == [all |-> "overflow" \in S, only |-> {}, neg |-> "neglit" \in S, bel |-> "belief" \in S, cl |-> "caselabel" \in S]

(* which kinds of unsigned operands hypothesis bel promotes in this record: "sel" (select), "cmp" (comparison),  *)
(* "shift", "other" - they name the place where the back end's belief about signedness is wrong                 *)
RECURSIVE PK(_, _, _), PKL(_, _, _, _), PKS(_, _, _), PKB(_, _, _, _)
KindOf(x) == LET y == IF x.k = "par" THEN x.a ELSE x
             IN IF y.k \in {"sel", "rng"} THEN "sel"
                ELSE IF y.k = "bin" /\ y.op \in RelOps THEN "cmp"
                ELSE IF y.k = "bin" /\ y.op \in ShiftOps THEN "shift" ELSE "other"
(* what the back end (expression.py) USED TO take the signedness of a printed operand to be (its rule before the   *)
(* repairs recorded as `fixed` C01 findings; kept to name the cause if such a mismatch ever returns), transcribed - *)
(* a signal's declaration, TRUE for every negation and negative constant, `s1 or s2` for EVERY binary operator and  *)
(* for the branches of ?:, the operand's for ~ and for selects, FALSE for {} and {n{}}                              *)
RECURSIVE Believed(_, _)
Believed(e, D) ==
  CASE e.k = "id"   -> D[e.n].s = 1
    [] e.k = "num"  -> e.s = 1
    [] e.k = "par"  -> Believed(e.a, D)
    [] e.k = "un"   -> IF e.op = "-" THEN TRUE ELSE Believed(e.a, D)
    [] e.k = "bin"  -> Believed(e.a, D) \/ Believed(e.b, D)
    [] e.k = "cond" -> Believed(e.a, D) \/ Believed(e.b, D)
    [] e.k = "sgn"  -> e.f = "$signed"
    [] e.k \in {"sel", "rng"} -> Believed(e.a, D)
    [] OTHER -> FALSE
(* <<kind, the back end believed it signed>> of a partner that had to be promoted, or of the partner next to which *)
(* the back end printed a promotion it should not have.  Only a wrong belief explains a missing / spurious          *)
(* promotion of the unchanged back end; a promotion missing next to an operand it knows to be unsigned does not.    *)
Pair(x0, y0, D, M) ==
  LET x == Op(x0, M)
      y == Op(y0, M)
  IN (IF Prom(x, y, D, M) /\ ~IsWrap(x0) THEN {<<KindOf(x), Believed(x, D)>>} ELSE {})
     \cup (IF Prom(y, x, D, M) /\ ~IsWrap(y0) THEN {<<KindOf(y), Believed(y, D)>>} ELSE {})
     \cup (IF IsWrap(x0) /\ ~Prom(x, y, D, M) THEN {<<KindOf(y), Believed(y, D)>>} ELSE {})
     \cup (IF IsWrap(y0) /\ ~Prom(y, x, D, M) THEN {<<KindOf(x), Believed(x, D)>>} ELSE {})
PK(e, D, M) ==
  CASE e.k \in {"par", "sgn"} -> PK(e.a, D, M)
    [] e.k = "un"   -> PK(e.a, D, M) \cup (IF PromNeg(e, D, M) THEN {<<KindOf(e.a), Believed(e.a, D)>>} ELSE {})
    [] e.k = "bin"  -> PK(e.a, D, M) \cup PK(e.b, D, M) \cup (IF e.op \in ShiftOps THEN {} ELSE Pair(e.a, e.b, D, M))
    [] e.k = "cond" -> PK(e.c, D, M) \cup PK(e.a, D, M) \cup PK(e.b, D, M) \cup Pair(e.a, e.b, D, M)
    [] e.k \in {"cat", "rep"} -> PKL(e.l, 1, D, M)
    [] e.k = "sel"  -> PK(e.i, D, M)
    [] OTHER -> {}
PKL(l, i, D, M) == IF i > Len(l) THEN {} ELSE PK(l[i], D, M) \cup PKL(l, i + 1, D, M)
PKS(s, D, M) ==
  CASE s.k \in {"nba", "ba"} -> PK(s.r, D, M)
    [] s.k = "if" -> PK(s.c, D, M) \cup PKB(s.t, 1, D, M) \cup (IF "f" \in DOMAIN s THEN PKB(s.f, 1, D, M) ELSE {})
    [] s.k = "case" -> PK(s.e, D, M) \cup UNION {PKB(s.items[i].b, 1, D, M) : i \in 1..Len(s.items)}
    [] OTHER -> {}
PKB(b, i, D, M) == IF i > Len(b) THEN {} ELSE PKS(b[i], D, M) \cup PKB(b, i + 1, D, M)
PromKinds(g, M) ==
  IF g.kind = "rhs" THEN PK(g.e, g.D, M)
  ELSE UNION {IF g.items[i].k = "assign" THEN PK(g.items[i].r, g.D, M) ELSE PKB(g.items[i].b, 1, g.D, M) : i \in 1..Len(g.items)}
Applicable(g) == IF g.np = 0 THEN Causes \ {"overflow"} ELSE Causes

Classify(g, j, i, V) ==
  LET app == Applicable(g)
      RECURSIVE Try(_)
      Try(k) == IF k > Cardinality(app) THEN <<FALSE, {}>>
                ELSE LET ok == {S \in SUBSET app : Cardinality(S) = k /\ Agree(g, j, i, V, Mode(S))}
                     IN IF ok # {} THEN <<TRUE, CHOOSE S \in ok : TRUE>> ELSE Try(k + 1)
      r == Try(1)
      S == r[2]
      (* the single annotated node whose raise alone repairs the case under the remaining hypotheses *)
      base == [Mode(S) EXCEPT !.all = FALSE]
      (* (innermost first: nodes are numbered in pre-order, so operands have larger numbers than their consumers) *)
      RECURSIVE One(_)
      One(p) == IF p = 0 THEN 0 ELSE IF Agree(g, j, i, V, [base EXCEPT !.only = {p}]) THEN p ELSE One(p - 1)
      ovf == "overflow" \in S
      p == IF ovf THEN One(g.np) ELSE 0
      pc == IF p = 0 THEN <<"several", "several", "-">> ELSE FindG(g, p)
      ng == FindG(g, 0)
      pk == IF "belief" \in S THEN PromKinds(g, Mode(S)) ELSE {}
      bk == {q[1] : q \in pk} \cup (IF \A q \in pk : q[2] THEN {} ELSE {"unbelieved"})
  IN IF VVal(g, j, V, Plain) < 0 THEN [causes |-> {"diverges"}, bk |-> {}, producer |-> "-", consumer |-> "-", rel |-> "-", mf |-> ""]
     ELSE IF ~r[1] THEN [causes |-> {"unexplained"}, bk |-> {}, producer |-> IF ng = <<>> THEN "-" ELSE ng[1],
                         consumer |-> IF ng = <<>> THEN "-" ELSE ng[2], rel |-> "-", mf |-> g.mf]
     ELSE IF ovf THEN [causes |-> S, bk |-> bk, producer |-> pc[1], consumer |-> pc[2], rel |-> pc[3], mf |-> ""]
     ELSE [causes |-> S, bk |-> bk, producer |-> "-", consumer |-> "-", rel |-> "-", mf |-> ""]

(* one witness <<classification, <<target, env>>, number of mismatching pairs with it>> per distinct classification *)
Witnesses(g, mm) ==
  LET base == Base(g)
      cl == [p \in mm |-> Classify(g, p[1], p[2], InVal(g, base, p[2]))]
      cs == {cl[p] : p \in mm}
  IN {<<c, CHOOSE p \in mm : cl[p] = c, Cardinality({p \in mm : cl[p] = c})>> : c \in cs}

Init == tid \in 1..Len(T)
Next == FALSE /\ UNCHANGED vars

(* the clause: the emitted Verilog stores what the simulator stores, for every target and valuation *)
ExprEquivalent ==
  LET mm == Mismatches(G)
  IN mm = {} \/ (PrintT(<<"MISMATCH", tid, Witnesses(G, mm)>>) /\ FALSE)
=============================================================================
