------------------------------ MODULE Code8b10b ------------------------------
(***************************************************************************)
(* C17 - 8b/10b coding is invertible, DC-balanced and comma-safe.          *)
(*                                                                         *)
(* The module judges the *implementation's* function tables                *)
(*     Enc[sym, rd] = <<code10, rd'>>     Dec[code10] = <<d, k, invalid>>  *)
(* which the harness reads exhaustively out of the real SingleEncoder and  *)
(* Decoder netlists of litex/soc/cores/code_8b10b.py (for lsb_first =      *)
(* FALSE and TRUE) and hands over as one JSON constant.  Nothing in here   *)
(* knows the IBM tables: the clauses are the properties a line code must   *)
(* have, whatever the table is.                                            *)
(*                                                                         *)
(*   tabs[t].lsb                      0: bit 9 is sent first, 1: bit 0     *)
(*   tabs[t].enc[k+1][d+1][rd+1]      <<code10, disp_out>>                 *)
(*   tabs[t].dec[w+1]                 <<d, k, invalid>>                    *)
(*   rd = 0 : running disparity -1,   rd = 1 : running disparity +1        *)
(*                                                                         *)
(* Three kinds of behaviours (variable mode):                              *)
(*   "sym"  one initial state per (table, symbol, disparity): round trip   *)
(*   "word" one initial state per (table, ten-bit word): validity flag     *)
(*   "seq"  a state machine whose state is (disparity flag as the encoder  *)
(*          reports it, true running balance, last six bits of the serial  *)
(*          stream, only-data-so-far) and whose step appends ANY defined   *)
(*          symbol: its reachable states are all symbol sequences of any   *)
(*          length, so the run-length, balance and comma clauses are       *)
(*          decided for sequences, not only for pairs.                     *)
(***************************************************************************)
EXTENDS Integers, Sequences, FiniteSets, TLC, Json, IOUtils

TB == JsonDeserialize(IOEnv.C8B10B_TABLES)
NTabs == Len(TB.tabs)

(* the twelve control symbols 8b/10b defines: K.28.0-7, K.23.7, K.27.7, K.29.7, K.30.7 *)
DefinedK == {28 + 32 * y : y \in 0..7} \cup {23 + 224, 27 + 224, 29 + 224, 30 + 224}
DataSyms == {<<d, 0>> : d \in 0..255}
Symbols  == DataSyms \cup {<<d, 1>> : d \in DefinedK}

Enc(t, sym, rd) == TB.tabs[t].enc[sym[2] + 1][sym[1] + 1][rd + 1]
Dec(t, w)       == TB.tabs[t].dec[w + 1]

Pow2(n) == 2^n
Bit(x, i) == (x \div Pow2(i)) % 2
(* the ten bits in the order they go onto the wire *)
Serial(t, w) == [i \in 1..10 |-> IF TB.tabs[t].lsb = 1 THEN Bit(w, i - 1) ELSE Bit(w, 10 - i)]
Ones(w) == Cardinality({i \in 0..9 : Bit(w, i) = 1})

Commas == { <<0, 0, 1, 1, 1, 1, 1>>, <<1, 1, 0, 0, 0, 0, 0>> }
LastN(s, n) == IF Len(s) <= n THEN s ELSE SubSeq(s, Len(s) - n + 1, Len(s))
NoRunOf6(b)  == \A i \in 1..(Len(b) - 5) : \E j \in 1..5 : b[i + j] # b[i]
NoComma(b)   == \A i \in 1..(Len(b) - 6) : SubSeq(b, i, i + 6) \notin Commas

VARIABLES mode, t,
          sym, rd,        \* "sym": symbol and input disparity looked at; "seq": rd = disparity flag after the last symbol
          w,              \* "word": ten-bit word looked at
          bal,            \* "seq": true running balance (#ones - #zeros, starting at -1 / +1)
          tail,           \* "seq": last <= 6 bits of the serial stream
          pure,           \* "seq": only data symbols so far
          obs             \* "seq": verdicts about the symbol appended last
vars == <<mode, t, sym, rd, w, bal, tail, pure, obs>>

ObsOK == [run |-> TRUE, comma |-> TRUE]

Init ==
  /\ t \in 1..NTabs
  /\ \/ /\ mode = "sym" /\ sym \in Symbols /\ rd \in {0, 1}
        /\ w = -1 /\ bal = 0 /\ tail = <<>> /\ pure = TRUE /\ obs = ObsOK
     \/ /\ mode = "word" /\ w \in 0..1023
        /\ sym = <<>> /\ rd = 0 /\ bal = 0 /\ tail = <<>> /\ pure = TRUE /\ obs = ObsOK
     \/ /\ mode = "seq" /\ rd \in {0, 1} /\ bal = 2 * rd - 1
        /\ sym = <<>> /\ w = -1 /\ tail = <<>> /\ pure = TRUE /\ obs = ObsOK

(* the encoder sends symbol x next; its input disparity is the flag it reported last *)
Send(x) ==
  /\ mode = "seq" /\ bal \in {-1, 1} /\ obs = ObsOK
  /\ LET e    == Enc(t, x, rd)
         bits == Serial(t, e[1])
         win  == tail \o bits
         p    == pure /\ x[2] = 0
     IN /\ rd'   = e[2]
        /\ bal'  = bal + 2 * Ones(e[1]) - 10
        /\ tail' = LastN(win, 6)
        /\ pure' = p
        /\ obs'  = [run |-> NoRunOf6(win), comma |-> (p => NoComma(win))]
  /\ UNCHANGED <<mode, t, sym, w>>

Next == \E x \in Symbols : Send(x)

(* error traces show the symbol appended in the step leaving each state *)
Alias == [mode |-> mode, lsb |-> TB.tabs[t].lsb, sym |-> sym, rd |-> rd, w |-> w, bal |-> bal, tail |-> tail,
          pure |-> pure, obs |-> obs,
          send |-> IF \E x \in Symbols : Send(x) THEN CHOOSE x \in Symbols : Send(x) ELSE <<>>]

---------------------------------------------------------------------------
(* the recorded tables have the right shape (harness obligation) *)
TablesWellFormed ==
  mode = "sym" => /\ Enc(t, sym, rd)[1] \in 0..1023
                  /\ Enc(t, sym, rd)[2] \in {0, 1}

(* decoding the encoder's output returns the same symbol and control flag ... *)
RoundTrip ==
  mode = "sym" => LET r == Dec(t, Enc(t, sym, rd)[1]) IN r[1] = sym[1] /\ r[2] = sym[2]
(* ... and does not call it invalid *)
EncodedNotInvalid ==
  mode = "sym" => Dec(t, Enc(t, sym, rd)[1])[3] = 0

(* code words with an impossible number of ones are reported invalid *)
InvalidOnImpossibleWeight ==
  mode = "word" => (Ones(w) \notin {4, 5, 6} => Dec(t, w)[3] = 1)

(* the running disparity after each symbol stays within one bit of balance, and the *)
(* disparity the encoder reports (and chains into the next symbol) is the true one  *)
DisparityWithinOne    == mode = "seq" => bal \in {-1, 1}
DisparityFlagTruthful == mode = "seq" => ((rd = 1) <=> (bal >= 1))

(* no more than five equal bits in a row across any symbol sequence *)
RunLength == obs.run

(* in any sequence of data symbols no window of the serial stream is a comma *)
NoFalseComma == obs.comma
=============================================================================
