--------------------------- MODULE Code8b10bStream ---------------------------
(***************************************************************************)
(* C17, stream level: L1 contract of the stream wrappers StreamEncoder /   *)
(* StreamDecoder (litex/soc/cores/code_8b10b.py).  "The multi-word and     *)
(* stream wrappers preserve this under stalls": the valid tokens leaving   *)
(* the wrapper are, in order and exactly once, the accepted tokens         *)
(*   - encoder: encoded word by word with the single-symbol table Enc,     *)
(*     the running disparity being chained through the words of a token    *)
(*     and from the last word of a token to the first word of the NEXT     *)
(*     ACCEPTED token (whatever stalls or idle cycles lie between);        *)
(*   - decoder: decoded word by word with the table Dec.                   *)
(* Enc / Dec are the implementation's own tables (C8B10B_TABLES), which    *)
(* module Code8b10b judges; with chaining intact every clause proved there *)
(* for all symbol sequences carries over to the wrapper's token stream.    *)
(*                                                                         *)
(* One step consumes the interface activity <<iv, o>> of one clock cycle:  *)
(*   iv = <<valid, first, last, ready, lanes...>>  lanes: d_i, k_i | w_i   *)
(*   o  = <<sink_ready, valid, first, last, lanes...>> lanes: code_i | d_i, k_i *)
(* c (from the harness with the DUT): kind "enc"/"dec", n (words), lsb,    *)
(*   alpha (lane alphabet: <<d,k>> or <<w>>), fl (first/last exercised),   *)
(*   idle ("zero": payload 0 while valid = 0, "any": payload arbitrary),   *)
(*   cap (tokens the element may hold), full (1: T-mode, alphabet = all    *)
(*   defined symbols / all ten-bit words)                                  *)
(***************************************************************************)
EXTENDS Integers, Sequences, FiniteSets, TLC, Json, IOUtils

TB == JsonDeserialize(IOEnv.C8B10B_TABLES)

DefinedK == {28 + 32 * y : y \in 0..7} \cup {23 + 224, 27 + 224, 29 + 224, 30 + 224}
TabIdx(lsb) == CHOOSE i \in 1..Len(TB.tabs) : TB.tabs[i].lsb = lsb
Enc(t, x, r) == TB.tabs[t].enc[x[2] + 1][x[1] + 1][r + 1]      \* <<code10, disp_out>>
Dec(t, w)    == TB.tabs[t].dec[w + 1]                          \* <<d, k, invalid>>

VARIABLES q,      \* accepted tokens not yet delivered, oldest first: <<first, last, lanes>>
          rd,     \* running disparity before the oldest undelivered token (2: not yet known)
          hold,   \* token offered and not yet accepted (<<>> if none)
          oprev,  \* output presented and not yet accepted (<<>> if none)
          obs
cvars == <<q, rd, hold, oprev, obs>>

LaneW(c) == IF c.kind = "enc" THEN 2 ELSE 1
Lanes(v) == SubSeq(v, 5, Len(v))

---------------------------------------------------------------------------
(* Environment *)
FL(c) == IF c.fl = 1 THEN {0, 1} ELSE {0}
Alpha(c) == {c.alpha[i] : i \in 1..Len(c.alpha)}
RECURSIVE Flat(_)
Flat(xs) == IF xs = <<>> THEN <<>> ELSE Head(xs) \o Flat(Tail(xs))
Payloads(c) == {Flat(x) : x \in [1..c.n -> Alpha(c)]}
ZeroPayload(c) == [i \in 1..(c.n * LaneW(c)) |-> 0]
IdlePayloads(c) == IF c.idle = "any" THEN Payloads(c) ELSE {ZeroPayload(c)}

Inputs(c) ==
  IF hold # <<>>
  THEN { <<1, hold[1], hold[2], r>> \o hold[3] : r \in {0, 1} }
  ELSE { <<0, 0, 0, r>> \o p : p \in IdlePayloads(c), r \in {0, 1} } \cup
       { <<1, f, l, r>> \o p : p \in Payloads(c), f \in FL(c), l \in FL(c), r \in {0, 1} }

(* predicate form for recorded traces at the full alphabet *)
LegalLane(c, p, i) ==
  IF c.kind = "enc"
  THEN LET d == p[2 * i - 1]  k == p[2 * i] IN d \in 0..255 /\ (k = 0 \/ (k = 1 /\ d \in DefinedK))
  ELSE p[i] \in 0..1023
Legal(c, iv) ==
  /\ Len(iv) = 4 + c.n * LaneW(c)
  /\ iv[1] \in {0, 1} /\ iv[2] \in {0, 1} /\ iv[3] \in {0, 1} /\ iv[4] \in {0, 1}
  /\ (hold # <<>> => iv[1] = 1 /\ <<iv[2], iv[3], Lanes(iv)>> = hold)
  /\ (iv[1] = 1 \/ c.idle = "any" => \A i \in 1..c.n : LegalLane(c, Lanes(iv), i))
  /\ (iv[1] = 0 /\ c.idle # "any" => Lanes(iv) = ZeroPayload(c) /\ iv[2] = 0 /\ iv[3] = 0)

---------------------------------------------------------------------------
(* what an accepted token has to come out as *)
RECURSIVE ChainCodes(_, _, _, _)       \* <<codes, disparity after the last word>>
ChainCodes(t, r, p, i) ==
  IF 2 * i > Len(p) THEN << <<>>, r >>
  ELSE LET e    == Enc(t, <<p[2 * i - 1], p[2 * i]>>, r)
           rest == ChainCodes(t, e[2], p, i + 1)
       IN << <<e[1]>> \o rest[1], rest[2] >>

RECURSIVE DecFlat(_, _, _)
DecFlat(t, p, i) ==
  IF i > Len(p) THEN <<>>
  ELSE LET r == Dec(t, p[i]) IN <<r[1], r[2]>> \o DecFlat(t, p, i + 1)

Cands(r) == IF r = 2 THEN {0, 1} ELSE {r}

---------------------------------------------------------------------------
CInit ==
  /\ q = <<>> /\ rd = 2 /\ hold = <<>> /\ oprev = <<>>
  /\ obs = [okorder |-> TRUE, okhold |-> TRUE, okbound |-> TRUE,
            srcfire |-> FALSE, sinkfire |-> FALSE, coop |-> FALSE, rdy |-> FALSE]

CStep(c, iv, o) ==
  LET t        == TabIdx(c.lsb)
      tok      == <<iv[2], iv[3], Lanes(iv)>>
      ot       == <<o[3], o[4], Lanes(o)>>
      offered  == iv[1] = 1
      sinkfire == offered /\ o[1] = 1
      srcfire  == o[2] = 1 /\ iv[4] = 1
      hd       == Head(q)
      match    == IF q = <<>> THEN {}
                  ELSE IF c.kind = "enc"
                  THEN {r \in Cands(rd) : ChainCodes(t, r, hd[3], 1)[1] = ot[3]}
                  ELSE IF DecFlat(t, hd[3], 1) = ot[3] THEN Cands(rd) ELSE {}
      okvis    == o[2] = 1 => (q # <<>> /\ hd[1] = ot[1] /\ hd[2] = ot[2] /\ match # {})
      after    == IF c.kind = "enc" THEN {ChainCodes(t, r, hd[3], 1)[2] : r \in match} ELSE match
      q1       == IF srcfire /\ q # <<>> THEN Tail(q) ELSE q
      q2       == IF sinkfire THEN Append(q1, tok) ELSE q1
  IN
  /\ q'     = IF Len(q2) <= c.cap THEN q2 ELSE q1       \* saturate (Bounded is then already false)
  /\ rd'    = IF srcfire /\ q # <<>> /\ match # {}
              THEN (IF Cardinality(after) = 1 THEN CHOOSE r \in after : TRUE ELSE 2)
              ELSE rd
  /\ hold'  = IF offered /\ ~sinkfire THEN tok ELSE <<>>
  /\ oprev' = IF o[2] = 1 /\ ~srcfire THEN ot ELSE <<>>
  /\ obs'   = [okorder  |-> okvis,
               okhold   |-> (oprev # <<>> => (o[2] = 1 /\ ot = oprev)),
               okbound  |-> Len(q2) <= c.cap,
               srcfire  |-> srcfire,
               sinkfire |-> sinkfire,
               coop     |-> (offered /\ iv[4] = 1),
               rdy      |-> (iv[4] = 1)]

---------------------------------------------------------------------------
(* every presented token is the oldest accepted one, encoded with the disparity the previous *)
(* delivered token left behind (decoder: decoded by the table); first/last travel with it    *)
ChainedInOrder == obs.okorder
(* the wrapper never holds more tokens than its pipeline depth *)
Bounded        == obs.okbound
(* a presented output stays unchanged until it is accepted (stall safety of the pipeline) *)
ValidHold      == obs.okhold
=============================================================================
