------------------------ MODULE Code8b10bStreamGraph ------------------------
(* G-mode product:  Env x Code8b10bStream monitor x implementation graph G.  *)
(* G is the transition graph of the REAL StreamEncoder / StreamDecoder       *)
(* netlists, computed on demand by harness/graphloop.py: every valid / ready *)
(* (i.e. pipe_ce) schedule over the lane alphabet of the configuration.      *)
EXTENDS Code8b10bStream

G == JsonDeserialize(IOEnv.GRAPH)
NDuts == Len(G.duts)

VARIABLES d,   \* which DUT of the batch this behaviour is about
          s    \* implementation state (node of G.duts[d]); -1 = edge not yet known
vars == <<d, s, q, rd, hold, oprev, obs>>

C == G.duts[d].cfg

Init == /\ d \in 1..NDuts /\ s = 0 /\ CInit

Step(iv) ==
  /\ s >= 0
  /\ LET k == ToString(iv) IN
       IF k \in DOMAIN G.duts[d].succ[s + 1]
       THEN LET e == G.duts[d].succ[s + 1][k] IN
            /\ s' = e.d /\ d' = d
            /\ CStep(C, iv, e.o)
       ELSE /\ PrintT(<<"NEED", d, s, iv>>)
            /\ s' = -1 /\ d' = d /\ UNCHANGED cvars

Next == \E iv \in Inputs(C) : Step(iv)

(* error traces show, for every state, the input applied in the step that leaves it *)
Alias == [d |-> d, s |-> s, q |-> q, rd |-> rd, obs |-> obs, iv |-> CHOOSE iv \in Inputs(C) : Step(iv)]

Spec == Init /\ [][Next]_vars /\ WF_vars(Next)

(* with a consumer that is eventually always ready every accepted token is delivered *)
NothingLost == (<>[](obs.rdy)) => ([]<>(q = <<>> \/ obs.srcfire))
(* with producer and consumer cooperating forever tokens keep moving *)
Progress    == (<>[](obs.coop)) => ([]<>(obs.srcfire))
=============================================================================
