------------------------ MODULE Code8b10bStreamTrace ------------------------
(* T-mode: cycle-by-cycle interface traces of the real stream wrappers        *)
(* (ordinary Migen simulation at the full alphabet, 1..4 words, random        *)
(* valid/ready; or the linear replay of a G-mode counterexample) against the  *)
(* same contract Code8b10bStream.                                             *)
EXTENDS Code8b10bStream

T == JsonDeserialize(IOEnv.TRACES)

VARIABLES tid, l, envbad, stall, stall2,
          dead    \* per clause: already violated in this trace (each clause reports once per trace)
vars == <<tid, l, envbad, stall, stall2, dead, q, rd, hold, oprev, obs>>

C == T[tid].cfg

Init == /\ tid \in 1..Len(T) /\ l = 1 /\ envbad = FALSE /\ stall = 0 /\ stall2 = 0 /\ dead = [o |-> FALSE, b |-> FALSE, h |-> FALSE, p |-> FALSE, d |-> FALSE] /\ CInit

Next ==
  /\ l <= Len(T[tid].ev)
  /\ LET iv == T[tid].ev[l][1]
         o  == T[tid].ev[l][2]
     IN /\ envbad' = (envbad \/ ~(IF C.full = 1 THEN Legal(C, iv) ELSE iv \in Inputs(C)))
        /\ CStep(C, iv, o)
        /\ stall'  = IF obs'.coop /\ ~obs'.srcfire THEN stall + 1 ELSE 0
        /\ stall2' = IF obs'.rdy /\ q' # <<>> /\ ~obs'.srcfire THEN stall2 + 1 ELSE 0
  /\ dead' = [o |-> dead.o \/ ~obs.okorder, b |-> dead.b \/ ~obs.okbound, h |-> dead.h \/ ~obs.okhold,
               p |-> dead.p \/ stall >= C.stallbound, d |-> dead.d \/ stall2 >= C.stallbound]
  /\ l' = l + 1 /\ tid' = tid

EnvLegal == ~envbad                           \* harness obligation, not a property of the code
ChainedInOrderT == dead.o \/ obs.okorder
BoundedT        == dead.b \/ obs.okbound
ValidHoldT      == dead.h \/ obs.okhold
(* bounded forms of the liveness clauses for replayed lassos and long runs *)
BoundedProgress == dead.p \/ stall < C.stallbound
BoundedDelivery == dead.d \/ stall2 < C.stallbound
=============================================================================
