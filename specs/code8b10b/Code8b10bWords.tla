---------------------------- MODULE Code8b10bWords ----------------------------
(***************************************************************************)
(* C17, word level: the multi-word Encoder (1..4 parallel words, either    *)
(* bit order, clock enable) chains the running disparity through the words *)
(* of a cycle and from the last word of a cycle into the first word of the *)
(* next one; the registered Decoder shows, one enabled cycle later, what   *)
(* the table says about the word it sampled.  Trace validation (T-mode):   *)
(* traces are plain cycle-by-cycle runs of the REAL Encoder / Decoder from *)
(* reset with random symbols and random clock-enable patterns.             *)
(*                                                                         *)
(* The single-symbol function Enc / Dec is the implementation's own table  *)
(* (C8B10B_TABLES, judged by module Code8b10b); this module decides that   *)
(* the parallel encoder equals *chaining* that table.                      *)
(*                                                                         *)
(*  encoder event  <<ce, <<<<d,k>>,..>>, <<code,..>>, <<disp,..>>>>        *)
(*  decoder event  <<ce, w, d, k, invalid>>                                *)
(*  (inputs applied in the cycle, outputs as visible in that same cycle)   *)
(*                                                                         *)
(* Contract of the encoder: a word vector presented in an enabled cycle is *)
(* visible after two further enabled clock edges and stays until the next  *)
(* enabled edge (two register stages, both gated by ce).  The disparity    *)
(* before the very first vector is not prescribed (rd = 2: unknown; it is  *)
(* resolved by what the DUT shows).                                        *)
(***************************************************************************)
EXTENDS Integers, Sequences, FiniteSets, TLC, Json, IOUtils

TB == JsonDeserialize(IOEnv.C8B10B_TABLES)
T  == JsonDeserialize(IOEnv.TRACES)

DefinedK == {28 + 32 * y : y \in 0..7} \cup {23 + 224, 27 + 224, 29 + 224, 30 + 224}
LegalSym(x) == x[1] \in 0..255 /\ (x[2] = 0 \/ (x[2] = 1 /\ x[1] \in DefinedK))

TabIdx(lsb) == CHOOSE i \in 1..Len(TB.tabs) : TB.tabs[i].lsb = lsb
Enc(t, x, r) == TB.tabs[t].enc[x[2] + 1][x[1] + 1][r + 1]      \* <<code10, disp_out>>
Dec(t, w)    == TB.tabs[t].dec[w + 1]                          \* <<d, k, invalid>>

(* chaining the single-symbol table through the words of one vector:  *)
(* <<codes, disparities after each word>>                             *)
RECURSIVE Chain(_, _, _)
Chain(t, r, xs) ==
  IF xs = <<>> THEN << <<>>, <<>> >>
  ELSE LET e    == Enc(t, Head(xs), r)
           rest == Chain(t, e[2], Tail(xs))
       IN << <<e[1]>> \o rest[1], <<e[2]>> \o rest[2] >>

Cands(r) == IF r = 2 THEN {0, 1} ELSE {r}

VARIABLES tid, l, envbad,
          s1,     \* vector in the first register stage (<<>>: reset content)
          s2,     \* vector whose code is visible (<<>>: reset content, not judged)
          rd,     \* running disparity before s2 (or before s1 / the next vector while s2 = <<>>)
          ok,     \* verdict about the cycle consumed last
          dead    \* a verdict of this trace was already negative (reported once, then silent)
vars == <<tid, l, envbad, s1, s2, rd, ok, dead>>

C == T[tid].cfg
Tb == TabIdx(C.lsb)

Init == /\ tid \in 1..Len(T) /\ l = 1 /\ envbad = FALSE
        /\ s1 = <<>> /\ s2 = <<>> /\ rd = 2 /\ ok = TRUE /\ dead = FALSE

EncStep(e) ==
  LET ce == e[1]  xs == e[2]  outs == e[3]  disps == e[4]
      match == IF s2 = <<>> THEN Cands(rd)
               ELSE {r \in Cands(rd) : Chain(Tb, r, s2) = <<outs, disps>>}
      after == IF s2 = <<>> THEN match
               ELSE {Chain(Tb, r, s2)[2][C.n] : r \in match}
  IN /\ envbad' = (envbad \/ ce \notin {0, 1} \/ Len(xs) # C.n \/ \E i \in 1..Len(xs) : ~LegalSym(xs[i]))
     /\ ok' = (match # {})
     /\ IF ce = 1
        THEN /\ s2' = s1 /\ s1' = xs
             /\ rd' = IF Cardinality(after) = 1 THEN CHOOSE r \in after : TRUE ELSE 2
        ELSE /\ UNCHANGED <<s1, s2>>
             /\ rd' = IF Cardinality(match) = 1 THEN CHOOSE r \in match : TRUE ELSE rd

DecStep(e) ==
  LET ce == e[1]  w == e[2] IN
  /\ envbad' = (envbad \/ ce \notin {0, 1} \/ w \notin 0..1023)
  /\ ok' = (s2 = <<>> \/ Dec(Tb, s2[1]) = <<e[3], e[4], e[5]>>)
  /\ s2' = IF ce = 1 THEN <<w>> ELSE s2
  /\ UNCHANGED <<s1, rd>>

Next ==
  /\ l <= Len(T[tid].ev)
  /\ IF C.kind = "enc" THEN EncStep(T[tid].ev[l]) ELSE DecStep(T[tid].ev[l])
  /\ dead' = (dead \/ ~ok)
  /\ l' = l + 1 /\ tid' = tid

EnvLegal == ~envbad                       \* harness obligation, not a property of the code
(* word i+1 is encoded with word i's output disparity, the first word with the last word's of the *)
(* previous enabled cycle; codes and disparity outputs equal the chained single-symbol table      *)
DisparityChaining   == C.kind = "enc" => (ok \/ dead)
(* the decoder's d / k / invalid are the table's entry for the word sampled at the last enabled edge *)
DecoderFollowsTable == C.kind = "dec" => (ok \/ dead)
=============================================================================
