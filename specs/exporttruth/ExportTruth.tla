------------------------------- MODULE ExportTruth -------------------------------
(***************************************************************************)
(* C14 - Exported software maps tell the truth about the hardware.         *)
(*                                                                         *)
(* Judge of the facts recorded from REAL finalized LiteX SoCs (and from    *)
(* get_mem_data) by harness/families/exporttruth.py.  The harness builds   *)
(* the SoC of a configuration printed by SocConfigs.tla, lets the real     *)
(* Builder write csr.h, soc.h, mem.h, csr.json, csr.csv and soc.svd,       *)
(* parses them (the static inline accessors of csr.h statement by          *)
(* statement), performs the accesses through the SoC's own bus master and  *)
(* records what happened.  What has to have happened is written here.      *)
(*                                                                         *)
(* The access model is the one of litex/soc/software/include/hw/common.h:  *)
(* csr_read_simple / csr_write_simple are 32-bit accesses at 4-byte        *)
(* aligned addresses, little-endian byte lanes.  A read accessor is the    *)
(* program  ld a | shl n | or a ...  over an accumulator of its C type, a  *)
(* write accessor the list  <<shift, address>>  (the word  v >> shift  is  *)
(* stored at address).  Registers wider than 64 bits have no generated     *)
(* accessor; for them the big-endian loop of hw/common.h over              *)
(* CSR_<REG>_ADDR / CSR_<REG>_SIZE is used (GenericW / GenericR).          *)
(*                                                                         *)
(* Data representation (TLC integers are 32 bit): a value is the sequence  *)
(* of its bytes, least significant first; a bus address is <<hi16, lo16>>, *)
(* <<-1, -1>> = not published.  resp: 0 answered, 1 bus error, 2 no answer.*)
(*                                                                         *)
(* T.socs[s]:  cfg, built, regs, wins, banks, regions, irqs, consts,       *)
(*             hwnames, csr_base;  T.images[k]: one memory-image case.     *)
(* One item (a register, a window, a region, an interrupt, a SoC as a      *)
(* whole, an image) is one initial state; the only step computes the       *)
(* verdict record v (one boolean per clause), each clause is an INVARIANT. *)
(***************************************************************************)
EXTENDS Integers, Sequences, FiniteSets, TLC, Json, IOUtils

T == JsonDeserialize(IOEnv.TRACES)

VARIABLES sid, kind, i, done, v
vars == <<sid, kind, i, done, v>>

Clauses == {"EnvLegal", "RegisterAtPublishedAddress", "MultiWordAccessorsCompose", "FieldMacrosTrue", "SvdFieldsTrue",
            "MemoryRegionAnswers", "CsrWindowAnswers", "ConstantsAndIrqs", "FormatsAgree", "MemImageLanes",
            "MemImageInRegion"}

---------------------------------------------------------------------------
(* addresses *)
NoAddr == <<-1, -1>>
Pub(a) == a # NoAddr
AddOff(a, k) == LET s == a[2] + k IN <<a[1] + (s \div 65536), s % 65536>>
Lt(a, b) == a[1] < b[1] \/ (a[1] = b[1] /\ a[2] < b[2])
Le(a, b) == a = b \/ Lt(a, b)
AddA(a, b) == LET s == a[2] + b[2] IN <<a[1] + b[1] + (s \div 65536), s % 65536>>
InRange(a, base, size) == Le(base, a) /\ Lt(a, AddA(base, size))
IsPow2A(s) == \/ (s[1] = 0 /\ s[2] \in {2^k : k \in 0..15})
              \/ (s[2] = 0 /\ s[1] \in {2^k : k \in 0..15})

(* values = byte sequences, least significant byte first *)
Max(a, b) == IF a > b THEN a ELSE b
Pad(b, n) == [j \in 1..n |-> IF j <= Len(b) THEN b[j] ELSE 0]
Bit(x, k) == (x \div (2^k)) % 2
EqV(a, b) == LET n == Max(Len(a), Len(b)) IN Pad(a, n) = Pad(b, n)
IsBytes(b) == \A j \in 1..Len(b) : b[j] \in 0..255
Below(b, size) ==      \* the value is < 2^size
  \A j \in 1..Len(b) : IF 8 * j <= size THEN TRUE
                       ELSE IF 8 * (j - 1) >= size THEN b[j] = 0
                       ELSE b[j] < 2^(size - 8 * (j - 1))
BitAt(b, k) == IF k \div 8 + 1 <= Len(b) THEN Bit(b[k \div 8 + 1], k % 8) ELSE 0      \* k = 0 is the lsb
Slice(b, off, size) == [k \in 1..size |-> BitAt(b, off + k - 1)]
ToSet(s) == {s[j] : j \in 1..Len(s)}

---------------------------------------------------------------------------
(* accessors *)
NLoads(ops) == Cardinality({j \in 1..Len(ops) : ops[j][1] \in {"ld", "or"}})
(* bit sequences (index 1 = lsb) for the accessors' arithmetic: shifts by any number of bits *)
Bits(b, n) == [k \in 1..n |-> BitAt(b, k - 1)]
ShlBits(x, sh, n) == [k \in 1..n |-> IF k > sh /\ k - sh <= Len(x) THEN x[k - sh] ELSE 0]
ShrBits(x, sh, n) == [k \in 1..n |-> IF k + sh <= Len(x) THEN x[k + sh] ELSE 0]
OrBits(x, y, n) == [k \in 1..n |-> IF (k <= Len(x) /\ x[k] = 1) \/ (k <= Len(y) /\ y[k] = 1) THEN 1 ELSE 0]
EqBits(x, y) == LET n == Max(Len(x), Len(y)) IN
                \A k \in 1..n : (IF k <= Len(x) THEN x[k] ELSE 0) = (IF k <= Len(y) THEN y[k] ELSE 0)
(* a read accessor run on the recorded bus data: accumulator of W bytes, every load is a uint32_t *)
RECURSIVE RunRead(_, _, _, _, _, _)
RunRead(ops, rops, W, j, k, r) ==
  IF j > Len(ops) THEN r
  ELSE LET op == ops[j] IN
       CASE op[1] = "ld"  -> RunRead(ops, rops, W, j + 1, k + 1, Bits(Pad(rops[k][2], 4), 8 * W))
         [] op[1] = "shl" -> RunRead(ops, rops, W, j + 1, k, ShlBits(r, op[2][1], 8 * W))
         [] op[1] = "or"  -> RunRead(ops, rops, W, j + 1, k + 1, OrBits(r, Bits(Pad(rops[k][2], 4), 8 * W), 8 * W))
         [] OTHER         -> r
ReadValue(r) == RunRead(r.racc, r.rops, IF r.W = 0 THEN 4 * Max(1, r.nw.h) ELSE r.W, 1, 1, <<>>)
ValBits(b) == Bits(b, 8 * Len(b))
RECURSIVE ShiftAfter(_, _)
ShiftAfter(ops, j) == IF j >= Len(ops) THEN 0
                      ELSE (IF ops[j + 1][1] = "shl" THEN ops[j + 1][2][1] ELSE 0) + ShiftAfter(ops, j + 1)
(* the bit position at which the word loaded from an address ends up in the value the accessor returns *)
LoadMap(ops) == {<<ops[j][2], ShiftAfter(ops, j)>> : j \in {m \in 1..Len(ops) : ops[m][1] \in {"ld", "or"}}}
StoreMap(w)  == {<<w[j][2], w[j][1]>> : j \in 1..Len(w)}

GenericW(a, n, bw) == [j \in 1..n |-> <<bw * (n - j), AddOff(a, 4 * (j - 1))>>]
GenericR(a, n, bw) == [j \in 1..(2 * n - 1) |->
                         IF j = 1 THEN <<"ld", a>>
                         ELSE IF j % 2 = 0 THEN <<"shl", <<bw, 0>> >>
                         ELSE <<"or", AddOff(a, 4 * ((j - 1) \div 2))>>]
AccW(r) == IF r.W = 0 THEN 4 * Max(1, r.nw.h) ELSE r.W       \* width of the accessor's C type in bytes

---------------------------------------------------------------------------
(* items *)
S == T.socs[sid]
Count(s, k) == CASE k = "soc" -> 1
                 [] k = "reg"    -> IF T.socs[s].built = 1 THEN Len(T.socs[s].regs) ELSE 0
                 [] k = "win"    -> IF T.socs[s].built = 1 THEN Len(T.socs[s].wins) ELSE 0
                 [] k = "bank"   -> IF T.socs[s].built = 1 THEN Len(T.socs[s].banks) ELSE 0
                 [] k = "region" -> IF T.socs[s].built = 1 THEN Len(T.socs[s].regions) ELSE 0
                 [] k = "irq"    -> IF T.socs[s].built = 1 THEN Len(T.socs[s].irqs) ELSE 0
                 [] OTHER        -> 0
SocKinds == {"soc", "reg", "win", "bank", "region", "irq"}

Init == /\ done = FALSE /\ v = [c \in Clauses |-> TRUE]
        /\ \/ /\ kind \in SocKinds /\ sid \in 1..Len(T.socs) /\ i \in 1..Count(sid, kind)
           \/ /\ kind = "img" /\ sid \in 1..Len(T.images) /\ i = 1

---------------------------------------------------------------------------
(* registers *)
R == S.regs[i]
Judged(r) == r.hw = 1 /\ Pub(r.a.h)
NW(r) == Len(r.wacc)
NR(r) == NLoads(r.racc)
AllOk(ops) == \A j \in 1..Len(ops) : ops[j][3] = 0

RegEnv(r) ==
  /\ r.hw \in {0, 1} /\ r.wdone \in {0, 1} /\ r.rdone \in {0, 1, 2}
  /\ (r.wdone = 1 =>
        /\ r.hw = 1 /\ r.kind = "sto" /\ r.wid >= 1
        /\ IsBytes(r.want) /\ Below(r.want, r.size) /\ ~EqV(r.want, r.before)      \* the value to be written
        /\ r.v = Pad(r.want, AccW(r))                     \* ... as the accessor's parameter of its C type holds it
        /\ (r.W = 0 => r.wacc = GenericW(r.a.h, r.nw.h, r.bw))
        /\ Len(r.wops) = Len(r.wacc)
        /\ \A j \in 1..Len(r.wacc) :
             /\ r.wacc[j][1] >= 0
             /\ r.wops[j][1] = r.wacc[j][2]                                  \* address the accessor names
             /\ Len(r.wops[j][2]) = 4                                        \* (uint32_t)(v >> shift)
             /\ ValBits(r.wops[j][2]) = ShrBits(ValBits(r.v), r.wacc[j][1], 32))
  /\ (r.rdone # 0 =>
        /\ r.hw = 1
        /\ (r.W = 0 => r.racc = GenericR(r.a.h, r.nw.h, r.bw))
        /\ Len(r.rops) = NLoads(r.racc)
        /\ LET lds == SelectSeq(r.racc, LAMBDA op : op[1] \in {"ld", "or"})
           IN \A j \in 1..Len(lds) : r.rops[j][1] = lds[j][2]
        /\ \A j \in 1..Len(r.racc) : r.racc[j][1] = "shl" => r.racc[j][2][1] >= 0)
  (* nothing published was skipped - unless the harness gave the SoC's bus up after accesses at         *)
  (* published addresses that were not answered properly (those are recorded and judged)               *)
  /\ r.skip \in {0, 1} /\ (r.skip = 1 => S.dead = 1)
  /\ (r.hw = 1 /\ Pub(r.a.h) /\ r.kind = "sto" => r.wdone = 1 \/ r.skip = 1)
  /\ (r.hw = 1 /\ Pub(r.a.h) => r.rdone # 0 \/ r.skip = 1)

(* the accessors' footprint: a write through the accessor of r changes r and nothing else the harness   *)
(* watches (every CSRStorage, the first and last word of every memory); registers of one bus word also   *)
(* take / return the value                                                                               *)
RegAtAddress(r) ==
  Judged(r) =>
    /\ (r.wdone = 1 =>
          /\ AllOk(r.wops)
          /\ ToSet(r.changed) = {r.wid}
          /\ (NW(r) = 1 => EqV(r.after, r.want)))
    /\ (r.rdone # 0 =>
          /\ AllOk(r.rops)
          /\ (r.rdone = 1 /\ NR(r) = 1 => EqBits(ReadValue(r), ValBits(r.truth))))

(* registers of several bus words: the value composed as the accessor composes it is the register's *)
RegCompose(r) ==
  Judged(r) =>
    /\ (r.wdone = 1 /\ NW(r) > 1 => EqV(r.after, r.want))
    /\ (r.rdone = 1 /\ NR(r) > 1 => EqBits(ReadValue(r), ValBits(r.truth)))

(* CSR_<REG>_<FIELD>_OFFSET / _SIZE select the bits that the hardware field signal carries *)
RegValue(r) == IF r.kind = "sto" THEN r.after ELSE r.truth
RegFields(r) ==
  Judged(r) /\ (IF r.kind = "sto" THEN r.wdone = 1 ELSE r.rdone = 1) =>
    \A j \in 1..Len(r.flds) :
      LET f == r.flds[j] IN
        /\ f.off >= 0 /\ f.size >= 1
        /\ Slice(RegValue(r), f.off, f.size) = Slice(f.sig, 0, f.size)
        /\ \A k \in f.size..(8 * Len(f.sig) - 1) : BitAt(f.sig, k) = 0          \* the signal is not wider

(* soc.svd publishes the fields of a register word by word (<field> name / lsb / msb / bitRange inside the word  *)
(* that starts at bit `start` of the register, "Bits start-.. of `REG`"): the bits published for a hardware field *)
(* under its name, over all words, are one contiguous range of the register, and that range carries the hardware *)
(* field signal (the whole signal).  svdf entries: <<start, name, lsb, msb, bitRange lsb, bitRange msb>>.        *)
SvdBitsOf(r, name) == UNION {(e[1] + e[3])..(e[1] + e[4]) : e \in {x \in ToSet(r.svdf) : x[2] = name}}
RegSvdFields(r) ==
  Judged(r) /\ (IF r.kind = "sto" THEN r.wdone = 1 ELSE r.rdone = 1) =>
    /\ \A j \in 1..Len(r.svdf) : r.svdf[j][3] = r.svdf[j][5] /\ r.svdf[j][4] = r.svdf[j][6]     \* bitRange = [msb:lsb]
    /\ \A j \in 1..Len(r.flds) :
         LET f == r.flds[j]
             bits == SvdBitsOf(r, f.name)
             lo == CHOOSE x \in bits : \A y \in bits : x <= y
             n == Cardinality(bits)
         IN /\ bits # {}
            /\ bits = lo..(lo + n - 1)
            /\ lo + n <= r.size
            /\ Slice(RegValue(r), lo, n) = Slice(f.sig, 0, n)
            /\ \A k \in n..(8 * Len(f.sig) - 1) : BitAt(f.sig, k) = 0

(* csr.h (define and accessors), csr.json, csr.csv and soc.svd name the same place *)
RegFormats(r) ==
  /\ Pub(r.a.h) /\ r.a.h = r.a.json /\ r.a.h = r.a.csv
  /\ r.nw.h = r.nw.json /\ r.nw.h = r.nw.csv /\ r.ty.json = r.ty.csv
  /\ r.ty.json \in {"ro", "rw"}
  /\ (r.W # 0 => (r.ty.json = "ro" <=> r.hasw = 0))          \* read-only in JSON/CSV <=> no <reg>_write() in csr.h
  /\ (r.hw = 1 /\ r.kind = "sto" => r.ty.json = "rw")
  /\ (r.hw = 1 =>
        /\ r.nw.h = NR(r)
        /\ (r.hasw = 1 => StoreMap(r.wacc) = LoadMap(r.racc))                       \* read and write accessors agree
        /\ \E x \in LoadMap(r.racc) : x[1] = r.a.h                                 \* the define is the first word
        /\ \A x \in LoadMap(r.racc) : InRange(x[1], r.a.h, <<0, 4 * r.nw.h>>)
        /\ Len(r.svd) = r.nw.h
        /\ \A j \in 1..Len(r.svd) :                                                \* SVD: word <REG><idx> = bits idx*bw..
             LET w == r.svd[j] IN
               /\ w[2] = w[1] * r.bw
               /\ <<w[3], w[2]>> \in LoadMap(r.racc))
  (* published without a register in the hardware: only the reserved<n> fillers of fixed positions *)
  /\ (r.hw = 0 => r.filler = 1 /\ Len(r.svd) = r.nw.h /\ (r.nw.h = 1 => r.svd[1][3] = r.a.h))

---------------------------------------------------------------------------
(* CSR-mapped memories.  A memory word takes n = ceil(width / CSR data width) consecutive CSR words, most     *)
(* significant first (the order of the multi-word accessors and of hw/common.h), the last one written commits. *)
(* CSR word x of the memory is at base + 4 * (x mod page words) with <mem>_page = x div page words when the    *)
(* memory is deeper than a page (page words = paging / 4); the page register is a published CSRStorage of its   *)
(* own, written by the harness through its published accessor beforehand; pagereg = what it holds.             *)
W == S.wins[i]
Cpw(w) == (w.width + S.cfg.cdw - 1) \div S.cfg.cdw
PageWords == S.cfg.paging \div 4
Paged(w) == w.depth * Cpw(w) > PageWords
WinAnswers(w) ==
  w.hw = 1 =>
    /\ Pub(w.a.h)
    /\ \/ /\ \E j \in 1..Len(w.probes) : w.probes[j].k = 0
          /\ \E j \in 1..Len(w.probes) : w.probes[j].k = w.depth - 1
          /\ (w.depth > 2 => \E j \in 1..Len(w.probes) : w.probes[j].k \in 1..(w.depth - 2))
       \/ (w.skip = 1 /\ S.dead = 1)
    /\ \A j \in 1..Len(w.probes) :
         LET p == w.probes[j]
             n == Cpw(w)
             x == p.k * n
             a == AddOff(w.a.h, 4 * (x % PageWords))
             wa == GenericW(a, n, S.cfg.cdw)
         IN
           /\ p.k \in 0..(w.depth - 1) /\ p.own >= 1
           /\ p.page = (IF Paged(w) THEN x \div PageWords ELSE -1)
           /\ p.pagereg = p.page
           /\ (p.we = 1 => /\ w.ro = 0 /\ Len(p.wops) = n
                           /\ \A m \in 1..n : /\ p.wops[m][1] = wa[m][2] /\ p.wops[m][3] = 0
                                              /\ Len(p.wops[m][2]) = 4
                                              /\ ValBits(p.wops[m][2]) = ShrBits(ValBits(Pad(p.data, 4 * n)), wa[m][1], 32)
                           /\ Below(p.data, w.width)
                           /\ EqV(p.cell, p.data)
                           /\ ToSet(p.changed) = {p.own})
           /\ (p.we = 0 => w.ro = 1)
           /\ Len(p.rops) = n
           /\ \A m \in 1..n : p.rops[m][1] = wa[m][2] /\ p.rops[m][3] = 0
           /\ EqBits(RunRead(GenericR(a, n, S.cfg.cdw), p.rops, 4 * n, 1, 1, <<>>), ValBits(p.cell))
WinFormats(w) == w.hw = 1 => Pub(w.a.h) /\ w.a.h = w.a.json /\ w.a.h = w.a.csv /\ w.a.h = w.a.svd
BankFormats(b) == Pub(b.a.h) /\ b.a.h = b.a.json /\ b.a.h = b.a.csv /\ b.a.h = b.a.svd

---------------------------------------------------------------------------
(* memory regions *)
G == S.regions[i]
InSomeRegion(a) == \E j \in 1..Len(S.regions) :
                     LET g == S.regions[j] IN Pub(g.base.memh) /\ InRange(a, g.base.memh, g.size.memh)
RegionEnv(g) ==
  /\ g.kind \in {"ram", "rom", "csr"}
  /\ g.img.src \in {"none", "file", "init"} /\ g.img.e \in {"big", "little"} /\ IsBytes(g.img.file)
  /\ (g.img.src # "none" => g.kind = "rom" /\ Len(g.img.file) >= 1 /\ g.img.src = S.cfg.romsrc /\ g.img.e = S.cfg.rome)
  /\ (g.kind = "rom" /\ S.cfg.romsrc # "words" => g.img.src # "none")
  /\ \A j \in 1..Len(g.img.rd) : g.img.rd[j].k \in 0..(Len(g.img.file) - 1)

(* a ROM whose contents come from a binary file (packed by get_mem_data for the bus data width and the CPU's   *)
(* endianness, handed to add_rom or loaded later with init_rom): byte k of the file is what a CPU of that       *)
(* endianness reads at the published base + k.  Such a CPU finds byte address a of an n-byte bus word on lane    *)
(* a mod n (little) / n-1-(a mod n) (big); the harness's master has little-endian lanes, pa is the address it    *)
(* used.  First, last and some inner bytes of the file are read.                                                 *)
PhysOff(e, n, k) == IF e = "little" THEN k ELSE (k - (k % n)) + (n - 1 - (k % n))
RegionImage(g) ==
  g.img.src # "none" =>
    /\ Pub(g.base.memh)
    /\ \/ /\ \E j \in 1..Len(g.img.rd) : g.img.rd[j].k = 0
          /\ \E j \in 1..Len(g.img.rd) : g.img.rd[j].k = Len(g.img.file) - 1
       \/ S.dead = 1
    /\ \A j \in 1..Len(g.img.rd) :
         LET x == g.img.rd[j] IN
           /\ x.pa = AddOff(g.base.memh, PhysOff(g.img.e, S.cfg.dw \div 8, x.k))
           /\ x.resp = 0
           /\ x.b = g.img.file[x.k + 1]
RegionAnswers(g) ==
  /\ Pub(g.base.memh)
  /\ (g.kind \in {"ram", "rom"} =>
        /\ \E j \in 1..Len(g.probes) : g.probes[j].which = "first"
        /\ \E j \in 1..Len(g.probes) : g.probes[j].which = "last")
  /\ \A j \in 1..Len(g.probes) :
       LET p == g.probes[j] IN
         CASE p.which \in {"first", "last"} ->
                /\ p.own >= 1                                            \* first / last word of the real memory
                /\ (g.kind = "ram" => p.we = 1 /\ p.resp = 0 /\ EqV(p.cell, p.data) /\ ToSet(p.changed) = {p.own})
                /\ p.rresp = 0 /\ EqV(p.rd, p.cell)
           [] OTHER ->
                (* one word below the base / above the end: where nothing is published nothing published may change. *)
                (* (regions are decoded on their size rounded up to a power of two: "above" is only judged for       *)
                (* power-of-two sizes)                                                                                *)
                (~InSomeRegion(p.addr) /\ (p.which = "below" \/ IsPow2A(g.size.memh))) => p.changed = <<>>
  /\ (g.kind = "csr" =>
        /\ g.base.memh = S.csr_base
        /\ \A j \in 1..Len(S.regs) : Pub(S.regs[j].a.h) =>
             InRange(AddOff(S.regs[j].a.h, 4 * (S.regs[j].nw.h - 1)), g.base.memh, g.size.memh)
        /\ \A j \in 1..Len(S.wins) : Pub(S.wins[j].a.h) => InRange(S.wins[j].a.h, g.base.memh, g.size.memh))
RegionFormats(g) ==
  /\ g.base.memh = g.base.tab /\ g.base.memh = g.base.json /\ g.base.memh = g.base.csv /\ g.base.memh = g.base.svd
  /\ g.base.memh = g.base.ld
  /\ g.size.memh = g.size.tab /\ g.size.memh = g.size.json /\ g.size.memh = g.size.csv /\ g.size.memh = g.size.svd
  /\ g.size.memh = g.size.ld

---------------------------------------------------------------------------
(* interrupts and constants *)
Q == S.irqs[i]
IrqWired(q) == q.num.soch >= 0 /\ ToSet(q.seen) = {q.num.soch} /\ q.idle = <<>>
IrqFormats(q) == q.num.soch = q.num.json /\ q.num.soch = q.num.csv /\ q.num.soch = q.num.svd

ConstOf(s, n) == LET ix == {j \in 1..Len(s.consts) : s.consts[j].name = n}
                 IN IF ix = {} THEN "<absent>" ELSE s.consts[CHOOSE j \in ix : TRUE].v.soch
SocConstants(s) ==
  /\ ConstOf(s, "config_csr_data_width") = ToString(s.cfg.cdw)
  /\ ConstOf(s, "config_csr_alignment") = "32"
  /\ ConstOf(s, "config_bus_standard") = s.cfg.std
  /\ ConstOf(s, "config_bus_data_width") = ToString(s.cfg.dw)
  /\ ConstOf(s, "config_bus_address_width") = "32"
  /\ ConstOf(s, "config_clock_frequency") = "1000000"
  /\ \A j \in 1..Len(s.cfg.ps) :
       LET k == s.cfg.ps[j][6] IN
         ConstOf(s, "p" \o ToString(j - 1) \o "_kc") = (IF k >= 0 THEN ToString(k) ELSE "<absent>")
  /\ (s.cfg.cpu = "none" => s.irqs = <<>>)
SocFormats(s) ==
  /\ \A j \in 1..Len(s.consts) :
       LET c == s.consts[j].v IN /\ c.soch = c.json /\ c.soch = c.csv /\ c.soch = c.svd
                                 /\ (c.sochfn = c.soch \/ (c.soch = "" /\ c.sochfn = "<absent>"))   \* <name>_read()
  /\ ToSet(s.hwnames) \subseteq {s.regs[j].name : j \in {m \in 1..Len(s.regs) : Pub(s.regs[m].a.h)}}
Hung(ops) == \E j \in 1..Len(ops) : ops[j][3] # 0
SocEnv(s) ==
  /\ s.built \in {0, 1}
  /\ (s.built = 1 =>
        /\ s.dead \in {0, 1}
        /\ (s.dead = 1 =>
              \/ \E j \in 1..Len(s.regs) : Hung(s.regs[j].wops) \/ Hung(s.regs[j].rops)
              \/ \E j \in 1..Len(s.wins) : \E k \in 1..Len(s.wins[j].probes) :
                    Hung(s.wins[j].probes[k].wops) \/ Hung(s.wins[j].probes[k].rops)
              \/ \E j \in 1..Len(s.regions) : \E k \in 1..Len(s.regions[j].probes) :
                    s.regions[j].probes[k].resp > 0 \/ s.regions[j].probes[k].rresp > 0))
  /\ s.cfg.std \in {"wishbone", "axi-lite", "axi"} /\ s.cfg.dw \in {32, 64} /\ s.cfg.cdw \in {8, 32}
  /\ s.cfg.ord \in {"big", "little"}

---------------------------------------------------------------------------
(* memory images: get_mem_data(files, data_width, endianness, offset) -> words; the words are loaded   *)
(* into a REAL wishbone.SRAM of that width and every byte lane of every word is read through the bus    *)
(* with a one-hot sel: lanes[w][l] = byte seen on data bits 8l..8l+7 of word w.                         *)
(* A CPU of the stated endianness reads the byte at address a on lane (a mod n) if little-endian and    *)
(* on lane n-1-(a mod n) if big-endian (n = bytes per bus word).                                        *)
M == T.images[sid]
LaneOf(e, n, a) == IF e = "little" THEN a % n ELSE n - 1 - (a % n)
ByteSeen(m, a) == LET n == m.dw \div 8 IN
                  IF a \div n + 1 <= Len(m.lanes) THEN m.lanes[a \div n + 1][LaneOf(m.e, n, a) + 1] ELSE -1
ImgEnv(m) ==
  /\ m.dw \in {32, 64} /\ m.e \in {"big", "little"} /\ m.refused \in {0, 1}
  /\ \A f \in 1..Len(m.files) : IsBytes(m.files[f][2]) /\ m.files[f][1] >= 0
  /\ \A f, g \in 1..Len(m.files) :          \* files do not overlap
       f # g => \/ m.files[f][1] + Len(m.files[f][2]) <= m.files[g][1]
                \/ m.files[g][1] + Len(m.files[g][2]) <= m.files[f][1]
  /\ \A w \in 1..Len(m.lanes) : Len(m.lanes[w]) = m.dw \div 8
ImgTotal(m) == LET ends == {m.files[f][1] + Len(m.files[f][2]) : f \in 1..Len(m.files)}
               IN CHOOSE x \in ends : \A y \in ends : y <= x
ImgLanes(m) ==
  IF m.refused = 1 THEN ImgTotal(m) = 0            \* only "nothing to place" may be refused
  ELSE \A f \in 1..Len(m.files) : \A k \in 1..Len(m.files[f][2]) :
         ByteSeen(m, m.files[f][1] + k - 1) = m.files[f][2][k]

---------------------------------------------------------------------------
Verdict ==
  [c \in Clauses |->
     CASE kind = "reg" ->
            (CASE c = "EnvLegal" -> RegEnv(R)
               [] c = "RegisterAtPublishedAddress" -> RegAtAddress(R)
               [] c = "MultiWordAccessorsCompose" -> RegCompose(R)
               [] c = "FieldMacrosTrue" -> RegFields(R)
               [] c = "SvdFieldsTrue" -> RegSvdFields(R)
               [] c = "FormatsAgree" -> RegFormats(R)
               [] OTHER -> TRUE)
       [] kind = "win" ->
            (CASE c = "CsrWindowAnswers" -> WinAnswers(W)
               [] c = "FormatsAgree" -> WinFormats(W)
               [] OTHER -> TRUE)
       [] kind = "bank" -> (IF c = "FormatsAgree" THEN BankFormats(S.banks[i]) ELSE TRUE)
       [] kind = "region" ->
            (CASE c = "EnvLegal" -> RegionEnv(G)
               [] c = "MemoryRegionAnswers" -> RegionAnswers(G)
               [] c = "MemImageInRegion" -> RegionImage(G)
               [] c = "FormatsAgree" -> RegionFormats(G)
               [] OTHER -> TRUE)
       [] kind = "irq" ->
            (CASE c = "ConstantsAndIrqs" -> IrqWired(Q)
               [] c = "FormatsAgree" -> IrqFormats(Q)
               [] OTHER -> TRUE)
       [] kind = "soc" ->
            (CASE c = "EnvLegal" -> SocEnv(S)
               [] c = "ConstantsAndIrqs" -> (S.built = 1 => SocConstants(S))
               [] c = "FormatsAgree" -> (S.built = 1 => SocFormats(S))
               [] OTHER -> TRUE)
       [] kind = "img" ->
            (CASE c = "EnvLegal" -> ImgEnv(M)
               [] c = "MemImageLanes" -> ImgLanes(M)
               [] OTHER -> TRUE)
       [] OTHER -> TRUE]

Next == /\ ~done
        /\ done' = TRUE
        /\ v' = Verdict
        /\ (\E c \in Clauses : ~v'[c]) => PrintT(<<"FAIL", sid, kind, i, {c \in Clauses : ~v'[c]}>>)
        /\ UNCHANGED <<sid, kind, i>>

EnvLegal                   == v["EnvLegal"]
RegisterAtPublishedAddress == v["RegisterAtPublishedAddress"]
MultiWordAccessorsCompose  == v["MultiWordAccessorsCompose"]
FieldMacrosTrue            == v["FieldMacrosTrue"]
SvdFieldsTrue              == v["SvdFieldsTrue"]
MemoryRegionAnswers        == v["MemoryRegionAnswers"]
CsrWindowAnswers           == v["CsrWindowAnswers"]
ConstantsAndIrqs           == v["ConstantsAndIrqs"]
FormatsAgree               == v["FormatsAgree"]
MemImageLanes              == v["MemImageLanes"]
MemImageInRegion           == v["MemImageInRegion"]
=============================================================================
