------------------------------ MODULE SocConfigs ------------------------------
(***************************************************************************)
(* C14 - the space of SoC configurations whose exported software maps are  *)
(* compared with the built hardware, and the space of memory-image cases.  *)
(*                                                                         *)
(* A configuration is printed as  <<"CFG", [std |-> ..., ...]>>  and built *)
(* by harness/families/exporttruth.py as a REAL finalized SoCCore:         *)
(*                                                                         *)
(*   std     bus standard                 "wishbone" | "axi-lite" | "axi"  *)
(*   dw      bus data width               32 | 64                          *)
(*   ic      interconnect                 "shared" | "crossbar"            *)
(*   cdw     CSR data width               8 | 32                           *)
(*   paging  CSR paging                   1024 | 2048 | 4096               *)
(*   ord     CSR ordering                 "big" | "little"                 *)
(*   caw     CSR address width            14 | 15 | 16                     *)
(*   cpu     "none": cpu_type=None;  "stub": a CPU class without bus that  *)
(*           only owns an interrupt vector (so that SoC.finalize wires and *)
(*           exports interrupts)                                           *)
(*   ctrl, timer, ident   SoCController / Timer / Identifier memory        *)
(*   rsv0    CSR location 0 reserved (csr_map) for a module that is absent *)
(*   csrb    origin of the CSR region in 64 KiB blocks                     *)
(*   mems    <<name, block, offset, size, kind>>  RAM/ROM regions          *)
(*   ps      1..3 peripherals  <<loc, irq, memw, memd, memro, const, regs>> *)
(*             loc   fixed CSR location or -1        irq  has an event IRQ  *)
(*             memw/memd/memro  CSR-mapped memory (memw = 0: none)         *)
(*             const CSRConstant value or -1                               *)
(*             regs  <<kind, size, fields, atomic, n>> kind "sto" | "sta", *)
(*                   size 1..72 bits, n fixed position in the bank or -1   *)
(*   romsrc  how the "rom" region gets its contents: "words" a word list   *)
(*           given to add_rom; "file" a binary FILE packed by get_mem_data *)
(*           (bus data width, the CPU's endianness - as the Builder does   *)
(*           for the BIOS) given to add_rom; "init" the same image loaded  *)
(*           afterwards with init_rom (as the Builder does)                *)
(*   rome    endianness of the CPU for which the image is packed ("big"    *)
(*           only with the stub CPU on a 32-bit bus: 64-bit big-endian     *)
(*           packing is the listed finding C14-get-mem-data-64-big)        *)
(*   CSR-mapped memories may be WIDER than the CSR bus (memw 40 / 64 on a  *)
(*   32-bit CSR bus: two CSR words per memory word) and DEEPER than a CSR  *)
(*   page (8 x 512 with paging 1024: LiteX adds a <mem>_page register).    *)
(*                                                                         *)
(* MODE "grid":   ordinary (exhaustive) run: every combination of          *)
(*                std x dw x ic x cdw x paging x ord (144) with a          *)
(*                canonical peripheral set; caw, cpu, map rotate.          *)
(* MODE "sample": tlc -simulate: one behaviour = one configuration chosen  *)
(*                step by step; printed by the last step.                  *)
(* MODE "images": exhaustive enumeration of memory-image cases             *)
(*                <<"IMG", dw, endianness, mode, offset, files>>.          *)
(***************************************************************************)
EXTENDS Integers, Sequences, FiniteSets, TLC

CONSTANTS MODE, ImgMaxLen

Stds    == {"wishbone", "axi-lite", "axi"}
Dws     == {32, 64}
Ics     == {"shared", "crossbar"}
Cdws    == {8, 32}
Pagings == {1024, 2048, 4096}
Ords    == {"big", "little"}
Caws    == {14, 15, 16}
Cpus    == {"none", "stub"}

(* memory map: 64 KiB blocks; the CSR region spans up to 4 blocks (caw = 16) *)
CsrBlocks(cpu) == IF cpu = "stub" THEN {33280, 57344, 61440, 65532}                 \* 0x8200 0xE000 0xF000 0xFFFC
                  ELSE {0, 4, 12288, 33280, 57344, 61440, 65532}
RamBlocks(cpu) == IF cpu = "stub" THEN {0, 256, 4096, 8192, 16384, 32752}           \* below the IO region
                  ELSE {0, 256, 4096, 8192, 16384, 32752, 36864, 49152}
Offs     == {0, 32768}
MemSizes == {64, 128, 192, 256}           \* 192 is not a power of two
Clash(csrb, b) == b \in csrb..(csrb + 3)

VARIABLES phase, c, ps, cur, nregs, np
vars == <<phase, c, ps, cur, nregs, np>>

Core == [std : Stds, dw : Dws, ic : Ics, cdw : Cdws, paging : Pagings, ord : Ords]

---------------------------------------------------------------------------
(* canonical peripherals of the grid *)
GridP0(cdw) == <<-1, 0, 8, 16, 0, 5,
                 << <<"sto", 8, 0, 0, -1>>, <<"sto", 40, 0, 1, -1>>, <<"sta", 20, 1, 0, -1>>, <<"sto", 72, 0, 0, -1>>,
                    <<"sta", 70, 0, 0, -1>>, <<"sto", 13, 1, 0, -1>>, <<"sto", 64, 0, 0, -1>>, <<"sta", 33, 0, 0, -1>> >> >>
GridP1(k, rot) ==
  LET mem == IF k.cdw = 32 THEN (IF rot % 2 = 0 THEN <<64, 4>> ELSE <<40, 8>>) ELSE <<0, 0>>      \* wide CSR memory
  IN <<3, 0, mem[1], mem[2], 0, -1, << <<"sto", 33, 0, 0, 4>>, <<"sta", 9, 0, 0, -1>>, <<"sto", 17, 0, 1, -1>> >> >>
(* a CSR memory deeper than a page (needs the page register) where the page is smallest *)
Deep(p, k) == IF k.paging = 1024 THEN [p EXCEPT ![4] = 512] ELSE p
GridP0irq(cdw) == <<-1, 1, 8, 16, 0, 5,
                 << <<"sto", 8, 0, 0, -1>>, <<"sto", 40, 0, 1, -1>>, <<"sta", 20, 1, 0, -1>>, <<"sto", 72, 0, 0, -1>>,
                    <<"sta", 70, 0, 0, -1>>, <<"sto", 13, 1, 0, -1>>, <<"sto", 64, 0, 0, -1>>, <<"sta", 33, 0, 0, -1>> >> >>

GridCfg(k) ==
  LET rot == (k.dw \div 32) + (k.cdw \div 8) + (k.paging \div 1024) + (IF k.ord = "big" THEN 0 ELSE 1)
             + (IF k.ic = "shared" THEN 0 ELSE 1) + (CASE k.std = "wishbone" -> 0 [] k.std = "axi-lite" -> 1 [] OTHER -> 2)
      cpu == IF rot % 2 = 0 THEN "none" ELSE "stub"
      csrb == IF cpu = "stub" THEN (IF rot % 3 = 0 THEN 61440 ELSE 33280) ELSE (IF rot % 3 = 0 THEN 0 ELSE 61440)
      ramb == IF csrb = 0 THEN 256 ELSE 0
  IN [std |-> k.std, dw |-> k.dw, ic |-> k.ic, cdw |-> k.cdw, paging |-> k.paging, ord |-> k.ord,
      caw |-> 14 + (rot % 3), cpu |-> cpu, ctrl |-> 1, timer |-> 1, ident |-> rot % 2, rsv0 |-> 0, csrb |-> csrb,
      mems |-> << <<"sram", 4096, 0, 256, "ram">>, <<"rom", ramb, 0, 128, "rom">>, <<"ram2", 16384, 32768, 192, "ram">> >>,
      romsrc |-> (CASE rot % 3 = 0 -> "words" [] rot % 3 = 1 -> "file" [] OTHER -> "init"),
      rome |-> (IF cpu = "stub" /\ k.dw = 32 /\ k.ord = "big" THEN "big" ELSE "little"),
      ps |-> << Deep(IF cpu = "stub" THEN GridP0irq(k.cdw) ELSE GridP0(k.cdw), k), GridP1(k, rot) >>]

---------------------------------------------------------------------------
(* memory-image cases *)
ImgFiles(dw) ==
  {<< <<0, n>> >> : n \in 0..ImgMaxLen}                                        \* one file at the origin
  \cup {<< <<0, n>>, <<16, m>> >> : n \in {1, 4, 7, 8}, m \in {1, 3, 8, 9}}   \* two files, the second 16 bytes in
  \cup {<< <<8, n>> >> : n \in {1, 5, 8}}                                     \* a file 8 bytes above the origin
  \cup {<< <<4, n>> >> : n \in {1, 4, 6}}                                     \* a file 4 bytes above the origin
  \cup {<< <<16, m>>, <<0, n>> >> : n \in {1, 4, 8}, m \in {1, 3, 9}}         \* two files, listed highest address first
ImgCases ==
  {<<dw, e, m, off, fs>> : dw \in Dws, e \in Ords, m \in {"file", "dict", "json"}, off \in {0, 4096},
                           fs \in ImgFiles(64)}
ImgLegal(x) == /\ (x[3] = "file" => Len(x[5]) = 1 /\ x[5][1][1] = 0)

---------------------------------------------------------------------------
Init ==
  /\ ps = <<>> /\ cur = <<>> /\ nregs = 0 /\ np = 0
  /\ CASE MODE = "grid"   -> phase = "emit" /\ c \in {GridCfg(k) : k \in Core}
       [] MODE = "images" -> phase = "img" /\ c \in {x \in ImgCases : ImgLegal(x)}
       [] OTHER           -> phase = "misc" /\ c \in {k @@ [cpu |-> u] : k \in Core, u \in Cpus}

Misc ==
  /\ phase = "misc"
  /\ \E caw \in Caws, ctrl \in {0, 1}, timer \in {0, 1}, ident \in {0, 1}, rsv \in 0..3, n \in 1..3,
        rs \in {"words", "file", "init"}, re \in Ords :
       /\ (c.cpu = "stub" => timer = 1)           \* finalize needs at least one interrupt once a CPU has a vector
       /\ (re = "big" => c.cpu = "stub" /\ c.dw = 32)
       /\ c' = c @@ [caw |-> caw, ctrl |-> ctrl, timer |-> timer, ident |-> ident, rsv0 |-> (IF rsv = 0 THEN 1 ELSE 0),
                     romsrc |-> rs, rome |-> re]
       /\ np' = n
  /\ phase' = "csr" /\ UNCHANGED <<ps, cur, nregs>>

MapCsr ==
  /\ phase = "csr"
  /\ \E b \in CsrBlocks(c.cpu) : c' = c @@ [csrb |-> b, mems |-> <<>>]
  /\ phase' = "sram" /\ UNCHANGED <<ps, cur, nregs, np>>

Used == {c.mems[i][2] : i \in 1..Len(c.mems)}
MemChoice(name, kind, next) ==
  /\ \/ c' = c                                                   \* region absent
     \/ \E b \in RamBlocks(c.cpu) \ Used, o \in Offs, s \in MemSizes :
          /\ ~Clash(c.csrb, b)
          /\ c' = [c EXCEPT !.mems = Append(@, <<name, b, o, s, kind>>)]
  /\ phase' = next /\ UNCHANGED <<ps, cur, nregs, np>>
MapSram == phase = "sram" /\ MemChoice("sram", "ram", "rom")
MapRom  == phase = "rom"  /\ MemChoice("rom", "rom", "ram2")
MapRam2 == phase = "ram2" /\ MemChoice("ram2", "ram", "periph")

UsedLocs == {ps[i][1] : i \in 1..Len(ps)}
StartPeriph ==
  /\ phase = "periph" /\ Len(ps) < np
  /\ \E loc \in {-1, -1, 1, 2, 3, 5, 9}, irq \in {0, 1}, mem \in {<<0, 0, 0>>, <<8, 16, 0>>, <<8, 64, 1>>, <<32, 8, 0>>, <<16, 4, 0>>,
                                                            <<64, 4, 0>>, <<40, 8, 0>>, <<64, 8, 1>>, <<8, 512, 0>>, <<16, 512, 1>>},
        k \in {-1, 5, 1000}, n \in 1..5 :
       /\ (loc >= 0 => loc \notin UsedLocs)
       /\ (irq = 1 => c.cpu = "stub")
       /\ (mem[1] > c.cdw => c.cdw = 32)          \* wider than the CSR bus: two 32-bit CSR words per memory word
       /\ (mem[2] = 512 => c.paging = 1024)       \* deep memories where they need the page register
       /\ cur' = <<loc, irq, mem[1], mem[2], mem[3], k, <<>> >>
       /\ nregs' = n
  /\ phase' = "regs" /\ UNCHANGED <<c, ps, np>>

AddReg ==
  /\ phase = "regs" /\ Len(cur[7]) < nregs
  /\ \E kind \in {"sto", "sta"}, size \in 1..72, f \in {0, 1}, at \in {0, 1} :
       /\ (f = 1 => size <= 40)
       /\ (at = 1 => kind = "sto")
       /\ cur' = [cur EXCEPT ![7] = Append(@, <<kind, size, f, at, -1>>)]
  /\ UNCHANGED <<phase, c, ps, nregs, np>>

(* at most one register of a peripheral gets a fixed position n in its bank: n below the number of  *)
(* gathered CSRs permutes, n above it makes LiteX fill the gap with reserved CSRs.  n = that number  *)
(* is left out: csr.py raises IndexError for it (over-rejection, no export is produced).            *)
Items == nregs + (IF cur[2] = 1 THEN 3 ELSE 0)
ClosePeriph ==
  /\ phase = "regs" /\ Len(cur[7]) = nregs
  /\ \/ ps' = Append(ps, cur)
     \/ \E j \in 1..nregs, n \in (0..(Items + 2)) \ {Items} :
          ps' = Append(ps, [cur EXCEPT ![7][j][5] = n])
  /\ phase' = (IF Len(ps) + 1 = np THEN "emit" ELSE "periph")
  /\ cur' = <<>> /\ UNCHANGED <<c, nregs, np>>

Emit ==
  /\ phase = "emit"
  /\ PrintT(<<"CFG", IF MODE = "grid" THEN c ELSE c @@ [ps |-> ps]>>)
  /\ phase' = "done" /\ UNCHANGED <<c, ps, cur, nregs, np>>

EmitImg ==
  /\ phase = "img"
  /\ PrintT(<<"IMG", c[1], c[2], c[3], c[4], c[5]>>)
  /\ phase' = "done" /\ UNCHANGED <<c, ps, cur, nregs, np>>

Next == Misc \/ MapCsr \/ MapSram \/ MapRom \/ MapRam2 \/ StartPeriph \/ AddReg \/ ClosePeriph \/ Emit \/ EmitImg
=============================================================================
