----------------------------- MODULE ClientTrace -----------------------------
(* T-mode: recorded cycle-by-cycle traces of the real clients (linear replay  *)
(* of a counterexample, or long random runs at larger parameters) judged by   *)
(* the same contract ClientContract.                                          *)
EXTENDS ClientContract, Json, IOUtils
T == JsonDeserialize(IOEnv.TRACES)
VARIABLES tid, l, envbad
vars == <<tid, l, envbad, tprev, ep, een, cw, rd, cs, obs>>
C == T[tid].cfg
Init == /\ tid \in 1..Len(T) /\ l = 1 /\ envbad = FALSE /\ CInit
Next ==
  /\ l <= Len(T[tid].ev)
  /\ LET iv == T[tid].ev[l][1]
         o  == T[tid].ev[l][2]
     IN /\ envbad' = (envbad \/ ~LegalInput(C, iv))
        /\ CStep(C, iv, o)
  /\ l' = l + 1 /\ tid' = tid
EnvLegal == ~envbad
=============================================================================
