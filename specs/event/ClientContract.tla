--------------------------- MODULE ClientContract ---------------------------
(***************************************************************************)
(* L1 contract of the CLIENTS of the LiteX event manager, property C15:    *)
(*   litex/soc/cores/uart.py  UART   (events tx, rx; harness PHY)          *)
(*   litex/soc/cores/timer.py Timer  (event zero)                          *)
(*   litex/soc/cores/gpio.py  GPIOIn(with_irq=True)  (one event per pin)   *)
(* each behind a real CSRBank on an 8-bit CSR bus.  One step = one cycle.  *)
(*                                                                         *)
(*   iv = <<op, reg, data, x1, x2, x3>>                                    *)
(*        op: 0 idle, 1 write, 2 read; reg: index of the byte-wide         *)
(*        register inside the bank (c.regs[reg+1] names its role)          *)
(*        uart : x1, x2 = the rx PHY offers a character (valid, char),     *)
(*               x3 = the tx PHY is ready         timer: 0, 0, 0           *)
(*        gpio : x1 = pad levels (bit mask)                                *)
(*   o  = <<irq, pending, status, enable, clear, dat_r>> \o 8 values:      *)
(*        uart : txfull, rxempty, txempty, rxfull (status registers),      *)
(*               rxtx (what a read of rxtx returns), rx PHY ready,         *)
(*               tx PHY valid, tx PHY char                                 *)
(*        timer: en, load, reload (registers), value (latched register)    *)
(*        gpio : in (the synchronised input register), mode, edge          *)
(* c: kind, ns (event sources), regs, ops (the CSR operations <<op, reg,   *)
(*    data>> the software environment chooses from), and per kind          *)
(*    uart : depth, rxchars, txrdy, lat      gpio: pins, b2b, strict       *)
(*                                                                         *)
(* What the clients document, as read from the code:                       *)
(*  * UART.  "IRQ (When FIFO becomes non-full)" / "(When FIFO becomes      *)
(*    non-empty)": the raw level of event tx is NOT txfull, of event rx    *)
(*    NOT rxempty; both are EventSourceProcess(edge="rising"): pending is  *)
(*    set by a 0 -> 1 step of that level between consecutive cycles.       *)
(*    Clearing rx (write-one to its pending bit) is the read strobe of the *)
(*    rx FIFO: every clear strobe that finds the FIFO readable removes     *)
(*    exactly its oldest character, rxtx always shows the oldest one.      *)
(*    A write to rxtx while txfull = 0 appends the character to the tx     *)
(*    FIFO, which hands its characters to the PHY in order.                *)
(*  * Timer.  value counts down while en = 1, reloads from `reload` at 0,  *)
(*    is loaded from `load` while en = 0; the raw level of event zero is   *)
(*    value = 0 (rising).                                                  *)
(*  * GPIOIn.  "Mode: 0: Edge, 1: Change", "Edge: 0: Rising, 1: Falling":  *)
(*    the event of pin n fires exactly when the synchronised input `in`    *)
(*    makes a selected step between consecutive cycles.  In the cycle in   *)
(*    which mode[n] or edge[n] itself changes, the selection is not        *)
(*    defined by the documentation: with c.strict = 0 the pending bit is   *)
(*    left free for that one cycle and followed from its observed value,   *)
(*    with c.strict = 1 the new selection applies at once (no event        *)
(*    without a pin edge).  c.b2b = 0 restricts the pads to at most one    *)
(*    level change in two consecutive cycles.                              *)
(* The event-manager clauses of EventContract (irq, pending rule, W1C,     *)
(* enable, read-back) are re-stated here for the clients.                  *)
(***************************************************************************)
EXTENDS Integers, Sequences, FiniteSets, TLC

VARIABLES tprev,   \* raw trigger levels (status bits) of the previous cycle
          ep,      \* expected pending flag per source: 0, 1, or 2 = free in this cycle (see GPIOIn above)
          een,     \* expected enable register
          cw,      \* per source: ages (cycles) of W1C writes not yet turned into a clear strobe
          rd,      \* read issued in the previous cycle: <<expected data>> or <<>>
          cs,      \* client state: abstract FIFOs, countdown value, previous pin/config samples
          obs

cvars == <<tprev, ep, een, cw, rd, cs, obs>>

NS == 4                                          \* source slots
Bit(x, i) == (x \div (2^i)) % 2                  \* i from 0
MaxClearLatency == 3
Role(c, r) == IF r + 1 <= Len(c.regs) THEN c.regs[r + 1] ELSE ""
SeqSet(s) == { s[k] : k \in 1..Len(s) }

---------------------------------------------------------------------------
(* Environment *)
Ext(c) ==
  CASE c.kind = "uart" ->
         { <<0, 0, r>> : r \in SeqSet(c.txrdy) } \cup
         { <<1, ch, r>> : ch \in SeqSet(c.rxchars), r \in SeqSet(c.txrdy) }
    [] c.kind = "gpio" ->
         { <<p, 0, 0>> : p \in { p \in 0..(2^c.pins - 1) :
              c.b2b = 1 \/ \A n \in 0..(c.pins - 1) :
                 ~(Bit(p, n) # Bit(cs.pprev, n) /\ Bit(cs.ptog, n) = 1) } }
    [] OTHER -> { <<0, 0, 0>> }

Inputs(c) == { <<t[1], t[2], t[3], x[1], x[2], x[3]>> : t \in SeqSet(c.ops), x \in Ext(c) }
(* membership in Inputs(c) without building the product (T-mode) *)
LegalInput(c, iv) == /\ Len(iv) = 6
                     /\ <<iv[1], iv[2], iv[3]>> \in SeqSet(c.ops)
                     /\ <<iv[4], iv[5], iv[6]>> \in Ext(c)

---------------------------------------------------------------------------
CInit ==
  /\ tprev = 0
  /\ ep  = [i \in 1..NS |-> 0]
  /\ een = 0
  /\ cw  = [i \in 1..NS |-> {}]
  /\ rd  = <<>>
  /\ cs  = [rq |-> <<>>, tq |-> <<>>, rage |-> 0, tage |-> 0, tv |-> 0,
            inprev |-> 0, mprev |-> 0, eprev |-> 0, pprev |-> 0, ptog |-> 0]
  /\ obs = [okirq |-> TRUE, okpend |-> TRUE, okclear |-> TRUE, okenable |-> TRUE, okread |-> TRUE,
            okstatus |-> TRUE, okflags |-> TRUE, okrxhead |-> TRUE, okrxtime |-> TRUE, okrxfull |-> TRUE,
            oktxhead |-> TRUE, oktxtime |-> TRUE, oktxfull |-> TRUE]

CStep(c, iv, o) ==
  LET op == iv[1]  reg == iv[2]  data == iv[3]
      role == Role(c, reg)
      irq == o[1]  pend == o[2]  stat == o[3]  en == o[4]  clr == o[5]  datr == o[6]
      Pend(i) == Bit(pend, i - 1)
      Clr(i)  == Bit(clr, i - 1)
      wr(r)   == op = 1 /\ role = r
      \* ---------------------------------------------------------------- gpio: selected edges of `in`
      gin == o[7]  gmode == o[8]  gedge == o[9]
      GChg(n)  == Bit(gin, n) # Bit(cs.inprev, n)
      GSel(n)  == IF Bit(gmode, n) = 1 THEN GChg(n)
                  ELSE IF Bit(gedge, n) = 0 THEN (Bit(gin, n) = 1 /\ Bit(cs.inprev, n) = 0)
                  ELSE (Bit(gin, n) = 0 /\ Bit(cs.inprev, n) = 1)
      GTrans(n) == Bit(gmode, n) # Bit(cs.mprev, n) \/ Bit(gedge, n) # Bit(cs.eprev, n)
      \* ---------------------------------------------------------------- the event core
      T(i)  == Bit(stat, i - 1)
      TP(i) == Bit(tprev, i - 1)
      Fire(i) == IF c.kind = "gpio" THEN GSel(i - 1) ELSE (T(i) = 1 /\ TP(i) = 0)
      Free(i) == c.kind = "gpio" /\ c.strict = 0 /\ GTrans(i - 1)
      cur(i)  == IF ep[i] = 2 THEN Pend(i) ELSE ep[i]
      okpend  == \A i \in 1..c.ns : ep[i] = 2 \/ Pend(i) = ep[i]
      okirq   == irq = (IF \E i \in 1..c.ns : Pend(i) = 1 /\ Bit(en, i - 1) = 1 THEN 1 ELSE 0)
      okclear == /\ \A i \in 1..c.ns : Clr(i) = 1 => cw[i] # {}
                 /\ \A i \in 1..c.ns : \A a \in cw[i] : a <= MaxClearLatency
      aged(i) == LET rest == IF Clr(i) = 1 /\ cw[i] # {}
                             THEN cw[i] \ {CHOOSE a \in cw[i] : \A b \in cw[i] : b <= a}
                             ELSE cw[i]
                 IN { a + 1 : a \in { b \in rest : b <= MaxClearLatency } }
      \* ---------------------------------------------------------------- uart
      txfull == o[7]  rxempty == o[8]  txempty == o[9]  rxfull == o[10]
      rxtx == o[11]  rxrdy == o[12]  txv == o[13]  txd == o[14]
      rxpop  == Clr(2) = 1 /\ rxempty = 0               \* the clear strobe of event rx is the FIFO read strobe
      rq1    == IF rxpop /\ cs.rq # <<>> THEN Tail(cs.rq) ELSE cs.rq
      rq2    == IF iv[4] = 1 /\ rxrdy = 1 /\ Len(rq1) <= c.depth + 1 THEN Append(rq1, iv[5]) ELSE rq1
      txpop  == txv = 1 /\ iv[6] = 1
      tq1    == IF txpop /\ cs.tq # <<>> THEN Tail(cs.tq) ELSE cs.tq
      tq2    == IF wr("rxtx") /\ txfull = 0 /\ Len(tq1) <= c.depth + 1 THEN Append(tq1, data) ELSE tq1
      isu    == c.kind = "uart"
      \* ---------------------------------------------------------------- timer
      ten == o[7]  tload == o[8]  treload == o[9]  tvalue == o[10]
      ist == c.kind = "timer"
      \* ---------------------------------------------------------------- register values for read-back
      regval == CASE role = "ev_status" -> stat [] role = "ev_pending" -> pend [] role = "ev_enable" -> en
                  [] role = "txfull" -> txfull [] role = "rxempty" -> rxempty [] role = "txempty" -> txempty
                  [] role = "rxfull" -> rxfull [] role = "rxtx" -> rxtx
                  [] role = "en" -> ten [] role = "load" -> tload % 256 [] role = "reload" -> treload % 256
                  [] role = "value" -> tvalue % 256
                  [] role = "in" -> gin [] role = "mode" -> gmode [] role = "edge" -> gedge
                  [] OTHER -> 0
      pbit(i) == IF i <= c.ns /\ c.kind = "gpio" THEN Bit(iv[4], i - 1) ELSE 0
  IN
  /\ tprev' = stat
  /\ ep'  = [i \in 1..NS |-> IF i > c.ns THEN 0
                             ELSE IF Free(i) THEN 2
                             ELSE IF Fire(i) THEN 1                     \* the trigger wins over a clear
                             ELSE IF Clr(i) = 1 THEN 0 ELSE cur(i)]
  /\ een' = IF wr("ev_enable") THEN data % (2^c.ns) ELSE een
  /\ cw'  = [i \in 1..NS |-> IF i > c.ns THEN {}
                             ELSE aged(i) \cup (IF wr("ev_pending") /\ Bit(data, i - 1) = 1 THEN {1} ELSE {})]
  /\ rd'  = IF op = 2 THEN <<regval>> ELSE <<>>
  /\ cs'  = [rq     |-> IF isu THEN rq2 ELSE <<>>,
             tq     |-> IF isu THEN tq2 ELSE <<>>,
             rage   |-> IF isu /\ cs.rq # <<>> /\ rxempty = 1 /\ cs.rage <= c.lat THEN cs.rage + 1 ELSE 0,
             tage   |-> IF isu /\ cs.tq # <<>> /\ txv = 0 /\ cs.tage <= c.lat THEN cs.tage + 1 ELSE 0,
             tv     |-> IF ~ist THEN 0
                        ELSE IF ten = 1 THEN (IF cs.tv = 0 THEN treload ELSE cs.tv - 1) ELSE tload,
             inprev |-> IF c.kind = "gpio" THEN gin ELSE 0,
             mprev  |-> IF c.kind = "gpio" THEN gmode ELSE 0,
             eprev  |-> IF c.kind = "gpio" THEN gedge ELSE 0,
             pprev  |-> IF c.kind = "gpio" THEN iv[4] ELSE 0,
             ptog   |-> IF c.kind = "gpio"
                        THEN (IF Bit(iv[4], 0) # Bit(cs.pprev, 0) THEN 1 ELSE 0) +
                             2 * (IF Bit(iv[4], 1) # Bit(cs.pprev, 1) THEN 1 ELSE 0) +
                             4 * (IF Bit(iv[4], 2) # Bit(cs.pprev, 2) THEN 1 ELSE 0) +
                             8 * (IF Bit(iv[4], 3) # Bit(cs.pprev, 3) THEN 1 ELSE 0)
                        ELSE 0]
  /\ obs' = [okirq    |-> okirq,
             okpend   |-> okpend,
             okclear  |-> okclear,
             okenable |-> (en = een),
             okread   |-> (rd # <<>> => datr = rd[1]),
             okstatus |-> (CASE isu -> (Bit(stat, 0) = 1 - txfull /\ Bit(stat, 1) = 1 - rxempty)
                             [] ist -> (Bit(stat, 0) = (IF cs.tv = 0 THEN 1 ELSE 0))
                             [] OTHER -> TRUE),
             okflags  |-> (isu => (rxfull = 1 - rxrdy /\ txempty = 1 - txv)),
             okrxhead |-> (isu => (rxempty = 0 => (cs.rq # <<>> /\ rxtx = Head(cs.rq)))),
             okrxtime |-> (isu => cs.rage <= c.lat),
             okrxfull |-> (isu => ((rxfull = 1 => Len(cs.rq) >= c.depth) /\ Len(cs.rq) <= c.depth + 1)),
             oktxhead |-> (isu => (txv = 1 => (cs.tq # <<>> /\ txd = Head(cs.tq)))),
             oktxtime |-> (isu => cs.tage <= c.lat),
             oktxfull |-> (isu => ((txfull = 1 => Len(cs.tq) >= c.depth) /\ Len(cs.tq) <= c.depth + 1))]

---------------------------------------------------------------------------
(* event-manager clauses, for the clients *)
ClientIrqMeansPendingAndEnabled == obs.okirq   \* irq = OR(pending & enable), every cycle
ClientPendingRule    == obs.okpend     \* pending set exactly by the documented condition (FIFO level step, countdown
                                       \* reaching 0, selected pin edge) no later than the next cycle, stays until
                                       \* cleared, the trigger wins over a coinciding clear
ClientClearOnlyByW1C == obs.okclear    \* clear strobes only for bits software wrote a one to, none lost
ClientEnableIsWritten == obs.okenable
ClientReadBack       == obs.okread     \* a bus read returns the register value one cycle later
(* client clauses *)
ClientStatusIsCondition == obs.okstatus   \* raw event level: uart tx = ~txfull, rx = ~rxempty; timer: countdown value = 0
UartFlagsMatchPhy    == obs.okflags    \* rxfull = ~(rx PHY ready), txempty = ~(tx PHY valid)
RxHeadIsOldest       == obs.okrxhead   \* rxtx shows the oldest unread character: a clear of rx popped exactly one
RxReadableInTime     == obs.okrxtime   \* a received character becomes readable within c.lat cycles (none lost)
RxFullOnlyWhenFull   == obs.okrxfull
TxHeadIsOldest       == obs.oktxhead   \* characters written to rxtx reach the PHY in order, unaltered
TxDeliveredInTime    == obs.oktxtime
TxFullOnlyWhenFull   == obs.oktxfull
=============================================================================
