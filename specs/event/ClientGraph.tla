----------------------------- MODULE ClientGraph -----------------------------
(* G-mode product of ClientContract with the transition graph of the real     *)
(* UART / Timer / GPIOIn netlists behind a real CSRBank                       *)
(* (harness/families/eventclients.py, harness/graphloop.py).                  *)
EXTENDS ClientContract, Json, IOUtils, GraphLookup

G == JsonDeserialize(IOEnv.GRAPH)
NDuts == Len(G.duts)
VARIABLES d, s
vars == <<d, s, tprev, ep, een, cw, rd, cs, obs>>
C == G.duts[d].cfg

Init == /\ d \in 1..NDuts /\ s = 0 /\ CInit

Step(iv) ==
  /\ s >= 0
  /\ LET e == GLookup(G.duts[d].succ[s + 1], iv) IN
       IF e # <<>>
       THEN /\ s' = e[3] /\ d' = d
            /\ CStep(C, iv, e[2])
       ELSE /\ PrintT(<<"NEED", d, s, iv>>)
            /\ s' = -1 /\ d' = d /\ UNCHANGED cvars

Next == \E iv \in Inputs(C) : Step(iv)
Spec == Init /\ [][Next]_vars
Alias == [d |-> d, s |-> s, obs |-> obs, ep |-> ep, cw |-> cw, cs |-> cs, iv |-> CHOOSE iv \in Inputs(C) : Step(iv)]
=============================================================================
