----------------------------- MODULE EventModel -----------------------------
(***************************************************************************)
(* L2: implementation-shaped model of litex/soc/interconnect/              *)
(* csr_eventmanager.py, register for register (names follow the code):     *)
(*                                                                         *)
(*   EventSourcePulse    pending (set by trigger, cleared by clear; the    *)
(*                       trigger statement is the later one and wins)      *)
(*   EventSourceProcess  trigger_d, pending (edge = rising / falling)      *)
(*   EventSourceLevel    no register: status = pending = trigger           *)
(*   EventManager.do_finalize   status = CSRStatus(n, 1-bit fields),       *)
(*                       pending = CSRStatus(n, fields, read_only=False),  *)
(*                       enable = CSRStorage(n, fields at offset i);       *)
(*                       clear_i = pending.re & pending.r[i] (pending.re   *)
(*                       is the registered strobe of CSRStatus: the clear  *)
(*                       comes one cycle after the bus write);             *)
(*                       irq = OR_i(pending.status[i] & enable.storage[i]) *)
(*   SharedIRQ           irq = OR of the managers' irq                     *)
(* The three CSRs and the CSRBank in front of them are ordinary CSR        *)
(* machinery: they are the model of specs/csrbank/CsrBankModel.tla         *)
(* (CSRStatus, CSRStorage, CSRBank) instantiated with the register list    *)
(* do_finalize declares - composed the way the code composes them.         *)
(*                                                                         *)
(* m  = [kinds, mgr, nm] (as EventContract)                                *)
(* r  = [pend (per source; 0 for a level source), td (trigger_d per        *)
(*       source; 0 unless it is a process source), bank (per manager: the  *)
(*       register record of CsrBankModel for <<status, pending, enable>>)] *)
(* iv = <<trig, op, mgr, reg, data>>,  o = <<sirq, dat_r>> \o m1 \o m2     *)
(*       with m = <<irq, pending, status, enable, clear>> (EventContract). *)
(* The model gives no verdict (DESIGN.md 9).                               *)
(***************************************************************************)
EXTENDS Integers, Sequences, FiniteSets

CB == INSTANCE CsrBankModel

B(x) == IF x THEN 1 ELSE 0
Bit(x, i) == (x \div (2^i)) % 2
NSrc(m) == Len(m.kinds)
SrcOf(m, k) == { i \in 1..NSrc(m) : m.mgr[i] = k }
(* sources = sorted(sources_u, key=duid): bit position = creation order inside the manager *)
Pos(m, i) == Cardinality({ j \in SrcOf(m, m.mgr[i]) : j < i })
NBits(m, k) == Cardinality(SrcOf(m, k))
IsProcess(kind) == kind \in {"rising", "falling"}

(* the register list EventManager.do_finalize declares, behind CSRBank(ev.get_csrs(), address = k - 1) on an *)
(* 8-bit bus with the default paging 0x800 (512 word addresses per page)                                     *)
BankCfg(m, k) ==
  LET n == NBits(m, k)
      bits(fixed) == [j \in 1..n |-> [size |-> 1, offset |-> IF fixed THEN j - 1 ELSE -1, reset |-> 0, pulse |-> 0]]
  IN [w |-> 8, little |-> 0, pb |-> 9, bankadr |-> <<k - 1>>,
      regs |-> << [bank |-> 1, kind |-> "status",    size |-> n, reset |-> 0, n |-> -1, fields |-> bits(FALSE), dvs |-> <<1>>],
                  [bank |-> 1, kind |-> "status_rw", size |-> n, reset |-> 0, n |-> -1, fields |-> bits(FALSE), dvs |-> <<1>>],
                  [bank |-> 1, kind |-> "storage",   size |-> n, reset |-> 0, n |-> -1, fields |-> bits(TRUE),  dvs |-> <<>>] >>]

MTab(m) == [kinds |-> m.kinds, mgr |-> m.mgr, nm |-> m.nm, ns |-> NSrc(m),
            pos  |-> [i \in 1..NSrc(m) |-> Pos(m, i)],
            src  |-> [k \in 1..m.nm |-> SrcOf(m, k)],
            bank |-> [k \in 1..m.nm |-> CB!MTab(BankCfg(m, k))]]

MInit(t) == [pend |-> [i \in 1..t.ns |-> 0], td |-> [i \in 1..t.ns |-> 0],
             bank |-> [k \in 1..t.nm |-> CB!MInit(t.bank[k])]]

RECURSIVE Pack(_, _, _)
Pack(f, S, t) == IF S = {} THEN 0                                  \* sum over i in S of f[i] * 2^pos[i]
                 ELSE LET i == CHOOSE x \in S : TRUE IN f[i] * (2^t.pos[i]) + Pack(f, S \ {i}, t)

MStep(t, r, iv) ==
  LET trig == iv[1]
      T(i) == Bit(trig, i - 1)                          \* harness: source i's trigger = trig[i - 1]
      (* harness: master.adr = (msel - 1) * 512 + reg  (14 bits), we = (op == 1), re = (op == 2), dat_w = data *)
      adr == ((iv[3] + 31) % 32) * 512 + iv[4]
      (* ---- the sources, combinational part *)
      status  == [i \in 1..t.ns |-> IF t.kinds[i] = "pulse" THEN 0 ELSE T(i)]
      pending == [i \in 1..t.ns |-> IF t.kinds[i] = "level" THEN T(i) ELSE r.pend[i]]
      (* ---- status / pending / enable behind the CSRBank of each manager *)
      e == [k \in 1..t.nm |-> CB!MStep(t.bank[k], r.bank[k],
                                       <<iv[2], adr, iv[5], Pack(status, t.src[k], t), Pack(pending, t.src[k], t), 0>>)]
      (* outputs of CsrBankModel: <<master dat_r, bank dat_r>> \o <<v, re, we, f, r2>> for status, pending, enable *)
      stat(k) == e[k].o[3]                              \* status.status
      pnd(k)  == e[k].o[8]                              \* pending.status
      pre(k)  == e[k].o[9]                              \* pending.re  (registered)
      pr(k)   == e[k].o[12]                             \* pending.r
      en(k)   == e[k].o[13]                             \* enable.storage
      (* If(pending.re & pending.r[i], source.clear.eq(1)) *)
      clear == [i \in 1..t.ns |-> B(pre(t.mgr[i]) = 1 /\ Bit(pr(t.mgr[i]), t.pos[i]) = 1)]
      irq == [k \in 1..t.nm |-> B(\E i \in t.src[k] : Bit(pnd(k), t.pos[i]) = 1 /\ Bit(en(k), t.pos[i]) = 1)]
      (* ---- the sources, registers *)
      fire(i) == CASE t.kinds[i] = "pulse"   -> T(i) = 1
                   [] t.kinds[i] = "rising"  -> T(i) = 1 /\ r.td[i] = 0
                   [] t.kinds[i] = "falling" -> T(i) = 0 /\ r.td[i] = 1
                   [] OTHER -> FALSE
      (* sync: If(clear, pending.eq(0)) comes first, If(<trigger / edge>, pending.eq(1)) last and wins *)
      pend2(i) == IF t.kinds[i] = "level" THEN 0
                  ELSE IF fire(i) THEN 1 ELSE IF clear[i] = 1 THEN 0 ELSE r.pend[i]
      td2(i) == IF IsProcess(t.kinds[i]) THEN T(i) ELSE 0
      mgrout(k) == IF k <= t.nm THEN <<irq[k], pnd(k), stat(k), en(k), Pack(clear, t.src[k], t)>>
                   ELSE <<0, 0, 0, 0, 0>>
      (* Interconnect: master.dat_r = OR of the banks' dat_r; SharedIRQ *)
      datr == CB!OrAll([k \in 1..t.nm |-> r.bank[k].datr[1]], t.nm)
  IN [o |-> <<B(\E k \in 1..t.nm : irq[k] = 1), datr>> \o mgrout(1) \o mgrout(2),
      r |-> [pend |-> [i \in 1..t.ns |-> pend2(i)],
             td   |-> [i \in 1..t.ns |-> td2(i)],
             bank |-> [k \in 1..t.nm |-> e[k].r]]]
=============================================================================
