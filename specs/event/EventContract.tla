---------------------------- MODULE EventContract ----------------------------
(***************************************************************************)
(* L1 contract of LiteX event managers (csr_eventmanager.py), property C15.*)
(*                                                                         *)
(* One step = one clock cycle.  Environment: a free trigger waveform on    *)
(* every source and at most one CSR bus operation per cycle (any register  *)
(* of any manager, any data).                                              *)
(*   iv = <<trig, op, mgr, reg, data>>   trig: bit mask over all sources   *)
(*         op: 0 idle, 1 write, 2 read;  reg: 0 status 1 pending 2 enable  *)
(*         3 unmapped                                                      *)
(*   o  = <<sirq, dat_r>> \o m1 \o m2  with  m = <<irq, pending, status,    *)
(*         enable, clear>> bit masks over that manager's sources           *)
(* c: kinds (per source: "pulse", "rising", "falling", "level"),           *)
(*    mgr (per source: 1 or 2), nm (number of managers)                    *)
(***************************************************************************)
EXTENDS Integers, Sequences, FiniteSets, TLC

VARIABLES tprev,   \* trigger levels of the previous cycle (edge detection)
          ep,      \* expected pending flag per source (documented rule)
          een,     \* expected enable register per manager
          cw,      \* per source: ages (cycles) of W1C writes not yet turned into a clear
          rd,      \* read issued in the previous cycle: <<expected data>> or <<>>
          obs

cvars == <<tprev, ep, een, cw, rd, obs>>

Bit(x, i) == (x \div (2^i)) % 2                    \* i from 0
NSrc(c) == Len(c.kinds)
SrcOf(c, m) == { i \in 1..NSrc(c) : c.mgr[i] = m }
\* position of source i inside its manager's registers (sources are numbered in creation order)
Pos(c, i) == Cardinality({ j \in SrcOf(c, c.mgr[i]) : j < i })
NBits(c, m) == Cardinality(SrcOf(c, m))
MaxClearLatency == 3
MaxSrc == 6                                          \* sources per DUT (all managers together)

Inputs(c) ==
  LET TR == 0..(2^NSrc(c) - 1) IN
  { <<t, 0, 1, 0, 0>> : t \in TR } \cup
  UNION { { <<t, 1, m, r, x>> : t \in TR, r \in {1, 2}, x \in 0..(2^NBits(c, m) - 1) } : m \in 1..c.nm } \cup
  { <<t, 1, m, 0, 7>> : t \in TR, m \in 1..c.nm } \cup          \* write to the read-only status register
  { <<t, 1, m, 3, 1>> : t \in TR, m \in 1..c.nm } \cup          \* write to an unmapped address
  { <<t, 2, m, r, 0>> : t \in TR, m \in 1..c.nm, r \in 0..3 }

CInit ==
  /\ tprev = 0
  /\ ep  = [i \in 1..MaxSrc |-> 0]
  /\ een = [m \in 1..2 |-> 0]
  /\ cw  = [i \in 1..MaxSrc |-> {}]
  /\ rd  = <<>>
  /\ obs = [okirq |-> TRUE, okpend |-> TRUE, okclear |-> TRUE, okstatus |-> TRUE, okenable |-> TRUE,
            okshared |-> TRUE, okread |-> TRUE]

M(o, m) == SubSeq(o, 3 + 5 * (m - 1), 7 + 5 * (m - 1))   \* <<irq, pending, status, enable, clear>> of manager m

CStep(c, iv, o) ==
  LET trig == iv[1]
      T(i) == Bit(trig, i - 1)
      TP(i) == Bit(tprev, i - 1)
      Pend(i)  == Bit(M(o, c.mgr[i])[2], Pos(c, i))
      Stat(i)  == Bit(M(o, c.mgr[i])[3], Pos(c, i))
      Clr(i)   == Bit(M(o, c.mgr[i])[5], Pos(c, i))
      En(m)    == M(o, m)[4]
      Fire(i)  == CASE c.kinds[i] = "pulse"   -> T(i) = 1
                    [] c.kinds[i] = "rising"  -> T(i) = 1 /\ TP(i) = 0
                    [] c.kinds[i] = "falling" -> T(i) = 0 /\ TP(i) = 1
                    [] OTHER -> FALSE
      \* pending as documented: level sources mirror the trigger, the others hold ep
      okpend == \A i \in 1..NSrc(c) :
                  IF c.kinds[i] = "level" THEN Pend(i) = T(i) ELSE Pend(i) = ep[i]
      okstatus == \A i \in 1..NSrc(c) :
                  Stat(i) = (IF c.kinds[i] = "pulse" THEN 0 ELSE T(i))
      okirq == \A m \in 1..c.nm :
                  M(o, m)[1] = (IF \E i \in SrcOf(c, m) : Pend(i) = 1 /\ Bit(En(m), Pos(c, i)) = 1 THEN 1 ELSE 0)
      okshared == o[1] = (IF \E m \in 1..c.nm : M(o, m)[1] = 1 THEN 1 ELSE 0)
      okenable == \A m \in 1..c.nm : En(m) = een[m]
      \* a clear strobe is legal only for a bit that software wrote a one to (W1C), at most
      \* MaxClearLatency cycles ago, and every such write produces exactly one strobe
      okclear == /\ \A i \in 1..NSrc(c) : Clr(i) = 1 => cw[i] # {}
                 /\ \A i \in 1..NSrc(c) : \A a \in cw[i] : a <= MaxClearLatency
      wr(m, r) == iv[2] = 1 /\ iv[3] = m /\ iv[4] = r
      aged(i) == LET rest == IF Clr(i) = 1 /\ cw[i] # {}
                             THEN cw[i] \ {CHOOSE a \in cw[i] : \A b \in cw[i] : b <= a}
                             ELSE cw[i]
                 IN { a + 1 : a \in { b \in rest : b <= MaxClearLatency } }
      regval(m, r) == CASE r = 0 -> M(o, m)[3] [] r = 1 -> M(o, m)[2] [] r = 2 -> M(o, m)[4] [] OTHER -> 0
  IN
  /\ tprev' = trig
  /\ ep'  = [i \in 1..MaxSrc |-> IF i > NSrc(c) THEN 0
                            ELSE IF Fire(i) THEN 1                      \* the trigger wins over a clear
                            ELSE IF Clr(i) = 1 THEN 0 ELSE ep[i]]
  /\ een' = [m \in 1..2 |-> IF wr(m, 2) THEN iv[5] % (2^NBits(c, m)) ELSE een[m]]
  /\ cw'  = [i \in 1..MaxSrc |-> IF i > NSrc(c) THEN {}
                            ELSE aged(i) \cup (IF wr(c.mgr[i], 1) /\ Bit(iv[5], Pos(c, i)) = 1 THEN {1} ELSE {})]
  /\ rd'  = IF iv[2] = 2 THEN <<regval(iv[3], iv[4])>> ELSE <<>>
  /\ obs' = [okirq |-> okirq, okpend |-> okpend, okclear |-> okclear, okstatus |-> okstatus,
             okenable |-> okenable, okshared |-> okshared,
             okread |-> (rd # <<>> => o[2] = rd[1])]

---------------------------------------------------------------------------
IrqMeansPendingAndEnabled == obs.okirq     \* irq = OR(pending & enable), every cycle
PendingRule      == obs.okpend             \* pending no later than the next cycle, stays until cleared,
                                           \* trigger wins over a coinciding clear, level mirrors
ClearOnlyByW1C   == obs.okclear            \* clearing is per bit, caused only by writing a one, never lost
StatusShowsRaw   == obs.okstatus
EnableIsWritten  == obs.okenable
SharedIrqIsOr    == obs.okshared
ReadBack         == obs.okread             \* a bus read returns the register one cycle later
=============================================================================
