---------------------------- MODULE EventModelM ----------------------------
(* M-mode:  L2 model (EventModel) x Env x EventContract monitor, no code     *)
(* involved.  This is EventGraph with the lookup in the graph of the real    *)
(* netlist replaced by the model's step function: the clauses are literally  *)
(* those that judge the real code, the environment is Inputs(C) of the       *)
(* contract, optionally narrowed (a sub-environment of a legal environment   *)
(* is legal) so that managers with 4 - 6 sources stay enumerable:            *)
(*   MC[d] = [c |-> L1 configuration, m |-> model configuration,             *)
(*            env |-> [trigs   (trigger patterns allowed, <<>> = all),       *)
(*                     datas   (data of writes to pending / enable allowed,  *)
(*                              <<>> = all),                                 *)
(*                     maxflip (at most so many trigger lines change from    *)
(*                              one cycle to the next)]]                     *)
EXTENDS EventContract, Json, IOUtils

EM == INSTANCE EventModel
MC == JsonDeserialize(IOEnv.MCFG)

VARIABLES d,   \* which configuration
          r    \* the model's registers
vars == <<d, r, tprev, ep, een, cw, rd, obs>>

SeqSet(q) == { q[x] : x \in DOMAIN q }
TB == [x \in 1..Len(MC) |-> EM!MTab(MC[x].m)]                                  \* evaluated once (constant)
EnvIn == [x \in 1..Len(MC) |->
            { iv \in Inputs(MC[x].c) :
                /\ MC[x].env.trigs = <<>> \/ iv[1] \in SeqSet(MC[x].env.trigs)
                /\ (iv[2] = 1 /\ iv[4] \in {1, 2}) => (MC[x].env.datas = <<>> \/ iv[5] \in SeqSet(MC[x].env.datas)) }]
C == MC[d].c
RECURSIVE Ones(_)
Ones(x) == IF x = 0 THEN 0 ELSE (x % 2) + Ones(x \div 2)
RECURSIVE Xor(_, _)
Xor(a, b) == IF a = 0 /\ b = 0 THEN 0 ELSE ((a + b) % 2) + 2 * Xor(a \div 2, b \div 2)

Init == /\ d \in 1..Len(MC) /\ r = EM!MInit(TB[d]) /\ CInit

Step(iv) ==
  LET e == EM!MStep(TB[d], r, iv) IN
    /\ Ones(Xor(iv[1], tprev)) <= MC[d].env.maxflip
    /\ r' = e.r /\ d' = d
    /\ CStep(C, iv, e.o)

Next == \E iv \in EnvIn[d] : Step(iv)
Spec == Init /\ [][Next]_vars
Alias == [d |-> d, r |-> r, obs |-> obs, ep |-> ep, cw |-> cw, iv |-> CHOOSE iv \in EnvIn[d] : Step(iv)]
=============================================================================
