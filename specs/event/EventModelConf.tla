--------------------------- MODULE EventModelConf ---------------------------
(* Conformance of the L2 model (EventModel) to the real netlists: every      *)
(* recorded step (registers read by name from the netlist, inputs, outputs,  *)
(* registers after the clock edge) must be exactly what MStep computes.      *)
(* Cases: ALL edges of the complete G-mode graphs of the EventManager +      *)
(* CSRBank DUTs, and every cycle of the long runs of managers with 3 - 6     *)
(* sources.   T.duts[i] = [m, reset, cases |-> << <<r, iv, o, r2>>, .. >>]   *)
EXTENDS Integers, Sequences, TLC, Json, IOUtils

M == INSTANCE EventModel
T == JsonDeserialize(IOEnv.CASES)

VARIABLES i, j
vars == <<i, j>>
Init == i \in 1..Len(T.duts) /\ j \in 1..Len(T.duts[i].cases)
Next == UNCHANGED vars

TB == [x \in 1..Len(T.duts) |-> M!MTab(T.duts[x].m)]         \* evaluated once
K == T.duts[i].cases[j]
E == M!MStep(TB[i], K[1], K[2])
OutputsAgree == E.o = K[3]
NextStateAgrees == E.r = K[4]
ResetAgrees == T.duts[i].reset = M!MInit(TB[i])
=============================================================================
