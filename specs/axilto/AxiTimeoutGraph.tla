-------------------------- MODULE AxiTimeoutGraph --------------------------
EXTENDS AxiTimeoutContract, Json, IOUtils, GraphLookup
G == JsonDeserialize(IOEnv.GRAPH)
NDuts == Len(G.duts)
VARIABLES d, s, ph
vars == <<d, s, ah, wh, na, nwb, wdone, sa, swd, sbs, rh, mrh, waitc, owedc, forced, errseen, obs, ph>>
C == G.duts[d].cfg
Init == /\ d \in 1..NDuts /\ s = 0 /\ ph = 0 /\ CInit
Step(iv) ==
  /\ s >= 0
  /\ LET e == GLookup(G.duts[d].succ[s + 1], iv) IN
       IF e # <<>>
       THEN /\ s' = e[3] /\ d' = d
            /\ CStep(C, iv, e[2])
            /\ ph' = IF e[3] = s /\ cvars' = cvars THEN 1 - ph ELSE 0
       ELSE /\ PrintT(<<"NEED", d, s, iv>>)
            /\ s' = -1 /\ d' = d /\ ph' = 0 /\ UNCHANGED cvars
Next == \E iv \in Inputs(C) : Step(iv)
Spec == Init /\ [][Next]_vars /\ WF_vars(Next)
Alias == [d |-> d, s |-> s, obs |-> obs, waitc |-> waitc, owedc |-> owedc, na |-> na, sa |-> sa,
          iv |-> CHOOSE iv \in Inputs(C) : Step(iv)]
(* whatever the slave does: a master that keeps accepting responses always gets on *)
Recovers == (<>[](obs.rr)) => []<>(obs.prog)
=============================================================================
