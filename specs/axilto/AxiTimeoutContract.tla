-------------------------- MODULE AxiTimeoutContract --------------------------
(***************************************************************************)
(* C11 for AXI4 (full): a silent or absent slave behind an AXI shared      *)
(* interconnect with a time-out (axi_full.py: AXIInterconnectShared with   *)
(* AXITimeout).  One master, one slave region and an unmapped region; one  *)
(* direction per configuration; at most one burst outstanding; bursts of   *)
(* 1..2 beats (len 0/1), ids from a 2-value set.                           *)
(*  iv = <<mcode, scode>>, one packed number per port:                     *)
(*       master: av + 2*tgt + 8*len + 16*id + 32*wv + 64*wl + 128*rr       *)
(*         address valid, target (1 slave, 2 unmapped), burst length, id,  *)
(*         data valid with its `last`, response ready                      *)
(*       slave (FAULTY: may do anything legal, incl. nothing for ever):    *)
(*         ar + 2*wr + 4*rv + 8*rid + 16*rl  address ready, data ready,    *)
(*         response valid with its id and (reads) `last`                   *)
(*  o  = <<aready, wready, rvalid, rcode, rid, rlast, err,                 *)
(*         s_avalid, s_wvalid, s_rready>>                                  *)
(*       rcode: 1 = the slave's response (its tag), 2 = SLVERR (reads:     *)
(*       with all-ones data), 7 = anything else; rid: 0/1 = index of the   *)
(*       id, 3 = neither                                                   *)
(* c: dir ("w"/"r"), t (time-out), slack, late, wsplit, partial, mute      *)
(***************************************************************************)
EXTENDS Integers, Sequences, TLC

VARIABLES ah,     \* the held address offer <<tgt, len, id>> (<<>> none)
          wh,     \* the held data offer <<last>> (<<>> none)
          na,     \* the burst address accepted (by anyone) and not yet answered <<tgt, len, id>> (<<>> none)
          nwb,    \* data beats of the current burst accepted (by anyone)
          wdone,  \* 1 if the last data beat of the current burst has been accepted (by anyone)
          sa,     \* the burst address accepted BY THE SLAVE and not yet answered by it <<len, id>> (<<>> none)
          swd,    \* 1 if the slave has accepted the last data beat of the burst
          sbs,    \* R beats the slave has sent for the burst
          rh,     \* slave holds a response offer
          mrh,    \* response offer <<code, id, last>> presented to the master and not yet accepted
          waitc,  \* consecutive cycles in which some offer of the master stayed unaccepted
          owedc,  \* consecutive cycles in which a completely accepted burst has been waiting for a response beat
          forced, \* 1 while the interconnect is terminating a request itself (from the expiry to the made-up response)
          errseen,\* 1 if the error output has pulsed since the last response
          obs

cvars == <<ah, wh, na, nwb, wdone, sa, swd, sbs, rh, mrh, waitc, owedc, forced, errseen, obs>>
HasW(c) == c.dir = "w"

MAv(iv)  == iv[1] % 2
MTgt(iv) == (iv[1] \div 2) % 4
MLen(iv) == (iv[1] \div 8) % 2
MId(iv)  == (iv[1] \div 16) % 2
MWv(iv)  == (iv[1] \div 32) % 2
MWl(iv)  == (iv[1] \div 64) % 2
MRr(iv)  == (iv[1] \div 128) % 2
SAr(iv) == iv[2] % 2
SWr(iv) == (iv[2] \div 2) % 2
SRv(iv) == (iv[2] \div 4) % 2
SRi(iv) == (iv[2] \div 8) % 2
SRl(iv) == (iv[2] \div 16) % 2

MasterMoves(c) ==
  LET AOpts == IF ah # <<>> THEN { ah }
               ELSE IF na = <<>> /\ nwb = 0 THEN { <<>> } \cup { <<t, l, d>> : t \in {1, 2}, l \in {0, 1}, d \in {0, 1} }
               ELSE { <<>> }
      \* the next data beat of the burst whose address is offered (a) or accepted (na)
      have(a) == a # <<>> \/ na # <<>>
      blen(a) == IF na # <<>> THEN na[2] ELSE a[2]
      beat(a) == << IF nwb >= blen(a) THEN 1 ELSE 0 >>
      \* c.wsplit = 0: write data is offered together with its address and without gaps between the beats;
      \* c.wsplit = 1: any time from its address offer on
      WOpts(a) == IF wh # <<>> THEN { wh }
                  ELSE IF ~HasW(c) \/ wdone = 1 \/ ~have(a) THEN { <<>> }
                  ELSE IF c.wsplit = 1 THEN { <<>>, beat(a) } ELSE { beat(a) }
      Enc(a, w, r) == (IF a = <<>> THEN 0 ELSE 1 + 2 * a[1] + 8 * a[2] + 16 * a[3])
                      + (IF w = <<>> THEN 0 ELSE 32 + 64 * w[1]) + 128 * r
  IN UNION { { Enc(a, w, r) : w \in WOpts(a), r \in {0, 1} } : a \in AOpts }

\* c.late = 0: a slave that let the time-out expire does not accept that request any more (it is dead or
\* absent); it may still accept it in the very cycle the timer expires (waitc = c.t: the interconnect must
\* then let the request through undisturbed); c.late = 1: it may even accept it while the interconnect is
\* terminating it
CanAcc(c) == c.late = 1 \/ (forced = 0 /\ waitc <= c.t)
SOwed(c) == sa # <<>> /\ (HasW(c) => swd = 1)
SResp(c) == 4 + 8 * sa[2] + 16 * (IF HasW(c) THEN 0 ELSE (IF sbs >= sa[1] THEN 1 ELSE 0))
\* c.partial = 0: the slave takes the address and the first data beat of a write in the same cycle or not at
\* all, and then takes the remaining beats as they come (1: any acceptance pattern)
\* c.mute = 0: a slave that has accepted a burst answers it (every response beat) within the time-out
\* (1: it may stay silent for ever after accepting)
SlaveMoves(c) ==
  LET first == sa = <<>>
      AOpts == IF first /\ CanAcc(c) THEN {0, 1} ELSE {0}
      WOpts == IF ~HasW(c) \/ swd = 1 THEN {0}
               ELSE IF c.partial = 0 /\ ~first THEN {1}
               ELSE IF CanAcc(c) THEN {0, 1} ELSE {0}
      ROpts == IF rh = 1 THEN { SResp(c) }
               ELSE IF ~SOwed(c) THEN {0}
               ELSE IF c.mute = 0 /\ owedc >= c.t THEN { SResp(c) } ELSE { 0, SResp(c) }
      AW == { aw \in AOpts \X WOpts : (HasW(c) /\ c.partial = 0 /\ first) => aw[1] = aw[2] }
  IN { aw[1] + 2 * aw[2] + r : aw \in AW, r \in ROpts }
Inputs(c) == { <<m, s>> : m \in MasterMoves(c), s \in SlaveMoves(c) }

CInit ==
  /\ ah = <<>> /\ wh = <<>> /\ na = <<>> /\ nwb = 0 /\ wdone = 0 /\ sa = <<>> /\ swd = 0 /\ sbs = 0 /\ rh = 0 /\ mrh = <<>>
  /\ waitc = 0 /\ owedc = 0 /\ forced = 0 /\ errseen = 0
  /\ obs = [okintime |-> TRUE, oknoearly |-> TRUE, okerr |-> TRUE, okid |-> TRUE, okowed |-> TRUE, okpulse |-> TRUE, okresp |-> TRUE,
            okanswered |-> TRUE, okhold |-> TRUE, prog |-> TRUE, rr |-> FALSE]

CStep(c, iv, o) ==
  LET av == MAv(iv)  wv == MWv(iv)  rr == MRr(iv)
      rvalid == o[3]  rcode == o[4]  rid == o[5]  rlast == o[6]  err == o[7]
      mAfire == av = 1 /\ o[1] = 1
      mWfire == wv = 1 /\ o[2] = 1
      mRfire == rvalid = 1 /\ rr = 1
      mDone  == mRfire /\ (HasW(c) \/ rlast = 1)          \* B, or the R beat with `last`
      sRvalid == SRv(iv) = 1
      sAfire == o[8] = 1 /\ SAr(iv) = 1
      sWfire == o[9] = 1 /\ SWr(iv) = 1
      sRfire == sRvalid /\ o[10] = 1
      sDone  == sRfire /\ (HasW(c) \/ SRl(iv) = 1)
      \* acceptance / response made up by the interconnect itself
      synthA == mAfire /\ ~sAfire
      synthW == mWfire /\ ~sWfire
      synthR == rvalid = 1 /\ ~sRvalid
      waiting == (av = 1 /\ ~mAfire) \/ (wv = 1 /\ ~mWfire)
      expired == waitc >= c.t
      outstanding == na # <<>> /\ (HasW(c) => wdone = 1)
      \* the id of the request a made-up response answers
      reqid == IF na # <<>> THEN na[3] ELSE IF ah # <<>> THEN ah[3] ELSE MId(iv)
  IN
  /\ ah' = IF av = 1 /\ ~mAfire THEN <<MTgt(iv), MLen(iv), MId(iv)>> ELSE <<>>
  /\ wh' = IF wv = 1 /\ ~mWfire THEN <<MWl(iv)>> ELSE <<>>
  /\ na' = IF mDone THEN <<>> ELSE IF mAfire THEN <<MTgt(iv), MLen(iv), MId(iv)>> ELSE na
  /\ nwb' = IF mDone THEN 0 ELSE IF mWfire THEN (IF nwb >= 2 THEN 2 ELSE nwb + 1) ELSE nwb
  /\ wdone' = IF mDone THEN 0 ELSE IF mWfire /\ MWl(iv) = 1 THEN 1 ELSE wdone
  /\ sa' = IF sDone THEN <<>> ELSE IF sAfire THEN <<MLen(iv), MId(iv)>> ELSE sa
  /\ swd' = IF sDone THEN 0 ELSE IF sWfire /\ MWl(iv) = 1 THEN 1 ELSE swd
  /\ sbs' = IF sDone \/ HasW(c) THEN 0 ELSE IF sRfire THEN (IF sbs >= 2 THEN 2 ELSE sbs + 1) ELSE sbs
  /\ rh' = IF sRvalid /\ ~sRfire THEN 1 ELSE 0
  /\ mrh' = IF rvalid = 1 /\ ~mRfire THEN <<rcode, rid, rlast>> ELSE <<>>
  /\ waitc' = IF waiting THEN (IF waitc > c.t + c.slack THEN waitc ELSE waitc + 1) ELSE 0
  /\ owedc' = IF outstanding /\ rvalid = 0 THEN (IF owedc > c.t + c.slack THEN owedc ELSE owedc + 1) ELSE 0
  /\ forced' = IF mRfire THEN 0
               ELSE IF forced = 1 \/ ((synthA \/ synthW \/ synthR \/ err = 1) /\ expired) THEN 1 ELSE 0
  /\ errseen' = IF mRfire THEN 0 ELSE IF err = 1 THEN 1 ELSE errseen
  /\ obs' = [ \* an offer nobody accepts is terminated within the configured number of cycles
              okintime |-> waitc <= c.t + c.slack,
              \* requests answered in time are not disturbed: nothing is made up before the time-out
              oknoearly |-> /\ (synthA \/ synthW \/ synthR) => (expired \/ forced = 1)
                            \* the error pulse belongs to a request that is still waiting in that cycle: a request
                            \* accepted in the very cycle the timer expires is not terminated
                            /\ (err = 1 => (expired /\ waiting)),
              \* a made-up response says SLVERR (with all-ones data on reads) and ends the burst: `last` on the R beat
              okerr |-> synthR => (rcode = 2 /\ (~HasW(c) => rlast = 1)),
              \* ... and carries the id of the request it terminates (AXI4: BID / RID match AWID / ARID)
              okid |-> synthR => rid = reqid,
              \* no response (made up or real) reaches the master before its request is complete: address
              \* and, for a write, the last data beat accepted
              okowed |-> rvalid = 1 => outstanding,
              \* the error output pulses exactly once per forced termination
              okpulse |-> /\ (err = 1 => errseen = 0)
                          /\ ((synthR /\ mRfire) => (errseen = 1 \/ err = 1)),
              \* a response beat of the slave reaches the master unchanged (code/data, id, `last`)
              okresp |-> (sRvalid /\ rvalid = 1 /\ ~synthR) => (rcode = 1 /\ rid = SRi(iv) /\ rlast = SRl(iv)),
              \* a burst that was accepted completely is answered within the configured number of cycles too
              okanswered |-> owedc <= c.t + c.slack,
              okhold |-> mrh # <<>> => (rvalid = 1 /\ <<rcode, rid, rlast>> = mrh),
              prog |-> mAfire \/ mWfire \/ mRfire \/ (av = 0 /\ wv = 0 /\ na = <<>> /\ nwb = 0),
              \* the master cooperates: it accepts responses and does not withhold write data it owes
              rr |-> rr = 1 /\ ((HasW(c) /\ wdone = 0 /\ (av = 1 \/ na # <<>>)) => wv = 1) ]

OffersTerminatedInTime == obs.okintime
NoDisturbance         == obs.oknoearly
ErrorIndication       == obs.okerr
ForcedResponseId      == obs.okid
ErrorPulse            == obs.okpulse
ResponseOnlyToCompleteRequest == obs.okowed
SlaveResponsePassed   == obs.okresp
AcceptedRequestsAnsweredInTime == obs.okanswered
ResponseHold          == obs.okhold
=============================================================================
