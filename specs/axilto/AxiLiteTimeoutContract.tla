------------------------ MODULE AxiLiteTimeoutContract ------------------------
(***************************************************************************)
(* C11 for AXI-Lite: a silent or absent slave behind an AXI-Lite shared    *)
(* interconnect with a time-out (AXILiteTimeout).  One master, one slave   *)
(* region and an unmapped region; one direction per configuration; at most *)
(* one request outstanding.                                                *)
(*  iv = <<av, tgt, wv, rr, sa, sw, sr>>  master: address valid, target    *)
(*       (1 slave, 2 unmapped), data valid, response ready; slave (FAULTY: *)
(*       may do anything legal, incl. nothing for ever): address ready,    *)
(*       data ready, response valid (wish, legal only when owed)           *)
(*  o  = <<aready, wready, rvalid, rcode, err, s_avalid, s_wvalid, s_rready>>*)
(*       rcode: 1 = the slave's response (its tag), 2 = SLVERR with all-    *)
(*       ones read data, 7 = anything else                                 *)
(* c: dir ("w"/"r"), t (time-out), slack, late (see SlaveMoves)              *)
(***************************************************************************)
EXTENDS Integers, Sequences, TLC

VARIABLES ah,     \* target of the held address offer (0 none)
          wh,     \* 1 if a data offer is held
          na, nw, \* address / data accepted (by anyone) and not yet answered: 0/1
          sa, sw, \* address / data accepted BY THE SLAVE and not yet answered by it
          rh,     \* slave holds a response offer
          mrh,    \* response offer <<code>> presented to the master and not yet accepted
          waitc,  \* consecutive cycles in which some offer of the master stayed unaccepted
          owedc,  \* consecutive cycles in which an accepted request has been waiting for its response
          forced, \* 1 while the interconnect is terminating a request itself (from the expiry to the made-up response)
          obs

cvars == <<ah, wh, na, nw, sa, sw, rh, mrh, waitc, owedc, forced, obs>>
HasW(c) == c.dir = "w"

MasterMoves(c) ==
  LET \* c.partial = 2: no new request while the slave still holds one half of a write it never answered
      Fresh == c.partial = 2 => (sa = 0 /\ sw = 0)
      AOpts == IF ah # 0 THEN { ah } ELSE IF na = 0 /\ Fresh THEN {0, 1, 2} ELSE {0}
      \* c.wsplit = 1: write data may be offered any time from its address offer on; 0: together with it
      WOpts(t) == IF wh = 1 THEN {1}
                  ELSE IF HasW(c) /\ nw = 0 /\ c.wsplit = 1 /\ (na = 1 \/ t # 0) THEN {0, 1}
                  ELSE IF HasW(c) /\ nw = 0 /\ c.wsplit = 0 /\ t # 0 /\ ah = 0 THEN {1}
                  ELSE {0}
  IN UNION { { <<IF t = 0 THEN 0 ELSE 1, t, w, r>> : w \in WOpts(t), r \in {0, 1} } : t \in AOpts }
\* c.late = 0: a slave that let the time-out expire does not accept that request any more (it is dead or
\* absent) - the cycle in which the timer expires (waitc = c.t) is the last one in which it may; c.late = 1: it
\* may still accept it while the interconnect is terminating it
CanAcc(c) == c.late = 1 \/ (forced = 0 /\ waitc <= c.t)
\* c.partial = 0: the slave takes address and data of a write in the same cycle or not at all; 1: separately;
\* 2: separately, and the half it has taken keeps its READY line at will afterwards (ready without valid is
\* legal and accepts nothing: the master does not start another request before the slave has answered, see Fresh)
SlaveMoves(c) == { x \in
                   { <<a, w, r>> : a \in (IF (sa = 0 /\ CanAcc(c)) \/ (sa = 1 /\ c.partial = 2) THEN {0, 1} ELSE {0}),
                                 w \in (IF HasW(c) /\ ((sw = 0 /\ CanAcc(c)) \/ (sw = 1 /\ c.partial = 2)) THEN {0, 1} ELSE {0}),
                                 r \in (IF rh = 1 THEN {1} ELSE {0, 1}) } :
                   (HasW(c) /\ c.partial = 0) => x[1] = x[2] }
Inputs(c) == { m \o s : m \in MasterMoves(c), s \in SlaveMoves(c) }

CInit ==
  /\ ah = 0 /\ wh = 0 /\ na = 0 /\ nw = 0 /\ sa = 0 /\ sw = 0 /\ rh = 0 /\ mrh = <<>> /\ waitc = 0 /\ owedc = 0 /\ forced = 0
  /\ obs = [okintime |-> TRUE, oknoearly |-> TRUE, okerr |-> TRUE, okresp |-> TRUE, okanswered |-> TRUE,
            okhold |-> TRUE, prog |-> TRUE, rr |-> FALSE]

CStep(c, iv, o) ==
  LET av == iv[1]  tgt == iv[2]  wv == iv[3]  rr == iv[4]
      mAfire == av = 1 /\ o[1] = 1
      mWfire == wv = 1 /\ o[2] = 1
      mRfire == o[3] = 1 /\ rr = 1
      owed   == sa = 1 /\ (HasW(c) => sw = 1)
      sRvalid == iv[7] = 1 /\ (owed \/ rh = 1)
      sAfire == o[6] = 1 /\ iv[5] = 1
      sWfire == o[7] = 1 /\ iv[6] = 1
      sRfire == sRvalid /\ o[8] = 1
      \* acceptance / response made up by the interconnect itself
      synthA == mAfire /\ ~sAfire
      synthW == mWfire /\ ~sWfire
      synthR == o[3] = 1 /\ ~sRvalid
      waiting == (av = 1 /\ ~mAfire) \/ (wv = 1 /\ ~mWfire)
      expired == waitc >= c.t
      outstanding == na = 1 /\ (HasW(c) => nw = 1)
  IN
  /\ ah' = IF av = 1 /\ ~mAfire THEN tgt ELSE 0
  /\ wh' = IF wv = 1 /\ ~mWfire THEN 1 ELSE 0
  /\ na' = IF mRfire THEN 0 ELSE IF mAfire THEN 1 ELSE na
  /\ nw' = IF mRfire THEN 0 ELSE IF mWfire THEN 1 ELSE nw
  /\ sa' = IF sRfire THEN 0 ELSE IF sAfire THEN 1 ELSE sa
  /\ sw' = IF sRfire THEN 0 ELSE IF sWfire THEN 1 ELSE sw
  /\ rh' = IF sRvalid /\ ~sRfire THEN 1 ELSE 0
  /\ mrh' = IF o[3] = 1 /\ ~mRfire THEN <<o[4]>> ELSE <<>>
  /\ waitc' = IF waiting THEN (IF waitc > c.t + c.slack THEN waitc ELSE waitc + 1) ELSE 0
  /\ owedc' = IF outstanding /\ o[3] = 0 THEN (IF owedc > c.t + c.slack THEN owedc ELSE owedc + 1) ELSE 0
  /\ forced' = IF mRfire THEN 0
               ELSE IF forced = 1 \/ ((synthA \/ synthW \/ synthR \/ o[5] = 1) /\ expired) THEN 1 ELSE 0
  /\ obs' = [ \* an offer nobody accepts is terminated within the configured number of cycles
              okintime |-> waitc <= c.t + c.slack,
              \* requests answered in time are not disturbed: nothing is made up before the time-out
              oknoearly |-> /\ (synthA \/ synthW \/ synthR) => (expired \/ forced = 1)
                            \* the error pulse belongs to an offer that is still waiting in this very cycle
                            /\ (o[5] = 1 => (expired /\ waiting)),
              \* a made-up response says SLVERR (with all-ones data on reads)
              okerr |-> synthR => o[4] = 2,
              \* a response of the slave reaches the master unchanged
              okresp |-> (sRvalid /\ o[3] = 1 /\ ~synthR) => o[4] = 1,
              \* a request that was accepted is answered within the configured number of cycles too
              okanswered |-> owedc <= c.t + c.slack,
              okhold |-> mrh # <<>> => (o[3] = 1 /\ o[4] = mrh[1]),
              prog |-> mAfire \/ mWfire \/ mRfire \/ (av = 0 /\ wv = 0 /\ na = 0 /\ nw = 0),
              rr |-> rr = 1 ]

OffersTerminatedInTime == obs.okintime
NoDisturbance         == obs.oknoearly
ErrorIndication       == obs.okerr
SlaveResponsePassed   == obs.okresp
AcceptedRequestsAnsweredInTime == obs.okanswered
ResponseHold          == obs.okhold
=============================================================================
