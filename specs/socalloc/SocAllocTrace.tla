--------------------------- MODULE SocAllocTrace ---------------------------
(* C13 - judge of the recorded call histories.                               *)
(*                                                                           *)
(* The harness performed every history enumerated by SocAlloc on the real    *)
(* LiteX objects and recorded, for every PREFIX of every history (a node of  *)
(* the prefix tree), the call, its outcome ("ok" or the exception class),    *)
(* the projected API-visible state after the call and the outcome of         *)
(* finalizing the bus handler right after that prefix.  TLC walks the tree   *)
(* (one state per node, the error trace of a node is its call history) and   *)
(* evaluates one INVARIANT per clause of the property at every node.         *)
(*                                                                           *)
(* Reading of the statement: a request that was REJECTED ends the design     *)
(* (SoCError; the harness does not continue such a history - platform        *)
(* requests excepted, whose ConstraintError callers do catch).  A state      *)
(* reached by successful requests must be legal, or finalizing it must fail: *)
(* every bus clause is therefore evaluated on ACCEPTED nodes = all calls     *)
(* succeeded and finalize succeeded.  CSR/IRQ locations and platform         *)
(* resources have no finalize step in their allocators (fin = "n/a").        *)
(*                                                                           *)
(* All addresses are in units (address space = AS = 16 units).               *)
EXTENDS Integers, Sequences, FiniteSets, TLC, Json, IOUtils

D   == JsonDeserialize(IOEnv.TRACES)
N   == D.nodes          \* the prefix tree; node 1 is the root
DEC == D.dec            \* decoder facts, referenced by region.dec
CF  == D.cfgs           \* configurations, referenced by node.cf

AS    == 16
AUTO  == -1
LAUTO == -100

VARIABLE n
vars == <<n>>

Rng(s) == {s[j] : j \in 1..Len(s)}
RECURSIVE P2r(_, _)
P2r(s, p) == IF p >= s THEN p ELSE P2r(s, 2 * p)
P2(s) == P2r(s, 1)                       \* the decoded (power-of-two) size of a size
Par(i) == N[N[i].p]
Judged(i, f) == N[i].f = f               \* root and configuration nodes have f = "root"
Accepted(i) == N[i].out = "ok" /\ N[i].fin \in {"ok", "n/a"}
IdxPairs(s) == {q \in (1..Len(s)) \X (1..Len(s)) : q[1] < q[2]}

-----------------------------------------------------------------------------
(* --------------------------------- bus ---------------------------------- *)
(* region record: n name, o origin, s size, fr (origin or size not on the   *)
(* unit grid: o, s are then floor/ceil), c cached, lk linker, dc decode,    *)
(* au (requested with origin None), ioc (io_regions_check was on and the    *)
(* origin was fixed), k (position of the creating call), sl (a slave is     *)
(* attached), dec (index into DEC).  IO region record: n, o, s, k.          *)
Ovl(a1, b1, a2, b2) == a1 < b2 /\ a2 < b1
ExtOvl(r, q) == Ovl(r.o, r.o + r.s, q.o, q.o + q.s)
WinOvl(r, q) == Ovl(r.o, r.o + P2(r.s), q.o, q.o + P2(q.s))
Builds(i) == N[i].ic \notin {"none", "p2p"}     \* finalize built address decoders

(* regions are pairwise disjoint; two decoded regions are disjoint on their  *)
(* power-of-two windows.  Linker regions are exempt (check_regions_overlap   *)
(* documents them as software-only aliases).                                *)
BrkDisjoint(i) ==
  LET R == N[i].regs IN
  { IF ExtOvl(R[q[1]], R[q[2]]) THEN "regions_overlap" ELSE "decode_windows_of_two_slaves_overlap" :
      q \in { q \in IdxPairs(R) :
                /\ ~R[q[1]].lk /\ ~R[q[2]].lk
                /\ \/ ExtOvl(R[q[1]], R[q[2]])
                   \/ (R[q[1]].sl /\ R[q[2]].sl /\ Builds(i) /\ WinOvl(R[q[1]], R[q[2]])) } }

(* allocated regions and regions that get an address decoder are aligned to  *)
(* their decoded size                                                        *)
BrkAligned(i) ==
  LET R == N[i].regs IN
  { IF R[j].au THEN "auto_region_misaligned" ELSE "decoded_region_misaligned" :
      j \in { j \in 1..Len(R) : /\ R[j].au \/ (R[j].sl /\ R[j].dc /\ Builds(i))
                                /\ R[j].fr \/ R[j].o % P2(R[j].s) # 0 } }

BrkInside(i) ==
  { "auto_region_outside_address_space" :
      r \in { r \in Rng(N[i].regs) : r.au /\ (r.o < 0 \/ r.o + r.s > AS) } }

(* "inside an IO region" as the code itself defines it for fixed origins     *)
(* (check_region_is_in): origin..origin+size within the declared IO extent   *)
InExt(r, io) == io.o <= r.o /\ r.o + r.s <= io.o + io.s
InWin(r, io) == io.o <= r.o /\ r.o + r.s <= io.o + P2(io.s)
IOat(i, r) == { io \in Rng(N[i].ios) : io.k < r.k }     \* IO regions declared before r

BrkUncachedIO(i) ==
  { IF r.au THEN IF \E io \in IOat(i, r) : InWin(r, io)
                 THEN "auto_uncached_in_pow2_slack_of_io_region"
                 ELSE "auto_uncached_outside_every_io_region"
    ELSE "fixed_uncached_outside_io_region" :
      r \in { r \in Rng(N[i].regs) : /\ ~r.c /\ (r.au \/ r.ioc)
                                     /\ ~\E io \in IOat(i, r) : InExt(r, io) } }

BrkCachedIO(i) ==
  { "fixed_cached_inside_io_region" :
      r \in { r \in Rng(N[i].regs) : r.c /\ ~r.au /\ r.ioc /\ \E io \in IOat(i, r) : InExt(r, io) } }

(* decoder facts: DEC[r.dec] is a sequence of views [k, err, sel]; a view    *)
(* probed k word addresses in each of the AS units (all word addresses of a  *)
(* reduced-width bus; first two and last two words of every unit of the real *)
(* bus) and sel lists the probes u*k+j the real decoder expression accepted  *)
ExpSel(K, r) == { u * K + j : u \in { u \in 0..(AS - 1) : r.o <= u /\ u < r.o + P2(r.s) }, j \in 0..(K - 1) }
BrkDecoder(i) ==
  UNION { { IF Rng(v.sel) \subseteq ExpSel(v.k, r)
            THEN "decoder_misses_addresses_of_its_window"
            ELSE "decoder_accepts_addresses_outside_its_window" :
              v \in { v \in Rng(DEC[r.dec]) : ~v.err /\ Rng(v.sel) # ExpSel(v.k, r) } } :
          r \in { r \in Rng(N[i].regs) : r.dc /\ ~r.fr } }

(* the decoders SoCBusHandler.finalize actually handed to the interconnect it built (the harness   *)
(* wraps the interconnect class for the duration of finalize): fds = sequence of [n, k, err, sel], *)
(* n = the name under which the guarded slave interface was granted, sel = the probes u*k+j (first *)
(* and last word of every unit of the real bus) the decoder accepts.  The decoder in front of a    *)
(* slave must be the one of the region granted under the slave's name: exactly its window (every   *)
(* address when the region's decoder is disabled).                                                 *)
FdWant(f, r) == IF r.dc THEN ExpSel(f.k, r) ELSE 0..(AS * f.k - 1)
BrkFinalDecoder(i) ==
  IF ~Builds(i) THEN {} ELSE
  LET R == N[i].regs
      Known(f) == \E r \in Rng(R) : r.n = f.n
      Reg(f) == CHOOSE r \in Rng(R) : r.n = f.n
  IN  { IF ~Known(f) THEN "interconnect_decoder_in_front_of_unknown_slave"
        ELSE IF f.err THEN "interconnect_decoder_cannot_be_evaluated"
        ELSE IF Rng(f.sel) \subseteq FdWant(f, Reg(f)) THEN "interconnect_decoder_misses_addresses_of_its_slaves_window"
        ELSE "interconnect_decoder_accepts_addresses_outside_its_slaves_window" :
          f \in { f \in Rng(N[i].fds) :
                    \/ ~Known(f)
                    \/ f.err
                    \/ ~Reg(f).fr /\ Rng(f.sel) # FdWant(f, Reg(f)) } }

MinLen(a, b) == IF Len(a) < Len(b) THEN Len(a) ELSE Len(b)
BrkSelectsTwo(i) ==
  LET R == N[i].regs IN
  IF ~Builds(i) THEN {} ELSE
  { IF R[q[1]].lk \/ R[q[2]].lk THEN "address_selects_two_slaves_one_in_a_linker_region"
    ELSE "address_selects_two_slaves" :
      q \in { q \in IdxPairs(R) :
                /\ R[q[1]].sl /\ R[q[2]].sl
                /\ \E vi \in 1..MinLen(DEC[R[q[1]].dec], DEC[R[q[2]].dec]) :
                      LET v1 == DEC[R[q[1]].dec][vi]
                          v2 == DEC[R[q[2]].dec][vi]
                      IN  ~v1.err /\ ~v2.err /\ Rng(v1.sel) \cap Rng(v2.sel) # {} } }

(* names: a successful request never re-grants a name and never alters or    *)
(* drops what an earlier request was granted                                 *)
RegNames(i) == { r.n : r \in Rng(N[i].regs) } \cup { r.n : r \in Rng(N[i].ios) }
Core(r) == <<r.n, r.o, r.s, r.k>>
BrkBusNames(i) ==
  LET c == N[i].call
      P == Par(i)
  IN  (IF c.op \in {"add", "io"} /\ c.nm \in RegNames(N[i].p) THEN {"region_name_granted_twice"} ELSE {})
      \cup (IF ((c.op = "add" /\ c.sl) \/ c.op = "att") /\ c.nm \in Rng(P.sls)
            THEN {"slave_name_granted_twice"} ELSE {})
      \cup (IF c.op = "att" /\ c.nm \notin { r.n : r \in Rng(P.regs) }
            THEN {"slave_attached_to_unknown_region"} ELSE {})
      \cup (IF c.op = "mst" /\ c.nm \in Rng(P.ms) THEN {"master_name_granted_twice"} ELSE {})
      \cup (IF /\ { Core(r) : r \in Rng(P.regs) } \subseteq { Core(r) : r \in Rng(N[i].regs) }
               /\ { Core(r) : r \in Rng(P.ios) } \subseteq { Core(r) : r \in Rng(N[i].ios) }
               /\ Rng(P.ms) \subseteq Rng(N[i].ms) /\ Rng(P.sls) \subseteq Rng(N[i].sls)
            THEN {} ELSE {"earlier_grant_altered"})
      \cup (IF Cardinality(RegNames(i)) = Len(N[i].regs) + Len(N[i].ios) THEN {} ELSE {"duplicate_names_in_state"})

(* what was granted covers what was requested                               *)
BrkBusGrant(i) ==
  LET c == N[i].call IN
  IF c.op = "add"
  THEN IF \E r \in Rng(N[i].regs) : /\ r.n = c.nm /\ r.k = N[i].d /\ r.s >= c.s
                                    /\ c.o # AUTO => (r.o = c.o /\ ~r.fr)
       THEN {} ELSE {"granted_region_differs_from_request"}
  ELSE IF c.op = "io"
  THEN IF \E r \in Rng(N[i].ios) : r.n = c.nm /\ r.k = N[i].d /\ r.s >= c.s /\ r.o = c.o
       THEN {} ELSE {"granted_io_region_differs_from_request"}
  ELSE {}

BusBroken(i) ==
  { <<"PairwiseDisjoint", x>> : x \in BrkDisjoint(i) } \cup
  { <<"AlignedToDecodedSize", x>> : x \in BrkAligned(i) } \cup
  { <<"InsideAddressSpace", x>> : x \in BrkInside(i) } \cup
  { <<"UncachedInsideIO", x>> : x \in BrkUncachedIO(i) } \cup
  { <<"CachedOutsideIO", x>> : x \in BrkCachedIO(i) } \cup
  { <<"DecoderExact", x>> : x \in BrkDecoder(i) } \cup
  { <<"NoAddressSelectsTwo", x>> : x \in BrkSelectsTwo(i) } \cup
  { <<"InterconnectDecoders", x>> : x \in BrkFinalDecoder(i) } \cup
  { <<"NameUnique", x>> : x \in BrkBusNames(i) } \cup
  { <<"GrantCoversRequest", x>> : x \in BrkBusGrant(i) }

-----------------------------------------------------------------------------
(* --------------------------------- loc ---------------------------------- *)
(* node: call [op "loc", nm, n, re], locs = sequence of [n name, v number,    *)
(* au (number chosen by the allocator), k (position of the creating call)]   *)
NL(i) == CF[N[i].cf].nl
BrkLocUnique(i) ==
  LET L == N[i].locs IN
  { "location_granted_to_two_names" : q \in { q \in IdxPairs(L) : L[q[1]].v = L[q[2]].v } }
BrkLocRange(i) ==
  { IF l.au THEN (IF l.v = NL(i) THEN "allocated_n_eq_n_locs" ELSE IF l.v > NL(i) THEN "allocated_n_above_n_locs"
                  ELSE "allocated_n_negative")
    ELSE (IF l.v = NL(i) THEN "fixed_n_eq_n_locs" ELSE IF l.v > NL(i) THEN "fixed_n_above_n_locs"
          ELSE "fixed_n_negative") :
      l \in { l \in Rng(N[i].locs) : l.v < 0 \/ l.v >= NL(i) } }
BrkLocNames(i) ==
  LET c == N[i].call
      P == Par(i)
  IN  (IF ~c.re /\ c.nm \in { l.n : l \in Rng(P.locs) } THEN {"loc_name_granted_twice"} ELSE {})
      \cup (IF Rng(P.locs) \subseteq Rng(N[i].locs) THEN {} ELSE {"earlier_grant_altered"})
      \cup (IF Cardinality({ l.n : l \in Rng(N[i].locs) }) = Len(N[i].locs) THEN {} ELSE {"duplicate_names_in_state"})
BrkLocGrant(i) ==
  LET c == N[i].call
      reused == c.re /\ c.nm \in { l.n : l \in Rng(Par(i).locs) }
  IN  IF \E l \in Rng(N[i].locs) : l.n = c.nm /\ (c.n = LAUTO \/ reused \/ l.v = c.n)
      THEN {} ELSE {"granted_location_differs_from_request"}

LocBroken(i) ==
  { <<"LocUnique", x>> : x \in BrkLocUnique(i) } \cup
  { <<"LocInRange", x>> : x \in BrkLocRange(i) } \cup
  { <<"NameUnique", x>> : x \in BrkLocNames(i) } \cup
  { <<"GrantCoversRequest", x>> : x \in BrkLocGrant(i) }

-----------------------------------------------------------------------------
(* --------------------------------- plat --------------------------------- *)
(* node: call [op, nm, sub, u (-1 = None), lo], out "ok" | "none" | class,   *)
(* ret [t "none"|"obj"|"sub"|"cat"|"unknown", ids, sub], av = available      *)
(* [n, u], mt = matched [n, u, id] (id = identity of the granted object),    *)
(* pins = get_sig_constraints() flattened [pin, n, u]                        *)
Key(x) == <<x.n, x.u>>
Keys(s) == { Key(x) : x \in Rng(s) }
Univ(i) == CF[N[i].cf].io
BrkGrantedOnce(i) ==
  LET M == N[i].mt
      A == N[i].av
      c == N[i].call
      P == Par(i)
      New == { m \in Rng(M) : m.id \notin { x.id : x \in Rng(P.mt) } }
  IN  (IF \E q \in IdxPairs(M) : Key(M[q[1]]) = Key(M[q[2]]) THEN {"resource_matched_twice"} ELSE {})
      \cup (IF \E q \in IdxPairs(M) : M[q[1]].id = M[q[2]].id THEN {"object_shared_by_two_resources"} ELSE {})
      \cup (IF Keys(M) \cap Keys(A) # {} THEN {"matched_resource_still_available"} ELSE {})
      \cup (IF /\ Keys(M) \cup Keys(A) = Keys(Univ(i))
               /\ Len(M) + Len(A) = Len(Univ(i))
            THEN {} ELSE {"resource_lost_or_invented"})
      \cup (IF \E q \in IdxPairs(N[i].pins) : N[i].pins[q[1]].pin = N[i].pins[q[2]].pin
            THEN {"pin_constrained_twice"} ELSE {})
      \cup (IF Keys(N[i].pins) \subseteq Keys(M) THEN {} ELSE {"pin_of_unmatched_resource"})
      \cup (IF Rng(P.mt) \subseteq Rng(M) THEN {} ELSE {"earlier_grant_altered"})
      \cup (IF c.op = "request" /\ N[i].out = "ok" /\
               ~(\E m \in New : /\ New = {m} /\ m.n = c.nm /\ (c.u = -1 \/ m.u = c.u)
                                /\ Key(m) \in Keys(P.av) /\ N[i].ret.t = "obj" /\ N[i].ret.ids = <<m.id>>)
            THEN {"request_granted_wrong_resource"} ELSE {})
      \cup (IF c.op \in {"request_all", "request_remaining"} /\ N[i].out = "ok" /\
               ~(/\ New # {} /\ \A m \in New : m.n = c.nm /\ Key(m) \in Keys(P.av)
                 /\ N[i].ret.t = "cat" /\ Rng(N[i].ret.ids) = { m.id : m \in New }
                 /\ Len(N[i].ret.ids) = Cardinality(New))
            THEN {"request_all_granted_wrong_resources"} ELSE {})

BrkLookup(i) ==
  LET c == N[i].call
      P == Par(i)
  IN  IF c.op # "lookup_request" THEN {} ELSE
      (IF N[i].mt = P.mt /\ N[i].av = P.av THEN {} ELSE {"lookup_changed_state"})
      \cup (IF N[i].out = "ok" /\
               ~(\E m \in Rng(P.mt) : /\ m.n = c.nm /\ (c.u = -1 \/ m.u = c.u)
                                      /\ N[i].ret.ids = <<m.id>>
                                      /\ IF c.sub = "" THEN N[i].ret.t = "obj"
                                         ELSE N[i].ret.t = "sub" /\ N[i].ret.sub = c.sub)
            THEN {"lookup_returned_unmatched_or_wrong_resource"} ELSE {})

PlatBroken(i) ==
  { <<"ResourceGrantedOnce", x>> : x \in BrkGrantedOnce(i) } \cup
  { <<"LookupOnlyMatched", x>> : x \in BrkLookup(i) }

-----------------------------------------------------------------------------
(* harness obligations (not properties of the code): the provenance the      *)
(* harness attached to regions agrees with the calls it made                 *)
EnvBad(i) ==
  IF Judged(i, "bus") /\ N[i].out = "ok" /\ N[i].call.op = "add"
  THEN \E r \in Rng(N[i].regs) : r.n = N[i].call.nm /\ r.k = N[i].d /\ r.au # (N[i].call.o = AUTO)
  ELSE FALSE

Broken(i) ==
  IF Judged(i, "bus") THEN (IF Accepted(i) THEN BusBroken(i) ELSE {})
  ELSE IF Judged(i, "loc") THEN (IF Accepted(i) THEN LocBroken(i) ELSE {})
  ELSE IF Judged(i, "plat") THEN PlatBroken(i)       \* failed platform requests are judged too
  ELSE {}

Init == n = 1
Next == \E j \in 1..Len(N[n].k) : n' = N[n].k[j]
Spec == Init /\ [][Next]_vars

(* listed as the first INVARIANT: always true; prints, once per node, ALL broken  *)
(* clauses with their classes (TLC itself names only the first violated invariant *)
(* of a state).  The harness cross-checks these lines against the violations TLC  *)
(* reports for the invariants below.                                              *)
Verdicts == Broken(n) = {} \/ PrintT(ToString(<<"BAD", n, Broken(n)>>))

-----------------------------------------------------------------------------
(* ------------------- the clauses, one INVARIANT each -------------------- *)
BusOK(i)  == ~(Judged(i, "bus") /\ Accepted(i))
LocOK(i)  == ~(Judged(i, "loc") /\ Accepted(i))

EnvLegal             == ~EnvBad(n)
PairwiseDisjoint     == BusOK(n) \/ BrkDisjoint(n) = {}
AlignedToDecodedSize == BusOK(n) \/ BrkAligned(n) = {}
InsideAddressSpace   == BusOK(n) \/ BrkInside(n) = {}
UncachedInsideIO     == BusOK(n) \/ BrkUncachedIO(n) = {}
CachedOutsideIO      == BusOK(n) \/ BrkCachedIO(n) = {}
DecoderExact         == BusOK(n) \/ BrkDecoder(n) = {}
NoAddressSelectsTwo  == BusOK(n) \/ BrkSelectsTwo(n) = {}
InterconnectDecoders == BusOK(n) \/ BrkFinalDecoder(n) = {}
LocUnique            == LocOK(n) \/ BrkLocUnique(n) = {}
LocInRange           == LocOK(n) \/ BrkLocRange(n) = {}
NameUnique           == /\ BusOK(n) \/ BrkBusNames(n) = {}
                        /\ LocOK(n) \/ BrkLocNames(n) = {}
GrantCoversRequest   == /\ BusOK(n) \/ BrkBusGrant(n) = {}
                        /\ LocOK(n) \/ BrkLocGrant(n) = {}
ResourceGrantedOnce  == ~Judged(n, "plat") \/ BrkGrantedOnce(n) = {}
LookupOnlyMatched    == ~Judged(n, "plat") \/ BrkLookup(n) = {}
(* the statement's last sentence: a state that breaks any bus clause may     *)
(* exist only as long as finalizing it fails                                 *)
RejectedAtLatestAtFinalize ==
  (Judged(n, "bus") /\ N[n].out = "ok" /\ BusBroken(n) # {}) => N[n].fin # "ok"
=============================================================================
