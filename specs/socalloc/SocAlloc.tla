------------------------------ MODULE SocAlloc ------------------------------
(* C13 - SoC resource allocation.  This module specifies the SPACE OF CALL    *)
(* HISTORIES that a design may make against the three allocators of LiteX:   *)
(*                                                                           *)
(*   Family = "bus"  : SoCBusHandler.add_region / add_slave / add_master     *)
(*                     (SoCRegion with fixed or automatic origin, arbitrary  *)
(*                     sizes, cached/uncached, linker, decode; SoCIORegion)  *)
(*   Family = "loc"  : SoCCSRHandler.add / SoCIRQHandler.add (SoCLocHandler) *)
(*   Family = "plat" : GenericPlatform.request / request_all /               *)
(*                     request_remaining / lookup_request                    *)
(*                                                                           *)
(* TLC enumerates every history of every scenario below (a scenario = a set  *)
(* of configurations, a set of prefixes, an alphabet of calls and a length)  *)
(* and prints each maximal history once (Mode = "x"); scenarios marked       *)
(* mode "s" (long histories over wide alphabets) are sampled instead with    *)
(* tlc -simulate -seed.  The harness performs the histories on the real      *)
(* objects and SocAllocTrace judges every prefix.  Nothing here says which   *)
(* calls succeed: that is the implementation's answer.                       *)
(*                                                                           *)
(* The universe is scaled: the bus address space has AS = 16 units; the      *)
(* harness maps a unit to 2^(address_width-4) bytes (2^28 on the 32-bit bus, *)
(* 2^60 on the 64-bit bus), so all TLC arithmetic stays tiny.                *)
EXTENDS Integers, Sequences, FiniteSets, TLC

CONSTANTS Family,      \* "bus" | "loc" | "plat"
          Tier,        \* "quick" | "thorough"
          Mode         \* "x": scenarios enumerated exhaustively (BFS, every history printed)
                       \* "s": scenarios too large for that, sampled with tlc -simulate -seed

VARIABLES sid, cfg, h, left
vars == <<sid, cfg, h, left>>

AS    == 16            \* address space in units
AUTO  == -1            \* origin None  : ask the allocator
LAUTO == -100          \* location None: ask the allocator
Quick == Tier = "quick"

Fresh == <<"r1", "r2", "r3", "r4", "r5", "r6", "r7", "r8", "r9">>

-----------------------------------------------------------------------------
(* ------------------------------ bus family ------------------------------ *)
(* configuration <<id, standard, address_width, data_width, masters added   *)
(* before the history (named cpu0, cpu1), io_regions_check, interconnect,   *)
(* rsv>>.  rsv = k > 0: the first k calls of a history are not made one by  *)
(* one but handed to the constructor as SoCBusHandler(reserved_regions =    *)
(* {name: region, ...}) (what SoC(bus_reserved_regions = ...) does); they   *)
(* can only be add_region requests with fresh names (Usable below).         *)
WB32  == <<"wb32",   "wishbone", 32, 32, 2, 1, "shared", 0>>
WB64  == <<"wb64",   "wishbone", 64, 64, 2, 1, "shared", 0>>
WB32X == <<"wb32x",  "wishbone", 32, 32, 2, 1, "crossbar", 0>>
AXL32 == <<"axl32",  "axi-lite", 32, 64, 2, 1, "shared", 0>>
WBM0  == <<"wb32m0", "wishbone", 32, 32, 0, 1, "shared", 0>>
WBM1  == <<"wb32m1", "wishbone", 32, 32, 1, 1, "shared", 0>>
WBNC  == <<"wb32nc", "wishbone", 32, 32, 2, 0, "shared", 0>>   \* CPUNone: IO check off
WB32R2 == <<"wb32r2", "wishbone", 32, 32, 2, 1, "shared", 2>>  \* two reserved regions
WB32R3 == <<"wb32r3", "wishbone", 32, 32, 2, 1, "shared", 3>>
WB64R2 == <<"wb64r2", "wishbone", 64, 64, 2, 1, "shared", 2>>

(* call templates <<op, dup, o, s, c, lk, sl, dc>>:                          *)
(*  op "add": region = SoCRegion(origin = o (None if AUTO), size = s,        *)
(*            cached = c, linker = lk, decode = dc); sl = 1: add_slave(name, *)
(*            slave, region) else add_region(name, region)                   *)
(*  op "io" : add_region(name, SoCIORegion(origin = o, size = s))            *)
(*  op "att": add_slave(name, slave)  (region looked up by name)             *)
(*  op "mst": add_master(name, master)                                       *)
(*  dup = 0 : a fresh name; dup = j > 0: the name used by call j of the      *)
(*  history; dup = -1: the name "cpu0" of a master the configuration added   *)
Fx(O, S, C, F) == {<<"add", 0, o, s, c, f[1], f[2], 1>> : o \in O, s \in S, c \in C, f \in F}
Au(S, C, SL)   == {<<"add", 0, AUTO, s, c, 0, sl, 1>> : s \in S, c \in C, sl \in SL}
Io(O, S)       == {<<"io", 0, o, s, 0, 0, 0, 1>> : o \in O, s \in S}
IoT(o, s)      == <<"io", 0, o, s, 0, 0, 0, 1>>
Dup(T, j)      == {<<t[1], j>> \o SubSeq(t, 3, 8) : t \in T}
NoDec(T)       == {SubSeq(t, 1, 7) \o <<0>> : t \in T}

PlainSlave == {<<0, 1>>}
AnyKind    == {<<0, 0>>, <<0, 1>>, <<1, 0>>}        \* <<linker, slave>>

BusScenarios ==
  { \* all pairs (thorough: triples) of fixed regions: overlap on rounded sizes, alignment
    [mode |-> "x", id |-> "pair", cfgs |-> IF Quick THEN {WB32} ELSE {WB32, WB64, AXL32, WB32X}, pres |-> {<<>>}, len |-> 2,
     alpha |-> Fx({0, 1, 2, 3, 4, 6, 8, 12, 15}, 1..5, {1}, AnyKind)],
    [mode |-> "x", id |-> "triple", cfgs |-> {WB32}, pres |-> {<<>>}, len |-> 3,
     alpha |-> IF Quick THEN Fx({0, 2, 4, 8}, {1, 3, 4}, {1}, {<<0, 1>>, <<1, 0>>})
               ELSE Fx({0, 2, 3, 4, 8, 12}, {1, 3, 4, 5}, {1}, AnyKind)],
    \* first-fit allocation of cached regions between/after fixed ones, exhaustion of the space
    [mode |-> "x", id |-> "autoc", cfgs |-> IF Quick THEN {WB32, WB64} ELSE {WB32, WB64, AXL32}, pres |-> {<<>>},
     len |-> IF Quick THEN 3 ELSE 4,
     alpha |-> Au({1, 2, 3, 4, 5, 8}, {1}, {1}) \cup Fx({0, 1, 4, 8, 12}, {1, 3, 4}, {1}, PlainSlave)
               \cup Fx({0, 4}, {3}, {1}, {<<1, 0>>})],
    [mode |-> "x", id |-> "autodeep", cfgs |-> {WB32}, pres |-> {<<>>}, len |-> IF Quick THEN 4 ELSE 5,
     alpha |-> Au({1, 3, 4, 5}, {1}, {1}) \cup Fx({1, 4, 8}, {1, 3}, {1}, PlainSlave)],
    \* uncached (IO) allocation inside 0-2 IO regions of power-of-two and other sizes
    [mode |-> "x", id |-> "iou", cfgs |-> IF Quick THEN {WB32} ELSE {WB32, WB64},
     pres |-> {<<>>, <<IoT(8, 4)>>, <<IoT(8, 3)>>, <<IoT(8, 5)>>, <<IoT(0, 3), IoT(8, 6)>>, <<IoT(4, 4), IoT(8, 8)>>},
     len |-> IF Quick THEN 3 ELSE 4,
     alpha |-> Au({1, 2, 3, 4}, {0}, {1}) \cup Au({1}, {1}, {1})
               \cup Fx({8, 10, 11, 12, 13}, {1}, {0, 1}, PlainSlave)],
    [mode |-> "x", id |-> "ioudeep", cfgs |-> {WB32},
     pres |-> {<<IoT(8, 3)>>, <<IoT(8, 5)>>, <<IoT(0, 3), IoT(8, 6)>>, <<IoT(8, 7)>>},
     len |-> IF Quick THEN 4 ELSE 5,
     alpha |-> Au({1, 2, 4}, {0}, {1}) \cup Fx({11, 13}, {1}, {0}, PlainSlave)],
    \* IO regions declared in any order, also overlapping ones, then regions
    [mode |-> "x", id |-> "iopair", cfgs |-> {WB32}, pres |-> {<<>>}, len |-> 3,
     alpha |-> Io({0, 4, 8, 12}, {3, 4, 5}) \cup Au({1}, {0}, {1}) \cup Fx({8, 12}, {1}, {0, 1}, PlainSlave)],
    \* names: regions, IO regions, slaves and masters with fresh and re-used names
    [mode |-> "x", id |-> "names", cfgs |-> {WB32}, pres |-> {<<>>}, len |-> IF Quick THEN 3 ELSE 4,
     alpha |-> LET A == Fx({0, 4, 8}, {1}, {1}, {<<0, 0>>, <<0, 1>>}) \cup Io({12}, {4})
               IN  A \cup Dup(A, 1) \cup Dup(A, 2)
                   \cup {<<"att", j, 0, 0, 0, 0, 0, 0>> : j \in {0, 1, 2}}
                   \cup {<<"mst", j, 0, 0, 0, 0, 0, 0>> : j \in {0, -1, 1}}],
    \* zero or one master: no interconnect / point-to-point paths of finalize
    [mode |-> "x", id |-> "masters", cfgs |-> {WBM0, WBM1}, pres |-> {<<>>}, len |-> 3,
     alpha |-> Fx({0, 2, 4}, {1, 4}, {1}, {<<0, 0>>, <<0, 1>>}) \cup Au({1, 3}, {1}, {1})
               \cup {<<"mst", 0, 0, 0, 0, 0, 0, 0>>}],
    \* whole-space region, origin beyond the space, disabled decoder
    [mode |-> "x", id |-> "edge", cfgs |-> {WB32}, pres |-> {<<>>}, len |-> IF Quick THEN 2 ELSE 3,
     alpha |-> LET A == Fx({0, 8, 16}, {1, 8, 16}, {1}, {<<0, 0>>, <<0, 1>>})
               IN  A \cup NoDec(A) \cup Au({8, 16}, {1}, {1})],
    \* IO check disabled (CPU-less SoC): fixed uncached regions anywhere
    [mode |-> "x", id |-> "noioc", cfgs |-> {WBNC}, pres |-> {<<>>, <<IoT(8, 4)>>}, len |-> 3,
     alpha |-> Fx({0, 8, 12}, {1, 3}, {0, 1}, PlainSlave) \cup Au({1, 3}, {0, 1}, {1})],
    \* slaves on linker regions (as LiteX does for the ethmac rx/tx buffers inside their parent)
    [mode |-> "x", id |-> "lkslave", cfgs |-> {WB32}, pres |-> {<<>>}, len |-> IF Quick THEN 2 ELSE 3,
     alpha |-> Fx({0, 2, 4}, {2, 4}, {1}, {<<0, 0>>, <<0, 1>>, <<1, 0>>, <<1, 1>>})],
    \* IO regions whose origin is NOT a multiple of the (rounded) size that is allocated in them: the
    \* allocator must align on the absolute address, not relative to the IO region; regions with and
    \* without a slave (only the former meet SoCRegion.decoder's own alignment check at finalize)
    [mode |-> "x", id |-> "iomis", cfgs |-> IF Quick THEN {WB32} ELSE {WB32, WB64},
     pres |-> {<<IoT(2, 6)>>, <<IoT(6, 5)>>, <<IoT(3, 4)>>, <<IoT(1, 3), IoT(10, 5)>>}, len |-> IF Quick THEN 3 ELSE 4,
     alpha |-> Au({1, 2, 3, 4}, {0}, {0, 1}) \cup Fx({3, 6, 10}, {1}, {0}, PlainSlave)],
    \* regions reserved through the constructor (SoC(bus_reserved_regions = ...)), then ordinary requests
    [mode |-> "x", id |-> "rsv", cfgs |-> IF Quick THEN {WB32R2} ELSE {WB32R2, WB32R3, WB64R2}, pres |-> {<<>>},
     len |-> 3,
     alpha |-> (IF Quick THEN Fx({0, 2, 4}, {1, 3}, {1}, {<<0, 0>>, <<0, 1>>, <<1, 0>>}) \cup Au({3}, {1}, {0, 1})
                              \cup Io({8}, {4}) \cup Fx({8}, {1}, {0}, {<<0, 0>>})
                ELSE Fx({0, 2, 4, 8}, {1, 3, 4}, {1}, {<<0, 0>>, <<0, 1>>, <<1, 0>>}) \cup Au({1, 3}, {1}, {0, 1})
                     \cup Io({8, 12}, {4}) \cup Fx({8, 12}, {1}, {0}, {<<0, 0>>}))
               \cup {<<"att", j, 0, 0, 0, 0, 0, 0>> : j \in {1, 2}}],
    \* long mixed histories over a wide alphabet: sampled (tlc -simulate), not enumerated
    [mode |-> "s", id |-> "deepmix", cfgs |-> {WB32, WB64},
     pres |-> {<<>>, <<IoT(8, 5)>>, <<IoT(8, 8)>>, <<IoT(0, 3), IoT(8, 6)>>}, len |-> 7,
     alpha |-> Au({1, 2, 3, 4, 5}, {0, 1}, {1}) \cup Au({1, 2, 3}, {0, 1}, {0})
               \cup Fx({0, 1, 2, 4, 6, 8, 12, 14}, {1, 2, 3}, {0, 1}, AnyKind)]
  }

BusResolve(hh, t) ==
  LET nm == IF t[2] = 0 THEN Fresh[Len(hh) + 1] ELSE IF t[2] = -1 THEN "cpu0" ELSE hh[t[2]][2]
  IN  <<t[1], nm>> \o SubSeq(t, 3, Len(t))

-----------------------------------------------------------------------------
(* ------------------------------ loc family ------------------------------ *)
(* configuration <<id, kind, n_locs, p1, p2>>: kind "csr": SoCCSRHandler     *)
(* (address_width = p1, paging = p2; one location per page of the CSR        *)
(* space); kind "irq": SoCIRQHandler(n_irqs = p1), enabled; "irqoff": not    *)
(* enabled.  n_locs is what the configuration asked for - the legal range    *)
(* of a location is 0 .. n_locs-1.                                           *)
(* rsv = k > 0: the first k requests are handed to the constructor as        *)
(* reserved_csrs = {name: n, ...} (what SoCCore does with its csr_map).      *)
CsrCfgR(id, aw, paging, k) == <<id, "csr", (4 * (2^aw)) \div paging, aw, paging, k>>
CsrCfg(id, aw, paging) == CsrCfgR(id, aw, paging, 0)
IrqCfg(id, n)          == <<id, "irq", n, n, 0, 0>>
LocCfgs == {CsrCfg("csr4", 14, 16384), IrqCfg("irq4", 4), IrqCfg("irq2", 2)}
           \cup (IF Quick THEN {} ELSE {CsrCfg("csr8", 14, 8192), <<"irqoff", "irqoff", 4, 4, 0, 0>>})

(* call template <<"loc", dup, n, use_loc_if_exists>>; n = LAUTO: automatic; *)
(* boundary numbers 0, n_locs-1, n_locs, n_locs+1 (rich: also -1 and 1)      *)
LocNumbers(nl, rich) == {LAUTO, 0, nl - 1, nl, nl + 1} \cup (IF rich THEN {-1, 1} ELSE {})
LocAlpha(nl, k, rich) == {<<"loc", d, n, r>> : d \in 0..(k - 1), n \in LocNumbers(nl, rich), r \in {0, 1}}
LocFill(nl)     == {<<"loc", 0, n, 0>> : n \in {LAUTO, 0, nl - 1, nl}}

LocScenarios ==
  { [mode |-> "x", id |-> "locs", cfgs |-> LocCfgs, pres |-> {<<>>}, len |-> 3, alpha |-> {}],
    [mode |-> "x", id |-> "locs4", cfgs |-> IF Quick THEN {} ELSE {CsrCfg("csr4", 14, 16384), IrqCfg("irq4", 4), IrqCfg("irq2", 2)},
     pres |-> {<<>>}, len |-> 4, alpha |-> {}],
    \* fill the handler completely: the allocator must refuse, not hand out n_locs
    [mode |-> "x", id |-> "locfill", cfgs |-> LocCfgs, pres |-> {<<>>}, len |-> IF Quick THEN 5 ELSE 6, alpha |-> {}],
    \* locations reserved through the constructor, then ordinary requests
    [mode |-> "x", id |-> "locrsv",
     cfgs |-> {CsrCfgR("csr4r2", 14, 16384, 2)} \cup (IF Quick THEN {} ELSE {CsrCfgR("csr4r3", 14, 16384, 3), CsrCfgR("csr8r2", 14, 8192, 2)}),
     pres |-> {<<>>}, len |-> IF Quick THEN 3 ELSE 4, alpha |-> {}],
    [mode |-> "s", id |-> "locdeep", cfgs |-> LocCfgs, pres |-> {<<>>}, len |-> 7, alpha |-> {}] }

LocAlphaOf(s, c, hh) == CASE s = "locs"    -> LocAlpha(c[3], Len(hh) + 1, ~Quick)
                          [] s = "locs4"   -> LocAlpha(c[3], Len(hh) + 1, FALSE)
                          [] s = "locrsv"  -> LocAlpha(c[3], Len(hh) + 1, FALSE)
                          [] s = "locdeep" -> LocAlpha(c[3], Len(hh) + 1, TRUE)
                          [] s = "locfill" -> LocFill(c[3])

LocResolve(hh, t) == <<t[1], IF t[2] = 0 THEN Fresh[Len(hh) + 1] ELSE hh[t[2]][2], t[3], t[4]>>

-----------------------------------------------------------------------------
(* ------------------------------ plat family ----------------------------- *)
(* configuration <<id, io>>; io = sequence of <<name, number, subsignals>>,  *)
(* subsignals = sequence of <<subsignal name ("" = plain Pins), pins>>       *)
PlatIO == << <<"led", 0, << <<"", <<"A0">> >> >> >>,
             <<"led", 1, << <<"", <<"A1">> >> >> >>,
             <<"ser", 0, << <<"tx", <<"B0">> >>, <<"rx", <<"B1">> >> >> >> >>
PlatCfgs == { <<"io3", PlatIO>> }

(* calls <<op, name, subsignal ("" = none; lookup_request("name:sub")),       *)
(* number (-1 = None), loose>>                                               *)
PlatAlphaOf(rich) ==
  LET ReqArgs == {<<"led", -1>>, <<"led", 0>>, <<"led", 1>>, <<"led", 2>>, <<"ser", -1>>, <<"ser", 0>>, <<"nope", -1>>}
      LkArgs  == {<<"led", "", -1>>, <<"led", "", 0>>, <<"led", "", 1>>, <<"ser", "", -1>>, <<"ser", "tx", -1>>,
                  <<"ser", "tx", 0>>, <<"nope", "", -1>>}
  IN  {<<"request", a[1], "", a[2], 0>> : a \in ReqArgs}
      \cup {<<"request", a[1], "", a[2], 1>> : a \in IF rich THEN ReqArgs ELSE {<<"led", -1>>, <<"led", 2>>, <<"nope", -1>>}}
      \cup {<<"request_all", nm, "", -1, 0>> : nm \in {"led", "ser", "nope"}}
      \cup {<<"request_remaining", nm, "", -1, 0>> : nm \in {"led"}}
      \cup {<<"lookup_request", a[1], a[2], a[3], 0>> : a \in LkArgs}
      \cup {<<"lookup_request", a[1], a[2], a[3], 1>> : a \in IF rich THEN LkArgs ELSE {<<"led", "", 1>>, <<"nope", "", -1>>}}

PlatScenarios ==
  { [mode |-> "x", id |-> "plat", cfgs |-> PlatCfgs, pres |-> {<<>>}, len |-> 3, alpha |-> PlatAlphaOf(~Quick)],
    [mode |-> "x", id |-> "plat4", cfgs |-> IF Quick THEN {} ELSE PlatCfgs, pres |-> {<<>>}, len |-> 4,
     alpha |-> PlatAlphaOf(FALSE)],
    [mode |-> "s", id |-> "platdeep", cfgs |-> PlatCfgs, pres |-> {<<>>}, len |-> 7, alpha |-> PlatAlphaOf(TRUE)] }

-----------------------------------------------------------------------------
AllScenarios == CASE Family = "bus"  -> BusScenarios
                  [] Family = "loc"  -> LocScenarios
                  [] Family = "plat" -> PlatScenarios
Scenarios == {s \in AllScenarios : s.mode = Mode /\ s.cfgs # {}}

(* size of each scenario's space, for the evidence: <<id, |cfgs|, |prefixes|, |alphabet|   *)
(* (0: grows with the position, loc family), length>>                                      *)
ASSUME PrintT(ToString(<<"SPACE", Family, Mode,
                         {<<s.id, Cardinality(s.cfgs), Cardinality(s.pres), Cardinality(s.alpha), s.len>> : s \in Scenarios}>>))
ScOf == [i \in {s.id : s \in Scenarios} |-> CHOOSE s \in Scenarios : s.id = i]

Alpha(hh) == IF Family = "loc" THEN LocAlphaOf(sid, cfg, hh) ELSE ScOf[sid].alpha
Resolve(hh, t) == CASE Family = "bus"  -> BusResolve(hh, t)
                    [] Family = "loc"  -> LocResolve(hh, t)
                    [] Family = "plat" -> t
(* dup refers to an earlier call; a call that is delivered through the constructor (position <= rsv) *)
(* is a plain request with a fresh name: a dict has one entry per name, and the constructor knows    *)
(* neither slaves nor use_loc_if_exists                                                              *)
Rsv == IF Family = "bus" THEN cfg[8] ELSE IF Family = "loc" THEN cfg[6] ELSE 0
Usable(hh, t) == CASE Family = "plat" -> TRUE
                   [] Family = "bus"  -> t[2] <= Len(hh) /\ (Len(hh) < Rsv => (t[1] \in {"add", "io"} /\ t[2] = 0 /\ t[7] = 0))
                   [] Family = "loc"  -> t[2] <= Len(hh) /\ (Len(hh) < Rsv => (t[2] = 0 /\ t[4] = 0))

RECURSIVE ResolveAll(_, _)
ResolveAll(hh, ts) == IF ts = <<>> THEN hh ELSE ResolveAll(Append(hh, Resolve(hh, Head(ts))), Tail(ts))

Init == /\ sid \in DOMAIN ScOf
        /\ cfg \in ScOf[sid].cfgs
        /\ \E p \in ScOf[sid].pres : h = ResolveAll(<<>>, p)
        /\ left = ScOf[sid].len

(* one more call *)
Extend == /\ left > 0
          /\ \E t \in Alpha(h) :
                /\ Usable(h, t)
                /\ h' = Append(h, Resolve(h, t))
          /\ left' = left - 1
          /\ UNCHANGED <<sid, cfg>>

(* a maximal history is printed exactly once: it is one state with one successor *)
(* (also under tlc -simulate, which evaluates every successor before choosing)   *)
Emit == /\ left = 0
        /\ PrintT(ToString(<<"H", Family, sid, cfg, h>>))
        /\ left' = -1
        /\ UNCHANGED <<sid, cfg, h>>

Next == Extend \/ Emit

Spec == Init /\ [][Next]_vars
=============================================================================
