----------------------------- MODULE StreamRoute -----------------------------
(***************************************************************************)
(* L1 contract of LiteX stream ROUTING elements with a dynamic selector    *)
(* (litex/soc/interconnect/stream.py: Multiplexer, Demultiplexer, Crossbar *)
(* = Multiplexer -> Demultiplexer, and their compositions with buffers),   *)
(* properties C03 (routing / order clauses) and C04 (hold / progress).     *)
(*                                                                         *)
(* Interface of one clock cycle (NP = 3 port slots, unused slots are 0):   *)
(*   iv = <<si, so,  v1,d1,f1,l1,  v2,d2,f2,l2,  v3,d3,f3,l3,  r1,r2,r3>>   *)
(*        si/so: value of the selector on the sink / source side,          *)
(*        v,d,f,l: offer (valid, data, first, last) of the producer at     *)
(*        sink slot i, r: ready of the consumer at source slot j           *)
(*   o  = <<k1,k2,k3,  w1,e1,g1,m1,  w2,e2,g2,m2,  w3,e3,g3,m3>>            *)
(*        k: ready of sink slot i; w,e,g,m: valid, data, first, last of    *)
(*        source slot j                                                    *)
(* c: ni, no (ports), nsi, nso (number of selector VALUES, 1 = no selector *)
(*    on that side; a selector value >= the number of ports selects no     *)
(*    port), toks (token alphabet <<d, f, l>>), cap (tokens the element    *)
(*    may hold), stallbound (T-mode only)                                  *)
(*                                                                         *)
(* Reading of the statements for a selector that may change in ANY cycle:  *)
(*  * Routing.  A token enters through the sink that is selected in the    *)
(*    cycle of its sink handshake and leaves through the source that is    *)
(*    selected in the cycle of its source handshake.  A sink that is not   *)
(*    selected is not ready, a source that is not selected is not valid.   *)
(*    Hence at most one token enters and at most one leaves per cycle and  *)
(*    the tokens inside the element form ONE queue q: accepted tokens are  *)
(*    appended, a source handshake hands over the oldest one, unaltered    *)
(*    (for the purely combinational elements q is always empty: the token  *)
(*    passes in the cycle in which both handshakes happen).                *)
(*  * ValidHold.  The selector is an input like valid and ready: when the  *)
(*    environment moves it while an offer is stalled at a source, the      *)
(*    offer is RE-ROUTED, not broken - no element without memory could     *)
(*    do anything else.  The hold obligation of a source therefore covers  *)
(*    the consecutive cycles in which the route of the presented token is  *)
(*    unchanged: same source-side selection, and - only if the presented   *)
(*    token is the live offer of a sink, i.e. nothing older is queued -    *)
(*    same sink-side selection (the producer at that sink holds its offer  *)
(*    by the protocol).  A token that has already been accepted must stay  *)
(*    presented whatever the sink-side selector does.  Re-routing never    *)
(*    loses or duplicates a token: that is the routing clause above.       *)
(*  * Progress is owed to the SELECTED ports: in every infinite run in     *)
(*    which eventually always a sink and a source are selected, the        *)
(*    selected sink offers and the selected source is ready, tokens keep   *)
(*    moving (the selector may keep changing).                             *)
(***************************************************************************)
EXTENDS Integers, Sequences, FiniteSets, TLC

VARIABLES q,      \* tokens accepted at a sink and not yet handed over, oldest first
          hold,   \* per sink slot: token offered and not yet accepted (<<>> if none)
          oprev,  \* per source slot: <<token, si, so, fromq>> presented and not accepted (<<>> if none)
          obs     \* verdict bits and progress flags of the last cycle

rvars == <<q, hold, oprev, obs>>

NP == 3
Drop(seq, n) == SubSeq(seq, n + 1, Len(seq))

---------------------------------------------------------------------------
(* Environment: every producer keeps an unaccepted offer; selectors and    *)
(* readys are free                                                         *)
Toks(c) == { c.toks[k] : k \in 1..Len(c.toks) }

Offer(c, i) == IF i > c.ni THEN { <<0, 0, 0, 0>> }
               ELSE IF hold[i] # <<>> THEN { <<1, hold[i][1], hold[i][2], hold[i][3]>> }
               ELSE { <<0, 0, 0, 0>> } \cup { <<1, t[1], t[2], t[3]>> : t \in Toks(c) }
Rdy(c, j) == IF j > c.no THEN {0} ELSE {0, 1}

Inputs(c) ==
  { <<si, so>> \o a1 \o a2 \o a3 \o <<r1, r2, r3>> :
      si \in 0..(c.nsi - 1), so \in 0..(c.nso - 1),
      a1 \in Offer(c, 1), a2 \in Offer(c, 2), a3 \in Offer(c, 3),
      r1 \in Rdy(c, 1), r2 \in Rdy(c, 2), r3 \in Rdy(c, 3) }

(* membership in Inputs(c) without building the set (T-mode, wide token alphabets) *)
LegalInput(c, iv) ==
  /\ Len(iv) = 2 + 5 * NP
  /\ iv[1] \in 0..(c.nsi - 1) /\ iv[2] \in 0..(c.nso - 1)
  /\ \A i \in 1..NP : <<iv[4 * i - 1], iv[4 * i], iv[4 * i + 1], iv[4 * i + 2]>> \in Offer(c, i)
  /\ \A j \in 1..NP : iv[14 + j] \in Rdy(c, j)

---------------------------------------------------------------------------
RInit ==
  /\ q = <<>>
  /\ hold  = [i \in 1..NP |-> <<>>]
  /\ oprev = [j \in 1..NP |-> <<>>]
  /\ obs = [okroute |-> TRUE, oksink |-> TRUE, oksrc |-> TRUE, okhold |-> TRUE, okbound |-> TRUE,
            srcfire |-> FALSE, sinkfire |-> FALSE, coop |-> FALSE, rdy |-> FALSE]

RStep(c, iv, o) ==
  LET si == iv[1]
      so == iv[2]
      selI == IF si < c.ni THEN si + 1 ELSE 0        \* selected sink slot, 0 = none
      selO == IF so < c.no THEN so + 1 ELSE 0        \* selected source slot, 0 = none
      SV(i)   == iv[4 * i - 1] = 1
      STok(i) == <<iv[4 * i], iv[4 * i + 1], iv[4 * i + 2]>>
      SRdy(i) == o[i] = 1
      OV(j)   == o[4 * j] = 1
      OTok(j) == <<o[4 * j + 1], o[4 * j + 2], o[4 * j + 3]>>
      ORdy(j) == iv[14 + j] = 1
      sfire(i) == SV(i) /\ SRdy(i)
      ofire(j) == OV(j) /\ ORdy(j)
      \* routing: only the selected ports take part
      oksink == \A i \in 1..c.ni : SRdy(i) => i = selI
      oksrc  == \A j \in 1..c.no : OV(j) => j = selO
      \* what a source may present: the oldest queued token, else the live offer of the selected sink
      live   == IF selI # 0 /\ SV(selI) THEN << STok(selI) >> ELSE << >>
      vis    == q \o live
      okvis  == \A j \in 1..c.no : OV(j) => (vis # <<>> /\ OTok(j) = Head(vis))
      taken  == IF selI # 0 /\ sfire(selI) THEN << STok(selI) >> ELSE << >>
      q1     == q \o taken
      npop   == Cardinality({ j \in 1..c.no : ofire(j) })
      okdup  == npop <= Len(q1)                       \* nothing handed over that was not (also) accepted
      q2     == Drop(q1, IF npop <= Len(q1) THEN npop ELSE Len(q1))
      okhold == \A j \in 1..c.no :
                  oprev[j] # <<>> =>
                    LET p == oprev[j] IN
                      (p[3] = so /\ (p[4] = 1 \/ p[2] = si)) => (OV(j) /\ OTok(j) = p[1])
  IN
  /\ q'     = IF Len(q2) <= c.cap THEN q2 ELSE Drop(q, IF npop <= Len(q) THEN npop ELSE Len(q))
  /\ hold'  = [i \in 1..NP |-> IF i <= c.ni /\ SV(i) /\ ~sfire(i) THEN STok(i) ELSE <<>>]
  /\ oprev' = [j \in 1..NP |-> IF j <= c.no /\ OV(j) /\ ~ofire(j)
                               THEN <<OTok(j), si, so, IF Len(q) >= 1 THEN 1 ELSE 0>> ELSE <<>>]
  /\ obs'   = [okroute  |-> okvis /\ okdup,
               oksink   |-> oksink,
               oksrc    |-> oksrc,
               okhold   |-> okhold,
               okbound  |-> Len(q2) <= c.cap,
               srcfire  |-> (selO # 0 /\ ofire(selO)),
               sinkfire |-> (selI # 0 /\ sfire(selI)),
               coop     |-> (selI # 0 /\ selO # 0 /\ SV(selI) /\ ORdy(selO)),
               rdy      |-> (selO # 0 /\ ORdy(selO))]

---------------------------------------------------------------------------
(* Properties.  C03: *)
RouteInOrderExactlyOnce   == obs.okroute  \* a presented token is the oldest accepted one (or the selected sink's offer),
                                          \* unaltered; nothing is handed over twice or without having been accepted
UnselectedSinkNotReady    == obs.oksink   \* tokens come only from the sink selected in the cycle of the handshake
UnselectedSourceNotValid  == obs.oksrc    \* tokens go only to the source selected in the cycle of the handshake
RouteBounded              == obs.okbound  \* the element never holds more than its capacity (nothing piles up unseen)
(* C04: *)
ValidHoldWhileRouted      == obs.okhold   \* a presented token stays unchanged until accepted as long as its route stands
=============================================================================
