---------------------------- MODULE StreamModelM ----------------------------
(* M-mode:  L2 model (StreamModel) x Env x StreamContract monitor, no code  *)
(* involved.  Same product as StreamGraph with the lookup in the graph of   *)
(* the real netlist replaced by the model's step function, so the clauses   *)
(* and the environment are literally those that judge the real code.        *)
(* MC = list of [c |-> L1 configuration, m |-> model configuration].        *)
EXTENDS StreamContract, Json, IOUtils

M == INSTANCE StreamModel
MC == JsonDeserialize(IOEnv.MCFG)

VARIABLES d,   \* which configuration
          r,   \* the model's registers
          ph   \* see StreamGraph
vars == <<d, r, q, pend, acc, hold, oprev, obs, ph>>

C == MC[d].c
Mc == MC[d].m

Init == /\ d \in 1..Len(MC) /\ r = M!MInit(MC[d].m) /\ ph = 0 /\ CInit

Step(iv) ==
  LET e == M!MStep(Mc, r, iv) IN
    /\ r' = e.r /\ d' = d
    /\ CStep(C, iv, e.o)
    /\ ph' = IF e.r = r /\ cvars' = cvars THEN 1 - ph ELSE 0

Next == \E iv \in Inputs(C) : Step(iv)
Alias == [d |-> d, r |-> r, q |-> q, obs |-> obs, iv |-> CHOOSE iv \in Inputs(C) : Step(iv)]
Spec == Init /\ [][Next]_vars /\ WF_vars(Next)

Progress ==
  (<>[](obs.coop)) => ([]<>(IF C.kind \in {"drop"} THEN obs.sinkfire ELSE IF C.kind = "block" THEN TRUE ELSE obs.srcfire))
ProgressSink == (<>[](obs.coop)) => ([]<>(C.kind = "block" \/ obs.sinkfire))
NothingLost == (<>[](obs.rdy)) => ([]<>(Len(q) < Need(C) + C.keep \/ obs.srcfire))
=============================================================================
