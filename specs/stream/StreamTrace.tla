----------------------------- MODULE StreamTrace -----------------------------
(* T-mode: validates cycle-by-cycle interface traces recorded from the real  *)
(* code (ordinary Migen simulation, or the linear replay of a counterexample)*)
(* against the same contract StreamContract that judges the G-mode product.  *)
(* All traces of a batch are separate initial states (variable tid).         *)
EXTENDS StreamContract, Json, IOUtils

T == JsonDeserialize(IOEnv.TRACES)

VARIABLES tid, l, envbad, stall, stall2, stall3
vars == <<tid, l, envbad, stall, stall2, stall3, q, pend, acc, hold, oprev, obs>>

C == T[tid].cfg

Init == /\ tid \in 1..Len(T) /\ l = 1 /\ envbad = FALSE /\ stall = 0 /\ stall2 = 0 /\ stall3 = 0 /\ CInit

Next ==
  /\ l <= Len(T[tid].ev)
  /\ LET iv == T[tid].ev[l][1]
         o  == T[tid].ev[l][2]
     IN /\ envbad' = (envbad \/ iv \notin Inputs(C))
        /\ CStep(C, iv, o)
        /\ LET prog == IF C.kind = "drop" THEN obs'.sinkfire
                       ELSE IF C.kind = "block" THEN TRUE ELSE obs'.srcfire
           IN stall' = IF obs'.coop /\ ~prog THEN stall + 1 ELSE 0
        /\ stall3' = IF obs'.coop /\ C.kind # "block" /\ ~obs'.sinkfire THEN stall3 + 1 ELSE 0
        /\ stall2' = IF obs'.rdy /\ Len(q') >= Need(C) + C.keep /\ ~obs'.srcfire THEN stall2 + 1 ELSE 0
  /\ l' = l + 1 /\ tid' = tid

EnvLegal == ~envbad                           \* harness obligation, not a property of the code
InOrderExactlyOnceT == obs.okorder
BoundedT == obs.okbound
ValidHoldT == obs.okhold
(* bounded form of Progress for replayed lassos and long runs: the element never lets   *)
(* C.stallbound consecutive cooperative cycles pass without moving a token              *)
BoundedProgress == stall < C.stallbound
BoundedProgressSink == stall3 < C.stallbound
(* bounded form of NothingLost: an owed item is delivered within C.stallbound cycles of a ready consumer *)
BoundedDelivery == stall2 < C.stallbound
=============================================================================
