--------------------------- MODULE StreamModelConf ---------------------------
(* Conformance of the L2 model to the real netlists: every recorded step    *)
(* (registers read by name from the netlist, inputs, outputs, registers     *)
(* after the clock edge) must be exactly what StreamModel!MStep computes.   *)
(* Cases come from (a) ALL edges of the complete G-mode graph of each DUT   *)
(* and (b) every cycle of long simulation runs at realistic widths.         *)
(*   T.duts[i] = [m |-> model cfg, cases |-> << <<r, iv, o, r2>>, ... >>]   *)
EXTENDS Integers, Sequences, TLC, Json, IOUtils

M == INSTANCE StreamModel
T == JsonDeserialize(IOEnv.CASES)

VARIABLES i, j
vars == <<i, j>>
Init == i \in 1..Len(T.duts) /\ j \in 1..Len(T.duts[i].cases)
Next == UNCHANGED vars

K == T.duts[i].cases[j]
E == M!MStep(T.duts[i].m, K[1], K[2])
OutputsAgree == E.o = K[3]
NextStateAgrees == E.r = K[4]
ResetAgrees == T.duts[i].reset = M!MInit(T.duts[i].m)
=============================================================================
