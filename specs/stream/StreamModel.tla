----------------------------- MODULE StreamModel -----------------------------
(***************************************************************************)
(* L2: implementation-shaped models of the stream elements of              *)
(* litex/soc/interconnect/stream.py, register for register.  One clock     *)
(* cycle of an element is the function                                     *)
(*                                                                         *)
(*      MStep(m, r, iv) = [o |-> outputs of this cycle, r |-> next regs]   *)
(*                                                                         *)
(* m  = model configuration (class and parameters of the element),         *)
(* r  = record of the element's registers (names follow the code),         *)
(* iv = <<valid, data, first, last, param, ready>>   (as StreamContract),  *)
(* o  = <<sink_ready, valid, data, first, last, param, vtc>>.              *)
(*                                                                         *)
(* Uses: (M) StreamModelM explores  model || Env  against the L1 clauses   *)
(* of StreamContract for parameters far beyond what the Python stepper     *)
(* affords (FIFO depth 16, ratios 8, gearbox 10:4 ...).  (conformance)     *)
(* StreamModelConf checks that MStep reproduces EVERY edge of the complete *)
(* transition graph of the real netlist built in G-mode (registers read    *)
(* by name from the netlist), and every cycle of long runs at realistic    *)
(* widths.  A disagreement is MODEL-DRIFT (the code no longer is what was  *)
(* model-checked), never a verdict; it triggers the deeper L1 exploration  *)
(* of the real netlist (DESIGN.md 9).                                      *)
(***************************************************************************)
EXTENDS Integers, Sequences

B(x) == IF x THEN 1 ELSE 0
P2(n) == 2^n
Field(x, pos, w) == (x \div P2(pos)) % P2(w)                       \* x[pos +: w]
SetField(x, pos, w, v) == x - Field(x, pos, w) * P2(pos) + (v % P2(w)) * P2(pos)
RECURSIVE RevBits(_, _)
RevBits(x, w) == IF w = 0 THEN 0 ELSE (x % 2) * P2(w - 1) + RevBits(x \div 2, w - 1)
BitsFor(n) == CHOOSE k \in 1..24 : P2(k) > n /\ (k = 1 \/ P2(k - 1) <= n)   \* migen bits_for(n), n >= 0

---------------------------------------------------------------------------
(* PipeValid: source.valid/first/last/payload/param are registers, loaded  *)
(* when the output is empty or being taken.                                *)
PVInit(m) == [v |-> 0, data |-> 0, first |-> 0, last |-> 0, param |-> 0]
PVStep(m, r, iv) ==
  LET ce == r.v = 0 \/ iv[6] = 1 IN
  [o |-> <<B(ce), r.v, r.data, r.first, r.last, r.param, 0>>,
   r |-> IF ce THEN [v |-> iv[1], data |-> iv[2], first |-> iv[3], last |-> iv[4], param |-> iv[5]] ELSE r]

(* PipeReady: skid register sink_d, flag `valid` = skid occupied           *)
PRInit(m) == [valid |-> 0, dv |-> 0, data |-> 0, first |-> 0, last |-> 0, param |-> 0]
PRStep(m, r, iv) ==
  LET full == r.valid = 1 IN
  [o |-> IF full THEN <<0, r.dv, r.data, r.first, r.last, r.param, 0>>
                 ELSE <<1, iv[1], iv[2], iv[3], iv[4], iv[5], 0>>,
   r |-> [r EXCEPT
            !.valid = IF iv[1] = 1 /\ iv[6] = 0 THEN 1 ELSE IF iv[6] = 1 THEN 0 ELSE r.valid,
            !.dv    = IF iv[6] = 0 /\ ~full THEN iv[1] ELSE r.dv,
            !.data  = IF iv[6] = 0 /\ ~full THEN iv[2] ELSE r.data,
            !.first = IF iv[6] = 0 /\ ~full THEN iv[3] ELSE r.first,
            !.last  = IF iv[6] = 0 /\ ~full THEN iv[4] ELSE r.last,
            !.param = IF iv[6] = 0 /\ ~full THEN iv[5] ELSE r.param]]

---------------------------------------------------------------------------
(* SyncFIFO, depth >= 2 (stream._FIFOWrapper around migen's SyncFIFO /     *)
(* SyncFIFOBuffered).  A FIFO word packs payload, param, first, last (LSB  *)
(* first, in that order).  mem is 1-based here: mem[a + 1] = word a.       *)
PackW(m, d, p, f, l) == d + P2(m.dw) * (p + P2(m.pw) * (f + 2 * l))
WData(m, x)  == x % P2(m.dw)
WParam(m, x) == (x \div P2(m.dw)) % P2(m.pw)
WFirst(m, x) == (x \div P2(m.dw + m.pw)) % 2
WLast(m, x)  == (x \div P2(m.dw + m.pw + 1)) % 2
IncMod(x, n) == IF x = n - 1 THEN 0 ELSE x + 1

FInit(m) == [level |-> 0, produce |-> 0, consume |-> 0, mem |-> [i \in 1..m.depth |-> 0]]
(* inner FIFO of both variants: we/din/re in, dout (asynchronous read) out *)
FCore(m, r, we, din, re) ==
  LET writable == r.level # m.depth
      readable == r.level # 0
      dowr == we /\ writable
      dord == readable /\ re
  IN [writable |-> writable, readable |-> readable, dord |-> dord, word |-> r.mem[r.consume + 1],
      r |-> [level   |-> IF dowr THEN (IF dord THEN r.level ELSE r.level + 1)
                         ELSE IF dord THEN r.level - 1 ELSE r.level,
             produce |-> IF dowr THEN IncMod(r.produce, m.depth) ELSE r.produce,
             consume |-> IF dord THEN IncMod(r.consume, m.depth) ELSE r.consume,
             mem     |-> IF dowr THEN [r.mem EXCEPT ![r.produce + 1] = din] ELSE r.mem]]
FStep(m, r, iv) ==
  LET c == FCore(m, r, iv[1] = 1, PackW(m, iv[2], iv[5], iv[3], iv[4]), iv[6] = 1)
      w == c.word
  IN [o |-> <<B(c.writable), B(c.readable), WData(m, w), WFirst(m, w), WLast(m, w), WParam(m, w), 0>>, r |-> c.r]

(* buffered: inner FIFO without first-word-fall-through (registered read   *)
(* port with read enable) + output-valid flag `readable`                   *)
FBInit(m) == [level |-> 0, produce |-> 0, consume |-> 0, mem |-> [i \in 1..m.depth |-> 0], rd |-> 0, readable |-> 0]
FBStep(m, r, iv) ==
  LET inner == [level |-> r.level, produce |-> r.produce, consume |-> r.consume, mem |-> r.mem]
      ire   == r.level # 0 /\ (r.readable = 0 \/ iv[6] = 1)            \* fifo.re
      c     == FCore(m, inner, iv[1] = 1, PackW(m, iv[2], iv[5], iv[3], iv[4]), ire)
      w     == r.rd
  IN [o |-> <<B(c.writable), r.readable, WData(m, w), WFirst(m, w), WLast(m, w), WParam(m, w), 0>>,
      r |-> [level |-> c.r.level, produce |-> c.r.produce, consume |-> c.r.consume, mem |-> c.r.mem,
             rd |-> IF c.dord THEN c.word ELSE r.rd,
             readable |-> IF ire THEN 1 ELSE IF iv[6] = 1 THEN 0 ELSE r.readable]]

---------------------------------------------------------------------------
(* _UpConverter(nbits_from = m.w, ratio, reverse)                          *)
UInit(m) == [demux |-> 0, strobe |-> 0, first |-> 0, last |-> 0, data |-> 0, vtc |-> 0]
UStep(m, r, iv) ==
  LET srdy  == r.strobe = 0 \/ iv[6] = 1
      load  == iv[1] = 1 /\ srdy
      dlast == r.demux = m.ratio - 1 \/ iv[4] = 1
      out   == r.strobe = 1 /\ iv[6] = 1
      n     == IF m.reverse = 1 THEN m.ratio - r.demux - 1 ELSE r.demux
  IN [o |-> <<B(srdy), r.strobe, r.data, r.first, r.last, 0, r.vtc>>,
      r |-> [demux  |-> IF load THEN (IF dlast THEN 0 ELSE r.demux + 1) ELSE r.demux,
             strobe |-> IF load /\ dlast THEN 1 ELSE IF iv[6] = 1 THEN 0 ELSE r.strobe,
             first  |-> IF out THEN (IF load THEN iv[3] ELSE 0)
                        ELSE IF load THEN (IF iv[3] = 1 \/ r.first = 1 THEN 1 ELSE 0) ELSE r.first,
             last   |-> IF out THEN (IF load THEN iv[4] ELSE 0)
                        ELSE IF load THEN (IF iv[4] = 1 \/ r.last = 1 THEN 1 ELSE 0) ELSE r.last,
             data   |-> IF load THEN SetField(r.data, n * m.w, m.w, iv[2]) ELSE r.data,
             vtc    |-> IF load THEN r.demux + 1 ELSE r.vtc]]

(* _DownConverter(nbits_to = m.w, ratio, reverse): one register, mux       *)
DInit(m) == [mux |-> 0]
DStep(m, r, iv) ==
  LET lastc == r.mux = m.ratio - 1
      n     == IF m.reverse = 1 THEN m.ratio - r.mux - 1 ELSE r.mux
  IN [o |-> <<B(lastc /\ iv[6] = 1), iv[1], Field(iv[2], n * m.w, m.w),
              B(iv[3] = 1 /\ r.mux = 0), B(iv[4] = 1 /\ lastc), 0, B(lastc)>>,
      r |-> [mux |-> IF iv[1] = 1 /\ iv[6] = 1 THEN (IF lastc THEN 0 ELSE r.mux + 1) ELSE r.mux]]

---------------------------------------------------------------------------
(* Gearbox(i_dw = m.idw, o_dw = m.odw, msb_first = m.msb); m.lcm = io_lcm  *)
GInit(m) == [level |-> 0, icount |-> 0, ocount |-> 0, sr |-> 0]
GStep(m, r, iv) ==
  LET L     == m.lcm
      lw    == BitsFor(L - 1)                                   \* level = Signal(max=io_lcm)
      srdy  == r.level < L - m.idw
      sval  == r.level >= m.odw
      iinc  == iv[1] = 1 /\ srdy
      oinc  == sval /\ iv[6] = 1
      idata == IF m.msb = 1 THEN iv[2] ELSE RevBits(iv[2], m.idw)
      odata == Field(r.sr, L - m.odw * (r.ocount + 1), m.odw)
  IN [o |-> <<B(srdy), B(sval), IF m.msb = 1 THEN odata ELSE RevBits(odata, m.odw), 0, 0, 0, 0>>,
      r |-> [level  |-> (IF iinc /\ ~oinc THEN r.level + m.idw
                         ELSE IF ~iinc /\ oinc THEN r.level - m.odw
                         ELSE IF iinc /\ oinc THEN r.level + m.idw - m.odw ELSE r.level) % P2(lw),
             icount |-> IF iinc THEN IncMod(r.icount, L \div m.idw) ELSE r.icount,
             ocount |-> IF oinc THEN IncMod(r.ocount, L \div m.odw) ELSE r.ocount,
             sr     |-> IF iinc THEN SetField(r.sr, L - m.idw * (r.icount + 1), m.idw, idata) ELSE r.sr]]

---------------------------------------------------------------------------
MInit(m) ==
  CASE m.cls = "PipeValid"  -> PVInit(m)
    [] m.cls = "PipeReady"  -> PRInit(m)
    [] m.cls = "SyncFIFO"   -> IF m.buffered = 1 THEN FBInit(m) ELSE FInit(m)
    [] m.cls = "Up"         -> UInit(m)
    [] m.cls = "Down"       -> DInit(m)
    [] m.cls = "Gearbox"    -> GInit(m)

MStep(m, r, iv) ==
  CASE m.cls = "PipeValid"  -> PVStep(m, r, iv)
    [] m.cls = "PipeReady"  -> PRStep(m, r, iv)
    [] m.cls = "SyncFIFO"   -> IF m.buffered = 1 THEN FBStep(m, r, iv) ELSE FStep(m, r, iv)
    [] m.cls = "Up"         -> UStep(m, r, iv)
    [] m.cls = "Down"       -> DStep(m, r, iv)
    [] m.cls = "Gearbox"    -> GStep(m, r, iv)
=============================================================================
