-------------------------- MODULE StreamRouteGraph --------------------------
(* G-mode product:  Env x StreamRoute monitor x implementation graph G of    *)
(* the real Multiplexer / Demultiplexer / Crossbar netlists and their         *)
(* compositions (harness/families/streamroute.py, harness/graphloop.py).      *)
EXTENDS StreamRoute, Json, IOUtils, GraphLookup

G == JsonDeserialize(IOEnv.GRAPH)
NDuts == Len(G.duts)

VARIABLES d,   \* which DUT of the batch this behaviour is about
          s,   \* implementation state (node of G.duts[d]); -1 = edge not yet known
          ph   \* clock phase: flips on EVERY cycle, so that no cycle is a stuttering step (a hung implementation is
               \* an infinite non-stuttering behaviour) and fairness can be stated on the phase alone
vars == <<d, s, q, hold, oprev, obs, ph>>

C == G.duts[d].cfg

Init == /\ d \in 1..NDuts /\ s = 0 /\ ph = 0 /\ RInit

Step(iv) ==
  /\ s >= 0
  /\ LET e == GLookup(G.duts[d].succ[s + 1], iv) IN
       IF e # <<>>
       THEN /\ s' = e[3] /\ d' = d
            /\ RStep(C, iv, e[2])
            /\ ph' = 1 - ph
       ELSE /\ PrintT(<<"NEED", d, s, iv>>)
            /\ s' = -1 /\ d' = d /\ ph' = 0 /\ UNCHANGED rvars

Next == \E iv \in Inputs(C) : Step(iv)

Alias == [d |-> d, s |-> s, q |-> q, obs |-> obs, iv |-> CHOOSE iv \in Inputs(C) : Step(iv)]

(* Fairness = "the clock keeps ticking".  Every cycle flips ph, so WF_ph(ph' = 1 - ph) says exactly that the    *)
(* behaviour does not stutter forever - what WF_vars(Next) says for an always enabled Next - but TLC can decide *)
(* it per edge without re-evaluating Next over the ~10^3 input vectors of a state (measured: 62 s -> 6 s for   *)
(* Multiplexer(n=3)).                                                                                           *)
Spec == Init /\ [][Next]_vars /\ WF_ph(ph' = 1 - ph)

(* C04 progress for the selected ports: if eventually always a sink and a source are selected,  *)
(* the selected sink offers and the selected source is ready, tokens keep leaving / entering    *)
RouteProgress     == (<>[](obs.coop)) => ([]<>(obs.srcfire))
RouteProgressSink == (<>[](obs.coop)) => ([]<>(obs.sinkfire))
(* C03 nothing lost: with an eventually always ready selected consumer every accepted token is delivered *)
RouteNothingLost  == (<>[](obs.rdy)) => ([]<>(q = <<>> \/ obs.srcfire))
=============================================================================
