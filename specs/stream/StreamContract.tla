--------------------------- MODULE StreamContract ---------------------------
(***************************************************************************)
(* L1 contract of a LiteX stream element with one sink and one source      *)
(* (litex/soc/interconnect/stream.py), properties C03 and C04.             *)
(*                                                                         *)
(* The environment is a producer that holds an unaccepted offer and a      *)
(* consumer that drives ready freely.  The monitor keeps the sequence of   *)
(* output items that are owed: q, produced from accepted input tokens by   *)
(* the element's documented function F (identity, drop, up-/down-          *)
(* conversion by a ratio, bit-stream regrouping).  Nothing here mentions   *)
(* an internal signal of the implementation: one step of the contract      *)
(* consumes the interface activity <<iv, o>> of one clock cycle.           *)
(*                                                                         *)
(*   iv = <<valid, data, first, last, param, ready>>     (driven by Env)   *)
(*   o  = <<sink_ready, valid, data, first, last, param, vtc>>  (by DUT)   *)
(*                                                                         *)
(* c (the configuration record) comes from the harness together with the   *)
(* DUT:  kind, dset, fl, pmax, ratio, reverse, w, vtc, cap, idw, odw, msb  *)
(* (kind "shift" only: shift, with idw = data width)                       *)
(*                                                                         *)
(* Optional fields (a configuration without them keeps its meaning):       *)
(*   junk = 1   : while the producer offers nothing (valid = 0) the data,  *)
(*                first, last and param lines carry ANY value of the token *)
(*                alphabet - they mean nothing without valid, and real     *)
(*                producers drive them combinationally (a `last` computed  *)
(*                from a counter, a payload that is a memory output ...)   *)
(*   junk = 2   : the same on the data and param lines only, first and     *)
(*                last stay 0 while idle (isolates finding                 *)
(*                C03-pack-idle-first-last, stream.Pack)                   *)
(*   fields     : <<w1, .., wn>>, kinds "up"/"down" (stream.StrideConverter*)
(*                with n payload fields): the narrow token is Cat(f1..fn), *)
(*                the wide word Cat(F1..Fn) with Fk = the ratio slices of  *)
(*                field k; c.w = w1 + .. + wn                              *)
(*   cast       : <<rf, wa, wb, rt, ta, tb>>, kind "id" (stream.Cast): the *)
(*                payload Cat(a, b) is re-read as Cat(c, d) (tb = 0: one   *)
(*                field), sink fields reversed if rf, source fields if rt  *)
(*   wi         : witness index of the configuration (vacuity guard): TLC  *)
(*                prints <<"WIT", wi, name>> the first time a stimulus /   *)
(*                parameter class the configuration exists for is seen     *)
(***************************************************************************)
EXTENDS Integers, Sequences, FiniteSets, TLC

VARIABLES q,      \* owed output items (tokens, words or bits), oldest first
          pend,   \* items already delivered out of the offered, not yet accepted token
          acc,    \* up-conversion: accepted tokens of the still open group
          hold,   \* token offered by the producer and not yet accepted (<<>> if none)
          oprev,  \* output presented and not yet accepted (<<>> if none)
          obs     \* verdict bits and progress flags of the last cycle

cvars == <<q, pend, acc, hold, oprev, obs>>

Pow2(n) == 2^n
Chunk(x, pos, w) == (x \div Pow2(pos * w)) % Pow2(w)
Max(a, b) == IF a > b THEN a ELSE b
Min(a, b) == IF a < b THEN a ELSE b
Or(a, b)  == IF a = 1 \/ b = 1 THEN 1 ELSE 0
Drop(seq, n) == SubSeq(seq, n + 1, Len(seq))

Flag(c, f) == f \in DOMAIN c /\ c[f] = 1
(* witnesses against vacuity (TLC registers 10 + 8 * wi + k, k < 8), see harness/checks/streamfam.py *)
ASSUME \A i \in 1..900 : TLCSet(i, 0)
Wit(c, k, name) ==
  IF "wi" \in DOMAIN c
  THEN LET i == 10 + 8 * (c.wi % 100) + k IN
       IF TLCGet(i) = 0 THEN TLCSet(i, 1) /\ PrintT(<<"WIT", c.wi, name>>) ELSE TRUE
  ELSE TRUE
WitIf(p, c, k, name) == IF p THEN Wit(c, k, name) ELSE TRUE

---------------------------------------------------------------------------
(* Environment: what the producer/consumer may do in a cycle               *)
FL(c) == IF c.fl = 1 THEN {0, 1} ELSE {0}
Tokens(c) == { <<x, f, l, p>> : x \in {c.dset[i] : i \in 1..Len(c.dset)}, f \in FL(c), l \in FL(c), p \in 0..c.pmax }

(* what the token lines carry while nothing is offered: 0 in the canonical environment, anything with c.junk *)
IdleLines(c) == { <<0, 0, 0, 0>> } \cup (IF Flag(c, "junk") THEN Tokens(c)
                                        ELSE IF "junk" \in DOMAIN c /\ c.junk = 2 THEN { <<t[1], 0, 0, t[4]>> : t \in Tokens(c) }
                                        ELSE {})

Inputs(c) ==
  IF hold # <<>>
  THEN { <<1, hold[1], hold[2], hold[3], hold[4], r>> : r \in {0, 1} }
  ELSE { <<0, t[1], t[2], t[3], t[4], r>> : t \in IdleLines(c), r \in {0, 1} } \cup
       { <<1, t[1], t[2], t[3], t[4], r>> : t \in Tokens(c), r \in {0, 1} }

---------------------------------------------------------------------------
(* The documented function F of each element kind.                         *)
(* Items:  "id"/"down": <<data, first, last, param, vtc>>                  *)
(*         "up"       : <<chunks, first, last, param, n>>                  *)
(*         "gear"     : a bit                                              *)
(*         "shift"    : <<data, first, last, param, nx>>  (stream.Shifter, a   *)
(*                      PipelinedActor of latency 2): identity on handshakes,  *)
(*                      first and last; the output word is the window          *)
(*                      r[shift .. shift+idw-1] of r = {following word, own    *)
(*                      word} ("Accumulate current/last sink.data ... Select   *)
(*                      output data based on shift").  The following word is   *)
(*                      what the sink carries in the next cycle in which the   *)
(*                      element is ready (= its pipeline advances): nx = that  *)
(*                      token's data, -2 = the producer was idle then (the     *)
(*                      upper `shift` bits are don't-care), -1 = not yet known *)
(* position p (0-based) of a wide word x: the narrow token stored there.  With c.fields the wide word keeps the     *)
(* slices of every field together ("field-wise stride mapping between raw converter bits and user layout")      *)
RECURSIVE FOff(_, _)
FOff(fw, k) == IF k = 1 THEN 0 ELSE FOff(fw, k - 1) + fw[k - 1]
RECURSIVE FSum(_, _, _, _)
FSum(c, x, p, k) ==
  IF k > Len(c.fields) THEN 0
  ELSE ((x \div Pow2(c.ratio * FOff(c.fields, k) + p * c.fields[k])) % Pow2(c.fields[k])) * Pow2(FOff(c.fields, k))
       + FSum(c, x, p, k + 1)
WChunk(c, x, p) == IF "fields" \in DOMAIN c THEN FSum(c, x, p, 1) ELSE Chunk(x, p, c.w)
Pos(c, i) == IF c.reverse = 1 THEN c.ratio - i ELSE i - 1        \* position of the i-th token (1-based) of a group

(* stream.Cast: Cat(lower field of width wlo, upper field of width whi) with the two fields exchanged *)
Swap(x, wlo, whi) == (x % Pow2(wlo)) * Pow2(whi) + (x \div Pow2(wlo))
CastMap(c, x) ==
  IF "cast" \notin DOMAIN c THEN x
  ELSE LET k == c.cast
           y == IF k[1] = 1 THEN Swap(x, k[2], k[3]) ELSE x
       IN IF k[4] = 1 THEN Swap(y, k[6], k[5]) ELSE y

Closes(c, a, t) == Len(a) + 1 = c.ratio \/ t[3] = 1

RECURSIVE OrField(_, _)
OrField(g, k) == IF g = <<>> THEN 0 ELSE Or(Head(g)[k], OrField(Tail(g), k))

UpWord(c, g) == << [i \in 1..Len(g) |-> g[i][1]], OrField(g, 2), OrField(g, 3), g[Len(g)][4], Len(g) >>

F(c, a, t) ==
  CASE c.kind = "id"   -> << <<CastMap(c, t[1]), t[2], t[3], t[4], 0>> >>
    [] c.kind = "drop" -> << >>
    [] c.kind = "block" -> << >>
    [] c.kind = "down" -> [i \in 1..c.ratio |->
                             << WChunk(c, t[1], Pos(c, i)),
                                IF i = 1 THEN t[2] ELSE 0,
                                IF i = c.ratio THEN t[3] ELSE 0,
                                t[4],
                                IF i = c.ratio THEN 1 ELSE 0 >>]
    [] c.kind = "up"   -> IF Closes(c, a, t) THEN << UpWord(c, Append(a, t)) >> ELSE << >>
    [] c.kind = "gear" -> [j \in 1..c.idw |-> Chunk(t[1], IF c.msb = 1 THEN c.idw - j ELSE j - 1, 1)]
    [] c.kind = "shift" -> << <<t[1], t[2], t[3], t[4], -1>> >>

Need(c) == IF c.kind = "gear" THEN c.odw ELSE 1

RECURSIVE BitsVal(_, _, _)
BitsVal(c, b, j) == IF j > c.odw THEN 0
                    ELSE b[j] * Pow2(IF c.msb = 1 THEN c.odw - j ELSE j - 1) + BitsVal(c, b, j + 1)

(* does the presented output <<data, first, last, param, vtc>> equal the head of vis? *)
MatchHead(c, vis, ot) ==
  CASE c.kind \in {"id", "down"} ->
         LET e == Head(vis) IN
           /\ e[1] = ot[1] /\ e[2] = ot[2] /\ e[3] = ot[3] /\ e[4] = ot[4]
           /\ (c.vtc = 1 => e[5] = ot[5])
    [] c.kind = "up" ->
         LET e == Head(vis) IN
           /\ \A i \in 1..e[5] :
                WChunk(c, ot[1], Pos(c, i)) = e[1][i]
           /\ e[2] = ot[2] /\ e[3] = ot[3] /\ e[4] = ot[4]
           /\ (c.vtc = 1 => e[5] = ot[5])
    [] c.kind = "gear" -> BitsVal(c, vis, 1) = ot[1]
    [] c.kind = "shift" ->
         LET e  == Head(vis)
             lo == Pow2(c.idw - c.shift)        \* values of the part that comes from the token's own word
         IN /\ e[5] # -1                        \* not before the following word was sampled (two pipeline advances)
            /\ ot[1] % lo = e[1] \div Pow2(c.shift)
            /\ (e[5] >= 0 => ot[1] \div lo = e[5] % Pow2(c.shift))
            /\ e[2] = ot[2] /\ e[3] = ot[3] /\ e[4] = ot[4]
    [] OTHER -> FALSE

---------------------------------------------------------------------------
(* One clock cycle of the contract                                         *)
CInit ==
  /\ q = <<>> /\ pend = 0 /\ acc = <<>> /\ hold = <<>> /\ oprev = <<>>
  /\ obs = [okorder |-> TRUE, okhold |-> TRUE, okbound |-> TRUE,
            srcfire |-> FALSE, sinkfire |-> FALSE, coop |-> FALSE, rdy |-> FALSE]

CStep(c, iv, o) ==
  LET tok      == <<iv[2], iv[3], iv[4], iv[5]>>
      ot       == <<o[3], o[4], o[5], o[6], o[7]>>
      offered  == iv[1] = 1
      sinkfire == offered /\ o[1] = 1
      srcfire  == o[2] = 1 /\ iv[6] = 1
      Ftok     == IF offered THEN F(c, acc, tok) ELSE <<>>
      vis      == q \o (IF pend <= Len(Ftok) THEN Drop(Ftok, pend) ELSE <<>>)
      need     == Need(c)
      okvis    == o[2] = 1 => (Len(vis) >= need /\ MatchHead(c, vis, ot))
      nq       == Min(need, Len(q))
      q1       == IF srcfire THEN Drop(q, nq) ELSE q
      pend1    == IF srcfire THEN pend + (need - nq) ELSE pend
      okdup    == sinkfire => pend1 <= Len(Ftok)
      \* kind "shift": the youngest owed item learns its following word when the element is ready again
      q1f      == IF c.kind = "shift" /\ o[1] = 1 /\ q1 # <<>> /\ q1[Len(q1)][5] = -1
                  THEN [q1 EXCEPT ![Len(q1)][5] = IF offered THEN tok[1] ELSE -2] ELSE q1
      q2       == IF sinkfire /\ pend1 <= Len(Ftok) THEN q1f \o Drop(Ftok, pend1) ELSE q1f
      okblock  == (c.kind = "block") => ~sinkfire
  IN
  /\ q'     = IF Len(q2) <= c.cap THEN q2 ELSE q1f  \* saturate (Bounded is then already false)
  /\ pend'  = IF sinkfire THEN 0 ELSE Min(pend1, Len(Ftok) + 1)   \* saturate (okorder is then already false)
  /\ acc'   = IF sinkfire /\ c.kind = "up"
              THEN (IF Closes(c, acc, tok) THEN <<>> ELSE Append(acc, tok))
              ELSE acc
  /\ hold'  = IF offered /\ ~sinkfire THEN tok ELSE <<>>
  /\ oprev' = IF o[2] = 1 /\ ~srcfire THEN ot ELSE <<>>
  /\ WitIf(~offered /\ <<iv[2], iv[3], iv[4], iv[5]>> # <<0, 0, 0, 0>>, c, 1, "junk while idle")
  /\ WitIf(~offered /\ (iv[3] = 1 \/ iv[4] = 1) /\ srcfire, c, 2, "junk first/last in the cycle of a source handshake")
  /\ WitIf(srcfire /\ "cast" \in DOMAIN c /\ offered /\ CastMap(c, tok[1]) # tok[1], c, 3, "regrouped token delivered")
  /\ WitIf(sinkfire /\ "fields" \in DOMAIN c /\ c.kind = "down"
             /\ \E p \in 0..(c.ratio - 1) : WChunk(c, tok[1], p) # Chunk(tok[1], p, c.w), c, 4, "field-wise word")
  /\ WitIf(srcfire /\ "fields" \in DOMAIN c /\ c.kind = "up"
             /\ \E p \in 0..(c.ratio - 1) : WChunk(c, ot[1], p) # Chunk(ot[1], p, c.w), c, 4, "field-wise word")
  /\ obs'   = [okorder  |-> okvis /\ okdup /\ okblock,
               okhold   |-> (oprev # <<>> => (o[2] = 1 /\ ot = oprev)),
               okbound  |-> Len(q2) <= c.cap,
               srcfire  |-> srcfire,
               sinkfire |-> sinkfire,
               coop     |-> (offered /\ iv[6] = 1),
               rdy      |-> (iv[6] = 1)]

---------------------------------------------------------------------------
(* Properties.  C03: *)
InOrderExactlyOnce == obs.okorder      \* every presented item is the oldest owed one, rightly transformed
Bounded            == obs.okbound      \* the element never owes more than its capacity (nothing piles up unseen)
(* C04: *)
ValidHold          == obs.okhold       \* a presented output stays unchanged until it is accepted
=============================================================================
