----------------------------- MODULE StreamGraph -----------------------------
(* G-mode product:  Env x StreamContract monitor x implementation graph G.  *)
(* G is the transition graph of the REAL netlists, computed on demand by    *)
(* harness/graphloop.py (see DESIGN.md 2, mode G).                          *)
EXTENDS StreamContract, Json, IOUtils, GraphLookup

G == JsonDeserialize(IOEnv.GRAPH)
NDuts == Len(G.duts)

VARIABLES d,   \* which DUT of the batch this behaviour is about
          s,   \* implementation state (node of G.duts[d]); -1 = edge not yet known
          ph   \* toggles on a step that changes nothing else: a hung implementation (fixpoint of the product)
               \* must be an infinite NON-stuttering behaviour, or WF_vars(Next) would let TLC walk away from it
vars == <<d, s, q, pend, acc, hold, oprev, obs, ph>>

C == G.duts[d].cfg

Init == /\ d \in 1..NDuts /\ s = 0 /\ ph = 0 /\ CInit

Step(iv) ==
  /\ s >= 0
  /\ LET e == GLookup(G.duts[d].succ[s + 1], iv) IN
       IF e # <<>>
       THEN /\ s' = e[3] /\ d' = d
            /\ CStep(C, iv, e[2])
            /\ ph' = IF e[3] = s /\ cvars' = cvars THEN 1 - ph ELSE 0
       ELSE /\ PrintT(<<"NEED", d, s, iv>>)
            /\ s' = -1 /\ d' = d /\ ph' = 0 /\ UNCHANGED cvars

Next == \E iv \in Inputs(C) : Step(iv)

(* error traces show, for every state, the input the environment applied in the step that *)
(* leaves it: this is the schedule the harness replays on the real code                  *)
Alias == [d |-> d, s |-> s, q |-> q, obs |-> obs, iv |-> CHOOSE iv \in Inputs(C) : Step(iv)]

Spec == Init /\ [][Next]_vars /\ WF_vars(Next)

(* C04 progress: if producer and consumer cooperate forever, tokens keep moving *)
Progress ==
  (<>[](obs.coop)) => ([]<>(IF C.kind \in {"drop"} THEN obs.sinkfire
                            ELSE IF C.kind = "block" THEN TRUE
                            ELSE obs.srcfire /\ TRUE))
ProgressSink ==
  (<>[](obs.coop)) => ([]<>(C.kind = "block" \/ obs.sinkfire))
(* C03 nothing lost: with a consumer that is eventually always ready every owed item is delivered *)
NothingLost ==
  (<>[](obs.rdy)) => ([]<>(Len(q) < Need(C) + C.keep \/ obs.srcfire))
=============================================================================
