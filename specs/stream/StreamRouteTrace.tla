-------------------------- MODULE StreamRouteTrace --------------------------
(* T-mode: validates cycle-by-cycle interface traces recorded from the real  *)
(* routing elements (linear replay of a counterexample, or a long random run *)
(* at realistic widths) against the same contract StreamRoute.               *)
EXTENDS StreamRoute, Json, IOUtils

T == JsonDeserialize(IOEnv.TRACES)

VARIABLES tid, l, envbad, stall, stall2, stall3
vars == <<tid, l, envbad, stall, stall2, stall3, q, hold, oprev, obs>>

C == T[tid].cfg

Init == /\ tid \in 1..Len(T) /\ l = 1 /\ envbad = FALSE /\ stall = 0 /\ stall2 = 0 /\ stall3 = 0 /\ RInit

Next ==
  /\ l <= Len(T[tid].ev)
  /\ LET iv == T[tid].ev[l][1]
         o  == T[tid].ev[l][2]
     IN /\ envbad' = (envbad \/ ~LegalInput(C, iv))
        /\ RStep(C, iv, o)
        /\ stall'  = IF obs'.coop /\ ~obs'.srcfire THEN stall + 1 ELSE 0
        /\ stall3' = IF obs'.coop /\ ~obs'.sinkfire THEN stall3 + 1 ELSE 0
        /\ stall2' = IF obs'.rdy /\ q' # <<>> /\ ~obs'.srcfire THEN stall2 + 1 ELSE 0
  /\ l' = l + 1 /\ tid' = tid

EnvLegal == ~envbad                           \* harness obligation, not a property of the code
RouteInOrderExactlyOnceT  == obs.okroute
UnselectedSinkNotReadyT   == obs.oksink
UnselectedSourceNotValidT == obs.oksrc
RouteBoundedT             == obs.okbound
ValidHoldWhileRoutedT     == obs.okhold
(* bounded forms of the temporal clauses (replayed lassos, long runs) *)
RouteBoundedProgress      == stall  < C.stallbound
RouteBoundedProgressSink  == stall3 < C.stallbound
RouteBoundedDelivery      == stall2 < C.stallbound
=============================================================================
