--------------------------- MODULE PacketRouteGraph ---------------------------
(* G-mode product: Env x PacketRoute monitor x implementation graph of the real Arbiter / Dispatcher *)
EXTENDS PacketRoute, Json, IOUtils, GraphLookup
G == JsonDeserialize(IOEnv.GRAPH)
NDuts == Len(G.duts)
VARIABLES d, s,
          ph   \* flips on a step that changes nothing else: no step of Next is a stuttering step, so WF_vars(Next)
               \* cannot be satisfied by leaving a hung state that still has another way out (see Progress*)
vars == <<d, s, ph, ep, hold, selh, q, pend, dest, own, wc, oprev, obs>>
C == G.duts[d].cfg
Init == /\ d \in 1..NDuts /\ s = 0 /\ ph = 0 /\ CInit
Step(iv) ==
  /\ s >= 0
  /\ LET e == GLookup(G.duts[d].succ[s + 1], iv) IN          \* <<iv, outputs, successor>> or <<>>
       IF e # <<>>
       THEN /\ s' = e[3] /\ d' = d
            /\ CStep(C, iv, e[2])
            /\ ph' = IF e[3] = s /\ cvars' = cvars THEN 1 - ph ELSE 0
       ELSE /\ PrintT(<<"NEED", d, s, iv>>)                   \* ask the harness for this edge
            /\ s' = -1 /\ d' = d /\ ph' = 0 /\ UNCHANGED cvars

Next == \E iv \in Inputs(C) : Step(iv)
Alias == [d |-> d, s |-> s, ep |-> ep, own |-> own, wc |-> wc, obs |-> obs, iv |-> CHOOSE iv \in Inputs(C) : Step(iv)]
Spec == Init /\ [][Next]_vars /\ WF_vars(Next)
(* fair environment: from some time on all slaves are ready and no master pauses inside a packet *)
Fair == <>[](obs.fair)
(* no starvation: every offer is eventually accepted *)
Served    == Fair => \A i \in 1..MAXN : []<>(obs.nowait[i])
(* nothing lost: every accepted beat is eventually delivered *)
Delivered == Fair => \A i \in 1..MAXN : []<>(obs.empty[i])
=============================================================================
