--------------------------- MODULE PacketRouteGraph ---------------------------
(* G-mode product: Env x PacketRoute monitor x implementation graph of the real Arbiter / Dispatcher *)
EXTENDS PacketRoute, Json, IOUtils
G == JsonDeserialize(IOEnv.GRAPH)
NDuts == Len(G.duts)
VARIABLES d, s
vars == <<d, s, ep, hold, selh, q, pend, dest, own, wc, oprev, obs>>
C == G.duts[d].cfg
Init == /\ d \in 1..NDuts /\ s = 0 /\ CInit
Step(iv) ==
  /\ s >= 0
  /\ LET k == ToString(iv) IN
       IF k \in DOMAIN G.duts[d].succ[s + 1]
       THEN LET e == G.duts[d].succ[s + 1][k] IN
            /\ s' = e.d /\ d' = d
            /\ CStep(C, iv, e.o)
       ELSE /\ PrintT(<<"NEED", d, s, iv>>)
            /\ s' = -1 /\ d' = d /\ UNCHANGED cvars
Next == \E iv \in Inputs(C) : Step(iv)
Alias == [d |-> d, s |-> s, ep |-> ep, own |-> own, wc |-> wc, obs |-> obs, iv |-> CHOOSE iv \in Inputs(C) : Step(iv)]
Spec == Init /\ [][Next]_vars /\ WF_vars(Next)
(* fair environment: slaves eventually always ready, no master pauses forever inside a packet *)
Fair == (<>[](obs.allrdy)) /\ (\A i \in 1..MAXN : []<>(obs.act[i]))
(* no starvation: every offer is eventually accepted *)
Served    == Fair => \A i \in 1..MAXN : []<>(obs.nowait[i])
(* nothing lost: every accepted beat is eventually delivered *)
Delivered == Fair => \A i \in 1..MAXN : []<>(obs.empty[i])
=============================================================================
