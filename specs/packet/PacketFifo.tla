------------------------------ MODULE PacketFifo ------------------------------
(***************************************************************************)
(* L1 contract of litex/soc/interconnect/packet.py:PacketFIFO (C16):       *)
(* a FIFO that releases only complete packets, each beat with the          *)
(* parameters of its packet, in order, nothing lost.                       *)
(*                                                                         *)
(*   iv = <<valid, data, last, param, ready>>          (driven by Env)     *)
(*   o  = <<sink_ready, valid, data, last, param>>     (driven by DUT)     *)
(*                                                                         *)
(* c: minlen, maxlen (beats per packet; the premise "a packet fits the     *)
(* payload depth" is maxlen <= depth, chosen by the harness), pmax,        *)
(* bubbles, rdy1 (1: consumer always ready), credit (> 0: the producer     *)
(* offers a beat only while fewer than `credit` accepted beats are         *)
(* undelivered - a credit-based producer that never meets a full FIFO),    *)
(* cap, npar, junk (1: while valid = 0 the producer may drive arbitrary    *)
(* payload, `last` and params - the vector <<0, jdata, 1, pmax>> stands    *)
(* for it; a field of newer configuration records only).                   *)
(* data/param values are only compared and moved (ints in the exhaustive   *)
(* mode, limb tuples in recorded traces).                                  *)
(***************************************************************************)
EXTENDS Integers, Sequences, FiniteSets, TLC

VARIABLES ep,     \* producer: [par, k, p] parity / accepted beats / param of the packet being offered
          hold,   \* token offered and not yet accepted (<<>> if none)
          q,      \* accepted beats not yet delivered: <<data, last, param>>, oldest first
          oprev,  \* output presented and not yet accepted (<<>> if none)
          obs

cvars == <<ep, hold, q, oprev, obs>>

LastAllowed(c, k, l) == IF l = 1 THEN k + 1 >= c.minlen /\ k + 1 <= c.maxlen ELSE k + 1 < c.maxlen
Tag(c, par, k) == 1 + par * c.maxlen + k
Rdy(c) == IF c.rdy1 = 1 THEN {1} ELSE {0, 1}
Junk(c) == "junk" \in DOMAIN c /\ c.junk = 1
(* what the bus may carry while the producer offers nothing *)
IdleToks(c) == {<<0, 0, 0>>} \cup (IF Junk(c) THEN {<<c.jdata, 1, c.pmax>>} ELSE {})

Inputs(c) ==
  IF hold # <<>>
  THEN { <<1, hold[1], hold[2], hold[3], r>> : r \in Rdy(c) }
  ELSE (IF c.credit = 0 \/ Len(q) < c.credit
        THEN { <<1, Tag(c, ep.par, ep.k), l, p, r>> :
                 l \in {x \in {0, 1} : LastAllowed(c, ep.k, x)},
                 p \in (IF ep.k = 0 THEN 0..c.pmax ELSE {ep.p}), r \in Rdy(c) }
        ELSE {}) \cup
       (IF c.bubbles = 1 \/ ep.k = 0 \/ (c.credit > 0 /\ Len(q) >= c.credit)
        THEN { <<0, t[1], t[2], t[3], r>> : t \in IdleToks(c), r \in Rdy(c) } ELSE {})

EnvOk(c, iv) ==
  LET tok == <<iv[2], iv[3], iv[4]>> IN
  /\ iv[1] \in {0, 1} /\ iv[5] \in Rdy(c)
  /\ hold # <<>> => (iv[1] = 1 /\ tok = hold)
  /\ (hold = <<>> /\ iv[1] = 1) => (/\ iv[3] \in {0, 1} /\ LastAllowed(c, ep.k, iv[3]) /\ (ep.k > 0 => iv[4] = ep.p)
                                    /\ (c.credit = 0 \/ Len(q) < c.credit))
  /\ iv[1] = 0 => (c.bubbles = 1 \/ ep.k = 0 \/ (c.credit > 0 /\ Len(q) >= c.credit))

Complete(qq) == \E i \in 1..Len(qq) : qq[i][2] = 1      \* the oldest packet in qq has its last beat in qq

CInit ==
  /\ ep = [par |-> 0, k |-> 0, p |-> 0] /\ hold = <<>> /\ q = <<>> /\ oprev = <<>>
  /\ obs = [okcomplete |-> TRUE, okorder |-> TRUE, okparam |-> TRUE, okhold |-> TRUE, okbound |-> TRUE,
            srcfire |-> FALSE, sinkfire |-> FALSE, coop |-> FALSE, rdy |-> FALSE, owed |-> FALSE]

CStep(c, iv, o) ==
  LET offered  == iv[1] = 1
      tok      == <<iv[2], iv[3], iv[4]>>
      sinkfire == offered /\ o[1] = 1
      shown    == o[2] = 1
      srcfire  == shown /\ iv[5] = 1
      ot       == <<o[3], o[4], o[5]>>
      q1       == IF srcfire /\ q # <<>> THEN Tail(q) ELSE q
      q2       == IF sinkfire THEN Append(q1, tok) ELSE q1
  IN
  /\ ep'    = IF ~sinkfire THEN ep
              ELSE IF iv[3] = 1 THEN [par |-> (ep.par + 1) % c.npar, k |-> 0, p |-> 0]
              ELSE [par |-> ep.par, k |-> ep.k + 1, p |-> iv[4]]
  /\ hold'  = IF offered /\ ~sinkfire THEN tok ELSE <<>>
  /\ q'     = IF Len(q2) <= c.cap THEN q2 ELSE q1
  /\ oprev' = IF shown /\ ~srcfire THEN ot ELSE <<>>
  /\ obs'   = [okcomplete |-> (shown => Complete(q)),
               okorder    |-> ((shown /\ q # <<>>) => (o[3] = Head(q)[1] /\ o[4] = Head(q)[2])),
               okparam    |-> ((shown /\ q # <<>>) => o[5] = Head(q)[3]),
               okhold     |-> (oprev # <<>> => (shown /\ ot = oprev)),
               okbound    |-> Len(q2) <= c.cap,
               srcfire    |-> srcfire,
               sinkfire   |-> sinkfire,
               coop       |-> (offered /\ iv[5] = 1),
               rdy        |-> (iv[5] = 1),
               owed       |-> Complete(q2)]

(* Properties (C16, packet FIFO) *)
OnlyCompletePackets == obs.okcomplete  \* a beat is presented only if the `last` of its packet was accepted at the sink in an earlier cycle
InOrder             == obs.okorder     \* the presented beat (data, last) is the oldest accepted, undelivered beat
ParamOfPacket       == obs.okparam     \* ... and carries the parameters of its own packet
ValidHold           == obs.okhold      \* a presented beat stays unchanged until accepted
Bounded             == obs.okbound     \* nothing piles up beyond the capacity
=============================================================================
