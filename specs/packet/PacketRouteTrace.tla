--------------------------- MODULE PacketRouteTrace ---------------------------
(* T-mode: recorded traces of the real Arbiter / Dispatcher (simulation, or replay of a G-mode counterexample) *)
EXTENDS PacketRoute, Json, IOUtils
T == JsonDeserialize(IOEnv.TRACES)
VARIABLES tid, l, envbad, stall, stall2
vars == <<tid, l, envbad, stall, stall2, ep, hold, selh, q, pend, dest, own, wc, oprev, obs>>
C == T[tid].cfg
Init == /\ tid \in 1..Len(T) /\ l = 1 /\ envbad = FALSE /\ stall = [i \in 1..MAXN |-> 0] /\ stall2 = [i \in 1..MAXN |-> 0] /\ CInit
Next ==
  /\ l <= Len(T[tid].ev)
  /\ LET iv == T[tid].ev[l][1]
         o  == T[tid].ev[l][2]
     IN /\ envbad' = (envbad \/ ~EnvOk(C, iv) \/ (C.flat = 1 /\ iv \notin Inputs(C)))
        /\ CStep(C, iv, o)
        \* bounded forms of Served / Delivered: consecutive cycles in which a master keeps waiting / keeps an
        \* accepted beat undelivered (for a replayed lasso the loop is unrolled C.stallbound cycles)
        /\ stall'  = [i \in 1..MAXN |-> IF ~obs'.nowait[i] THEN stall[i] + 1 ELSE 0]
        /\ stall2' = [i \in 1..MAXN |-> IF ~obs'.empty[i] THEN stall2[i] + 1 ELSE 0]
  /\ l' = l + 1 /\ tid' = tid
EnvLegal == ~envbad
BeatsInOrderT      == obs.okdata
SelLatchedOnFirstT == obs.okdest
AtomicT            == obs.okatomic
ValidHoldT         == obs.okhold
BoundedT           == obs.okbound
ExactlyOnceT       == obs.okonce
BoundedWaitT       == obs.okwait
BoundedService     == \A i \in 1..MAXN : stall[i]  < C.stallbound
BoundedDelivery    == \A i \in 1..MAXN : stall2[i] < C.stallbound
=============================================================================
