--------------------------- MODULE PacketFrameTrace ---------------------------
(* T-mode: validates cycle-by-cycle interface traces recorded from the real     *)
(* code (ordinary Migen simulation at realistic widths, or the linear replay of *)
(* a G-mode counterexample) against the same contract PacketFrame.              *)
(* ev[l] = <<iv, o>>; a trace with cfg.flat = 1 holds the flat integer vectors  *)
(* of the exhaustive mode, otherwise normalised events (bytes / limbs).         *)
EXTENDS PacketFrame, Json, IOUtils

T == JsonDeserialize(IOEnv.TRACES)

VARIABLES tid, l, envbad, stall, stall2, stall3
vars == <<tid, l, envbad, stall, stall2, stall3, ep, hold, pk, w, oprev, obs>>

C == T[tid].cfg

Init == /\ tid \in 1..Len(T) /\ l = 1 /\ envbad = FALSE /\ stall = 0 /\ stall2 = 0 /\ stall3 = 0 /\ CInit

Next ==
  /\ l <= Len(T[tid].ev)
  /\ LET iv == IF C.flat = 1 THEN NormI(C, T[tid].ev[l][1]) ELSE T[tid].ev[l][1]
         o  == IF C.flat = 1 THEN NormO(C, T[tid].ev[l][2]) ELSE T[tid].ev[l][2]
     IN /\ envbad' = (envbad \/ ~EnvOk(C, iv) \/ (C.flat = 1 /\ T[tid].ev[l][1] \notin Inputs(C)))
        /\ CStep(C, iv, o)
        /\ stall'  = IF obs'.coop /\ ~obs'.srcfire THEN stall + 1 ELSE 0
        /\ stall3' = IF obs'.coop /\ ~obs'.sinkfire THEN stall3 + 1 ELSE 0
        /\ stall2' = IF obs'.rdy /\ obs'.act /\ obs'.owed /\ ~obs'.srcfire THEN stall2 + 1 ELSE 0
  /\ l' = l + 1 /\ tid' = tid

EnvLegal == ~envbad                           \* harness obligation, not a property of the code
CausalT        == obs.okshow
ByteLayoutT    == obs.okdata
LastPlacementT == obs.oklast
HeaderFieldsT  == obs.okfields
ValidHoldT     == obs.okhold
BoundedT       == obs.okbound
DefsWellFormedT == l # 1 \/ LayoutWellFormed(C)
(* bounded forms of the progress clauses for replayed lassos and long runs *)
BoundedProgress     == stall  < C.stallbound
BoundedProgressSink == stall3 < C.stallbound
BoundedDelivery     == stall2 < C.stallbound
BoundedLiveness     == BoundedProgress /\ BoundedProgressSink /\ BoundedDelivery
=============================================================================
