----------------------------- MODULE PacketFrame -----------------------------
(***************************************************************************)
(* L1 contract of the LiteX packet framing elements                        *)
(* (litex/soc/interconnect/packet.py: Header, Packetizer, Depacketizer),   *)
(* property C16, first half.                                               *)
(*                                                                         *)
(*   kind "pk"  Packetizer    sink  = (fields, data, last)                 *)
(*                            source= raw words: Layout(fields) followed   *)
(*                                    by the payload bytes, `last` on the  *)
(*                                    final word                           *)
(*   kind "dp"  Depacketizer  sink  = raw words, source = (fields, data,   *)
(*                            last): the inverse                           *)
(*   kind "rt"  Packetizer -> Depacketizer = identity on (fields, payload) *)
(*                                                                         *)
(* One step = one clock cycle.  The producer holds an unaccepted offer,    *)
(* the consumer drives ready freely.  Nothing here mentions an internal    *)
(* signal of the implementation.  Values are normalised: a data word is    *)
(* the sequence of its bytes (lane 0 first), a header field value is the   *)
(* sequence of its 8-bit limbs (least significant first):                  *)
(*                                                                         *)
(*   iv = <<valid, data, last, fields, ready>>            (driven by Env)  *)
(*   o  = <<sink_ready, valid, data, last, fields>>       (driven by DUT)  *)
(*                                                                         *)
(* c (configuration record, from the harness together with the DUT):       *)
(*   kind, dw, hl (header length in bytes), swap (swap_field_bytes),       *)
(*   fields = << [byte, offset, width], ... >> (sorted by field name, the  *)
(*   order of the header's layout; a header field named <p>_lsb / <p>_msb  *)
(*   of width w is, by the definition of Header.get_field, bits [0, w) /   *)
(*   [w, 2w) of the endpoint's param <p>: the harness presents the two     *)
(*   halves of that param as the two field values, so the clauses below    *)
(*   cover the split unchanged), minlen, maxlen (payload beats per         *)
(*   packet), bubbles (1: the producer may pause inside a packet; 2: it    *)
(*   may pause but keeps the payload of the beat accepted last on the bus, *)
(*   last = 0, as the generator of the repository test does),              *)
(*   junk (1: while valid = 0 the producer may drive arbitrary payload),   *)
(*   cap, and for the exhaustive mode the stimulus alphabets fvals / hvals,*)
(*   npar, tagmod, pad.                                                    *)
(***************************************************************************)
EXTENDS Integers, Sequences, FiniteSets, TLC

VARIABLES ep,     \* producer: [par, k, fv, v] parity of the packet being offered, beats of it accepted so far, its fields
          hold,   \* token offered by the producer and not yet accepted (<<>> if none)
          pk,     \* accepted packets not yet completely delivered: << [fv, pay, done], ... >>, oldest first
          w,      \* number of source beats already delivered of the oldest packet
          oprev,  \* <<the beat>> the source presented in the previous cycle and that was not accepted, else <<>>
          obs     \* verdict bits and progress flags of the last cycle

cvars == <<ep, hold, pk, w, oprev, obs>>

Pow2(n) == 2^n
BPC(c) == c.dw \div 8                     \* bytes per data word
NF(c)  == Len(c.fields)
NBytes(n) == (n + 7) \div 8
Bytes(x, n) == [i \in 1..n |-> (x \div Pow2(8 * (i - 1))) % 256]
(* a data word given as two 16-bit halves (every intermediate stays below 2^31) *)
Bytes2(lo, hi, n) == [i \in 1..n |-> IF i <= 2 THEN (lo \div Pow2(8 * (i - 1))) % 256 ELSE (hi \div Pow2(8 * (i - 3))) % 256]
RECURSIVE IntOf(_)
IntOf(b) == IF b = <<>> THEN 0 ELSE Head(b) + 256 * IntOf(Tail(b))
ByteBit(x, t) == (x \div Pow2(t)) % 2
FieldBit(v, k) == ByteBit(v[(k \div 8) + 1], k % 8)   \* bit k of a field value given as limbs

---------------------------------------------------------------------------
(* Layout: what the header definition prescribes.                          *)
(* A field occupies the header bits Start .. Start+width-1 (bit 0 = least  *)
(* significant bit of header byte 0; byte g of the header is the g-th byte *)
(* on the wire).  Without swap_field_bytes bit k of the field is header    *)
(* bit Start+k.  With it the field's bytes are stored most significant     *)
(* byte first (network order); a width that is not a multiple of 8 makes   *)
(* the most significant, partial byte the first, short chunk.              *)
Start(f) == f.byte * 8 + f.offset
TopSize(f) == f.width - 8 * (NBytes(f.width) - 1)
(* header bit (0-based) that carries bit k of field f *)
Pos(c, f, k) ==
  IF c.swap = 0 THEN Start(f) + k
  ELSE LET n == NBytes(f.width)
           i == k \div 8
       IN IF i = n - 1 THEN Start(f) + (k - 8 * (n - 1))
          ELSE Start(f) + TopSize(f) + 8 * (n - 2 - i) + (k % 8)
(* the inverse: bit of field f that is stored at offset t inside the field's bit range *)
Inv(c, f, t) ==
  IF c.swap = 0 THEN t
  ELSE LET n == NBytes(f.width)
       IN IF t < TopSize(f) THEN 8 * (n - 1) + t
          ELSE 8 * (n - 2 - ((t - TopSize(f)) \div 8)) + ((t - TopSize(f)) % 8)
FieldAt(c, b) ==
  LET S == {i \in 1..NF(c) : Start(c.fields[i]) <= b /\ b < Start(c.fields[i]) + c.fields[i].width}
  IN IF S = {} THEN 0 ELSE CHOOSE i \in S : TRUE
(* bit b of Layout(fields): 0, 1, or 2 = not covered by any field (unspecified) *)
HeaderBit(c, fv, b) ==
  LET i == FieldAt(c, b)
  IN IF i = 0 THEN 2 ELSE FieldBit(fv[i], Inv(c, c.fields[i], b - Start(c.fields[i])))
(* Layout as a byte sequence (uncovered bits 0): used for stimuli and for the self-check below *)
RECURSIVE SumBits(_, _, _, _)
SumBits(c, fv, g, t) == IF t > 7 THEN 0
                        ELSE (IF HeaderBit(c, fv, 8 * g + t) = 1 THEN Pow2(t) ELSE 0) + SumBits(c, fv, g, t + 1)
Layout(c, fv) == [g \in 1..c.hl |-> SumBits(c, fv, g - 1, 0)]
(* does byte x agree with byte g (0-based) of Layout(fields) on every specified bit? *)
HeaderByteOk(c, fv, g, x) == \A t \in 0..7 : HeaderBit(c, fv, 8 * g + t) \in {2, ByteBit(x, t)}
(* the header definition is well formed and Pos / Inv are inverse bijections onto the field's range *)
LayoutWellFormed(c) ==
  /\ \A i \in 1..NF(c) : LET f == c.fields[i] IN
       /\ f.width >= 1 /\ Start(f) + f.width <= 8 * c.hl
       /\ \A k \in 0..f.width - 1 : /\ Pos(c, f, k) >= Start(f) /\ Pos(c, f, k) < Start(f) + f.width
                                    /\ Inv(c, f, Pos(c, f, k) - Start(f)) = k
  /\ \A i, j \in 1..NF(c) : i # j =>
       (Start(c.fields[i]) + c.fields[i].width <= Start(c.fields[j]) \/ Start(c.fields[j]) + c.fields[j].width <= Start(c.fields[i]))

---------------------------------------------------------------------------
(* Packets as the monitor sees them.  pay: for "pk"/"rt" the payload bytes, *)
(* for "dp" all raw bytes (header included).                               *)
NewPk(tok)  == [fv |-> tok[3], pay |-> tok[1], done |-> (tok[2] = 1)]
App(P, tok) == IF P = <<>> \/ P[Len(P)].done THEN Append(P, NewPk(tok))
               ELSE [P EXCEPT ![Len(P)] = [fv |-> @.fv, pay |-> @.pay \o tok[1], done |-> (tok[2] = 1)]]

(* number of bytes of the source-side byte stream of packet H that are determined *)
Avail(c, H) == CASE c.kind = "pk" -> c.hl + Len(H.pay)
                 [] c.kind = "dp" -> Len(H.pay) - c.hl
                 [] OTHER         -> Len(H.pay)
Off(c) == IF c.kind = "dp" THEN c.hl ELSE 0
(* may source beat n (0-based) of packet H be presented now? *)
CanShow(c, H, n) ==
  IF c.kind = "pk"
  THEN n * BPC(c) < Avail(c, H) /\ (~H.done => (n + 1) * BPC(c) <= Avail(c, H))
  ELSE (n + 1) * BPC(c) <= Avail(c, H)
(* is it the final beat?  "pk": the word that holds the last payload byte (the rest of it is      *)
(* padding); "dp"/"rt": the last complete payload beat (a trailing partial word is the residue)  *)
ExpLast(c, H, n) ==
  IF c.kind = "pk" THEN H.done /\ (n + 1) * BPC(c) >= Avail(c, H)
  ELSE H.done /\ (n + 2) * BPC(c) > Avail(c, H)
(* everything of H delivered after n beats *)
Finished(c, H, n) ==
  IF c.kind = "pk" THEN H.done /\ n * BPC(c) >= Avail(c, H)
  ELSE H.done /\ (n + 1) * BPC(c) > Avail(c, H)
DataOk(c, H, n, data) ==
  \A j \in 0..BPC(c) - 1 :
    LET g == n * BPC(c) + j IN
      IF c.kind = "pk"
      THEN IF g < c.hl THEN HeaderByteOk(c, H.fv, g, data[j + 1])
           ELSE IF g < Avail(c, H) THEN data[j + 1] = H.pay[g - c.hl + 1]
           ELSE TRUE                                      \* padding after the end of the packet
      ELSE data[j + 1] = H.pay[Off(c) + g + 1]
(* two presentations of beat n are the same beat: last, header fields and every byte the layout defines (the  *)
(* padding bytes after the end of a packet in a Packetizer's final word are don't-cares)                      *)
SameBeat(c, H, n, b1, b2) ==
  /\ b1[2] = b2[2] /\ b1[3] = b2[3]
  /\ \A j \in 0..BPC(c) - 1 :
       (c.kind = "pk" /\ n * BPC(c) + j >= Avail(c, H)) \/ b1[1][j + 1] = b2[1][j + 1]
FieldsOk(c, H, fo) ==
  CASE c.kind = "pk" -> TRUE
    [] c.kind = "rt" -> fo = H.fv
    [] c.kind = "dp" -> \A i \in 1..NF(c) : \A k \in 0..c.fields[i].width - 1 :
                          LET b == Pos(c, c.fields[i], k)
                          IN FieldBit(fo[i], k) = ByteBit(H.pay[(b \div 8) + 1], b % 8)

---------------------------------------------------------------------------
(* Environment.  EnvOk judges a normalised input (used for recorded traces);*)
(* Inputs enumerates the flat integer vectors of the exhaustive mode:       *)
(*   <<valid, data[15:0], data[31:16], last, f1, f2, ready>>                *)
LastAllowed(c, k, l) ==
  LET n == IF c.kind = "dp" THEN ((k + 1) * BPC(c) - c.hl) \div BPC(c) ELSE k + 1   \* payload beats if this word is the last
  IN IF l = 1 THEN n >= c.minlen /\ n <= c.maxlen ELSE n < c.maxlen

EnvOk(c, iv) ==
  LET tok == <<iv[2], iv[3], iv[4]>> IN
  /\ iv[1] \in {0, 1} /\ iv[5] \in {0, 1}
  /\ hold # <<>> => (iv[1] = 1 /\ tok = hold)
  /\ (hold = <<>> /\ iv[1] = 1) =>
       /\ Len(iv[2]) = BPC(c) /\ iv[3] \in {0, 1} /\ LastAllowed(c, ep.k, iv[3])
       /\ (ep.k > 0 /\ c.kind # "dp") => iv[4] = ep.fv
  /\ iv[1] = 0 => (c.bubbles = 1 \/ ep.k = 0 \/ (c.bubbles = 2 /\ tok = <<ep.prev, 0, ep.fv>>))

TagByte(c, par, p) == 1 + par * c.tagmod + p
PayBytes(c, par, k) == [j \in 1..BPC(c) |-> TagByte(c, par, k * BPC(c) + j - 1)]
(* raw word k of a packet with header variant v whose `last` flag is l *)
RawBytes(c, par, v, k, l) ==
  LET n   == ((k + 1) * BPC(c) - c.hl) \div BPC(c)
      end == c.hl + n * BPC(c)
  IN [j \in 1..BPC(c) |->
        LET g == k * BPC(c) + j - 1 IN
          IF g < c.hl THEN c.hvals[v][g + 1]
          ELSE IF l = 1 /\ g >= end THEN c.pad
          ELSE TagByte(c, par, g - c.hl)]
NormF(c, vals) == [i \in 1..NF(c) |-> Bytes(vals[i], NBytes(c.fields[i].width))]
Flat(c, valid, tok, r) ==
  <<valid, IntOf(SubSeq(tok[1], 1, IF BPC(c) < 2 THEN BPC(c) ELSE 2)), IntOf(SubSeq(tok[1], 3, BPC(c))), tok[2],
    IF Len(tok[3]) >= 1 THEN IntOf(tok[3][1]) ELSE 0, IF Len(tok[3]) >= 2 THEN IntOf(tok[3][2]) ELSE 0, r>>
Offers(c) ==
  IF c.kind = "dp"
  THEN { <<RawBytes(c, ep.par, v, ep.k, l), l, <<>> >> :
           v \in (IF ep.k = 0 THEN 1..Len(c.hvals) ELSE {ep.v}), l \in {x \in {0, 1} : LastAllowed(c, ep.k, x)} }
  ELSE { <<PayBytes(c, ep.par, ep.k), l, fv>> :
           fv \in (IF ep.k = 0 THEN {NormF(c, c.fvals[v]) : v \in 1..Len(c.fvals)} ELSE {ep.fv}),
           l \in {x \in {0, 1} : LastAllowed(c, ep.k, x)} }
JunkTok(c) == <<[j \in 1..BPC(c) |-> c.pad], 1, IF c.kind = "dp" THEN <<>> ELSE [i \in 1..NF(c) |-> <<0>>]>>
ZeroTok(c) == <<[j \in 1..BPC(c) |-> 0], 0, IF c.kind = "dp" THEN <<>> ELSE [i \in 1..NF(c) |-> <<0>>]>>
Inputs(c) ==
  IF hold # <<>>
  THEN { Flat(c, 1, hold, r) : r \in {0, 1} }
  ELSE { Flat(c, 1, t, r) : t \in Offers(c), r \in {0, 1} } \cup
       (IF c.bubbles = 1 \/ ep.k = 0
        THEN { Flat(c, 0, ZeroTok(c), r) : r \in {0, 1} } \cup
             (IF c.junk = 1 THEN { Flat(c, 0, JunkTok(c), r) : r \in {0, 1} } ELSE {})
        ELSE IF c.bubbles = 2 THEN { Flat(c, 0, <<ep.prev, 0, ep.fv>>, r) : r \in {0, 1} }
        ELSE {})
(* flat vectors -> normalised events *)
NormI(c, iv) == <<iv[1], Bytes2(iv[2], iv[3], BPC(c)), iv[4],
                  IF c.kind = "dp" THEN <<>> ELSE [i \in 1..NF(c) |-> Bytes(iv[4 + i], NBytes(c.fields[i].width))],
                  iv[7]>>
NormO(c, o) == <<o[1], o[2], Bytes2(o[3], o[4], BPC(c)), o[5],
                 IF c.kind = "pk" THEN <<>> ELSE [i \in 1..NF(c) |-> Bytes(o[5 + i], NBytes(c.fields[i].width))]>>

---------------------------------------------------------------------------
(* One clock cycle of the contract                                         *)
CInit ==
  /\ ep = [par |-> 0, k |-> 0, fv |-> <<>>, v |-> 0, prev |-> <<>>]
  /\ hold = <<>> /\ pk = <<>> /\ w = 0 /\ oprev = <<>>
  /\ obs = [okshow |-> TRUE, okdata |-> TRUE, oklast |-> TRUE, okfields |-> TRUE, okhold |-> TRUE,
            okbound |-> TRUE, srcfire |-> FALSE, sinkfire |-> FALSE, coop |-> FALSE, rdy |-> FALSE,
            act |-> FALSE, owed |-> FALSE]

CStep(c, iv, o) ==
  LET offered  == iv[1] = 1
      tok      == <<iv[2], iv[3], iv[4]>>
      sinkfire == offered /\ o[1] = 1
      shown    == o[2] = 1
      srcfire  == shown /\ iv[5] = 1
      P        == IF offered THEN App(pk, tok) ELSE pk      \* what is determined now: accepted + offered
      can      == P # <<>> /\ CanShow(c, Head(P), w)
      pk1      == IF sinkfire THEN P ELSE pk
      w1       == IF srcfire /\ can THEN w + 1 ELSE w
      fin      == pk1 # <<>> /\ Finished(c, Head(pk1), w1)
      pk2      == IF fin THEN Tail(pk1) ELSE pk1
      w2       == IF fin THEN 0 ELSE w1
  IN
  /\ ep'    = IF ~sinkfire THEN ep
              ELSE IF iv[3] = 1 THEN [par |-> (ep.par + 1) % c.npar, k |-> 0, fv |-> <<>>, v |-> 0, prev |-> <<>>]
              ELSE [par |-> ep.par, k |-> ep.k + 1, fv |-> iv[4], prev |-> iv[2],
                    v |-> IF c.kind = "dp" /\ "hvals" \in DOMAIN c
                          THEN (IF ep.k = 0
                                THEN (LET S == {x \in 1..Len(c.hvals) : RawBytes(c, ep.par, x, 0, iv[3]) = iv[2]}
                                      IN IF S = {} THEN 0 ELSE CHOOSE x \in S : TRUE)
                                ELSE ep.v)
                          ELSE 0]
  /\ hold'  = IF offered /\ ~sinkfire THEN tok ELSE <<>>
  /\ pk'    = IF Len(pk2) <= c.cap THEN pk2 ELSE pk       \* saturate (Bounded is then already false)
  /\ w'     = w2
  /\ oprev' = IF shown /\ ~srcfire THEN << <<o[3], o[4], o[5]>> >> ELSE <<>>
  /\ obs'   = [okshow   |-> (shown => can),
               okdata   |-> ((shown /\ can) => DataOk(c, Head(P), w, o[3])),
               oklast   |-> ((shown /\ can) => ((o[4] = 1) = ExpLast(c, Head(P), w))),
               okfields |-> ((shown /\ can) => FieldsOk(c, Head(P), o[5])),
               okhold   |-> (oprev # <<>> => (shown /\ (IF can THEN SameBeat(c, Head(P), w, oprev[1], <<o[3], o[4], o[5]>>)
                                                     ELSE <<o[3], o[4], o[5]>> = oprev[1]))),
               okbound  |-> Len(pk2) <= c.cap,
               srcfire  |-> srcfire,
               sinkfire |-> sinkfire,
               coop     |-> (offered /\ iv[5] = 1),
               rdy      |-> (iv[5] = 1),
               \* the producer is not pausing inside a packet (a realigning element holds the residue of an accepted
               \* beat until the next beat or the end of the packet arrives)
               act      |-> (offered \/ (IF sinkfire THEN iv[3] = 1 ELSE ep.k = 0)),
               owed     |-> (pk2 # <<>> /\ CanShow(c, Head(pk2), w2))]

---------------------------------------------------------------------------
(* Properties (C16, framing)                                               *)
Causal        == obs.okshow    \* a beat is presented only when the packet stream determines all of it; no beat beyond the end of a packet
ByteLayout    == obs.okdata    \* every presented byte is the byte Layout(fields) ++ payload prescribes at that position / the realigned payload byte
LastPlacement == obs.oklast    \* `last` exactly on the final beat of the packet
HeaderFields  == obs.okfields  \* the header fields presented with every payload beat decode the received header (round trip: equal the sent ones)
ValidHold     == obs.okhold    \* a presented beat (data, last, header fields) is neither withdrawn nor changed before it is accepted
Bounded       == obs.okbound   \* accepted packets do not pile up undelivered
=============================================================================
