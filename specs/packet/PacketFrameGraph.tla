--------------------------- MODULE PacketFrameGraph ---------------------------
(* G-mode product:  Env x PacketFrame monitor x implementation graph G of the  *)
(* REAL Packetizer / Depacketizer netlists, computed on demand by              *)
(* harness/graphloop.py (DESIGN.md 2, mode G).                                 *)
EXTENDS PacketFrame, Json, IOUtils, GraphLookup

G == JsonDeserialize(IOEnv.GRAPH)
NDuts == Len(G.duts)

VARIABLES d,   \* which DUT of the batch this behaviour is about
          s,   \* implementation state (node of G.duts[d]); -1 = edge not yet known
          ph   \* flips on a step that changes nothing else: no step of Next is a stuttering step, so WF_vars(Next)
               \* cannot be satisfied by leaving a hung state that still has another way out (see Progress*)
vars == <<d, s, ph, ep, hold, pk, w, oprev, obs>>

C == G.duts[d].cfg

Init == /\ d \in 1..NDuts /\ s = 0 /\ ph = 0 /\ CInit

Step(iv) ==
  /\ s >= 0
  /\ LET e == GLookup(G.duts[d].succ[s + 1], iv) IN          \* <<iv, outputs, successor>> or <<>>
       IF e # <<>>
       THEN /\ s' = e[3] /\ d' = d
            /\ CStep(C, NormI(C, iv), NormO(C, e[2]))
            /\ ph' = IF e[3] = s /\ cvars' = cvars THEN 1 - ph ELSE 0
       ELSE /\ PrintT(<<"NEED", d, s, iv>>)                   \* ask the harness for this edge
            /\ s' = -1 /\ d' = d /\ ph' = 0 /\ UNCHANGED cvars

Next == \E iv \in Inputs(C) : Step(iv)

(* error traces show, for every state, the input the environment applied in the step that *)
(* leaves it: this is the schedule the harness replays on the real code                  *)
Alias == [d |-> d, s |-> s, ep |-> ep, pk |-> pk, w |-> w, obs |-> obs,
          iv |-> CHOOSE iv \in Inputs(C) : Step(iv)]

Spec == Init /\ [][Next]_vars /\ WF_vars(Next)

(* the header definitions handed over by the harness are well formed (checked once per DUT) *)
DefsWellFormed == s # 0 \/ LayoutWellFormed(C)

(* progress under cooperation: producer offering and consumer ready forever => beats keep moving on both sides *)
Progress     == (<>[](obs.coop)) => ([]<>(obs.srcfire))
ProgressSink == (<>[](obs.coop)) => ([]<>(obs.sinkfire))
(* nothing lost: with a consumer that is eventually always ready and a producer that does not stop in the middle of a *)
(* packet every beat that the accepted data determine is delivered                                                   *)
NothingLost  == (<>[](obs.rdy /\ obs.act)) => ([]<>(~obs.owed \/ obs.srcfire))
(* the three progress clauses as ONE property (TLC names only a single violated temporal property reliably); *)
(* the recorded replay is re-judged by the bounded forms, which name the clause                              *)
Liveness == Progress /\ ProgressSink /\ NothingLost
=============================================================================
