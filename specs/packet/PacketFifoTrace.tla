--------------------------- MODULE PacketFifoTrace ---------------------------
(* T-mode: recorded traces of the real PacketFIFO (simulation, or replay of a G-mode counterexample) *)
EXTENDS PacketFifo, Json, IOUtils
T == JsonDeserialize(IOEnv.TRACES)
VARIABLES tid, l, envbad, stall, stall2, stall3
vars == <<tid, l, envbad, stall, stall2, stall3, ep, hold, q, oprev, obs>>
C == T[tid].cfg
Init == /\ tid \in 1..Len(T) /\ l = 1 /\ envbad = FALSE /\ stall = 0 /\ stall2 = 0 /\ stall3 = 0 /\ CInit
Next ==
  /\ l <= Len(T[tid].ev)
  /\ LET iv == T[tid].ev[l][1]
         o  == T[tid].ev[l][2]
     IN /\ envbad' = (envbad \/ ~EnvOk(C, iv) \/ (C.flat = 1 /\ iv \notin Inputs(C)))
        /\ CStep(C, iv, o)
        /\ stall'  = IF obs'.coop /\ ~obs'.srcfire THEN stall + 1 ELSE 0
        /\ stall3' = IF obs'.coop /\ ~obs'.sinkfire THEN stall3 + 1 ELSE 0
        /\ stall2' = IF obs'.rdy /\ obs'.owed /\ ~obs'.srcfire THEN stall2 + 1 ELSE 0
  /\ l' = l + 1 /\ tid' = tid
EnvLegal == ~envbad
OnlyCompletePacketsT == obs.okcomplete
InOrderT             == obs.okorder
ParamOfPacketT       == obs.okparam
ValidHoldT           == obs.okhold
BoundedT             == obs.okbound
BoundedProgress      == stall  < C.stallbound
BoundedProgressSink  == stall3 < C.stallbound
BoundedDelivery      == stall2 < C.stallbound
BoundedLiveness     == BoundedProgress /\ BoundedProgressSink /\ BoundedDelivery
=============================================================================
