--------------------------- MODULE PacketFifoGraph ---------------------------
(* G-mode product: Env x PacketFifo monitor x implementation graph of the real PacketFIFO *)
EXTENDS PacketFifo, Json, IOUtils, GraphLookup
G == JsonDeserialize(IOEnv.GRAPH)
NDuts == Len(G.duts)
VARIABLES d, s,
          ph   \* flips on a step that changes nothing else: no step of Next is a stuttering step, so WF_vars(Next)
               \* cannot be satisfied by leaving a hung state that still has another way out (see Progress*)
vars == <<d, s, ph, ep, hold, q, oprev, obs>>
C == G.duts[d].cfg
Init == /\ d \in 1..NDuts /\ s = 0 /\ ph = 0 /\ CInit
Step(iv) ==
  /\ s >= 0
  /\ LET e == GLookup(G.duts[d].succ[s + 1], iv) IN          \* <<iv, outputs, successor>> or <<>>
       IF e # <<>>
       THEN /\ s' = e[3] /\ d' = d
            /\ CStep(C, iv, e[2])
            /\ ph' = IF e[3] = s /\ cvars' = cvars THEN 1 - ph ELSE 0
       ELSE /\ PrintT(<<"NEED", d, s, iv>>)                   \* ask the harness for this edge
            /\ s' = -1 /\ d' = d /\ ph' = 0 /\ UNCHANGED cvars

Next == \E iv \in Inputs(C) : Step(iv)
Alias == [d |-> d, s |-> s, ep |-> ep, q |-> q, obs |-> obs, iv |-> CHOOSE iv \in Inputs(C) : Step(iv)]
Spec == Init /\ [][Next]_vars /\ WF_vars(Next)
(* a cooperating producer / consumer pair keeps beats moving (premise: every packet fits the payload depth) *)
Progress     == (<>[](obs.coop)) => ([]<>(obs.srcfire))
ProgressSink == (<>[](obs.coop)) => ([]<>(obs.sinkfire))
(* nothing lost: with a consumer that is eventually always ready every complete packet is delivered *)
NothingLost  == (<>[](obs.rdy)) => ([]<>(~obs.owed \/ obs.srcfire))
(* the three progress clauses as ONE property (TLC names only a single violated temporal property reliably); *)
(* the recorded replay is re-judged by the bounded forms, which name the clause                              *)
Liveness == Progress /\ ProgressSink /\ NothingLost
=============================================================================
