--------------------------- MODULE PacketFifoGraph ---------------------------
(* G-mode product: Env x PacketFifo monitor x implementation graph of the real PacketFIFO *)
EXTENDS PacketFifo, Json, IOUtils
G == JsonDeserialize(IOEnv.GRAPH)
NDuts == Len(G.duts)
VARIABLES d, s
vars == <<d, s, ep, hold, q, oprev, obs>>
C == G.duts[d].cfg
Init == /\ d \in 1..NDuts /\ s = 0 /\ CInit
Step(iv) ==
  /\ s >= 0
  /\ LET k == ToString(iv) IN
       IF k \in DOMAIN G.duts[d].succ[s + 1]
       THEN LET e == G.duts[d].succ[s + 1][k] IN
            /\ s' = e.d /\ d' = d
            /\ CStep(C, iv, e.o)
       ELSE /\ PrintT(<<"NEED", d, s, iv>>)
            /\ s' = -1 /\ d' = d /\ UNCHANGED cvars
Next == \E iv \in Inputs(C) : Step(iv)
Alias == [d |-> d, s |-> s, ep |-> ep, q |-> q, obs |-> obs, iv |-> CHOOSE iv \in Inputs(C) : Step(iv)]
Spec == Init /\ [][Next]_vars /\ WF_vars(Next)
(* a cooperating producer / consumer pair keeps beats moving (premise: every packet fits the payload depth) *)
Progress     == (<>[](obs.coop)) => ([]<>(obs.srcfire))
ProgressSink == (<>[](obs.coop)) => ([]<>(obs.sinkfire))
(* nothing lost: with a consumer that is eventually always ready every complete packet is delivered *)
NothingLost  == (<>[](obs.rdy)) => ([]<>(~obs.owed \/ obs.srcfire))
=============================================================================
