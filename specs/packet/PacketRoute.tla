------------------------------ MODULE PacketRoute ------------------------------
(***************************************************************************)
(* L1 contract of the packet Arbiter (n masters -> 1 slave) and Dispatcher *)
(* (1 master -> m slaves) of litex/soc/interconnect/packet.py (C16):       *)
(* packets are forwarded atomically - between the first beat and the       *)
(* `last` beat of a packet on a slave port all beats come from one master, *)
(* the destination of a packet is the one selected when its first beat was *)
(* offered and does not change although `sel` may, every master's beats    *)
(* arrive in order, exactly once, and the arbiter is a fair round robin.   *)
(*                                                                         *)
(*   iv = <<v1,d1,l1,p1, ..., vn,dn,ln,pn, sel, r1, ..., rm>>   (Env)      *)
(*   o  = <<ready_1..ready_n, sv1,sd1,sl1,sp1, ..., svm,sdm,slm,spm>> (DUT)*)
(*                                                                         *)
(* c: n, m, sels (sel value of slave 1..m; <<0>> for the arbiter),         *)
(*    badsels (sel values that select no slave), minlen, maxlen, bubbles,  *)
(*    npar (1 or 2 packet tags per master),                                *)
(*    cap (beats a port may buffer; 0 for the combinational elements),     *)
(*    junk (1: a master that offers nothing may drive arbitrary data,      *)
(*    `last` and param - <<0, jdata, 1, jparam>> stands for it; a field of *)
(*    newer configuration records only).                                   *)
(* Environment: every master holds an unaccepted offer; `sel` is part of   *)
(* the offer of a packet's first beat (steady until that beat is accepted) *)
(* and free at all other times; slaves drive ready freely.                 *)
(***************************************************************************)
EXTENDS Integers, Sequences, FiniteSets, TLC

MAXN == 4

VARIABLES ep,     \* per master [par, k]: parity of / accepted beats of the packet being offered
          hold,   \* per master: token <<data, last, param>> offered and not yet accepted (<<>> if none)
          selh,   \* sel value that goes with a held first beat (-1 if none)
          q,      \* per master: accepted, not yet delivered beats << <<data,last,param>>, dest >>
          pend,   \* per master: 1 iff the offered beat has already been delivered
          dest,   \* per master: destination of the packet whose first beat has been accepted
          own,    \* per slave: master whose packet is in progress on that port (0 = none)
          wc,     \* per master: packets of other masters started on its destination while its first beat waits
          oprev,  \* per slave: beat presented and not yet accepted (<<>> if none)
          obs

cvars == <<ep, hold, selh, q, pend, dest, own, wc, oprev, obs>>

(* all concatenations of one sequence out of each set of the sequence of sets Ss *)
RECURSIVE SeqProd(_)
SeqProd(Ss) == IF Ss = <<>> THEN {<<>>} ELSE {x \o y : x \in Head(Ss), y \in SeqProd(Tail(Ss))}

LastAllowed(c, k, l) == IF l = 1 THEN k + 1 >= c.minlen /\ k + 1 <= c.maxlen ELSE k + 1 < c.maxlen
Tag(c, i, par, k) == 1 + ((i - 1) * 2 + par) * c.maxlen + k
(* slave selected by a sel value (0 = none) *)
SelDest(c, sv) == LET S == {j \in 1..c.m : c.sels[j] = sv} IN IF S = {} THEN 0 ELSE CHOOSE j \in S : TRUE

MV(iv, i)  == iv[4 * (i - 1) + 1]
MTok(iv, i) == <<iv[4 * (i - 1) + 2], iv[4 * (i - 1) + 3], iv[4 * (i - 1) + 4]>>
Sel(c, iv) == iv[4 * c.n + 1]
SRdy(c, iv, j) == iv[4 * c.n + 1 + j]
MRdy(o, i) == o[i]
SV(c, o, j) == o[c.n + 4 * (j - 1) + 1]
STok(c, o, j) == <<o[c.n + 4 * (j - 1) + 2], o[c.n + 4 * (j - 1) + 3], o[c.n + 4 * (j - 1) + 4]>>

Junk(c) == "junk" \in DOMAIN c /\ c.junk = 1
MasterChoices(c, i) ==
  IF hold[i] # <<>> THEN { <<1, hold[i][1], hold[i][2], hold[i][3]>> }
  ELSE { <<1, Tag(c, i, ep[i].par, ep[i].k), l, ep[i].par + 1>> : l \in {x \in {0, 1} : LastAllowed(c, ep[i].k, x)} } \cup
       (IF c.bubbles = 1 \/ ep[i].k = 0
        THEN { <<0, 0, 0, 0>> } \cup (IF Junk(c) THEN { <<0, c.jdata, 1, c.jparam>> } ELSE {})
        ELSE {})
SelChoices(c) ==
  IF selh >= 0 THEN {selh} ELSE {c.sels[j] : j \in 1..c.m} \cup {c.badsels[j] : j \in 1..Len(c.badsels)}
Inputs(c) ==
  { ms \o <<sv>> \o rs : ms \in SeqProd([i \in 1..c.n |-> MasterChoices(c, i)]),
                                  sv \in SelChoices(c),
                                  rs \in SeqProd([j \in 1..c.m |-> {<<0>>, <<1>>}]) }

EnvOk(c, iv) ==
  /\ Len(iv) = 4 * c.n + 1 + c.m
  /\ \A i \in 1..c.n :
       /\ MV(iv, i) \in {0, 1}
       /\ hold[i] # <<>> => (MV(iv, i) = 1 /\ MTok(iv, i) = hold[i])
       /\ (hold[i] = <<>> /\ MV(iv, i) = 1) => (MTok(iv, i)[2] \in {0, 1} /\ LastAllowed(c, ep[i].k, MTok(iv, i)[2]))
       /\ MV(iv, i) = 0 => (c.bubbles = 1 \/ ep[i].k = 0)
  /\ selh >= 0 => Sel(c, iv) = selh
  /\ \A j \in 1..c.m : SRdy(c, iv, j) \in {0, 1}

Pad(f, n, x) == [i \in 1..MAXN |-> IF i <= n THEN f[i] ELSE x]

CInit ==
  /\ ep = [i \in 1..MAXN |-> [par |-> 0, k |-> 0]]
  /\ hold = [i \in 1..MAXN |-> <<>>] /\ selh = -1
  /\ q = [i \in 1..MAXN |-> <<>>] /\ pend = [i \in 1..MAXN |-> 0] /\ dest = [i \in 1..MAXN |-> 0]
  /\ own = [j \in 1..MAXN |-> 0] /\ wc = [i \in 1..MAXN |-> 0] /\ oprev = [j \in 1..MAXN |-> <<>>]
  /\ obs = [okdata |-> TRUE, okdest |-> TRUE, okatomic |-> TRUE, okhold |-> TRUE, okbound |-> TRUE, okonce |-> TRUE,
            okwait |-> TRUE, fair |-> FALSE, nowait |-> [i \in 1..MAXN |-> TRUE],
            empty |-> [i \in 1..MAXN |-> TRUE]]

CStep(c, iv, o) ==
  (* the per-port definitions are functions (not operators) so that TLC evaluates each of them once per step *)
  LET N == 1..c.n
      M == 1..c.m
      offered  == [i \in N |-> MV(iv, i) = 1]
      mfire    == [i \in N |-> offered[i] /\ MRdy(o, i) = 1]
      (* destination of the beat master i offers now *)
      dview    == [i \in N |-> IF ep[i].k = 0 THEN SelDest(c, Sel(c, iv)) ELSE dest[i]]
      (* undelivered beats of master i that are determined now: accepted ones, then the offered one *)
      vis      == [i \in N |-> q[i] \o (IF offered[i] /\ pend[i] = 0 THEN << <<MTok(iv, i), dview[i]>> >> ELSE <<>>)]
      shown    == [j \in M |-> SV(c, o, j) = 1]
      sfire    == [j \in M |-> shown[j] /\ SRdy(c, iv, j) = 1]
      (* masters whose oldest undelivered beat is the beat shown on slave j *)
      cand     == [j \in M |-> {i \in N : vis[i] # <<>> /\ Head(vis[i])[1] = STok(c, o, j)}]
      src      == [j \in M |-> IF ~shown[j] \/ cand[j] = {} THEN 0 ELSE CHOOSE i \in cand[j] : TRUE]
      consumed == [i \in N |-> \E j \in M : sfire[j] /\ src[j] = i]
      q1       == [i \in N |-> IF consumed[i] /\ q[i] # <<>> THEN Tail(q[i]) ELSE q[i]]
      pend1    == [i \in N |-> IF consumed[i] /\ q[i] = <<>> THEN 1 ELSE pend[i]]
      q2       == [i \in N |-> IF mfire[i] /\ pend1[i] = 0 /\ dview[i] # 0 THEN Append(q1[i], <<MTok(iv, i), dview[i]>>) ELSE q1[i]]
      (* first beat of a packet of master x delivered on slave j in this cycle *)
      starts(x, j) == sfire[j] /\ src[j] = x /\ own[j] # x
      waiting  == [i \in N |-> offered[i] /\ ep[i].k = 0 /\ pend[i] = 0 /\ ~consumed[i]]
      wc1      == [i \in N |-> IF waiting[i] /\ dview[i] # 0
                                THEN wc[i] + Cardinality({x \in N \ {i} : starts(x, dview[i])})
                                ELSE 0]
  IN
  /\ ep'    = [i \in 1..MAXN |-> IF i \in N /\ mfire[i]
                                 THEN (IF MTok(iv, i)[2] = 1 THEN [par |-> (ep[i].par + 1) % c.npar, k |-> 0]
                                       ELSE [par |-> ep[i].par, k |-> ep[i].k + 1])
                                 ELSE ep[i]]
  /\ hold'  = [i \in 1..MAXN |-> IF i \in N /\ offered[i] /\ ~mfire[i] THEN MTok(iv, i) ELSE <<>>]
  /\ selh'  = IF Len(c.sels) + Len(c.badsels) > 1 /\ (\E i \in N : offered[i] /\ ~mfire[i] /\ ep[i].k = 0) THEN Sel(c, iv) ELSE -1
  /\ q'     = [i \in 1..MAXN |-> IF i \in N /\ Len(q2[i]) <= c.cap THEN q2[i] ELSE q[i]]
  /\ pend'  = [i \in 1..MAXN |-> IF i \in N /\ ~mfire[i] THEN pend1[i] ELSE 0]
  /\ dest'  = [i \in 1..MAXN |-> IF i \in N /\ mfire[i] /\ ep[i].k = 0 THEN dview[i] ELSE dest[i]]
  /\ own'   = [j \in 1..MAXN |-> IF j \in M /\ sfire[j] /\ src[j] # 0
                                 THEN (IF STok(c, o, j)[2] = 1 THEN 0 ELSE src[j])
                                 ELSE own[j]]
  /\ wc'    = [i \in 1..MAXN |-> IF i \in N THEN (IF wc1[i] <= c.n THEN wc1[i] ELSE c.n) ELSE 0]
  /\ oprev' = [j \in 1..MAXN |-> IF j \in M /\ shown[j] /\ ~sfire[j] THEN STok(c, o, j) ELSE <<>>]
  /\ obs'   = [okdata   |-> \A j \in M : shown[j] => cand[j] # {},
               okdest   |-> \A j \in M : src[j] # 0 => Head(vis[src[j]])[2] = j,
               okatomic |-> \A j \in M : (src[j] # 0 /\ own[j] # 0) => src[j] = own[j],
               okhold   |-> \A j \in M : oprev[j] # <<>> => (shown[j] /\ STok(c, o, j) = oprev[j]),
               okbound  |-> \A i \in N : Len(q2[i]) <= c.cap,
               \* a beat accepted from a master is delivered exactly once: it is never accepted by two ports at once
               okonce   |-> \A j1, j2 \in M : (j1 # j2 /\ sfire[j1] /\ sfire[j2]) => (src[j1] = 0 \/ src[j1] # src[j2]),
               okwait   |-> \A i \in N : wc1[i] <= c.n - 1,
               fair     |-> (\A j \in M : SRdy(c, iv, j) = 1) /\ (\A i \in N : ep[i].k = 0 \/ offered[i]),
               nowait   |-> [i \in 1..MAXN |-> i \notin N \/ ~offered[i] \/ mfire[i]],
               empty    |-> [i \in 1..MAXN |-> i \notin N \/ q2[i] = <<>>]]

(* Properties (C16, arbiter / dispatcher) *)
BeatsInOrder      == obs.okdata    \* a beat shown on a slave port is the oldest undelivered beat of some master (data, last, param intact)
SelLatchedOnFirst == obs.okdest    \* ... shown on the port selected when the packet's first beat was offered, whatever `sel` does later
Atomic            == obs.okatomic  \* between first and last beat of a packet on a port all beats come from the same master
ValidHold         == obs.okhold    \* a presented beat stays unchanged until accepted
Bounded           == obs.okbound   \* accepted beats are delivered, not stored beyond the element's capacity
ExactlyOnce       == obs.okonce    \* no beat is delivered on two ports
BoundedWait       == obs.okwait    \* round robin: at most n-1 packets of other masters start while a master's first beat waits
=============================================================================
