------------------------------ MODULE PllConfig ------------------------------
(* The judge of C20.  Each case is one request executed by the harness on a   *)
(* REAL clocking helper of litex.soc.cores.clock:                             *)
(*   c.req   the request (TLC generated it from PllRequests)                  *)
(*   c.dev   the ranges the real class declares (read at run time)            *)
(*   c.res   "ok" | "refused";  c.cfg / c.cfgs / c.cfgo  the returned config  *)
(*           dict (numbers x8 / strings / clock signals as output indices)    *)
(*   c.inst  the emitted Instance: primitive name, parameters (numbers x8,    *)
(*           strings), outputs (index of the requested clock they drive)      *)
(* Clauses (one INVARIANT each, three-valued, 0 = violated):                  *)
(*   MeetsRequest, InsideRanges, InstanceEqualsConfig, RefusedOnlyIfInfeasible *)
(* ModelComplete is a self check of this specification (a configuration the   *)
(* code returned and the spec accepts must be found by the spec's own search).*)
EXTENDS PllKinds, Json, IOUtils

CASES == JsonDeserialize(IOEnv.CASES)

VARIABLES tid, done, v
vars == <<tid, done, v>>

NA == 3
Verdict(c) ==
  LET d == c.dev
      r == c.req
  IN IF c.res = "ok"
     THEN LET mi == MeetsIt(c)
              ri == RangesIt(c)
              ii == InstIt(c)
              me == It3(mi)
              ra == It3(ri)
          IN [res |-> "ok", meets |-> me, ranges |-> ra, inst |-> It3(ii), refuse |-> NA,
              bad |-> <<Bad(mi), Bad(ri), Bad(ii)>>,
              model |-> IF ~Judged(c) THEN NA
                        ELSE IF me = 2 /\ ra = 2 THEN B3(Feas(d, r, 2))
                        ELSE IF me >= 1 /\ ra >= 1 THEN B3(Feas(d, r, 1)) ELSE NA]
     ELSE [res |-> "refused", meets |-> NA, ranges |-> NA, inst |-> NA, model |-> NA, bad |-> <<{}, {}, {}>>,
           refuse |-> IF ~Judged(c) THEN NA
                      ELSE IF Feas(d, r, 2) THEN 0 ELSE IF Feas(d, r, 1) THEN 1 ELSE 2]

Todo == [res |-> "todo", meets |-> NA, ranges |-> NA, inst |-> NA, refuse |-> NA, model |-> NA, bad |-> <<{}, {}, {}>>]
Init == tid \in 1..Len(CASES) /\ done = FALSE /\ v = Todo
Next == /\ ~done
        /\ done' = TRUE
        /\ v' = Verdict(CASES[tid])
        /\ tid' = tid
        /\ PrintT(<<"VERDICT", tid, v'>>)
        /\ (v'.refuse = 0 => PrintT(<<"WITNESS", tid, Witness(CASES[tid].dev, CASES[tid].req, 2)>>))

MeetsRequest            == v.meets # 0
InsideRanges            == v.ranges # 0
InstanceEqualsConfig    == v.inst # 0
RefusedOnlyIfInfeasible == v.refuse # 0
ModelComplete           == v.model # 0
=============================================================================
