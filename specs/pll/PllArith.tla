------------------------------ MODULE PllArith ------------------------------
(* Exact rational arithmetic for the PLL judge, on 32-bit TLC integers.       *)
(*                                                                            *)
(* Frequencies are integer multiples of HZ = 125 kHz; every comparison of     *)
(* rationals is a comparison of integer cross products that stay below 2^31   *)
(* for sane operands (guards reject the rest).                                *)
(*                                                                            *)
(* Verdicts are THREE-VALUED because the code under test computes with binary *)
(* floating point:   2 = holds,  0 = fails,  1 = indeterminate, i.e. the two  *)
(* sides differ by at most 1e-9 relative (or are mathematically equal on a    *)
(* path whose float intermediates need not be exact).  Indeterminate cases    *)
(* are never violations; the harness counts them in the evidence.             *)
EXTENDS Integers, Sequences, FiniteSets, TLC

Abs(x)     == IF x < 0 THEN -x ELSE x
Min2(a, b) == IF a < b THEN a ELSE b
Max2(a, b) == IF a > b THEN a ELSE b
GIGA == 1000000000
HZ   == 125000
TWO30 == 1073741824

Min3(S) == IF 0 \in S THEN 0 ELSE IF 1 \in S THEN 1 ELSE 2
B3(b)   == IF b THEN 2 ELSE 0

(* L <= R for cross products L, R >= 0.  ex: a mathematically exact tie is    *)
(* decided exactly by the float code as well.                                 *)
Leq3(L, R, ex) ==
  IF L = R THEN (IF ex THEN 2 ELSE 1)
  ELSE IF Abs(L - R) <= R \div GIGA THEN 1
  ELSE IF L < R THEN 2 ELSE 0

(* fin*HZ/n is a whole number of Hz: then clkin/n, and every product of it    *)
(* with integers, is exact in binary floating point whatever the evaluation   *)
(* order of the helper is.                                                    *)
ExactDiv(fin, n) == (((fin % n) * (HZ % n)) % n) = 0

(* | X/Yd - f | <= f * mn/md   (X, Yd, f > 0; margin mn/md with mn \in {0,1}) *)
Within3(X, Yd, f, mn, md, ex) ==
  IF Yd > TWO30 \div f THEN 0                       \* X/Yd is far below f (X < 2^29)
  ELSE LET Y == f * Yd
           D == Abs(X - Y)
       IN IF mn = 0
          THEN (IF D = 0 THEN (IF ex THEN 2 ELSE 1) ELSE IF D <= Y \div GIGA THEN 1 ELSE 0)
          ELSE IF D > (Y \div md) * mn + mn + 1 THEN 0
               ELSE LET L == D * md
                        R == Y * mn
                    IN IF Abs(L - R) <= Y \div (GIGA \div md) + 1 THEN 1
                       ELSE IF L < R THEN 2 ELSE 0

(* the weaker test  |X/Yd - f| <= max(X/Yd, f) * mn/md  (what math.isclose(rel_tol=margin) or a   *)
(* margin taken relative to the obtained frequency accept); used only to NAME a failing item   *)
WithinOfLarger(X, Yd, f, mn, md) ==
  /\ mn > 0 /\ Yd <= TWO30 \div f
  /\ LET Y  == f * Yd
         D  == Abs(X - Y)
         Mx == Max2(X, Y)
     IN D <= (Mx \div md) * mn + mn /\ D * md <= Mx * mn + (Mx \div (GIGA \div md)) + 1
OutItem(i, X, Yd, f, mn, md, ex) ==
  LET v == Within3(X, Yd, f, mn, md, ex)
  IN <<"out" \o ToString(i) \o (IF v = 0 /\ WithinOfLarger(X, Yd, f, mn, md) THEN ":within_margin_of_the_larger" ELSE ""), v>>

(* x is a member of one of the python ranges  <<lo, hi_exclusive, step>>      *)
InRanges(x, rs) == \E k \in 1..Len(rs) : x >= rs[k][1] /\ x < rs[k][2] /\ (x - rs[k][1]) % rs[k][3] = 0
InIv(x, iv)     == x >= iv[1] /\ x <= iv[2]

(* floor(a*b/c) and the remainder without overflow (binary long multiplication);  *)
(* a, b >= 0, 0 < c < 2^30, quotient < 2^30                                   *)
RECURSIVE MulDiv(_, _, _)
MulDiv(a, b, c) ==
  IF b = 0 THEN <<0, 0>>
  ELSE LET h  == MulDiv(a, b \div 2, c)
           q2 == (2 * h[1]) + ((2 * h[2]) \div c)
           r2 == (2 * h[2]) % c
       IN IF b % 2 = 0 THEN <<q2, r2>>
          ELSE LET r3 == r2 + (a % c)
               IN <<q2 + (a \div c) + (r3 \div c), r3 % c>>

Pow2(k) == IF k < 0 \/ k > 20 THEN -1 ELSE <<1, 2, 4, 8, 16, 32, 64, 128, 256, 512, 1024, 2048, 4096, 8192, 16384,
                                              32768, 65536, 131072, 262144, 524288, 1048576>>[k + 1]

(* value x8 -> integer, -1 when absent, negative or fractional *)
Int8(x) == IF x >= 0 /\ x % 8 = 0 THEN x \div 8 ELSE -1
(* the same for parameters that may legitimately be negative; -99999 when absent / fractional *)
SInt8(x) == IF x % 8 = 0 THEN x \div 8 ELSE -99999

(* self test of the arithmetic (TLC evaluates assumptions before anything else) *)
ASSUME /\ MulDiv(1234567, 98765, 4321) = <<28218470, 885>>
       /\ MulDiv(18000000, 130, 936000) = <<2500, 0>>
       /\ Within3(800, 8, 100, 0, 1, TRUE) = 2 /\ Within3(800, 8, 100, 0, 1, FALSE) = 1 /\ Within3(801, 8, 100, 0, 1, TRUE) = 0
       /\ Within3(808, 8, 100, 1, 100, TRUE) = 1                      \* exactly 1 % off: float decides, indeterminate
       /\ Within3(8079, 80, 100, 1, 100, TRUE) = 2 /\ Within3(8081, 80, 100, 1, 100, TRUE) = 0
       /\ Within3(7921, 80, 100, 1, 100, TRUE) = 2 /\ Within3(7919, 80, 100, 1, 100, TRUE) = 0
       /\ WithinOfLarger(16160, 160, 100, 1, 100) /\ ~WithinOfLarger(16170, 160, 100, 1, 100)   \* 101.0 vs 101.06
       /\ Leq3(5, 5, TRUE) = 2 /\ Leq3(5, 5, FALSE) = 1 /\ Leq3(4, 5, FALSE) = 2 /\ Leq3(6, 5, TRUE) = 0
       /\ Leq3(2000000001, 2000000000, TRUE) = 1
       /\ ExactDiv(800, 3) = FALSE /\ ExactDiv(800, 64) = TRUE /\ ExactDiv(594, 7) = FALSE
       /\ InRanges(17, << <<8, 1025, 1>> >>) /\ ~InRanges(17, << <<8, 1032, 8>> >>) /\ ~InRanges(1032, << <<8, 1032, 8>> >>)
       /\ Int8(24) = 3 /\ Int8(25) = -1 /\ Int8(-1) = -1 /\ SInt8(-8) = -1
=============================================================================
