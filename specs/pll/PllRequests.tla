----------------------------- MODULE PllRequests -----------------------------
(* The request space of C20: which questions are put to the clocking helpers. *)
(*                                                                            *)
(* A request = device variant x input frequency x vco margin x 1..max outputs *)
(* (frequency, phase, margin).  Frequencies are multiples of 125 kHz, margins *)
(* are exact rationals <<num, den>>.  The legal input/output frequency ranges *)
(* come from the device table the harness READ FROM THE REAL CLASSES          *)
(* (IOEnv.DEVICES), so only requests "over the legal ranges" are generated.   *)
(*                                                                            *)
(* MODE "sample": TLC -simulate draws behaviours dv,fin,... -> out1 -> ... ->  *)
(*                outk -> Emit; one request is printed per behaviour.         *)
(* MODE "single": exhaustive enumeration (ordinary BFS) of ALL one-output     *)
(*                requests over the full alphabets.                           *)
(* MODE "full":   exhaustive enumeration of ALL ordered ways to fill          *)
(*                min(nmax, MaxOuts) outputs from a five-letter alphabet of   *)
(*                frequencies in simple ratios to the input (2, 8/5, 16/5,    *)
(*                16/25, 4/5), margin 1e-2, phase 0: every output used, the   *)
(*                order of the outputs matters.                               *)
(* MODE "edge":   exhaustive enumeration of ALL requests of 1..MaxOuts outputs *)
(*                whose frequencies lie at the EDGES of what the device can   *)
(*                produce (class 9): the grid points around                   *)
(*                VCO_min / largest output divider  (lowest reachable output) *)
(*                VCO_max / smallest output divider (highest reachable one)   *)
(*                and the end points of the legal output range, all computed  *)
(*                from the declared ranges of the device table; margins from  *)
(*                1 % up to 10 % (the grid is 125 kHz: a wide margin is what  *)
(*                puts a setting at the very end of a divider range inside    *)
(*                and the next value outside the range closer to the target). *)
(*                The same class is also drawn in MODE "sample" (mixed with   *)
(*                several outputs, phases, vco margins).                      *)
EXTENDS Integers, Sequences, FiniteSets, TLC, Json, IOUtils

DEV == JsonDeserialize(IOEnv.DEVICES)
CONSTANTS MODE, MaxOuts

VARIABLES dv, fin, vm, cls, k, outs, emitted
vars == <<dv, fin, vm, cls, k, outs, emitted>>

M(x) == 8 * x                                          \* MHz -> units of 125 kHz
NiceF == { M(x) : x \in {10, 12, 16, 20, 24, 25, 30, 32, 40, 48, 50, 60, 64, 75, 80, 100, 120, 125, 150, 160,
                         200, 240, 250, 300, 320, 400, 500, 600, 800} }
         \cup {25, 50, 100, 500, 1250, 2500}           \* 3.125 6.25 12.5 62.5 156.25 312.5 MHz
OddF  == {108, 147, 216, 267, 393, 533, 594, 850, 1065, 1188, 1333, 1843, 2700, 3333}
                                                       \* 13.5 18.375 27 33.375 49.125 66.625 74.25 106.25 133.125
                                                       \* 148.5 166.625 230.375 337.5 416.625 MHz
FinBase == { M(x) : x \in {10, 12, 16, 19, 20, 24, 25, 27, 48, 50, 100, 125, 133, 200, 300, 400, 600, 800} }
           \cup {594, 1250}

Legal(x, iv) == x >= iv[1] /\ (iv[2] < 0 \/ x <= iv[2])
Fins(d)  == { x \in FinBase \cup {d.fin[1], d.fin[2]} : x > 0 /\ x <= 6400 /\ Legal(x, d.fin) }
HarmF(f) == { (f * ab[1]) \div ab[2] : ab \in { ab \in (1..16) \X (1..16) : (f * ab[1]) % ab[2] = 0 } }

FullFins == {200, 800}                                 \* 25 MHz, 100 MHz
FullF(f) == { (f * ab[1]) \div ab[2] : ab \in { x \in {<<2, 1>>, <<8, 5>>, <<16, 5>>, <<16, 25>>, <<4, 5>>} : (f * x[1]) % x[2] = 0 } }

Margins  == {<<0, 1>>, <<1, 10000>>, <<1, 1000>>, <<1, 100>>}
EdgeMargins == {<<1, 100>>, <<1, 50>>, <<1, 20>>, <<1, 10>>}

(* ---- the edges of the reachable output band, from the declared ranges ----- *)
SetMax(S) == CHOOSE x \in S : \A y \in S : y <= x
SetMin(S) == CHOOSE x \in S : \A y \in S : y >= x
(* python range <<lo, hi_exclusive, step>>: its largest member *)
RgMax(rg) == rg[1] + ((rg[2] - 1 - rg[1]) \div rg[3]) * rg[3]
(* <<smallest, largest>> output divider of the primitive, and the scale of the divider values *)
DivEnds(d) ==
  CASE d.kind = "nmd"   -> << SetMin({ d.d[i][j][1] : <<i, j>> \in { x \in (1..Len(d.d)) \X (1..8) : x[2] <= Len(d.d[x[1]]) } }),
                              SetMax({ RgMax(d.d[i][j]) : <<i, j>> \in { x \in (1..Len(d.d)) \X (1..8) : x[2] <= Len(d.d[x[1]]) } }),
                              d.sc >>
    [] d.kind = "ecp5"  -> << d.co[1], d.co[2], 1 >>
    [] d.kind = "gw5a"  -> << d.odiv[1], d.odiv[2], 1 >>
    [] d.kind = "gw1n"  -> << SetMin({ d.odiv[j] : j \in 1..Len(d.odiv) }), SetMax({ d.odiv[j] : j \in 1..Len(d.odiv) }), 1 >>
    [] d.kind = "trion" -> << d.c[1], d.c[2], 1 >>
    [] OTHER -> << 1, 1, 1 >>
(* the oscillator range the output dividers divide *)
OscOf(d) == IF d.kind = "trion" THEN d.pll ELSE d.vco
EdgeF(d) ==
  LET e  == DivEnds(d)
      lo == (OscOf(d)[1] * e[3]) \div e[2]
      hi == IF OscOf(d)[2] < 0 THEN 0 ELSE (OscOf(d)[2] * e[3]) \div e[1]
  IN ((lo - 1)..(lo + 2)) \cup (IF hi > 0 THEN (hi - 1)..(hi + 1) ELSE {})
     \cup (IF d.fout[1] > 1 THEN {d.fout[1]} ELSE {})      \* (1 stands for "no lower end declared" / "0 Hz")
     \cup {d.fout[2]}                                      \* (-1 = no upper end declared: dropped by Fouts)
EdgeFins == {200, 400, 800}                            \* 25, 50, 100 MHz
AllPh    == {0, 45, 90, 135, 180, 270}

(* request classes: << frequency alphabet, phases, margins >> *)
(* 1,7: what designs ask for; 2-4: arbitrary mixes (mostly infeasible with many outputs: exercises the refusal  *)
(* clause); 5,6: outputs harmonically related to the input (feasible with tight or zero margins)              *)
(* 8: MODE "full"; 9: the edges of the reachable output band (MODE "edge", and drawn in MODE "sample" when the    *)
(* device has such frequencies inside its legal output range)                                                  *)
NCls == 7
FreqsOf(d, c, f) == CASE c \in {1, 2, 7} -> NiceF [] c \in {3, 4} -> NiceF \cup OddF [] c = 8 -> FullF(f)
                      [] c = 9 -> EdgeF(d) [] OTHER -> HarmF(f)
PhOf(c)  == CASE c \in {1, 6, 8, 9} -> {0} [] c \in {2, 4} -> AllPh [] c = 7 -> {0, 90, 180} [] OTHER -> {0, 90}
MgOf(c)  == CASE c \in {1, 6, 7, 8} -> {<<1, 100>>} [] c \in {2, 4} -> Margins [] c = 3 -> {<<1, 100>>, <<1, 1000>>}
                   [] c = 9 -> EdgeMargins [] OTHER -> {<<0, 1>>, <<1, 10000>>}

Fouts(d, c, f) == { x \in FreqsOf(d, c, f) : x > 0 /\ x <= 6400 /\ Legal(x, d.fout) }
SampleCls(d, f) == (1..NCls) \cup (IF Fouts(d, 9, f) # {} THEN {9} ELSE {})
Phs(d, c)      == IF d.hasphase = 1 THEN PhOf(c) ELSE {0}
Mgs(d, c)      == IF d.m0only = 1 THEN {<<0, 1>>} ELSE MgOf(c)
VMs(d)         == IF d.hasvm = 1 /\ MODE = "sample" THEN {<<0, 1>>, <<1, 20>>} ELSE {<<0, 1>>}

Init == /\ dv \in 1..Len(DEV)
        /\ fin \in IF MODE = "full" THEN { x \in FullFins : Legal(x, DEV[dv].fin) }
                   ELSE IF MODE = "edge" THEN { x \in EdgeFins : Legal(x, DEV[dv].fin) } ELSE Fins(DEV[dv])
        /\ vm \in VMs(DEV[dv])
        /\ cls \in IF MODE = "single" THEN {4} ELSE IF MODE = "full" THEN {8} ELSE IF MODE = "edge" THEN {9}
                   ELSE SampleCls(DEV[dv], fin)
        /\ k \in IF MODE = "single" THEN {1}
                 ELSE IF MODE = "full" THEN {IF DEV[dv].nmax < MaxOuts THEN DEV[dv].nmax ELSE MaxOuts}
                 ELSE 1..(IF DEV[dv].nmax < MaxOuts THEN DEV[dv].nmax ELSE MaxOuts)
        /\ outs = <<>>
        /\ emitted = FALSE

AddOut == /\ Len(outs) < k
          /\ \E f \in Fouts(DEV[dv], cls, fin), ph \in (IF MODE = "single" THEN {0} ELSE Phs(DEV[dv], cls)),
                mg \in Mgs(DEV[dv], cls) :
                outs' = Append(outs, <<f, ph, mg[1], mg[2]>>)
          /\ UNCHANGED <<dv, fin, vm, cls, k, emitted>>

Emit == /\ Len(outs) = k /\ ~emitted
        /\ emitted' = TRUE
        /\ PrintT(<<"REQ", dv, fin, vm, outs>>)
        /\ UNCHANGED <<dv, fin, vm, cls, k, outs>>

Next == AddOut \/ Emit
=============================================================================
