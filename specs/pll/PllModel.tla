------------------------------ MODULE PllModel ------------------------------
(* What the PLL primitives compute from their integer settings, what their    *)
(* declared ranges mean, and a bounded search of the declared setting space.  *)
(*                                                                            *)
(* d : device description (ranges READ FROM THE REAL CLASS by the harness)    *)
(* r : request  [fin, vm = <<num,den>> (vco margin), outs = << <<f, phase,    *)
(*     mn, md>>, ... >>]   frequencies in units of 125 kHz, margin = mn/md    *)
(*                                                                            *)
(* kind "nmd"  (Xilinx PLL/MMCM/DCM, Intel ALTPLL, Lattice NX, iCE40):        *)
(*       VCO = fin * M / (sc * n)     out_i = fin * M / (n * D_i)             *)
(*       n integer, M and D_i in units of 1/sc  (sc = 8 with 1/8 fractional   *)
(*       dividers, else 1)                                                    *)
(* kind "ecp5": PFD = fin/ci, VCO = PFD * fb * D_fbk, out_i = VCO / D_i where *)
(*       the feedback runs through the divider of one of the four outputs     *)
(* kind "gw1n", "gw5a", "trion": see below                                    *)
EXTENDS PllArith

NOut(r) == Len(r.outs)
F(o)  == o[1]
PH(o) == o[2]
MN(o) == o[3]
MD(o) == o[4]

(* ------------------------------------------------------------------ generic *)
Pfd3(d, fin, n) ==
  Min3({ IF d.pfd[1] <= 0 THEN 2 ELSE Leq3(d.pfd[1] * n, fin, TRUE),
         IF d.pfd[2] <  0 THEN 2 ELSE Leq3(fin, d.pfd[2] * n, TRUE) })

(* vmin*(1+vm) <= fin*A/B <= vmax*(1-vm) *)
Vco3(d, vm, fin, A, B, exdiv) ==
  LET ex == vm[1] = 0 /\ exdiv
  IN Min3({ Leq3(d.vco[1] * (vm[2] + vm[1]) * B, fin * A * vm[2], ex),
            IF d.vco[2] < 0 THEN 2 ELSE Leq3(fin * A * vm[2], d.vco[2] * (vm[2] - vm[1]) * B, ex) })

(* integer window  { A : vmin*(1+vm) <= fin*A/B <= vmax*(1-vm) } widened by one on both sides *)
VcoWinLo(d, vm, fin, B) == (d.vco[1] * (vm[2] + vm[1]) * B) \div (fin * vm[2]) - 1
VcoWinHi(d, vm, fin, B, cap) ==
  IF d.vco[2] < 0 THEN cap ELSE Min2(cap, (d.vco[2] * (vm[2] - vm[1]) * B) \div (fin * vm[2]) + 1)

(* candidate dividers D (superset of { D : |X/(Yn*D) - f| <= f*mn/md }) *)
DivWin(X, Yn, o) ==
  LET c == X \div (Yn * F(o))
  IN IF c > 40000 THEN {}
     ELSE Max2(1, (c * MD(o)) \div (MD(o) + MN(o)) - 1) .. (((c + 1) * MD(o)) \div (MD(o) - MN(o)) + 1)

(* --------------------------------------------------------------------- nmd *)
NmdOut3(fin, n, M, D, o) == Within3(fin * M, n * D, F(o), MN(o), MD(o), ExactDiv(fin, n))

NmdSane(n, M, Ds) == /\ n >= 1 /\ n <= 1024 /\ M >= 1 /\ M <= 4096
                     /\ \A i \in 1..Len(Ds) : Ds[i] >= 1 /\ Ds[i] <= 8192

(* items: sets of <<name, three-valued verdict>>; a clause is the minimum of its items *)
It3(items) == Min3({ it[2] : it \in items })
Bad(items) == { it[1] : it \in { x \in items : x[2] = 0 } }

(* values outside these bounds cannot be evaluated in 32 bits; they are outside every declared range anyway *)
If(cond, name) == IF cond THEN { <<name, 0>> } ELSE {}
NmdInsane(n, M, Ds) == If(~(n >= 1 /\ n <= 1024), "insane:n") \cup If(~(M >= 1 /\ M <= 4096), "insane:m")
                       \cup { <<"insane:d" \o ToString(i), 0>> : i \in { j \in 1..Len(Ds) : ~(Ds[j] >= 1 /\ Ds[j] <= 8192) } }

NmdRangesIt(d, r, n, M, Ds) ==
  { <<"n", B3(InIv(n, d.n))>>, <<"m", B3(InRanges(M, <<d.m>>))>> }
  \cup { <<"d" \o ToString(i), B3(InRanges(Ds[i], d.d[i]))>> : i \in 1..Len(Ds) }
  \cup (IF NmdSane(n, M, Ds)
        THEN { <<"pfd", Pfd3(d, r.fin, n)>>, <<"vco", Vco3(d, r.vm, r.fin, M, d.sc * n, ExactDiv(r.fin, n))>> }
        ELSE {})

NmdMeetsIt(d, r, n, M, Ds) ==
  IF ~NmdSane(n, M, Ds) THEN NmdInsane(n, M, Ds)
  ELSE { OutItem(i, r.fin * M, n * Ds[i], F(r.outs[i]), MN(r.outs[i]), MD(r.outs[i]), ExactDiv(r.fin, n)) : i \in 1..Len(Ds) }

NmdMWin(d, r, n) ==
  { M \in Max2(d.m[1], VcoWinLo(d, r.vm, r.fin, d.sc * n)) .. VcoWinHi(d, r.vm, r.fin, d.sc * n, d.m[2] - 1) :
      (M - d.m[1]) % d.m[3] = 0 }

(* a setting inside the declared ranges satisfying the request at level lvl   *)
(* (2: every constraint holds robustly, 1: holds or is indeterminate)         *)
NmdOkD(d, r, n, M, i, D, lvl) == InRanges(D, d.d[i]) /\ NmdOut3(r.fin, n, M, D, r.outs[i]) >= lvl
NmdOkM(d, r, n, M, lvl) ==
  /\ Vco3(d, r.vm, r.fin, M, d.sc * n, ExactDiv(r.fin, n)) >= lvl
  /\ \A i \in 1..NOut(r) : \E D \in DivWin(r.fin * M, n, r.outs[i]) : NmdOkD(d, r, n, M, i, D, lvl)
NmdOkN(d, r, n, lvl) ==
  /\ Pfd3(d, r.fin, n) >= lvl
  /\ \E M \in NmdMWin(d, r, n) : NmdOkM(d, r, n, M, lvl)
NmdFeas(d, r, lvl) == \E n \in d.n[1]..d.n[2] : NmdOkN(d, r, n, lvl)

NmdWitness(d, r, lvl) ==
  LET n  == CHOOSE n \in d.n[1]..d.n[2] : NmdOkN(d, r, n, lvl)
      M  == CHOOSE M \in NmdMWin(d, r, n) : NmdOkM(d, r, n, M, lvl)
      Ds == [i \in 1..NOut(r) |-> CHOOSE D \in DivWin(r.fin * M, n, r.outs[i]) : NmdOkD(d, r, n, M, i, D, lvl)]
  IN [n |-> n, m |-> M, d |-> Ds, sc |-> d.sc]

(* -------------------------------------------------------------------- ecp5 *)
(* setting: ci, fb, Ds (dividers of the requested outputs), fbk = index of the *)
(* feedback output (1..4; NOut+1 = a spare output with divider Dspare)        *)
Ecp5Sane(ci, fb, Ds, Dfb) == /\ ci >= 1 /\ ci <= 1024 /\ fb >= 1 /\ fb <= 1024 /\ Dfb >= 1 /\ Dfb <= 1024
                             /\ \A i \in 1..Len(Ds) : Ds[i] >= 1 /\ Ds[i] <= 8192

Ecp5Insane(ci, fb, Ds, Dfb) ==
  If(~(ci >= 1 /\ ci <= 1024), "insane:clki_div") \cup If(~(fb >= 1 /\ fb <= 1024), "insane:clkfb_div")
  \cup If(~(Dfb >= 1 /\ Dfb <= 1024), "insane:fbk_div")
  \cup { <<"insane:d" \o ToString(i), 0>> : i \in { j \in 1..Len(Ds) : ~(Ds[j] >= 1 /\ Ds[j] <= 8192) } }

Ecp5RangesIt(d, r, ci, fb, Ds, fbk, Dfb) ==
  { <<"clki_div", B3(InIv(ci, d.ci))>>, <<"clkfb_div", B3(InIv(fb, d.fb))>>, <<"fbk_div", B3(InIv(Dfb, d.co))>>,
    <<"fbk_index", B3(fbk >= 1 /\ fbk <= d.nmax /\ fbk <= NOut(r) + 1)>> }
  \cup { <<"d" \o ToString(i), B3(InIv(Ds[i], d.co))>> : i \in 1..Len(Ds) }
  \cup (IF Ecp5Sane(ci, fb, Ds, Dfb)
        THEN { <<"pfd", Pfd3(d, r.fin, ci)>>, <<"vco", Vco3(d, r.vm, r.fin, fb * Dfb, ci, ExactDiv(r.fin, ci))>> }
        ELSE {})

Ecp5MeetsIt(d, r, ci, fb, Ds, Dfb) ==
  IF ~Ecp5Sane(ci, fb, Ds, Dfb) THEN Ecp5Insane(ci, fb, Ds, Dfb)
  ELSE { OutItem(i, r.fin * fb * Dfb, ci * Ds[i], F(r.outs[i]), MN(r.outs[i]), MD(r.outs[i]), ExactDiv(r.fin, ci))
         : i \in 1..Len(Ds) }

Ecp5OkD(d, r, ci, K, i, D, lvl) ==
  /\ InIv(D, d.co)
  /\ Within3(r.fin * K, ci * D, F(r.outs[i]), MN(r.outs[i]), MD(r.outs[i]), ExactDiv(r.fin, ci)) >= lvl
(* K = fb * D_fbk.  With all outputs used the feedback divider is the divider of a requested output  *)
(* j >= jmin (jmin = 1; jmin = 2 only serves to describe a refused request: is there a setting whose    *)
(* feedback does not run through the first output)                                                  *)
Ecp5Fbk(d, r, ci, K, lvl, jmin) ==
  IF NOut(r) < d.nmax
  THEN \E D \in d.co[1]..d.co[2] : K % D = 0 /\ InIv(K \div D, d.fb)
  ELSE \E j \in jmin..NOut(r) : \E D \in DivWin(r.fin * K, ci, r.outs[j]) :
          Ecp5OkD(d, r, ci, K, j, D, lvl) /\ K % D = 0 /\ InIv(K \div D, d.fb)
Ecp5OkK(d, r, ci, K, lvl, jmin) ==
  /\ Vco3(d, r.vm, r.fin, K, ci, ExactDiv(r.fin, ci)) >= lvl
  /\ \A i \in 1..NOut(r) : \E D \in DivWin(r.fin * K, ci, r.outs[i]) : Ecp5OkD(d, r, ci, K, i, D, lvl)
  /\ Ecp5Fbk(d, r, ci, K, lvl, jmin)
Ecp5KWin(d, r, ci) == Max2(1, VcoWinLo(d, r.vm, r.fin, ci)) .. VcoWinHi(d, r.vm, r.fin, ci, d.fb[2] * d.co[2])
Ecp5OkCi(d, r, ci, lvl, jmin) ==
  Pfd3(d, r.fin, ci) >= lvl /\ \E K \in Ecp5KWin(d, r, ci) : Ecp5OkK(d, r, ci, K, lvl, jmin)
Ecp5FeasJ(d, r, lvl, jmin) == \E ci \in d.ci[1]..d.ci[2] : Ecp5OkCi(d, r, ci, lvl, jmin)
Ecp5Feas(d, r, lvl) == Ecp5FeasJ(d, r, lvl, 1)

Ecp5Witness(d, r, lvl) ==
  LET ci == CHOOSE ci \in d.ci[1]..d.ci[2] : Ecp5OkCi(d, r, ci, lvl, 1)
      K  == CHOOSE K \in Ecp5KWin(d, r, ci) : Ecp5OkK(d, r, ci, K, lvl, 1)
      (* prefer the dividers that make an output usable as feedback *)
      fbs == IF NOut(r) < d.nmax THEN {}
             ELSE { <<j, D>> \in (1..NOut(r)) \X (d.co[1]..d.co[2]) :
                      D \in DivWin(r.fin * K, ci, r.outs[j]) /\ Ecp5OkD(d, r, ci, K, j, D, lvl)
                      /\ K % D = 0 /\ InIv(K \div D, d.fb) }
      fbsel == IF fbs = {} THEN <<0, 0>> ELSE CHOOSE x \in fbs : \A y \in fbs : x[1] <= y[1]
      Ds == [i \in 1..NOut(r) |-> IF i = fbsel[1] THEN fbsel[2]
                                  ELSE CHOOSE D \in DivWin(r.fin * K, ci, r.outs[i]) : Ecp5OkD(d, r, ci, K, i, D, lvl)]
      Dfb == IF fbs # {} THEN fbsel[2] ELSE CHOOSE D \in d.co[1]..d.co[2] : K % D = 0 /\ InIv(K \div D, d.fb)
  IN [ci |-> ci, fb |-> K \div Dfb, d |-> Ds, fbk |-> IF fbs # {} THEN fbsel[1] ELSE NOut(r) + 1, dfb |-> Dfb,
      fbks |-> { x[1] : x \in fbs }, fb_other |-> Ecp5FeasJ(d, r, lvl, 2)]

(* -------------------------------------------------------------------- gw5a *)
(* Gowin GW5A PLLA/PLL: PFD = fin/idiv, VCO = PFD*fdiv*mdiv, out_i = VCO/odiv_i *)
Gw5Sane(idiv, fdiv, mdiv, Os) == /\ idiv >= 1 /\ idiv <= 128 /\ fdiv >= 1 /\ mdiv >= 1 /\ fdiv <= 1024 /\ mdiv <= 1024
                                 /\ fdiv * mdiv <= 16000
                                 /\ \A i \in 1..Len(Os) : Os[i] >= 1 /\ Os[i] <= 8192
Gw5RangesIt(d, r, idiv, fdiv, mdiv, Os) ==
  { <<"idiv", B3(InIv(idiv, d.idiv))>>, <<"fdiv", B3(InIv(fdiv, d.fdiv))>>, <<"mdiv", B3(InIv(mdiv, d.mdiv))>> }
  \cup { <<"odiv" \o ToString(i - 1), B3(InIv(Os[i], d.odiv))>> : i \in 1..Len(Os) }
  \cup (IF Gw5Sane(idiv, fdiv, mdiv, Os)
        THEN { <<"pfd", Pfd3(d, r.fin, idiv)>>, <<"vco", Vco3(d, r.vm, r.fin, fdiv * mdiv, idiv, ExactDiv(r.fin, idiv))>> }
        ELSE {})
Gw5MeetsIt(d, r, idiv, fdiv, mdiv, Os) ==
  IF ~Gw5Sane(idiv, fdiv, mdiv, Os) THEN { <<"insane", 0>> }
  ELSE { OutItem(i, r.fin * fdiv * mdiv, idiv * Os[i], F(r.outs[i]), MN(r.outs[i]), MD(r.outs[i]), ExactDiv(r.fin, idiv))
         : i \in 1..Len(Os) }
Gw5OkO(d, r, idiv, A, i, O, lvl) ==
  InIv(O, d.odiv) /\ Within3(r.fin * A, idiv * O, F(r.outs[i]), MN(r.outs[i]), MD(r.outs[i]), ExactDiv(r.fin, idiv)) >= lvl
Gw5OkFM(d, r, idiv, fdiv, mdiv, lvl) ==
  /\ Vco3(d, r.vm, r.fin, fdiv * mdiv, idiv, ExactDiv(r.fin, idiv)) >= lvl
  /\ \A i \in 1..NOut(r) : \E O \in DivWin(r.fin * fdiv * mdiv, idiv, r.outs[i]) : Gw5OkO(d, r, idiv, fdiv * mdiv, i, O, lvl)
Gw5MWin(d, r, idiv, fdiv) ==
  Max2(d.mdiv[1], VcoWinLo(d, r.vm, r.fin * fdiv, idiv)) .. VcoWinHi(d, r.vm, r.fin * fdiv, idiv, d.mdiv[2])
Gw5OkI(d, r, idiv, lvl) ==
  /\ Pfd3(d, r.fin, idiv) >= lvl
  /\ \E fdiv \in d.fdiv[1]..d.fdiv[2] : \E mdiv \in Gw5MWin(d, r, idiv, fdiv) : Gw5OkFM(d, r, idiv, fdiv, mdiv, lvl)
Gw5Feas(d, r, lvl) == \E idiv \in d.idiv[1]..d.idiv[2] : Gw5OkI(d, r, idiv, lvl)
Gw5Witness(d, r, lvl) ==
  LET idiv == CHOOSE i \in d.idiv[1]..d.idiv[2] : Gw5OkI(d, r, i, lvl)
      fm   == CHOOSE fm \in { x \in (d.fdiv[1]..d.fdiv[2]) \X (d.mdiv[1]..d.mdiv[2]) : x[2] \in Gw5MWin(d, r, idiv, x[1]) } :
                 Gw5OkFM(d, r, idiv, fm[1], fm[2], lvl)
  IN [idiv |-> idiv, fdiv |-> fm[1], mdiv |-> fm[2],
      odiv |-> [i \in 1..NOut(r) |-> CHOOSE O \in DivWin(r.fin * fm[1] * fm[2], idiv, r.outs[i]) :
                                        Gw5OkO(d, r, idiv, fm[1] * fm[2], i, O, lvl)]]

(* -------------------------------------------------------------------- gw1n *)
(* Gowin rPLL/PLLVR: PFD = fin/idiv, CLKOUT = PFD*fdiv, VCO = CLKOUT*odiv;             *)
(* ports: CLKOUT (/1), CLKOUTP (/1, phase shifted), CLKOUTD (/sdiv, sdiv even), CLKOUTD3 (/3) *)
(* ports[i] = divisor of the port requested output i is wired to (0: not wired)        *)
Gw1Sane(idiv, fdiv, odiv, Dv) == /\ idiv >= 1 /\ idiv <= 128 /\ fdiv >= 1 /\ fdiv <= 128 /\ odiv >= 1 /\ odiv <= 128
                                 /\ \A i \in 1..Len(Dv) : Dv[i] >= 0 /\ Dv[i] <= 1024
Gw1RangesIt(d, r, idiv, fdiv, odiv, sdiv, usesD) ==
  { <<"idiv", B3(InIv(idiv, d.idiv))>>, <<"fdiv", B3(InIv(fdiv, d.fdiv))>>,
    <<"odiv", B3(\E k \in 1..Len(d.odiv) : d.odiv[k] = odiv)>>,
    <<"sdiv", B3(~usesD \/ (InIv(sdiv, d.sdiv) /\ sdiv % 2 = 0))>> }
  \cup (IF Gw1Sane(idiv, fdiv, odiv, <<>>)
        THEN { <<"pfd", Pfd3(d, r.fin, idiv)>>, <<"vco", Vco3(d, r.vm, r.fin, fdiv * odiv, idiv, ExactDiv(r.fin, idiv))>> }
        ELSE {})
Gw1MeetsIt(d, r, idiv, fdiv, odiv, Dv) ==
  IF ~Gw1Sane(idiv, fdiv, odiv, Dv) THEN { <<"insane", 0>> }
  ELSE { IF Dv[i] = 0 THEN <<"out" \o ToString(i) \o ":not_driven", 0>>   \* no output of the primitive drives this clock
         ELSE OutItem(i, r.fin * fdiv, idiv * Dv[i], F(r.outs[i]), MN(r.outs[i]), MD(r.outs[i]), ExactDiv(r.fin, idiv))
         : i \in 1..Len(Dv) }
(* search (all phases 0): one output per port CLKOUT, CLKOUTD3, CLKOUTD *)
Gw1OkDiv(d, r, idiv, fdiv, i, dv, lvl) ==
  Within3(r.fin * fdiv, idiv * dv, F(r.outs[i]), MN(r.outs[i]), MD(r.outs[i]), ExactDiv(r.fin, idiv)) >= lvl
Gw1SCands(d, r, idiv, fdiv) ==
  { s \in UNION { DivWin(r.fin * fdiv, idiv, r.outs[i]) : i \in 1..NOut(r) } : s % 2 = 0 /\ InIv(s, d.sdiv) } \cup {2}
(* direct = TRUE: additionally every output of the highest requested frequency sits on CLKOUT (/1);  *)
(* only used to describe a refused request (the real solver ties CLKOUT to that frequency)          *)
FMax(r) == CHOOSE f \in { F(r.outs[i]) : i \in 1..NOut(r) } : \A i \in 1..NOut(r) : F(r.outs[i]) <= f
Gw1AOk(d, r, idiv, fdiv, a, lvl, direct) ==
  /\ \A i, j \in 1..NOut(r) : i # j => a[i] # a[j]
  /\ \A i \in 1..NOut(r) : Gw1OkDiv(d, r, idiv, fdiv, i, a[i], lvl)
  /\ (direct => \A i \in 1..NOut(r) : F(r.outs[i]) = FMax(r) => a[i] = 1)
Gw1Assign(d, r, idiv, fdiv, lvl, direct) ==
  NOut(r) <= 3 /\
  \E s \in Gw1SCands(d, r, idiv, fdiv) : \E a \in [1..NOut(r) -> {1, 3, s}] : Gw1AOk(d, r, idiv, fdiv, a, lvl, direct)
Gw1OkIF(d, r, idiv, fdiv, lvl, direct) ==
  /\ \E k \in 1..Len(d.odiv) : Vco3(d, r.vm, r.fin, fdiv * d.odiv[k], idiv, ExactDiv(r.fin, idiv)) >= lvl
  /\ Gw1Assign(d, r, idiv, fdiv, lvl, direct)
Gw1OkI(d, r, idiv, lvl, direct) ==
  Pfd3(d, r.fin, idiv) >= lvl /\ \E fdiv \in d.fdiv[1]..d.fdiv[2] : Gw1OkIF(d, r, idiv, fdiv, lvl, direct)
Gw1FeasD(d, r, lvl, direct) == \E idiv \in d.idiv[1]..d.idiv[2] : Gw1OkI(d, r, idiv, lvl, direct)
Gw1Feas(d, r, lvl) == Gw1FeasD(d, r, lvl, FALSE)
Gw1Witness(d, r, lvl) ==
  LET direct == Gw1FeasD(d, r, lvl, TRUE)
      idiv == CHOOSE i \in d.idiv[1]..d.idiv[2] : Gw1OkI(d, r, i, lvl, direct)
      fdiv == CHOOSE f \in d.fdiv[1]..d.fdiv[2] : Gw1OkIF(d, r, idiv, f, lvl, direct)
      k    == CHOOSE k \in 1..Len(d.odiv) : Vco3(d, r.vm, r.fin, fdiv * d.odiv[k], idiv, ExactDiv(r.fin, idiv)) >= lvl
      s    == CHOOSE s \in Gw1SCands(d, r, idiv, fdiv) :
                 \E a \in [1..NOut(r) -> {1, 3, s}] : Gw1AOk(d, r, idiv, fdiv, a, lvl, direct)
      a    == CHOOSE a \in [1..NOut(r) -> {1, 3, s}] : Gw1AOk(d, r, idiv, fdiv, a, lvl, direct)
  IN [idiv |-> idiv, fdiv |-> fdiv, odiv |-> d.odiv[k], sdiv |-> s, port_div |-> a, direct |-> direct]

(* ------------------------------------------------------------------- trion *)
(* Efinix Trion: PFD = fin/N, VCO = PFD*M*O*Cfbk, PLL = VCO/O, out_i = PLL/C_i; the      *)
(* feedback output fb satisfies out_fb = PFD*M.  Exact match only (no margin).          *)
TrCSet(d, ph) == IF ph = 0 THEN d.c[1]..d.c[2]
                 ELSE IF ToString(ph) \in DOMAIN d.cph THEN { d.cph[ToString(ph)][k] : k \in 1..Len(d.cph[ToString(ph)]) }
                 ELSE {}
TrOSet(r) == IF NOut(r) > 1 THEN {2, 4, 8} ELSE {1, 2, 4, 8}
TrSane(N, M, O, Cs) == /\ N >= 1 /\ N <= 64 /\ M >= 1 /\ M <= 1024 /\ O >= 1 /\ O <= 64
                       /\ \A i \in 1..Len(Cs) : Cs[i] >= 1 /\ Cs[i] <= 1024
TrRangesIt(d, r, N, M, O, Cs, fb) ==
  { <<"N", B3(InIv(N, d.nn))>>, <<"M", B3(InIv(M, d.mm))>>, <<"O", B3(O \in TrOSet(r))>> }
  \cup { <<"C" \o ToString(i - 1), B3(Cs[i] \in TrCSet(d, PH(r.outs[i])))>> : i \in 1..Len(Cs) }
  \cup (IF TrSane(N, M, O, Cs) /\ fb >= 1 /\ fb <= Len(Cs)
        THEN { <<"M*O*Cfbk", B3(M * O * Cs[fb] <= d.moc)>>,
               <<"pfd", Pfd3(d, r.fin, N)>>,
               <<"vco", Vco3(d, r.vm, r.fin, M * O * Cs[fb], N, ExactDiv(r.fin, N))>>,
               <<"pll", Min3({ Leq3(d.pll[1] * N, r.fin * M * Cs[fb], ExactDiv(r.fin, N)),
                               Leq3(r.fin * M * Cs[fb], d.pll[2] * N, ExactDiv(r.fin, N)) })>> }
        ELSE { <<"insane", 0>> })
TrMeetsIt(d, r, N, M, O, Cs, fb) ==
  IF ~(TrSane(N, M, O, Cs) /\ fb >= 1 /\ fb <= Len(Cs)) THEN { <<"insane", 0>> }
  ELSE { <<"out" \o ToString(i), Within3(r.fin * M * Cs[fb], N * Cs[i], F(r.outs[i]), 0, 1, ExactDiv(r.fin, N))>>
         : i \in 1..Len(Cs) }
TrOkC(d, r, N, M, O, cf, i, lvl) ==
  \E C \in TrCSet(d, PH(r.outs[i])) : Within3(r.fin * M * cf, N * C, F(r.outs[i]), 0, 1, ExactDiv(r.fin, N)) >= lvl
TrOkNM(d, r, N, M, fb, lvl) ==
  \E O \in TrOSet(r) : \E cf \in TrCSet(d, PH(r.outs[fb])) :
     /\ M * O * cf <= d.moc
     /\ Vco3(d, r.vm, r.fin, M * O * cf, N, ExactDiv(r.fin, N)) >= lvl
     /\ Leq3(d.pll[1] * N, r.fin * M * cf, ExactDiv(r.fin, N)) >= lvl
     /\ Leq3(r.fin * M * cf, d.pll[2] * N, ExactDiv(r.fin, N)) >= lvl
     /\ \A i \in 1..NOut(r) : IF i = fb THEN TRUE ELSE TrOkC(d, r, N, M, O, cf, i, lvl)
TrOkN(d, r, N, fb, lvl) ==
  /\ Pfd3(d, r.fin, N) >= lvl
  /\ (F(r.outs[fb]) * N) % r.fin = 0                 \* out_fb = fin*M/N
  /\ InIv((F(r.outs[fb]) * N) \div r.fin, d.mm)
  /\ (lvl = 1 \/ ExactDiv(r.fin, N))
  /\ TrOkNM(d, r, N, (F(r.outs[fb]) * N) \div r.fin, fb, lvl)
TrFeas(d, r, lvl) == \E N \in d.nn[1]..d.nn[2] : TrOkN(d, r, N, r.fbk + 1, lvl)
TrWitness(d, r, lvl) ==
  LET N == CHOOSE N \in d.nn[1]..d.nn[2] : TrOkN(d, r, N, r.fbk + 1, lvl)
  IN [N |-> N, M |-> (F(r.outs[r.fbk + 1]) * N) \div r.fin]
=============================================================================
