------------------------------ MODULE PllModel ------------------------------
(* What the PLL primitives compute from their integer settings, what their    *)
(* declared ranges mean, and a bounded search of the declared setting space.  *)
(*                                                                            *)
(* d : device description (ranges READ FROM THE REAL CLASS by the harness)    *)
(* r : request  [fin, vm = <<num,den>> (vco margin), outs = << <<f, phase,    *)
(*     mn, md>>, ... >>]   frequencies in units of 125 kHz, margin = mn/md    *)
(*                                                                            *)
(* kind "nmd"  (Xilinx PLL/MMCM/DCM, Intel ALTPLL, Lattice NX, iCE40):        *)
(*       VCO = fin * M / (sc * n)     out_i = fin * M / (n * D_i)             *)
(*       n integer, M and D_i in units of 1/sc  (sc = 8 with 1/8 fractional   *)
(*       dividers, else 1)                                                    *)
(* kind "ecp5": PFD = fin/ci, VCO = PFD * fb * D_fbk, out_i = VCO / D_i where *)
(*       the feedback runs through the divider of one of the four outputs     *)
(* kind "gw1n", "gw5a", "trion": see below                                    *)
EXTENDS PllArith

NOut(r) == Len(r.outs)
F(o)  == o[1]
PH(o) == o[2]
MN(o) == o[3]
MD(o) == o[4]

(* ------------------------------------------------------------------ generic *)
Pfd3(d, fin, n) ==
  Min3({ IF d.pfd[1] <= 0 THEN 2 ELSE Leq3(d.pfd[1] * n, fin, TRUE),
         IF d.pfd[2] <  0 THEN 2 ELSE Leq3(fin, d.pfd[2] * n, TRUE) })

(* vmin*(1+vm) <= fin*A/B <= vmax*(1-vm) *)
Vco3(d, vm, fin, A, B, exdiv) ==
  LET ex == vm[1] = 0 /\ exdiv
  IN Min3({ Leq3(d.vco[1] * (vm[2] + vm[1]) * B, fin * A * vm[2], ex),
            IF d.vco[2] < 0 THEN 2 ELSE Leq3(fin * A * vm[2], d.vco[2] * (vm[2] - vm[1]) * B, ex) })

(* integer window  { A : vmin*(1+vm) <= fin*A/B <= vmax*(1-vm) } widened by one on both sides *)
VcoWinLo(d, vm, fin, B) == (d.vco[1] * (vm[2] + vm[1]) * B) \div (fin * vm[2]) - 1
VcoWinHi(d, vm, fin, B, cap) ==
  IF d.vco[2] < 0 THEN cap ELSE Min2(cap, (d.vco[2] * (vm[2] - vm[1]) * B) \div (fin * vm[2]) + 1)

(* candidate dividers D (superset of { D : |X/(Yn*D) - f| <= f*mn/md }) *)
DivWin(X, Yn, o) ==
  LET c == X \div (Yn * F(o))
  IN IF c > 40000 THEN {}
     ELSE Max2(1, (c * MD(o)) \div (MD(o) + MN(o)) - 1) .. (((c + 1) * MD(o)) \div (MD(o) - MN(o)) + 1)

(* --------------------------------------------------------------------- nmd *)
NmdOut3(fin, n, M, D, o) == Within3(fin * M, n * D, F(o), MN(o), MD(o), ExactDiv(fin, n))

NmdSane(n, M, Ds) == /\ n >= 1 /\ n <= 1024 /\ M >= 1 /\ M <= 4096
                     /\ \A i \in 1..Len(Ds) : Ds[i] >= 1 /\ Ds[i] <= 8192

NmdRanges3(d, r, n, M, Ds) ==
  IF ~NmdSane(n, M, Ds) THEN 0
  ELSE Min3({ B3(InIv(n, d.n)), B3(InRanges(M, <<d.m>>)),
              Pfd3(d, r.fin, n),
              Vco3(d, r.vm, r.fin, M, d.sc * n, ExactDiv(r.fin, n)) }
            \cup { B3(InRanges(Ds[i], d.d[i])) : i \in 1..Len(Ds) })

NmdMeets3(d, r, n, M, Ds) ==
  IF ~NmdSane(n, M, Ds) THEN 0
  ELSE Min3({ NmdOut3(r.fin, n, M, Ds[i], r.outs[i]) : i \in 1..Len(Ds) })

NmdMWin(d, r, n) ==
  { M \in Max2(d.m[1], VcoWinLo(d, r.vm, r.fin, d.sc * n)) .. VcoWinHi(d, r.vm, r.fin, d.sc * n, d.m[2] - 1) :
      (M - d.m[1]) % d.m[3] = 0 }

(* a setting inside the declared ranges satisfying the request at level lvl   *)
(* (2: every constraint holds robustly, 1: holds or is indeterminate)         *)
NmdOkD(d, r, n, M, i, D, lvl) == InRanges(D, d.d[i]) /\ NmdOut3(r.fin, n, M, D, r.outs[i]) >= lvl
NmdOkM(d, r, n, M, lvl) ==
  /\ Vco3(d, r.vm, r.fin, M, d.sc * n, ExactDiv(r.fin, n)) >= lvl
  /\ \A i \in 1..NOut(r) : \E D \in DivWin(r.fin * M, n, r.outs[i]) : NmdOkD(d, r, n, M, i, D, lvl)
NmdOkN(d, r, n, lvl) ==
  /\ Pfd3(d, r.fin, n) >= lvl
  /\ \E M \in NmdMWin(d, r, n) : NmdOkM(d, r, n, M, lvl)
NmdFeas(d, r, lvl) == \E n \in d.n[1]..d.n[2] : NmdOkN(d, r, n, lvl)

NmdWitness(d, r, lvl) ==
  LET n  == CHOOSE n \in d.n[1]..d.n[2] : NmdOkN(d, r, n, lvl)
      M  == CHOOSE M \in NmdMWin(d, r, n) : NmdOkM(d, r, n, M, lvl)
      Ds == [i \in 1..NOut(r) |-> CHOOSE D \in DivWin(r.fin * M, n, r.outs[i]) : NmdOkD(d, r, n, M, i, D, lvl)]
  IN [n |-> n, m |-> M, d |-> Ds, sc |-> d.sc]

(* -------------------------------------------------------------------- ecp5 *)
(* setting: ci, fb, Ds (dividers of the requested outputs), fbk = index of the *)
(* feedback output (1..4; NOut+1 = a spare output with divider Dspare)        *)
Ecp5Sane(ci, fb, Ds, Dfb) == /\ ci >= 1 /\ ci <= 1024 /\ fb >= 1 /\ fb <= 1024 /\ Dfb >= 1 /\ Dfb <= 1024
                             /\ \A i \in 1..Len(Ds) : Ds[i] >= 1 /\ Ds[i] <= 8192

Ecp5Ranges3(d, r, ci, fb, Ds, fbk, Dfb) ==
  IF ~Ecp5Sane(ci, fb, Ds, Dfb) THEN 0
  ELSE Min3({ B3(InIv(ci, d.ci)), B3(InIv(fb, d.fb)), B3(InIv(Dfb, d.co)),
              B3(fbk >= 1 /\ fbk <= d.nmax /\ fbk <= NOut(r) + 1),
              Pfd3(d, r.fin, ci),
              Vco3(d, r.vm, r.fin, fb * Dfb, ci, ExactDiv(r.fin, ci)) }
            \cup { B3(InIv(Ds[i], d.co)) : i \in 1..Len(Ds) })

Ecp5Meets3(d, r, ci, fb, Ds, Dfb) ==
  IF ~Ecp5Sane(ci, fb, Ds, Dfb) THEN 0
  ELSE Min3({ Within3(r.fin * fb * Dfb, ci * Ds[i], F(r.outs[i]), MN(r.outs[i]), MD(r.outs[i]), ExactDiv(r.fin, ci))
              : i \in 1..Len(Ds) })

Ecp5OkD(d, r, ci, K, i, D, lvl) ==
  /\ InIv(D, d.co)
  /\ Within3(r.fin * K, ci * D, F(r.outs[i]), MN(r.outs[i]), MD(r.outs[i]), ExactDiv(r.fin, ci)) >= lvl
(* K = fb * D_fbk *)
Ecp5Fbk(d, r, ci, K, lvl) ==
  IF NOut(r) < d.nmax
  THEN \E D \in d.co[1]..d.co[2] : K % D = 0 /\ InIv(K \div D, d.fb)
  ELSE \E j \in 1..NOut(r) : \E D \in DivWin(r.fin * K, ci, r.outs[j]) :
          Ecp5OkD(d, r, ci, K, j, D, lvl) /\ K % D = 0 /\ InIv(K \div D, d.fb)
Ecp5OkK(d, r, ci, K, lvl) ==
  /\ Vco3(d, r.vm, r.fin, K, ci, ExactDiv(r.fin, ci)) >= lvl
  /\ \A i \in 1..NOut(r) : \E D \in DivWin(r.fin * K, ci, r.outs[i]) : Ecp5OkD(d, r, ci, K, i, D, lvl)
  /\ Ecp5Fbk(d, r, ci, K, lvl)
Ecp5KWin(d, r, ci) == Max2(1, VcoWinLo(d, r.vm, r.fin, ci)) .. VcoWinHi(d, r.vm, r.fin, ci, d.fb[2] * d.co[2])
Ecp5OkCi(d, r, ci, lvl) == Pfd3(d, r.fin, ci) >= lvl /\ \E K \in Ecp5KWin(d, r, ci) : Ecp5OkK(d, r, ci, K, lvl)
Ecp5Feas(d, r, lvl) == \E ci \in d.ci[1]..d.ci[2] : Ecp5OkCi(d, r, ci, lvl)

Ecp5Witness(d, r, lvl) ==
  LET ci == CHOOSE ci \in d.ci[1]..d.ci[2] : Ecp5OkCi(d, r, ci, lvl)
      K  == CHOOSE K \in Ecp5KWin(d, r, ci) : Ecp5OkK(d, r, ci, K, lvl)
      (* prefer the dividers that make an output usable as feedback *)
      fbs == IF NOut(r) < d.nmax THEN {}
             ELSE { <<j, D>> \in (1..NOut(r)) \X (d.co[1]..d.co[2]) :
                      D \in DivWin(r.fin * K, ci, r.outs[j]) /\ Ecp5OkD(d, r, ci, K, j, D, lvl)
                      /\ K % D = 0 /\ InIv(K \div D, d.fb) }
      fbsel == IF fbs = {} THEN <<0, 0>> ELSE CHOOSE x \in fbs : \A y \in fbs : x[1] <= y[1]
      Ds == [i \in 1..NOut(r) |-> IF i = fbsel[1] THEN fbsel[2]
                                  ELSE CHOOSE D \in DivWin(r.fin * K, ci, r.outs[i]) : Ecp5OkD(d, r, ci, K, i, D, lvl)]
      Dfb == IF fbs # {} THEN fbsel[2] ELSE CHOOSE D \in d.co[1]..d.co[2] : K % D = 0 /\ InIv(K \div D, d.fb)
  IN [ci |-> ci, fb |-> K \div Dfb, d |-> Ds, fbk |-> IF fbs # {} THEN fbsel[1] ELSE NOut(r) + 1, dfb |-> Dfb,
      fbks |-> { x[1] : x \in fbs }]
=============================================================================
