------------------------------ MODULE PllKinds ------------------------------
(* Binding of the per-vendor data to PllModel: which key of the returned      *)
(* configuration dict holds which integer of the model, and which parameter   *)
(* of which primitive must carry it ("per primitive naming").                 *)
(* All numbers of c.cfg and c.inst.p arrive multiplied by 8.                  *)
EXTENDS PllModel

Cf(c, k) == IF k \in DOMAIN c.cfg  THEN c.cfg[k]  ELSE -1
Cs(c, k) == IF k \in DOMAIN c.cfgs THEN c.cfgs[k] ELSE "<absent>"
Co(c, k) == IF k \in DOMAIN c.cfgo THEN c.cfgo[k] ELSE 0
P(c, k)  == IF k \in DOMAIN c.inst.p THEN c.inst.p[k] ELSE -1
Ps(c, k) == IF k \in DOMAIN c.inst.s THEN c.inst.s[k] ELSE "<absent>"
O(c, k)  == IF k \in DOMAIN c.inst.o THEN c.inst.o[k] ELSE 0
Nm(i)    == ToString(i)
OneInst(c) == c.inst.n = 1 /\ \E k \in 1..Len(c.dev.prims) : c.dev.prims[k] = c.inst.of
Same(a, b) == a >= 0 /\ a = b                       \* both present and equal

Sub(c)  == c.dev.sub
Xil(c)  == Sub(c) \in {"xilpll", "xilmmcm", "s6pll", "s6dcm"}
NO(c)   == NOut(c.req)

(* --------------------------------------------------------------- nmd family *)
NmdN(c) == IF Xil(c) THEN Int8(Cf(c, "divclk_divide"))
           ELSE IF Sub(c) = "nx" THEN Int8(Cf(c, "clki_div"))
           ELSE IF Sub(c) = "ice40" THEN (IF Int8(Cf(c, "divr")) < 0 THEN -1 ELSE Int8(Cf(c, "divr")) + 1)
           ELSE -1
NmdM(c) == IF Xil(c) THEN Cf(c, "clkfbout_mult")
           ELSE IF Sub(c) = "nx" THEN Int8(Cf(c, "clkfb_div"))
           ELSE IF Sub(c) = "ice40" THEN (IF Int8(Cf(c, "divf")) < 0 THEN -1 ELSE Int8(Cf(c, "divf")) + 1)
           ELSE IF Sub(c) = "intel" THEN Int8(Cf(c, "m"))
           ELSE -1
NmdD(c, i) == IF Xil(c) THEN Cf(c, "clkout" \o Nm(i - 1) \o "_divide")
              ELSE IF Sub(c) = "nx" THEN Int8(Cf(c, "clko" \o Nm(i - 1) \o "_div"))
              ELSE IF Sub(c) = "ice40" THEN Pow2(Int8(Cf(c, "divq")))
              ELSE IF Sub(c) = "intel" THEN Int8(Cf(c, "clk" \o Nm(i - 1) \o "_divide"))   \* = C_i * N
              ELSE -1
NmdDs(c) == [i \in 1..NO(c) |-> NmdD(c, i)]
NmdPh(c, i) == IF Xil(c) THEN Cf(c, "clkout" \o Nm(i - 1) \o "_phase")
               ELSE IF Sub(c) = "nx" THEN Cf(c, "clko" \o Nm(i - 1) \o "_phase")
               ELSE IF Sub(c) = "intel" THEN Cf(c, "clk" \o Nm(i - 1) \o "_phase")
               ELSE 0

(* Intel: the dict holds M and C_i*N only; N is any divider consistent with it *)
IntelNs(c) == { n \in c.dev.n[1]..c.dev.n[2] : \A i \in 1..NO(c) : NmdD(c, i) >= 1 /\ NmdD(c, i) % n = 0 }

(* Intel: judged with the consistent N that satisfies most *)
IntelN(c) == IF IntelNs(c) = {} THEN -1
             ELSE CHOOSE n \in IntelNs(c) : \A n2 \in IntelNs(c) :
                    It3(NmdRangesIt(c.dev, c.req, n, NmdM(c), [i \in 1..NO(c) |-> NmdD(c, i) \div n]))
                    >= It3(NmdRangesIt(c.dev, c.req, n2, NmdM(c), [i \in 1..NO(c) |-> NmdD(c, i) \div n2]))
NmdNN(c)  == IF Sub(c) = "intel" THEN IntelN(c) ELSE NmdN(c)
NmdDDs(c) == IF Sub(c) = "intel" THEN [i \in 1..NO(c) |-> IF IntelN(c) < 1 THEN -1 ELSE NmdD(c, i) \div IntelN(c)]
             ELSE NmdDs(c)
NmdMeets(c)  == NmdMeetsIt(c.dev, c.req, NmdNN(c), NmdM(c), NmdDDs(c))
NmdRanges(c) == NmdRangesIt(c.dev, c.req, NmdNN(c), NmdM(c), NmdDDs(c))

XilDivName(c, i) == IF Sub(c) = "xilmmcm" /\ i = 1 THEN "CLKOUT0_DIVIDE_F" ELSE "CLKOUT" \o Nm(i - 1) \o "_DIVIDE"
NxL(i) == <<"A", "B", "C", "D", "E">>[i]
LatO(i) == <<"P", "S", "S2", "S3", "S4">>[i]

(* ps = int(1e12/f_out * phase/360) with f_out = fin*HZ*M/div ; one ps of float slack *)
IntelPhaseOk(c, i) ==
  LET ps  == Int8(P(c, "CLK" \o Nm(i - 1) \o "_PHASE_SHIFT"))
      deg == Int8(NmdPh(c, i))
      den == 9 * c.req.fin * NmdM(c)
  IN /\ ps >= 0 /\ deg >= 0 /\ deg < 360 /\ den > 0 /\ den < TWO30 /\ NmdD(c, i) < 1048576
     /\ LET q == MulDiv(200000 * deg, NmdD(c, i), den)[1] IN ps >= q - 1 /\ ps <= q + 1

Ck(name, ok) == <<name, B3(ok)>>
NmdInstIt(c) ==
  { Ck("one_primitive", OneInst(c)) } \cup
  CASE Sub(c) \in {"xilpll", "xilmmcm", "s6pll"} ->
         LET mn == IF Sub(c) = "xilmmcm" THEN "CLKFBOUT_MULT_F" ELSE "CLKFBOUT_MULT" IN
         { Ck(mn, Same(Cf(c, "clkfbout_mult"), P(c, mn))),
           Ck("DIVCLK_DIVIDE", Same(Cf(c, "divclk_divide"), P(c, "DIVCLK_DIVIDE"))) }
         \cup { Ck(XilDivName(c, i), Same(NmdD(c, i), P(c, XilDivName(c, i)))) : i \in 1..NO(c) }
         \cup { Ck("CLKOUT" \o Nm(i - 1) \o "_PHASE", Same(NmdPh(c, i), P(c, "CLKOUT" \o Nm(i - 1) \o "_PHASE")))
                : i \in 1..NO(c) }
         \cup { Ck("o_CLKOUT" \o Nm(i - 1), O(c, "CLKOUT" \o Nm(i - 1)) = i) : i \in 1..NO(c) }
    [] Sub(c) = "s6dcm" ->
         { Ck("CLKFX_MULTIPLY", Same(Cf(c, "clkfbout_mult"), P(c, "CLKFX_MULTIPLY"))),
           Ck("CLKFX_DIVIDE", NmdN(c) >= 1 /\ Same(NmdD(c, 1) * NmdN(c), P(c, "CLKFX_DIVIDE"))),
           Ck("o_CLKFX", O(c, "CLKFX") = 1) }
    [] Sub(c) = "intel" ->
         UNION { { Ck("CLK" \o Nm(i - 1) \o "_DIVIDE_BY",
                      Same(Cf(c, "clk" \o Nm(i - 1) \o "_divide"), P(c, "CLK" \o Nm(i - 1) \o "_DIVIDE_BY"))),
                   Ck("CLK" \o Nm(i - 1) \o "_MULTIPLY_BY", Same(Cf(c, "m"), P(c, "CLK" \o Nm(i - 1) \o "_MULTIPLY_BY"))),
                   Ck("CLK" \o Nm(i - 1) \o "_PHASE_SHIFT", IntelPhaseOk(c, i)) } : i \in 1..NO(c) }
    [] Sub(c) = "nx" ->
         (* reference divider REF_MMD_DIG; feedback through CLKOS5 whose divider DIVF is the     *)
         (* feedback multiplier, feedback MMD divider 1; DIVx hold divider-1; DELx-DIVx = phase  *)
         (* in output-divider steps (either rounding direction accepted)                        *)
         { Ck("REF_MMD_DIG", Same(Cf(c, "clki_div"), P(c, "REF_MMD_DIG"))),
           Ck("FBK_MMD_DIG", P(c, "FBK_MMD_DIG") = 8),
           Ck("DIVF", NmdM(c) >= 1 /\ P(c, "DIVF") = (NmdM(c) - 1) * 8),
           Ck("SEL_FBK", Ps(c, "SEL_FBK") = "FBKCLK5") }
         \cup UNION { { Ck("DIV" \o NxL(i), NmdD(c, i) >= 1 /\ P(c, "DIV" \o NxL(i)) = (NmdD(c, i) - 1) * 8),
                        Ck("ENCLK_CLKO" \o LatO(i), Ps(c, "ENCLK_CLKO" \o LatO(i)) = "ENABLED"),
                        Ck("DEL" \o NxL(i),
                           LET k == Int8(P(c, "DEL" \o NxL(i))) + 1 - NmdD(c, i)
                               p == Int8(NmdPh(c, i))
                           IN P(c, "DEL" \o NxL(i)) >= 0 /\ p >= 0 /\ Abs(k * 360 - p * NmdD(c, i)) <= 360),
                        Ck("o_CLKO" \o LatO(i), O(c, "CLKO" \o LatO(i)) = i) } : i \in 1..NO(c) }
    [] Sub(c) = "ice40" ->
         { Ck("DIVR", Same(Cf(c, "divr"), P(c, "DIVR"))), Ck("DIVF", Same(Cf(c, "divf"), P(c, "DIVF"))),
           Ck("DIVQ", Same(Cf(c, "divq"), P(c, "DIVQ"))), Ck("o_PLLOUTGLOBAL", O(c, "PLLOUTGLOBAL") = 1) }
    [] OTHER -> { Ck("unknown_sub", FALSE) }

(* -------------------------------------------------------------------- ecp5 *)
EcCi(c)  == Int8(Cf(c, "clki_div"))
EcFb(c)  == Int8(Cf(c, "clkfb_div"))
EcFbk(c) == IF Int8(Cf(c, "clkfb")) < 0 THEN -1 ELSE Int8(Cf(c, "clkfb")) + 1        \* 1-based
EcD(c, i) == Int8(Cf(c, "clko" \o Nm(i - 1) \o "_div"))
EcDs(c)  == [i \in 1..NO(c) |-> EcD(c, i)]
EcDfb(c) == IF EcFbk(c) < 1 THEN -1 ELSE EcD(c, EcFbk(c))
Ecp5Meets(c)  == Ecp5MeetsIt(c.dev, c.req, EcCi(c), EcFb(c), EcDs(c), EcDfb(c))
Ecp5Ranges(c) == Ecp5RangesIt(c.dev, c.req, EcCi(c), EcFb(c), EcDs(c), EcFbk(c), EcDfb(c))
(* CPHASE = coarse phase + div-1, FPHASE = 1/8 VCO cycles: phase/360 * div * 8 steps, rounded to nearest *)
Ecp5PhaseOk(c, i, deg) ==
  LET L  == LatO(i)
      cp == SInt8(P(c, "CLKO" \o L \o "_CPHASE"))
      fp == Int8(P(c, "CLKO" \o L \o "_FPHASE"))
      st == 8 * (cp - (EcD(c, i) - 1)) + fp
  IN cp > -99999 /\ Abs(cp) < 100000 /\ fp >= 0 /\ fp <= 7 /\ 2 * Abs(st * 45 - deg * EcD(c, i)) <= 45
Ecp5InstIt(c) ==
  { Ck("one_primitive", OneInst(c)),
    Ck("CLKI_DIV", Same(Cf(c, "clki_div"), P(c, "CLKI_DIV"))),
    Ck("CLKFB_DIV", Same(Cf(c, "clkfb_div"), P(c, "CLKFB_DIV"))),
    Ck("FEEDBK_PATH", EcFbk(c) >= 1 /\ EcFbk(c) <= 4 /\ Ps(c, "FEEDBK_PATH") = "INT_O" \o LatO(EcFbk(c))) }
  \cup UNION { { Ck("CLKO" \o LatO(i) \o "_DIV", Same(Cf(c, "clko" \o Nm(i - 1) \o "_div"), P(c, "CLKO" \o LatO(i) \o "_DIV"))),
                 Ck("CLKO" \o LatO(i) \o "_ENABLE", Ps(c, "CLKO" \o LatO(i) \o "_ENABLE") = "ENABLED"),
                 Ck("CLKO" \o LatO(i) \o "_PHASE",
                    IF i <= NO(c)
                    THEN /\ Int8(Cf(c, "clko" \o Nm(i - 1) \o "_phase")) >= 0
                         /\ Ecp5PhaseOk(c, i, Int8(Cf(c, "clko" \o Nm(i - 1) \o "_phase")))
                    ELSE Ecp5PhaseOk(c, i, 0)),
                 Ck("o_CLKO" \o LatO(i), i > NO(c) \/ O(c, "CLKO" \o LatO(i)) = i) }
               : i \in (1..NO(c)) \cup (IF EcFbk(c) >= 1 /\ EcFbk(c) <= 4 THEN {EcFbk(c)} ELSE {}) }

(* -------------------------------------------------------------------- gw5a *)
G5I(c) == Int8(Cf(c, "idiv"))
G5F(c) == Int8(Cf(c, "fdiv"))
G5M(c) == Int8(Cf(c, "mdiv"))
G5Os(c) == [i \in 1..NO(c) |-> Int8(Cf(c, "odiv" \o Nm(i - 1)))]
Gw5InstIt(c) ==
  { Ck("one_primitive", OneInst(c)),
    Ck("IDIV_SEL", Same(Cf(c, "idiv"), P(c, "IDIV_SEL"))),
    Ck("FBDIV_SEL", Same(Cf(c, "fdiv"), P(c, "FBDIV_SEL"))),
    Ck("MDIV_SEL", Same(Cf(c, "mdiv"), P(c, "MDIV_SEL"))),
    Ck("MDIV_FRAC_SEL", P(c, "MDIV_FRAC_SEL") = 0), Ck("ODIV0_FRAC_SEL", P(c, "ODIV0_FRAC_SEL") = 0) }
  \cup UNION { { Ck("ODIV" \o Nm(i - 1) \o "_SEL", Same(Cf(c, "odiv" \o Nm(i - 1)), P(c, "ODIV" \o Nm(i - 1) \o "_SEL"))),
                 Ck("CLKOUT" \o Nm(i - 1) \o "_EN", Ps(c, "CLKOUT" \o Nm(i - 1) \o "_EN") = "TRUE"),
                 Ck("CLKOUT" \o Nm(i - 1) \o "_PE_COARSE",
                    Same(Cf(c, "pe" \o Nm(i - 1)), P(c, "CLKOUT" \o Nm(i - 1) \o "_PE_COARSE"))),
                 Ck("CLKOUT" \o Nm(i - 1) \o "_PE_FINE",
                    Same(Cf(c, "pe" \o Nm(i - 1) \o "_fine"), P(c, "CLKOUT" \o Nm(i - 1) \o "_PE_FINE"))),
                 Ck("o_CLKOUT" \o Nm(i - 1), O(c, "CLKOUT" \o Nm(i - 1)) = i) } : i \in 1..NO(c) }

(* -------------------------------------------------------------------- gw1n *)
G1I(c) == Int8(Cf(c, "idiv"))
G1F(c) == Int8(Cf(c, "fdiv"))
G1O(c) == Int8(Cf(c, "odiv"))
G1S(c) == Int8(Cf(c, "SDIV_SEL"))
G1Ports == <<"CLKOUT", "CLKOUTP", "CLKOUTD", "CLKOUTD3">>
G1PortDiv(c, k) == IF k = 3 THEN G1S(c) ELSE IF k = 4 THEN 3 ELSE 1
(* divisor of the port that the configuration assigns to requested output i (0: none) *)
G1Dv(c) == [i \in 1..NO(c) |->
              IF \E k \in 1..4 : Co(c, G1Ports[k]) = i
              THEN LET k == CHOOSE k \in 1..4 : Co(c, G1Ports[k]) = i IN (IF G1PortDiv(c, k) < 1 THEN 0 ELSE G1PortDiv(c, k))
              ELSE 0]
Gw1InstIt(c) ==
  { Ck("one_primitive", OneInst(c)),
    Ck("IDIV_SEL", G1I(c) >= 1 /\ P(c, "IDIV_SEL") = (G1I(c) - 1) * 8),
    Ck("FBDIV_SEL", G1F(c) >= 1 /\ P(c, "FBDIV_SEL") = (G1F(c) - 1) * 8),
    Ck("ODIV_SEL", Same(Cf(c, "odiv"), P(c, "ODIV_SEL"))),
    Ck("DYN_SDIV_SEL", Same(Cf(c, "SDIV_SEL"), P(c, "DYN_SDIV_SEL"))),
    Ck("PSDA_SEL", Cs(c, "PSDA_SEL") = Ps(c, "PSDA_SEL")) }
  \cup { Ck("o_" \o G1Ports[k], O(c, G1Ports[k]) = Co(c, G1Ports[k])) : k \in 1..4 }

(* ------------------------------------------------------------------- trion *)
TrN(c) == Int8(Cf(c, "N"))
TrM(c) == Int8(Cf(c, "M"))
TrO(c) == Int8(Cf(c, "O"))
TrCs(c) == [i \in 1..NO(c) |-> Int8(Cf(c, "CLKOUT" \o Nm(i - 1) \o "_DIV"))]
TrFb(c) == IF Int8(Cf(c, "feedback")) < 0 THEN -1 ELSE Int8(Cf(c, "feedback")) + 1

(* ---------------------------------------------------------------- dispatch *)
Kind(c) == c.dev.kind
MeetsIt(c)  == CASE Kind(c) = "nmd"   -> NmdMeets(c)
                 [] Kind(c) = "ecp5"  -> Ecp5Meets(c)
                 [] Kind(c) = "gw5a"  -> Gw5MeetsIt(c.dev, c.req, G5I(c), G5F(c), G5M(c), G5Os(c))
                 [] Kind(c) = "gw1n"  -> Gw1MeetsIt(c.dev, c.req, G1I(c), G1F(c), G1O(c), G1Dv(c))
                 [] Kind(c) = "trion" -> TrMeetsIt(c.dev, c.req, TrN(c), TrM(c), TrO(c), TrCs(c), TrFb(c))
                 [] OTHER -> { <<"kind", 0>> }
RangesIt(c) == CASE Kind(c) = "nmd"   -> NmdRanges(c)
                 [] Kind(c) = "ecp5"  -> Ecp5Ranges(c)
                 [] Kind(c) = "gw5a"  -> Gw5RangesIt(c.dev, c.req, G5I(c), G5F(c), G5M(c), G5Os(c))
                 [] Kind(c) = "gw1n"  -> Gw1RangesIt(c.dev, c.req, G1I(c), G1F(c), G1O(c), G1S(c),
                                                     \E i \in 1..NO(c) : Co(c, "CLKOUTD") = i)
                 [] Kind(c) = "trion" -> TrRangesIt(c.dev, c.req, TrN(c), TrM(c), TrO(c), TrCs(c), TrFb(c))
                 [] OTHER -> { <<"kind", 0>> }
InstIt(c)   == CASE Kind(c) = "nmd"   -> NmdInstIt(c)
                 [] Kind(c) = "ecp5"  -> Ecp5InstIt(c)
                 [] Kind(c) = "gw5a"  -> Gw5InstIt(c)
                 [] Kind(c) = "gw1n"  -> Gw1InstIt(c)
                 [] Kind(c) = "trion" -> { Ck("block", c.inst.n = 1) }   \* the configuration is written into the
                                                                        \* interface-designer block itself
                 [] OTHER -> { <<"kind", 0>> }
Feas(d, r, lvl) == CASE d.kind = "nmd"   -> NmdFeas(d, r, lvl)
                     [] d.kind = "ecp5"  -> Ecp5Feas(d, r, lvl)
                     [] d.kind = "gw5a"  -> Gw5Feas(d, r, lvl)
                     [] d.kind = "gw1n"  -> Gw1Feas(d, r, lvl)
                     [] d.kind = "trion" -> TrFeas(d, r, lvl)
                     [] OTHER -> FALSE
Witness(d, r, lvl) == CASE d.kind = "nmd"   -> NmdWitness(d, r, lvl)
                        [] d.kind = "ecp5"  -> Ecp5Witness(d, r, lvl)
                        [] d.kind = "gw5a"  -> Gw5Witness(d, r, lvl)
                        [] d.kind = "gw1n"  -> Gw1Witness(d, r, lvl)
                        [] OTHER -> TrWitness(d, r, lvl)
(* the refusal clause is judged where the request is in the legal input range *)
(* and, for the Gowin helpers whose phase handling restricts the solver, all phases are 0          *)
Judged(c) == /\ (Kind(c) \in {"gw1n", "gw5a"} => \A i \in 1..NO(c) : PH(c.req.outs[i]) = 0)
             /\ c.req.fin >= c.dev.fin[1] /\ (c.dev.fin[2] < 0 \/ c.req.fin <= c.dev.fin[2])
             /\ \A i \in 1..NO(c) : /\ F(c.req.outs[i]) >= c.dev.fout[1]
                                    /\ (c.dev.fout[2] < 0 \/ F(c.req.outs[i]) <= c.dev.fout[2])
=============================================================================
