--------------------------- MODULE AxilCdcContract ---------------------------
(***************************************************************************)
(* L1 contract of AXILiteClockDomainCrossing (C05, composition of per-     *)
(* channel stream crossings): seen from outside it is a flat AXI-Lite      *)
(* pass-through - every request beat the master side hands over appears    *)
(* exactly once, unchanged and in order at the slave side of the same      *)
(* channel, every response beat the slave hands over appears exactly once, *)
(* unchanged and in order at the master side; an offer made to the slave / *)
(* to the master is not withdrawn; with a cooperating master and slave     *)
(* transactions keep completing.                                           *)
(* One step = one instant with a rising edge of the master clock (tk = 1), *)
(* the slave clock (tk = 2) or both (3); master-side signals change only   *)
(* right after a master edge, slave-side signals after a slave edge; drift *)
(* bounded by c.r as in CdcContract.                                       *)
(* One direction per configuration, c.nreq request channels and one        *)
(* response channel:  write: requests aw, w - response b;                  *)
(*                    read : request ar     - response r.                  *)
(* K = 1: the master starts a transaction (one beat on every request       *)
(* channel, offered in any order and at any time) only after the response  *)
(* of the previous one; the slave answers after it has taken all request   *)
(* beats.  Payloads are tags.  The crossing never looks at a payload, so   *)
(* instead of all tag sequences one sequence per channel is driven that    *)
(* still exposes every loss, duplication, reordering, stale or neighbouring*)
(* FIFO slot: the k-th beat of a channel carries k mod c.tags[i] (request  *)
(* channel i) resp. k mod c.tags[nreq + 1] (response channel); with 3 tags *)
(* and the crossing's depth-4 FIFOs a slot never holds the tag it held one *)
(* round earlier, nor the tag of its neighbours.  (Free tags multiply the  *)
(* implementation states by 16 per FIFO - stale memory words - and did not *)
(* finish.)                                                                *)
(* n = c.nreq                                                              *)
(* iv = <<tk, (valid_i, tag_i) i = 1..n, resp_ready,            master side *)
(*        ready_i i = 1..n, resp_valid, resp_tag>>               slave side *)
(* o  = <<ready_i i = 1..n, resp_valid, resp_tag,               master side *)
(*        (valid_i, tag_i) i = 1..n, resp_ready>>                slave side *)
(***************************************************************************)
EXTENDS Integers, Sequences, FiniteSets, TLC

VARIABLES qreq,    \* qreq[i]: beats accepted from the master on request channel i, not yet delivered to the slave
          qresp,   \* responses accepted from the slave, not yet delivered to the master
          mhold,   \* mhold[i] = <<tag>>: beat offered by the master on channel i and not yet accepted
          mdone,   \* request channels of the running transaction on which the master's beat has been accepted
          shold,   \* <<tag>>: response offered by the slave and not yet accepted
          sgot,    \* request channels of the running transaction whose beat the slave has taken
          lastm,   \* master-side part of the last input vector
          lasts,   \* slave-side part of the last input vector
          wfresh, rfresh, run,
          seq,     \* seq[i], i <= n: tag of the next beat the master offers on request channel i; seq[3]: of the slave's next response
          oprev,   \* oprev[i], i <= n: request beat shown to the slave and not taken; oprev[n + 1]: response shown to the master
          obs

cvars == <<qreq, qresp, mhold, mdone, shold, sgot, lastm, lasts, wfresh, rfresh, run, seq, oprev, obs>>

HasW(tk) == tk \in {1, 3}
HasR(tk) == tk \in {2, 3}
All(c) == 1..c.nreq

\* accessors
MV(c, iv, i) == iv[2 * i]
MT(c, iv, i) == iv[2 * i + 1]
MRR(c, iv)   == iv[2 * c.nreq + 2]
SR(c, iv, i) == iv[2 * c.nreq + 2 + i]
SRV(c, iv)   == iv[3 * c.nreq + 3]
SRT(c, iv)   == iv[3 * c.nreq + 4]
OMR(c, o, i) == o[i]
ORV(c, o)    == o[c.nreq + 1]
ORT(c, o)    == o[c.nreq + 2]
OSV(c, o, i) == o[c.nreq + 1 + 2 * i]
OST(c, o, i) == o[c.nreq + 2 + 2 * i]
OSRR(c, o)   == o[3 * c.nreq + 3]

Ticks(c) == IF c.r > 0
            THEN { tk \in {1, 2, 3} : (tk = 1 => run[1] < c.r) /\ (tk = 2 => run[2] < c.r) }
            ELSE {1, 2, 3}

MOpts(c, i) == IF mhold[i] # <<>> THEN { <<1, mhold[i][1]>> }
               ELSE IF i \notin mdone THEN { <<0, 0>>, <<1, seq[i]>> }
               ELSE { <<0, 0>> }
MPart(c) == IF ~wfresh THEN { lastm }
            ELSE IF c.nreq = 1 THEN { <<a[1], a[2], rr>> : a \in MOpts(c, 1), rr \in {0, 1} }
            ELSE { <<a[1], a[2], b[1], b[2], rr>> : a \in MOpts(c, 1), b \in MOpts(c, 2), rr \in {0, 1} }
ROpts(c) == IF shold # <<>> THEN { <<1, shold[1]>> }
            ELSE IF sgot = All(c) THEN { <<0, 0>>, <<1, seq[3]>> }
            ELSE { <<0, 0>> }
SPart(c) == IF ~rfresh THEN { lasts }
            ELSE IF c.nreq = 1 THEN { <<x, p[1], p[2]>> : x \in {0, 1}, p \in ROpts(c) }
            ELSE { <<x, y, p[1], p[2]>> : x \in {0, 1}, y \in {0, 1}, p \in ROpts(c) }
Inputs(c) == { <<tk>> \o m \o s : tk \in Ticks(c), m \in MPart(c), s \in SPart(c) }

CInit ==
  /\ qreq = <<<<>>, <<>>>> /\ qresp = <<>> /\ mhold = <<<<>>, <<>>>> /\ mdone = {} /\ shold = <<>> /\ sgot = {}
  /\ lastm = <<>> /\ lasts = <<>> /\ wfresh = TRUE /\ rfresh = TRUE /\ run = <<0, 0>>
  /\ oprev = <<<<>>, <<>>, <<>>>> /\ seq = <<0, 0, 0>>
  /\ obs = [okreq |-> TRUE, okresp |-> TRUE, okhold |-> TRUE, okbound |-> TRUE, done |-> FALSE, coop |-> FALSE,
            wtick |-> FALSE, rtick |-> FALSE]

CStep(c, iv, o) ==
  LET tk == iv[1]
      n == c.nreq
      mfire(i) == i <= n /\ HasW(tk) /\ MV(c, iv, i) = 1 /\ OMR(c, o, i) = 1      \* master's beat accepted
      sfire(i) == i <= n /\ HasR(tk) /\ OSV(c, o, i) = 1 /\ SR(c, iv, i) = 1      \* beat delivered to the slave
      rsfire == HasR(tk) /\ SRV(c, iv) = 1 /\ OSRR(c, o) = 1                       \* slave's response accepted
      rmfire == HasW(tk) /\ ORV(c, o) = 1 /\ MRR(c, iv) = 1                        \* response delivered to the master
      okreq == \A i \in All(c) : sfire(i) => (qreq[i] # <<>> /\ Head(qreq[i]) = OST(c, o, i))
      okresp == rmfire => (qresp # <<>> /\ Head(qresp) = ORT(c, o))
      qa(i) == IF sfire(i) /\ qreq[i] # <<>> THEN Tail(qreq[i]) ELSE qreq[i]
      qb(i) == IF mfire(i) THEN Append(qa(i), MT(c, iv, i)) ELSE qa(i)
      ra == IF rmfire /\ qresp # <<>> THEN Tail(qresp) ELSE qresp
      rb == IF rsfire THEN Append(ra, SRT(c, iv)) ELSE ra
      okbound == (\A i \in All(c) : Len(qb(i)) <= 1) /\ Len(rb) <= 1
      holdreq(i) == (i <= n /\ oprev[i] # <<>>) => (OSV(c, o, i) = 1 /\ OST(c, o, i) = oprev[i][1])
      holdresp == oprev[3] # <<>> => (ORV(c, o) = 1 /\ ORT(c, o) = oprev[3][1])
  IN
  /\ qreq' = [i \in 1..2 |-> IF Len(qb(i)) <= 1 THEN qb(i) ELSE qa(i)]
  /\ qresp' = IF Len(rb) <= 1 THEN rb ELSE ra
  /\ mhold' = [i \in 1..2 |-> IF i <= n /\ MV(c, iv, i) = 1 /\ ~mfire(i) THEN <<MT(c, iv, i)>> ELSE <<>>]
  /\ mdone' = IF rmfire THEN {} ELSE mdone \cup { i \in All(c) : mfire(i) }
  /\ shold' = IF SRV(c, iv) = 1 /\ ~rsfire THEN <<SRT(c, iv)>> ELSE <<>>
  /\ sgot' = IF rsfire THEN {} ELSE sgot \cup { i \in All(c) : sfire(i) }
  /\ lastm' = SubSeq(iv, 2, 2 * n + 2) /\ lasts' = SubSeq(iv, 2 * n + 3, 3 * n + 4)
  /\ wfresh' = HasW(tk) /\ rfresh' = HasR(tk)
  /\ run' = IF c.r = 0 THEN <<0, 0>>
            ELSE IF tk = 1 THEN <<run[1] + 1, 0>> ELSE IF tk = 2 THEN <<0, run[2] + 1>> ELSE <<0, 0>>
  /\ seq' = [i \in 1..3 |-> IF i <= n /\ mfire(i) THEN (seq[i] + 1) % c.tags[i]
                               ELSE IF i = 3 /\ rsfire THEN (seq[3] + 1) % c.tags[n + 1]
                               ELSE seq[i]]
  /\ oprev' = [i \in 1..3 |->
                 IF i <= n THEN (IF OSV(c, o, i) = 1 /\ ~sfire(i) THEN <<OST(c, o, i)>> ELSE <<>>)
                 ELSE IF i = 3 THEN (IF ORV(c, o) = 1 /\ ~rmfire THEN <<ORT(c, o)>> ELSE <<>>)
                 ELSE <<>>]
  /\ obs' = [okreq |-> okreq, okresp |-> okresp,
             okhold |-> (\A i \in 1..2 : holdreq(i)) /\ holdresp,
             okbound |-> okbound,
             done |-> rmfire,
             \* the master offers every beat it still owes and takes responses, the slave takes beats and answers
             coop |-> /\ \A i \in All(c) : (i \notin mdone => MV(c, iv, i) = 1)
                      /\ MRR(c, iv) = 1
                      /\ \A i \in All(c) : SR(c, iv, i) = 1
                      /\ (sgot = All(c) => SRV(c, iv) = 1),
             wtick |-> HasW(tk), rtick |-> HasR(tk)]

RequestsExactlyOnceInOrder  == obs.okreq     \* per request channel: nothing corrupted, dropped, duplicated, reordered
ResponsesExactlyOnceInOrder == obs.okresp
ValidHold                   == obs.okhold
AtMostOneOutstanding        == obs.okbound   \* K = 1: a second beat in a channel would be a duplicate
=============================================================================
