----------------------------- MODULE CdcContract -----------------------------
(***************************************************************************)
(* L1 contract of clock-domain crossings, property C05.                    *)
(* One step = one instant in which the write clock, the read clock or both *)
(* (simultaneous edges) have a rising edge; TLC chooses the interleaving.  *)
(* When both edges coincide and a synchroniser's source changes, the       *)
(* harness returns one successor per per-bit old/new resolution of its     *)
(* first flop; TLC explores all of them.                                   *)
(*                                                                         *)
(* c.kind = "fifo": stream crossing (AsyncFIFO / ClockDomainCrossing)      *)
(*   iv = <<tk, valid, data, ready>>   tk: 1 write edge, 2 read edge, 3 both*)
(*   o  = <<sink_ready, src_valid, src_data>>                              *)
(*   valid/data belong to the write domain, ready to the read domain: they *)
(*   change only right after an edge of their own clock.                   *)
(*   c.rst # 0 (ClockDomainCrossing(with_common_rst=True)):                *)
(*   iv = <<tk, valid, data, ready, rw, rr>>, rw = ResetSignal(cd_from), a *)
(*   write-domain signal, rr = ResetSignal(cd_to), a read-domain signal.   *)
(*   c.rst: 1 only rw is pulsed, 2 only rr, 3 either (never both at once). *)
(*   A pulse is held until c.rh edges of EACH clock have happened under it *)
(*   (premise; c.rh = c.r + 3 is the shortest hold for which the contract  *)
(*   holds: one source edge clears the pointer, two to three destination   *)
(*   edges flush the reset-less pointer synchroniser; shorter pulses are a *)
(*   recorded finding), at most c.nrst pulses per behaviour (0: any number)*)
(*   Contract: while the common reset R = rw \/ rr is asserted the crossing*)
(*   is being flushed - what the producer hands over is dropped, what the  *)
(*   read side shows is not judged; from the first instant with R = 0 on   *)
(*   both sides are empty (sink ready, source not valid), nothing that was *)
(*   accepted before or during the pulse is delivered any more, and every  *)
(*   FIFO clause holds again for the tokens accepted from then on.         *)
(*   LIMITS OF THE RESET STAND-IN.  AsyncResetSynchronizer is a vendor     *)
(*   primitive (asynchronous assertion, de-assertion through two flops of  *)
(*   the domain's own clock).  The repository's simulator, and therefore   *)
(*   the netlist explored here, lowers it to `cd.rst = async_reset`        *)
(*   (litex/gen/sim/core.py, DummyAsyncResetSynchronizerImpl): (i) the     *)
(*   reset acts only at clock edges (Migen resets are synchronous), a pulse*)
(*   covering no edge of a domain does not reset it; (ii) both domains see *)
(*   assertion and release in the same instant - no two-edge stretch, no   *)
(*   skew between the two releases, no metastability of the reset path;    *)
(*   (iii) rw/rr are modelled as signals of their own domain.  Statements  *)
(*   about pulse lengths are statements about this stand-in.               *)
(* c.kind = "bus": multi-bit bus synchroniser                              *)
(*   iv = <<tk, i, 0, 0>>   o = <<0, 0, o>>                                *)
(*   clock drift bounded: at most c.r consecutive edges of one clock       *)
(*   without an edge of the other.                                         *)
(* c.kind = "pulse": PulseSynchronizer (toggle + MultiReg + edge detector) *)
(*   iv = <<tk, i, 0, 0>>   o = <<0, 0, o>>                                *)
(*   an input pulse = i high at a write edge, an output pulse = o high at  *)
(*   a read edge.  Premise: after an input pulse the input stays low for   *)
(*   c.quiet write edges.  c.quiet >= c.r + 1 is what the mechanism needs: *)
(*   the toggle must be stable at one read edge before it flips again, and *)
(*   under drift c.r the c.r + 1 write edges after a pulse may hold only   *)
(*   one read edge, coinciding with the last of them (with c.quiet = c.r a *)
(*   pulse is lost: canary).                                               *)
(*   Contract: output pulses never outnumber input pulses (no spurious     *)
(*   pulse) and every input pulse has produced its own output pulse by the *)
(*   time c.lat + 1 read edges have followed it (exactly one, none lost).  *)
(*   q holds, for every input pulse without its output pulse so far, the   *)
(*   number of read edges that followed it.                                *)
(* c: kind, cap, dset (data / bus word alphabet; T-mode: dmax > 0 stands   *)
(*    for 0..dmax), r, rst, rh, nrst, quiet, lat                           *)
(***************************************************************************)
EXTENDS Integers, Sequences, FiniteSets, TLC

VARIABLES q,       \* fifo: tokens accepted and not yet delivered; pulse: ages of the pulses in flight
          hold,    \* fifo: offered token not yet accepted (<<>> none); pulse: <<quiet write edges still owed>>
          lastw,   \* write-domain inputs <<valid, data>> (bus, pulse: <<i, 0>>) as of the last step
          lastr,   \* read-domain input ready as of the last step
          wfresh,  \* TRUE if the last step had a write edge (write-domain inputs may change now)
          rfresh,
          oprev,   \* fifo: output presented at a read edge and not accepted
          seen,    \* bus: words the input has held (plus the power-up value)
          run,     \* <<consecutive write-only edges, consecutive read-only edges>>
          rs,      \* common reset: <<rw, rr, write edges under the pulse, read edges under it, pulses begun>>
          obs

cvars == <<q, hold, lastw, lastr, wfresh, rfresh, oprev, seen, run, rs, obs>>

DSet(c) == { c.dset[i] : i \in 1..Len(c.dset) }
InD(c, x) == IF c.dmax > 0 THEN x \in 0..c.dmax ELSE x \in DSet(c)
HasW(tk) == tk \in {1, 3}
HasR(tk) == tk \in {2, 3}
Min(a, b) == IF a < b THEN a ELSE b

\* c.r > 0 bounds the drift (always for the bus and pulse synchronisers; for FIFO crossings c.r = 0 means free)
TickLegal(c, tk) == /\ tk \in {1, 2, 3}
                    /\ c.r > 0 => ((tk = 1 => run[1] < c.r) /\ (tk = 2 => run[2] < c.r))

\* w = <<valid, data>> (bus, pulse: <<i, 0>>): what the write domain may drive in this instant
WLegal(c, w) ==
  IF ~wfresh THEN w = lastw
  ELSE IF c.kind = "bus" THEN w[2] = 0 /\ InD(c, w[1])
  ELSE IF c.kind = "pulse" THEN w[2] = 0 /\ w[1] \in (IF hold # <<>> THEN {0} ELSE {0, 1})
  ELSE IF hold # <<>> THEN w = <<1, hold[1]>>
  ELSE w = <<0, 0>> \/ (w[1] = 1 /\ InD(c, w[2]))
RLegal(c, r) == IF c.kind # "fifo" THEN r = 0 ELSE IF ~rfresh THEN r = lastr ELSE r \in {0, 1}

\* the two reset inputs: each changes only after an edge of its own clock; never both high; a pulse is
\* released only after c.rh edges of each clock
RstLegal(c, a, b) ==
  LET done == rs[3] >= c.rh /\ rs[4] >= c.rh
      more == c.nrst = 0 \/ rs[5] < c.nrst
      wok == IF ~wfresh THEN a = rs[1]
             ELSE IF rs[1] = 1 THEN (a = 1 \/ done)
             ELSE a = 0 \/ (c.rst \in {1, 3} /\ rs[2] = 0 /\ more)
      rok == IF ~rfresh THEN b = rs[2]
             ELSE IF rs[2] = 1 THEN (b = 1 \/ done)
             ELSE b = 0 \/ (c.rst \in {2, 3} /\ rs[1] = 0 /\ more)
  IN a \in {0, 1} /\ b \in {0, 1} /\ wok /\ rok /\ ~(a = 1 /\ b = 1)

Legal(c, iv) ==
  /\ Len(iv) = (IF c.rst # 0 THEN 6 ELSE 4)
  /\ TickLegal(c, iv[1]) /\ WLegal(c, <<iv[2], iv[3]>>) /\ RLegal(c, iv[4])
  /\ c.rst # 0 => RstLegal(c, iv[5], iv[6])

\* G-mode: the environment's moves, enumerated constructively (TLC evaluates this set at every product state and,
\* for the fairness condition, at every transition - a filter over candidate vectors doubled the liveness time).
\* T-mode judges recorded stimuli with the predicate Legal; CdcGraph's invariant LegalAgrees checks on the small
\* DUTs of every kind that both describe the same set.
Ticks(c) == { tk \in {1, 2, 3} : TickLegal(c, tk) }
WInputs(c) == IF ~wfresh THEN { lastw }
              ELSE IF c.kind = "bus" THEN { <<x, 0>> : x \in DSet(c) }
              ELSE IF c.kind = "pulse" THEN (IF hold # <<>> THEN { <<0, 0>> } ELSE { <<0, 0>>, <<1, 0>> })
              ELSE IF hold # <<>> THEN { <<1, hold[1]>> }
              ELSE { <<0, 0>> } \cup { <<1, x>> : x \in DSet(c) }
RInputs(c) == IF c.kind # "fifo" THEN {0} ELSE IF ~rfresh THEN { lastr } ELSE {0, 1}
RstInputs(c) == { p \in {<<0, 0>>, <<1, 0>>, <<0, 1>>} : RstLegal(c, p[1], p[2]) }
Inputs(c) == IF c.rst = 0
             THEN { <<tk, w[1], w[2], r>> : tk \in Ticks(c), w \in WInputs(c), r \in RInputs(c) }
             ELSE { <<tk, w[1], w[2], r, p[1], p[2]>> : tk \in Ticks(c), w \in WInputs(c), r \in RInputs(c),
                                                        p \in RstInputs(c) }
\* every vector over the DUT's alphabet (for LegalAgrees)
Cand(c) ==
  LET D == DSet(c) \cup {0} IN
  IF c.kind # "fifo" THEN { <<tk, x, y, r>> : tk \in {1, 2, 3}, x \in D \cup {1}, y \in {0, 1}, r \in {0, 1} }
  ELSE IF c.rst = 0 THEN { <<tk, v, x, r>> : tk \in {1, 2, 3}, v \in {0, 1}, x \in D, r \in {0, 1} }
  ELSE { <<tk, v, x, r, a, b>> : tk \in {1, 2, 3}, v \in {0, 1}, x \in D, r \in {0, 1}, a \in {0, 1}, b \in {0, 1} }

CInit ==
  /\ q = <<>> /\ hold = <<>> /\ lastw = <<0, 0>> /\ lastr = 0 /\ wfresh = TRUE /\ rfresh = TRUE
  /\ oprev = <<>> /\ seen = {0} /\ run = <<0, 0>> /\ rs = <<0, 0, 0, 0, 0>>
  /\ obs = [okorder |-> TRUE, okhold |-> TRUE, okbound |-> TRUE, okword |-> TRUE, okempty |-> TRUE,
            okspur |-> TRUE, oklat |-> TRUE, srcfire |-> FALSE, coop |-> FALSE, wtick |-> FALSE,
            rtick |-> FALSE, stable |-> -1, out |-> 0, inrst |-> FALSE]

CStep(c, iv, o) ==
  LET tk == iv[1]
      fifo == c.kind = "fifo"
      pulse == c.kind = "pulse"
      rw == IF c.rst # 0 THEN iv[5] ELSE 0
      rr == IF c.rst # 0 THEN iv[6] ELSE 0
      R == rw = 1 \/ rr = 1                       \* common reset asserted in this instant
      wasR == rs[1] = 1 \/ rs[2] = 1
      taken    == fifo /\ HasW(tk) /\ iv[2] = 1 /\ o[1] = 1      \* the producer sees its offer accepted
      sinkfire == taken /\ ~R                                   \* ... a crossing under reset drops it
      srcfire  == fifo /\ HasR(tk) /\ o[2] = 1 /\ iv[4] = 1 /\ ~R
      okorder  == srcfire => (q # <<>> /\ Head(q) = o[3])
      q1 == IF srcfire /\ q # <<>> THEN Tail(q) ELSE q
      q2 == IF sinkfire THEN Append(q1, iv[3]) ELSE q1
      \* pulse synchroniser
      inpulse  == pulse /\ HasW(tk) /\ iv[2] = 1
      outpulse == pulse /\ HasR(tk) /\ o[3] = 1
      p1 == IF outpulse /\ q # <<>> THEN Tail(q) ELSE q
      p2 == IF HasR(tk) THEN [k \in 1..Len(p1) |-> p1[k] + 1] ELSE p1
      p3 == IF inpulse THEN Append(p2, 0) ELSE p2
      owed == IF hold = <<>> THEN 0 ELSE hold[1]
      owed2 == IF inpulse THEN c.quiet ELSE IF HasW(tk) /\ owed > 0 THEN owed - 1 ELSE owed
  IN
  /\ q' = IF pulse THEN (IF Len(p3) <= c.cap THEN p3 ELSE p2)
          ELSE IF R THEN <<>>
          ELSE IF Len(q2) <= c.cap THEN q2 ELSE q1
  /\ hold' = IF pulse THEN (IF owed2 > 0 THEN <<owed2>> ELSE <<>>)
             ELSE IF fifo /\ iv[2] = 1 /\ ~taken THEN <<iv[3]>> ELSE <<>>
  /\ lastw' = <<iv[2], iv[3]>> /\ lastr' = iv[4]
  /\ wfresh' = HasW(tk) /\ rfresh' = HasR(tk)
  /\ oprev' = IF fifo /\ ~R /\ o[2] = 1 /\ ~srcfire THEN <<o[3]>> ELSE <<>>
  /\ seen' = IF c.kind = "bus" THEN seen \cup { iv[2] } ELSE seen
  /\ run' = IF c.r = 0 THEN <<0, 0>>
            ELSE IF tk = 1 THEN <<run[1] + 1, 0>> ELSE IF tk = 2 THEN <<0, run[2] + 1>> ELSE <<0, 0>>
  /\ rs' = IF c.rst = 0 THEN rs
           ELSE <<rw, rr,
                  IF R THEN Min(c.rh, rs[3] + (IF HasW(tk) THEN 1 ELSE 0)) ELSE 0,
                  IF R THEN Min(c.rh, rs[4] + (IF HasR(tk) THEN 1 ELSE 0)) ELSE 0,
                  IF R /\ ~wasR /\ c.nrst > 0 THEN rs[5] + 1 ELSE rs[5]>>
  /\ obs' = [okorder |-> okorder,
             \* an output presented and not taken stays (the read side sees it at every instant)
             okhold  |-> (fifo /\ oprev # <<>> /\ ~R) => (o[2] = 1 /\ o[3] = oprev[1]),
             okbound |-> IF pulse THEN Len(p3) <= c.cap ELSE Len(q2) <= c.cap,
             \* a bus synchroniser only ever shows words its input really held at one instant
             okword  |-> (c.kind = "bus") => (o[3] \in seen \cup { iv[2] }),
             \* first instant after a common reset pulse: both sides are empty
             okempty |-> (fifo /\ wasR /\ ~R) => (o[1] = 1 /\ o[2] = 0),
             okspur  |-> outpulse => q # <<>>,
             oklat   |-> pulse => (\A k \in 1..Len(p3) : p3[k] <= c.lat),
             srcfire |-> srcfire,
             coop    |-> (iv[2] = 1 /\ iv[4] = 1 /\ ~R),
             wtick   |-> HasW(tk), rtick |-> HasR(tk),
             stable  |-> IF c.kind = "bus" THEN iv[2] ELSE -1,
             out     |-> o[3],
             inrst   |-> R]

InOrderExactlyOnce == obs.okorder   \* nothing corrupted, dropped, duplicated or reordered (nor delivered after a flush)
ValidHold          == obs.okhold
NeverOverflows     == obs.okbound
OnlyRealWords      == obs.okword
EmptyAfterReset    == obs.okempty
NoSpuriousPulse    == obs.okspur
EveryPulseOnce     == obs.oklat    \* with NoSpuriousPulse and NeverOverflows: exactly one output pulse per input pulse
=============================================================================
