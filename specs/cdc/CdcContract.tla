----------------------------- MODULE CdcContract -----------------------------
(***************************************************************************)
(* L1 contract of clock-domain crossings, property C05.                    *)
(* One step = one instant in which the write clock, the read clock or both *)
(* (simultaneous edges) have a rising edge; TLC chooses the interleaving.  *)
(* When both edges coincide and a synchroniser's source changes, the       *)
(* harness returns one successor per per-bit old/new resolution of its     *)
(* first flop; TLC explores all of them.                                   *)
(*                                                                         *)
(* c.kind = "fifo": stream crossing (AsyncFIFO / ClockDomainCrossing)      *)
(*   iv = <<tk, valid, data, ready>>   tk: 1 write edge, 2 read edge, 3 both*)
(*   o  = <<sink_ready, src_valid, src_data>>                              *)
(*   valid/data belong to the write domain, ready to the read domain: they *)
(*   change only right after an edge of their own clock.                   *)
(* c.kind = "bus": multi-bit bus synchroniser                              *)
(*   iv = <<tk, i, 0, 0>>   o = <<0, 0, o>>                                *)
(*   clock drift bounded: at most c.r consecutive edges of one clock       *)
(*   without an edge of the other.                                         *)
(* c: kind, cap, dset (data / bus word alphabet), r                        *)
(***************************************************************************)
EXTENDS Integers, Sequences, FiniteSets, TLC

VARIABLES q,       \* fifo: tokens accepted and not yet delivered
          hold,    \* fifo: offered token not yet accepted (<<>> none)
          lastw,   \* write-domain inputs <<valid, data>> (bus: <<i, 0>>) as of the last step
          lastr,   \* read-domain input ready as of the last step
          wfresh,  \* TRUE if the last step had a write edge (write-domain inputs may change now)
          rfresh,
          oprev,   \* fifo: output presented at a read edge and not accepted
          seen,    \* bus: words the input has held (plus the power-up value)
          run,     \* bus: <<consecutive write-only edges, consecutive read-only edges>>
          obs

cvars == <<q, hold, lastw, lastr, wfresh, rfresh, oprev, seen, run, obs>>

DSet(c) == { c.dset[i] : i \in 1..Len(c.dset) }
HasW(tk) == tk \in {1, 3}
HasR(tk) == tk \in {2, 3}

\* c.r > 0 bounds the drift (always for the bus synchroniser; for FIFO crossings only in the quick tier)
Ticks(c) == IF c.r > 0
            THEN { tk \in {1, 2, 3} : (tk = 1 => run[1] < c.r) /\ (tk = 2 => run[2] < c.r) }
            ELSE {1, 2, 3}

WInputs(c) == IF ~wfresh THEN { lastw }
              ELSE IF c.kind = "bus" THEN { <<x, 0>> : x \in DSet(c) }
              ELSE IF hold # <<>> THEN { <<1, hold[1]>> }
              ELSE { <<0, 0>> } \cup { <<1, x>> : x \in DSet(c) }
RInputs(c) == IF c.kind = "bus" THEN {0} ELSE IF ~rfresh THEN { lastr } ELSE {0, 1}

Inputs(c) == { <<tk, w[1], w[2], r>> : tk \in Ticks(c), w \in WInputs(c), r \in RInputs(c) }

CInit ==
  /\ q = <<>> /\ hold = <<>> /\ lastw = <<0, 0>> /\ lastr = 0 /\ wfresh = TRUE /\ rfresh = TRUE
  /\ oprev = <<>> /\ seen = {0} /\ run = <<0, 0>>
  /\ obs = [okorder |-> TRUE, okhold |-> TRUE, okbound |-> TRUE, okword |-> TRUE,
            srcfire |-> FALSE, coop |-> FALSE, wtick |-> FALSE, rtick |-> FALSE, stable |-> -1, out |-> 0]

CStep(c, iv, o) ==
  LET tk == iv[1]
      fifo == c.kind = "fifo"
      sinkfire == fifo /\ HasW(tk) /\ iv[2] = 1 /\ o[1] = 1
      srcfire  == fifo /\ HasR(tk) /\ o[2] = 1 /\ iv[4] = 1
      okorder  == srcfire => (q # <<>> /\ Head(q) = o[3])
      q1 == IF srcfire /\ q # <<>> THEN Tail(q) ELSE q
      q2 == IF sinkfire THEN Append(q1, iv[3]) ELSE q1
  IN
  /\ q' = IF Len(q2) <= c.cap THEN q2 ELSE q1
  /\ hold' = IF fifo /\ iv[2] = 1 /\ ~sinkfire THEN <<iv[3]>> ELSE <<>>
  /\ lastw' = <<iv[2], iv[3]>> /\ lastr' = iv[4]
  /\ wfresh' = HasW(tk) /\ rfresh' = HasR(tk)
  /\ oprev' = IF fifo /\ o[2] = 1 /\ ~srcfire THEN <<o[3]>> ELSE <<>>
  /\ seen' = IF c.kind = "bus" THEN seen \cup { iv[2] } ELSE seen
  /\ run' = IF c.r = 0 THEN <<0, 0>>
            ELSE IF tk = 1 THEN <<run[1] + 1, 0>> ELSE IF tk = 2 THEN <<0, run[2] + 1>> ELSE <<0, 0>>
  /\ obs' = [okorder |-> okorder,
             \* an output presented and not taken stays (the read side sees it at every instant)
             okhold  |-> (fifo /\ oprev # <<>>) => (o[2] = 1 /\ o[3] = oprev[1]),
             okbound |-> Len(q2) <= c.cap,
             \* a bus synchroniser only ever shows words its input really held at one instant
             okword  |-> (c.kind = "bus") => (o[3] \in seen \cup { iv[2] }),
             srcfire |-> srcfire,
             coop    |-> (iv[2] = 1 /\ iv[4] = 1),
             wtick   |-> HasW(tk), rtick |-> HasR(tk),
             stable  |-> IF c.kind = "bus" THEN iv[2] ELSE -1,
             out     |-> o[3]]

InOrderExactlyOnce == obs.okorder   \* nothing corrupted, dropped, duplicated or reordered
ValidHold          == obs.okhold
NeverOverflows     == obs.okbound
OnlyRealWords      == obs.okword
=============================================================================
