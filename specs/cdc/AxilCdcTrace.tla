---------------------------- MODULE AxilCdcTrace ----------------------------
(* T-mode re-judgement of linear replays (and recorded runs) of AXILiteClockDomainCrossing against          *)
(* AxilCdcContract; ev[l] = <<iv, o>>.                                                                    *)
EXTENDS AxilCdcContract, Json, IOUtils
T == JsonDeserialize(IOEnv.TRACES)
VARIABLES tid, l, envbad, stall
vars == <<tid, l, envbad, stall, qreq, qresp, mhold, mdone, shold, sgot, lastm, lasts, wfresh, rfresh, run, seq, oprev, obs>>
C == T[tid].cfg
Init == /\ tid \in 1..Len(T) /\ l = 1 /\ envbad = FALSE /\ stall = 0 /\ CInit
Next ==
  /\ l <= Len(T[tid].ev)
  /\ LET iv == T[tid].ev[l][1]
         o  == T[tid].ev[l][2]
     IN /\ envbad' = (envbad \/ iv \notin Inputs(C))
        /\ CStep(C, iv, o)
        /\ stall' = IF obs'.coop /\ ~obs'.done THEN stall + 1 ELSE 0
  /\ l' = l + 1 /\ tid' = tid
EnvLegal == ~envbad
RequestsExactlyOnceInOrderT  == obs.okreq
ResponsesExactlyOnceInOrderT == obs.okresp
ValidHoldT                   == obs.okhold
AtMostOneOutstandingT        == obs.okbound
(* bounded form of Progress: never C.stallbound consecutive cooperative instants without a completed transaction *)
BoundedProgress == stall < C.stallbound
=============================================================================
