----------------------------- MODULE CdcModelM -----------------------------
(* M-mode:  L2 model (CdcModel) x Env x CdcContract monitor, no code        *)
(* involved.  It is CdcGraph with the lookup in the graph of the real       *)
(* netlist replaced by the model's step function: environment, monitor and  *)
(* clauses are literally those that judge the real code.  A step is one of  *)
(* TickW (edge of the write clock), TickR (read clock), TickBoth            *)
(* (simultaneous edges; the model then offers one successor per metastable  *)
(* resolution of the synchronisers' first flops and all are explored).      *)
(* C.r = 0 for a FIFO crossing: UNBOUNDED relative drift of the two clocks  *)
(* (any interleaving; the liveness clause assumes only that both clocks     *)
(* keep ticking).                                                           *)
(* MC = list of [c |-> L1 configuration, m |-> model configuration,         *)
(*               live |-> 1 if FreshAll is to be checked (tracks `same`)].  *)
EXTENDS CdcContract, Json, IOUtils

M == INSTANCE CdcModel
MC == JsonDeserialize(IOEnv.MCFG)

VARIABLES d,   \* which configuration
          r,   \* the model's registers
          ph,  \* see CdcGraph / StreamGraph: a hung product must not be a stuttering step
          same \* bus: the input word of the last step was the one of the step before (for FreshAll only)
vars == <<d, r, q, hold, lastw, lastr, wfresh, rfresh, oprev, seen, run, rs, obs, ph, same>>

C == MC[d].c
Mc == MC[d].m

Init == /\ d \in 1..Len(MC) /\ r = M!MInit(MC[d].m) /\ ph = 0 /\ same = TRUE /\ CInit

Step(iv) ==
  LET e == M!MStep(Mc, r, iv) IN
    /\ r' \in e.rs                                   \* every metastable resolution is a behaviour
    /\ d' = d
    /\ CStep(C, iv, e.o)
    /\ same' = (MC[d].live = 0 \/ C.kind # "bus" \/ iv[2] = lastw[1])
    /\ ph' = IF r' = r /\ cvars' = cvars /\ same' = same THEN 1 - ph ELSE 0

Tick(t) == \E iv \in Inputs(C) : iv[1] = t /\ Step(iv)
TickW    == Tick(1)
TickR    == Tick(2)
TickBoth == Tick(3)
Next == TickW \/ TickR \/ TickBoth

Spec == Init /\ [][Next]_vars /\ WF_vars(Next)
Alias == [d |-> d, r |-> r, obs |-> obs, q |-> q, seen |-> seen, rs |-> rs,
          iv |-> CHOOSE iv \in Inputs(C) : Step(iv), nr |-> r']

(* both clocks keep ticking; producer and consumer cooperate (and no reset)  =>  tokens keep arriving *)
Progress == (([]<>(obs.wtick)) /\ ([]<>(obs.rtick)) /\ (<>[](obs.coop))) => []<>(obs.srcfire)
(* bus: after the input has been stable for long enough the output reflects it (CdcGraph: v \in 0..3) *)
Fresh == \A v \in 0..3 : (([]<>(obs.wtick)) /\ ([]<>(obs.rtick)) /\ (<>[](obs.stable = v))) => <>[](obs.out = v)
(* the same for every word of any alphabet in one formula: an input that eventually stops changing is eventually shown *)
(* for good (`same` = the input of a step equals the input of the step before, obs.stable = the input, obs.out = o)    *)
FreshAll == (([]<>(obs.wtick)) /\ ([]<>(obs.rtick)) /\ (<>[]same)) => <>[](obs.out = obs.stable)
=============================================================================
