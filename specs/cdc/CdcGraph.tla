------------------------------ MODULE CdcGraph ------------------------------
EXTENDS CdcContract, Json, IOUtils, GraphLookup
G == JsonDeserialize(IOEnv.GRAPH)
NDuts == Len(G.duts)
VARIABLES d, s, ph
vars == <<d, s, q, hold, lastw, lastr, wfresh, rfresh, oprev, seen, run, rs, obs, ph>>
C == G.duts[d].cfg
Init == /\ d \in 1..NDuts /\ s = 0 /\ ph = 0 /\ CInit
Step(iv) ==
  /\ s >= 0
  /\ LET e == GLookup(G.duts[d].succ[s + 1], iv) IN
       IF e # <<>>
       THEN /\ \E k \in 1..Len(e[3]) : s' = e[3][k]      \* every metastable resolution is a behaviour
            /\ d' = d
            /\ CStep(C, iv, e[2])
            /\ ph' = IF s' = s /\ cvars' = cvars THEN 1 - ph ELSE 0
       ELSE /\ PrintT(<<"NEED", d, s, iv>>)
            /\ s' = -1 /\ d' = d /\ ph' = 0 /\ UNCHANGED cvars
Next == \E iv \in Inputs(C) : Step(iv)
Spec == Init /\ [][Next]_vars /\ WF_vars(Next)
Alias == [d |-> d, s |-> s, obs |-> obs, q |-> q, seen |-> seen, rs |-> rs,
          iv |-> CHOOSE iv \in Inputs(C) : Step(iv), ns |-> s']
(* the constructive environment (Inputs) and the predicate T-mode uses (Legal) describe the same set of moves *)
LegalAgrees == s >= 0 => \A iv \in Cand(C) : Legal(C, iv) <=> (iv \in Inputs(C))
(* both clocks keep ticking; producer and consumer cooperate (and no reset)  =>  tokens keep arriving *)
Progress == (([]<>(obs.wtick)) /\ ([]<>(obs.rtick)) /\ (<>[](obs.coop))) => []<>(obs.srcfire)
(* bus: after the input has been stable for long enough the output reflects it *)
Fresh == \A v \in 0..3 : (([]<>(obs.wtick)) /\ ([]<>(obs.rtick)) /\ (<>[](obs.stable = v))) => <>[](obs.out = v)
=============================================================================
