------------------------------ MODULE CdcModel ------------------------------
(***************************************************************************)
(* L2: implementation-shaped models of the clock-domain crossings of       *)
(* property C05, register for register from the sources                    *)
(*   migen/genlib/cdc.py    MultiReg(Impl), GrayCounter, PulseSynchronizer *)
(*   migen/genlib/fifo.py   AsyncFIFO, AsyncFIFOBuffered                   *)
(*   litex/soc/interconnect/stream.py   _FIFOWrapper, AsyncFIFO,           *)
(*                                      ClockDomainCrossing                *)
(*   litex/gen/genlib/cdc.py  BusSynchronizer,  genlib/misc.py WaitTimer   *)
(* (register names follow the code; a MultiReg's two flops are <name>0 and *)
(* <name>1, <name>1 being the synchronised signal the code reads).         *)
(*                                                                         *)
(* One step = one instant with a rising edge of the write clock (source    *)
(* domain, tk = 1), of the read clock (destination domain, tk = 2) or of   *)
(* both (tk = 3): actions TickW / TickR / TickBoth of CdcModelM.  All      *)
(* flops of a ticking domain load values computed from the state BEFORE    *)
(* the instant (simultaneous edges do not see each other's new values).    *)
(*                                                                         *)
(*   MStep(m, r, iv) = [o    |-> outputs of this instant,                  *)
(*                      base |-> next registers without metastability,     *)
(*                      rs   |-> SET of possible next registers]           *)
(*                                                                         *)
(* METASTABILITY.  The first flop of a MultiReg whose own domain ticks in  *)
(* the instant in which its source register changes samples a moving       *)
(* signal: it takes, bit by bit, the old or the new source value (Mix).    *)
(* `base` is the resolution "every bit old" (what an ordinary RTL          *)
(* simulation shows); rs holds every combination of resolutions of all     *)
(* the synchronisers concerned.  Later stages and everything else are      *)
(* ordinary flops.                                                         *)
(*                                                                         *)
(* m  = model configuration: cls ("AsyncFIFO" | "Bus" | "Pulse") and the   *)
(*      parameters of the class (fields unused by a class are 0),          *)
(* iv, o = as in CdcContract (iv[1] = tk).                                 *)
(*                                                                         *)
(* An L2 model never gives a verdict (DESIGN.md 9): CdcModelM explores     *)
(* model x Env x CdcContract for parameters the Python stepper cannot      *)
(* afford (unbounded drift, depth 8/16, wide buses); CdcModelConf checks   *)
(* that MStep reproduces every edge - with the complete SET of metastable  *)
(* successors - of the G-mode graphs of the real netlists and every        *)
(* instant of the two-clock T-mode runs.                                   *)
(***************************************************************************)
EXTENDS Integers, Sequences, FiniteSets

B(x) == IF x THEN 1 ELSE 0
P2(n) == 2^n
Bit(x, k) == (x \div P2(k)) % 2
HasW(tk) == tk \in {1, 3}
HasR(tk) == tk \in {2, 3}
RECURSIVE XorW(_, _, _)
XorW(a, b, w) == IF w = 0 THEN 0 ELSE ((a + b) % 2) + 2 * XorW(a \div 2, b \div 2, w - 1)
(* per-bit old/new resolutions of a w-bit flop sampling a source that moves from `old` to `new` *)
RECURSIVE Mix(_, _, _)
Mix(old, new, w) ==
  IF w = 0 THEN {0}
  ELSE { b + 2 * x : b \in {old % 2, new % 2}, x \in Mix(old \div 2, new \div 2, w - 1) }
(* first flop of a MultiReg in a domain that ticks (dtick): src = source before, src2 = source after the instant *)
FirstStage(dtick, src, src2, w, keep) ==
  IF ~dtick THEN {keep} ELSE IF src = src2 THEN {src} ELSE Mix(src, src2, w)

---------------------------------------------------------------------------
(* migen GrayCounter(width w): q_binary and q are registers,               *)
(*   q_next_binary = q_binary + ce,  q_next = q_next_binary ^ (.. >> 1)    *)
GCNextBinary(w, qb, ce) == (qb + B(ce)) % P2(w)
GCGray(w, nb) == XorW(nb, nb \div 2, w)

---------------------------------------------------------------------------
(* migen AsyncFIFO(width, depth) / AsyncFIFOBuffered inside                *)
(* stream._FIFOWrapper (stream.AsyncFIFO), optionally inside               *)
(* stream.ClockDomainCrossing (domains renamed; with_common_rst = m.rst:   *)
(* both private domains are reset by  ResetSignal(cd_from) |               *)
(* ResetSignal(cd_to)  through the simulator's AsyncResetSynchronizer      *)
(* stand-in, i.e. synchronously at the edges of each domain).              *)
(*   m.depth = 2^m.ab words; pointers are ab + 1 bits wide.                *)
(*   write domain: produce (GrayCounter: produce_q, produce_qb), storage,  *)
(*                 consume_wdomain = MultiReg(consume.q): cwd0, cwd1       *)
(*   read domain : consume (consume_q, consume_qb), rdadr (the address     *)
(*                 register of the synchronous read port, fed with         *)
(*                 consume.q_next_binary[:-1]), produce_rdomain =          *)
(*                 MultiReg(produce.q): prd0, prd1; buffered: readable,    *)
(*                 dout (AsyncFIFOBuffered's output register)              *)
(* The write port's own address register cannot influence any output and  *)
(* is left out.                                                            *)
(* A FIFO word packs payload, param, first, last (LSB first).  The harness *)
(* presents one token of m.dw + m.pw + 2 * m.fl bits: payload, then param, *)
(* then (m.fl = 1) first and last; without m.fl first = last = 0.          *)
PW(m) == m.ab + 1
TokData(m, t)  == t % P2(m.dw)
TokParam(m, t) == (t \div P2(m.dw)) % P2(m.pw)
TokFirst(m, t) == IF m.fl = 1 THEN Bit(t, m.dw + m.pw) ELSE 0
TokLast(m, t)  == IF m.fl = 1 THEN Bit(t, m.dw + m.pw + 1) ELSE 0
PackW(m, dat, p, f, l) == dat + P2(m.dw) * (p + P2(m.pw) * (f + 2 * l))          \* fifo_in.raw_bits()
WData(m, x)  == x % P2(m.dw)
WParam(m, x) == (x \div P2(m.dw)) % P2(m.pw)
WFirst(m, x) == Bit(x, m.dw + m.pw)
WLast(m, x)  == Bit(x, m.dw + m.pw + 1)
TokOut(m, x) == WData(m, x) + P2(m.dw) * (WParam(m, x) + P2(m.pw) * (IF m.fl = 1 THEN WFirst(m, x) + 2 * WLast(m, x) ELSE 0))

AFInit(m) == [produce_q |-> 0, produce_qb |-> 0, cwd0 |-> 0, cwd1 |-> 0, storage |-> [a \in 1..m.depth |-> 0],
              consume_q |-> 0, consume_qb |-> 0, rdadr |-> 0, prd0 |-> 0, prd1 |-> 0, readable |-> 0, dout |-> 0]

AFStep(m, r, iv) ==
  LET tk  == iv[1]
      w   == PW(m)
      rst == IF m.rst = 1 THEN iv[5] = 1 \/ iv[6] = 1 ELSE FALSE           \* _cd_rst
      \* ---- combinational, migen AsyncFIFO
      consume_wdomain == r.cwd1
      produce_rdomain == r.prd1
      writable == \/ Bit(r.produce_q, w - 1) = Bit(consume_wdomain, w - 1)
                  \/ Bit(r.produce_q, w - 2) = Bit(consume_wdomain, w - 2)
                  \/ r.produce_q % P2(w - 2) # consume_wdomain % P2(w - 2)
      freadable == r.consume_q # produce_rdomain                            \* fifo.readable of the inner FIFO
      fdout == r.storage[r.rdadr + 1]                                      \* rdport.dat_r = storage[adr_reg]
      \* ---- _FIFOWrapper / AsyncFIFOBuffered
      we  == iv[2] = 1                                                      \* fifo.we = sink.valid
      din == PackW(m, TokData(m, iv[3]), TokParam(m, iv[3]), TokFirst(m, iv[3]), TokLast(m, iv[3]))
      re  == iv[4] = 1                                                      \* source.ready
      fre == IF m.buffered = 1 THEN re \/ r.readable = 0 ELSE re            \* inner fifo.re
      produce_ce == writable /\ we
      consume_ce == freadable /\ fre
      pnb == GCNextBinary(w, r.produce_qb, produce_ce)                      \* produce.q_next_binary
      cnb == GCNextBinary(w, r.consume_qb, consume_ce)
      \* ---- a rising edge of the write clock
      W == [produce_q  |-> IF rst THEN 0 ELSE GCGray(w, pnb),
            produce_qb |-> IF rst THEN 0 ELSE pnb,
            storage    |-> IF rst THEN [a \in 1..m.depth |-> 0]            \* (the simulator's array flops have a reset)
                           ELSE IF produce_ce THEN [r.storage EXCEPT ![(r.produce_qb % m.depth) + 1] = din]
                           ELSE r.storage,
            cwd0 |-> r.consume_q, cwd1 |-> r.cwd0]                          \* MultiReg flops are reset_less
      \* ---- a rising edge of the read clock
      R == [consume_q  |-> IF rst THEN 0 ELSE GCGray(w, cnb),
            consume_qb |-> IF rst THEN 0 ELSE cnb,
            rdadr      |-> IF rst THEN 0 ELSE cnb % m.depth,
            prd0 |-> r.produce_q, prd1 |-> r.prd0,
            readable |-> IF m.buffered = 0 THEN 0 ELSE IF rst THEN 0 ELSE IF fre THEN B(freadable) ELSE r.readable,
            dout     |-> IF m.buffered = 0 THEN 0 ELSE IF fre THEN fdout ELSE r.dout]   \* reset_less
      base == [produce_q  |-> IF HasW(tk) THEN W.produce_q ELSE r.produce_q,
               produce_qb |-> IF HasW(tk) THEN W.produce_qb ELSE r.produce_qb,
               storage    |-> IF HasW(tk) THEN W.storage ELSE r.storage,
               cwd0       |-> IF HasW(tk) THEN W.cwd0 ELSE r.cwd0,
               cwd1       |-> IF HasW(tk) THEN W.cwd1 ELSE r.cwd1,
               consume_q  |-> IF HasR(tk) THEN R.consume_q ELSE r.consume_q,
               consume_qb |-> IF HasR(tk) THEN R.consume_qb ELSE r.consume_qb,
               rdadr      |-> IF HasR(tk) THEN R.rdadr ELSE r.rdadr,
               prd0       |-> IF HasR(tk) THEN R.prd0 ELSE r.prd0,
               prd1       |-> IF HasR(tk) THEN R.prd1 ELSE r.prd1,
               readable   |-> IF HasR(tk) THEN R.readable ELSE r.readable,
               dout       |-> IF HasR(tk) THEN R.dout ELSE r.dout]
      word == IF m.buffered = 1 THEN r.dout ELSE fdout
  IN [o    |-> <<B(writable), IF m.buffered = 1 THEN r.readable ELSE B(freadable), TokOut(m, word)>>,
      base |-> base,
      rs   |-> { [base EXCEPT !.prd0 = a, !.cwd0 = b] :
                   a \in FirstStage(HasR(tk), r.produce_q, base.produce_q, w, r.prd0),
                   b \in FirstStage(HasW(tk), r.consume_q, base.consume_q, w, r.cwd0) }]

---------------------------------------------------------------------------
(* migen PulseSynchronizer(idomain = write, odomain = read):               *)
(*   write: toggle_i flips when i;  read: toggle_o = MultiReg(toggle_i)    *)
(*   (t0, t1), toggle_o_r = toggle_o delayed;  o = toggle_o ^ toggle_o_r   *)
PSInit(m) == [toggle_i |-> 0, t0 |-> 0, t1 |-> 0, toggle_o_r |-> 0]
PSOut(p) == (p.t1 + p.toggle_o_r) % 2
(* registers of one pulse synchroniser after an edge of its input domain (itick) and/or output domain (otick) *)
PSBase(p, i, itick, otick) ==
  [toggle_i   |-> IF itick /\ i = 1 THEN 1 - p.toggle_i ELSE p.toggle_i,
   t0         |-> IF otick THEN p.toggle_i ELSE p.t0,
   t1         |-> IF otick THEN p.t0 ELSE p.t1,
   toggle_o_r |-> IF otick THEN p.t1 ELSE p.toggle_o_r]
PSStep(m, r, iv) ==
  LET tk == iv[1]
      base == PSBase(r, iv[2], HasW(tk), HasR(tk))
  IN [o |-> <<0, 0, PSOut(r)>>, base |-> base,
      rs |-> { [base EXCEPT !.t0 = a] : a \in FirstStage(HasR(tk), r.toggle_i, base.toggle_i, 1, r.t0) }]

---------------------------------------------------------------------------
(* litex BusSynchronizer(width = m.width, idomain = write, odomain = read, *)
(* timeout = m.timeout), width > 1:                                        *)
(*   _ping = PulseSynchronizer(write -> read), _pong = the way back,       *)
(*   ping_o = extra flop on _ping.o (read domain),                         *)
(*   _timeout = WaitTimer(timeout) in the write domain (count),            *)
(*   _ping.i = starter | _pong.o | _timeout.done,  _timeout.wait = ~_ping.i*)
(*   _pong.i = ping_o,                                                     *)
(*   write: starter <= 0; if _pong.o: ibuffer <= i                         *)
(*   read : obuffer = MultiReg(ibuffer) (ob0, ob1); if ping_o: o <= obuffer*)
(* Registers: starter, count, ibuffer, ping_* (the four flops of _ping),   *)
(* pong_*, ping_o, ob0, ob1, o.                                            *)
BSInit(m) == [starter |-> 1, count |-> m.timeout, ibuffer |-> 0,
              ping_toggle_i |-> 0, ping_t0 |-> 0, ping_t1 |-> 0, ping_toggle_o_r |-> 0, ping_o |-> 0,
              pong_toggle_i |-> 0, pong_t0 |-> 0, pong_t1 |-> 0, pong_toggle_o_r |-> 0,
              ob0 |-> 0, ob1 |-> 0, o |-> 0]
BSStep(m, r, iv) ==
  LET tk == iv[1]
      wt == HasW(tk)
      rt == HasR(tk)
      ping == [toggle_i |-> r.ping_toggle_i, t0 |-> r.ping_t0, t1 |-> r.ping_t1, toggle_o_r |-> r.ping_toggle_o_r]
      pong == [toggle_i |-> r.pong_toggle_i, t0 |-> r.pong_t0, t1 |-> r.pong_t1, toggle_o_r |-> r.pong_toggle_o_r]
      pong_out == PSOut(pong)                                               \* _pong.o   (write domain)
      ping_out == PSOut(ping)                                               \* _ping.o   (read domain)
      done   == r.count = 0                                                 \* _timeout.done
      ping_i == B(r.starter = 1 \/ pong_out = 1 \/ done)
      wait   == ping_i = 0
      pingN == PSBase(ping, ping_i, wt, rt)
      pongN == PSBase(pong, r.ping_o, rt, wt)
      base == [starter |-> IF wt THEN 0 ELSE r.starter,
               count   |-> IF ~wt THEN r.count ELSE IF wait THEN (IF done THEN r.count ELSE r.count - 1) ELSE m.timeout,
               ibuffer |-> IF wt /\ pong_out = 1 THEN iv[2] ELSE r.ibuffer,
               ping_toggle_i |-> pingN.toggle_i, ping_t0 |-> pingN.t0, ping_t1 |-> pingN.t1,
               ping_toggle_o_r |-> pingN.toggle_o_r,
               ping_o  |-> IF rt THEN ping_out ELSE r.ping_o,
               pong_toggle_i |-> pongN.toggle_i, pong_t0 |-> pongN.t0, pong_t1 |-> pongN.t1,
               pong_toggle_o_r |-> pongN.toggle_o_r,
               ob0 |-> IF rt THEN r.ibuffer ELSE r.ob0,
               ob1 |-> IF rt THEN r.ob0 ELSE r.ob1,
               o   |-> IF rt /\ r.ping_o = 1 THEN r.ob1 ELSE r.o]
  IN [o |-> <<0, 0, r.o>>, base |-> base,
      rs |-> { [base EXCEPT !.ping_t0 = a, !.pong_t0 = b, !.ob0 = c] :
                 a \in FirstStage(rt, r.ping_toggle_i, base.ping_toggle_i, 1, r.ping_t0),
                 b \in FirstStage(wt, r.pong_toggle_i, base.pong_toggle_i, 1, r.pong_t0),
                 c \in FirstStage(rt, r.ibuffer, base.ibuffer, m.width, r.ob0) }]

---------------------------------------------------------------------------
MInit(m) ==
  CASE m.cls = "AsyncFIFO" -> AFInit(m)
    [] m.cls = "Pulse"     -> PSInit(m)
    [] m.cls = "Bus"       -> BSInit(m)

MStep(m, r, iv) ==
  CASE m.cls = "AsyncFIFO" -> AFStep(m, r, iv)
    [] m.cls = "Pulse"     -> PSStep(m, r, iv)
    [] m.cls = "Bus"       -> BSStep(m, r, iv)
=============================================================================
