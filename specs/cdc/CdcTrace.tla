------------------------------ MODULE CdcTrace ------------------------------
(***************************************************************************)
(* T-mode for C05: validates recorded two-clock runs of the real code      *)
(* against the same contract CdcContract that judges the G-mode product.   *)
(* Two sources of traces:                                                  *)
(*  - ordinary Migen simulations (run_simulation semantics, clocks =        *)
(*    {"write": p1, "read": p2} with several period ratios and phases):    *)
(*    one event per instant in which the simulator's TimeManager reports   *)
(*    at least one rising edge; tk (1 write, 2 read, 3 both) is the set of *)
(*    rising clocks the TimeManager returned, the fields are the interface *)
(*    values the edge sees (pre-edge);                                     *)
(*  - the linear replay of a G-mode counterexample (same edge schedule and *)
(*    metastable resolutions, reference evaluator).                        *)
(* ev[l] = <<iv, o>> as in CdcContract.  All traces of a batch are separate *)
(* initial states (variable tid).                                          *)
(* Realistic widths: c.dmax > 0 stands for the alphabet 0..dmax (values    *)
(* are only compared and moved).                                           *)
(***************************************************************************)
EXTENDS CdcContract, Json, IOUtils

T == JsonDeserialize(IOEnv.TRACES)

VARIABLES tid, l, envbad,
          stallr,   \* consecutive read edges with a ready consumer and an owed token but no delivery
          stallw,   \* consecutive write edges with an offer, an empty crossing and no acceptance
          still     \* bus: consecutive instants with an unchanged input word
vars == <<tid, l, envbad, stallr, stallw, still, q, hold, lastw, lastr, wfresh, rfresh, oprev, seen, run, rs, obs>>

C == T[tid].cfg

Init == /\ tid \in 1..Len(T) /\ l = 1 /\ envbad = FALSE /\ stallr = 0 /\ stallw = 0 /\ still = 0 /\ CInit

Next ==
  /\ l <= Len(T[tid].ev)
  /\ LET iv == T[tid].ev[l][1]
         o  == T[tid].ev[l][2]
         fifo == C.kind = "fifo"
     IN /\ envbad' = (envbad \/ ~Legal(C, iv))
        /\ CStep(C, iv, o)
        /\ stallr' = IF fifo /\ HasR(iv[1]) /\ iv[4] = 1 /\ q # <<>> /\ ~obs'.srcfire /\ ~obs'.inrst
                     THEN stallr + 1
                     ELSE IF fifo /\ ~HasR(iv[1]) /\ ~obs'.inrst /\ q # <<>> THEN stallr ELSE 0
        /\ stallw' = IF fifo /\ HasW(iv[1]) /\ iv[2] = 1 /\ o[1] = 0 /\ q = <<>> /\ ~obs'.inrst
                     THEN stallw + 1
                     ELSE IF fifo /\ ~HasW(iv[1]) /\ ~obs'.inrst /\ q = <<>> THEN stallw ELSE 0
        /\ still' = IF C.kind = "bus" /\ iv[2] = lastw[1] THEN still + 1 ELSE 0
  /\ l' = l + 1 /\ tid' = tid

EnvLegal == ~envbad                           \* harness obligation, not a property of the code
InOrderExactlyOnceT == obs.okorder
ValidHoldT          == obs.okhold
NeverOverflowsT     == obs.okbound
OnlyRealWordsT      == obs.okword
EmptyAfterResetT    == obs.okempty
NoSpuriousPulseT    == obs.okspur
EveryPulseOnceT     == obs.oklat
(* bounded forms of Progress / Fresh for long recorded runs: an owed token reaches a ready consumer within *)
(* C.stallbound read edges, an empty crossing takes an offer within C.stallbound write edges, a bus word    *)
(* that has been stable for C.freshbound instants is at the output                                          *)
BoundedDelivery   == stallr < C.stallbound
BoundedAcceptance == stallw < C.stallbound
BoundedFresh      == (C.kind = "bus" /\ still >= C.freshbound) => obs.out = obs.stable
=============================================================================
