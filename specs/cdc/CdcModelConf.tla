---------------------------- MODULE CdcModelConf ----------------------------
(* Conformance of the L2 model (CdcModel) to the real netlists: every       *)
(* recorded step (registers read by name / by structure from the netlist,   *)
(* inputs incl. the edge choice tk, outputs, registers after the instant)   *)
(* must be exactly what CdcModel!MStep computes.  Cases come from           *)
(*  (a) ALL edges of the complete G-mode graph of each DUT:                 *)
(*        <<r, iv, o, <<r2, r2', ...>>>>   one successor per metastable     *)
(*      resolution the stepper produced (Stepper.step_meta); the clause is  *)
(*      "the SET of successors the model allows equals the recorded set";   *)
(*  (b) every instant of the two-clock T-mode runs replayed on the          *)
(*      reference evaluator without injection:                              *)
(*        <<r, iv, o, <<r2>>, 0>>          r2 must be the model's `base`    *)
(*      successor (every first flop samples the old source value).          *)
(*   T.duts[i] = [m |-> model cfg, reset |-> registers after reset,         *)
(*                cases |-> << case, ... >>]                                *)
(* A failing clause is MODEL-DRIFT, never a verdict.                        *)
EXTENDS Integers, Sequences, TLC, Json, IOUtils

M == INSTANCE CdcModel
T == JsonDeserialize(IOEnv.CASES)

VARIABLES i, j
vars == <<i, j>>
Init == i \in 1..Len(T.duts) /\ j \in 1..Len(T.duts[i].cases)
Next == UNCHANGED vars

K == T.duts[i].cases[j]
E == M!MStep(T.duts[i].m, K[1], K[2])
OutputsAgree == E.o = K[3]
NextStateAgrees == IF Len(K) = 4 THEN E.rs = { K[4][k] : k \in 1..Len(K[4]) }
                   ELSE K[4][1] = E.base /\ E.base \in E.rs
ResetAgrees == T.duts[i].reset = M!MInit(T.duts[i].m)
=============================================================================
