---------------------------- MODULE CdcModelConf ----------------------------
(* Conformance of the L2 model (CdcModel) to the real netlists: every       *)
(* recorded step (registers read by name / by structure from the netlist,   *)
(* inputs incl. the edge choice tk, outputs, registers after the instant)   *)
(* must be exactly what CdcModel!MStep computes.                            *)
(*   T.duts[i] = [m |-> model cfg, reset |-> registers after reset,         *)
(*                states |-> << projected register records >>,              *)
(*                cases |-> << case, ... >>]     (states are 0-based ids)   *)
(* Cases come from                                                          *)
(*  (a) ALL edges of the G-mode graph of each DUT:                          *)
(*        <<s, iv, o, <<d, d', ...>>>>   one successor per metastable       *)
(*      resolution the stepper produced (Stepper.step_meta); the clause is  *)
(*      "the SET of successors the model allows equals the recorded set";   *)
(*  (b) every instant of the two-clock T-mode runs replayed on the          *)
(*      reference evaluator without injection:                              *)
(*        <<s, iv, o, <<d>>, 0>>         d must be the model's `base`       *)
(*      successor (every first flop samples the old source value).          *)
(* A failing clause is MODEL-DRIFT, never a verdict.                        *)
EXTENDS Integers, Sequences, TLC, Json, IOUtils

M == INSTANCE CdcModel
T == JsonDeserialize(IOEnv.CASES)

VARIABLES i, j
vars == <<i, j>>
Init == i \in 1..Len(T.duts) /\ j \in 1..Len(T.duts[i].cases)
Next == UNCHANGED vars

D == T.duts[i]
K == D.cases[j]
St(k) == D.states[k + 1]
E == M!MStep(D.m, St(K[1]), K[2])
OutputsAgree == E.o = K[3]
NextStateAgrees == IF Len(K) = 4 THEN E.rs = { St(K[4][k]) : k \in 1..Len(K[4]) }
                   ELSE St(K[4][1]) = E.base /\ E.base \in E.rs
ResetAgrees == D.reset = M!MInit(D.m)
=============================================================================
