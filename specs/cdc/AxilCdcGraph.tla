---------------------------- MODULE AxilCdcGraph ----------------------------
(* G-mode product for AXILiteClockDomainCrossing: environment and contract of AxilCdcContract x the       *)
(* transition graph of the real netlist (two clocks, one successor per metastable resolution).            *)
EXTENDS AxilCdcContract, Json, IOUtils, GraphLookup
G == JsonDeserialize(IOEnv.GRAPH)
NDuts == Len(G.duts)
VARIABLES d, s, ph
vars == <<d, s, qreq, qresp, mhold, mdone, shold, sgot, lastm, lasts, wfresh, rfresh, run, seq, oprev, obs, ph>>
C == G.duts[d].cfg
Init == /\ d \in 1..NDuts /\ s = 0 /\ ph = 0 /\ CInit
Step(iv) ==
  /\ s >= 0
  /\ LET e == GLookup(G.duts[d].succ[s + 1], iv) IN
       IF e # <<>>
       THEN /\ \E k \in 1..Len(e[3]) : s' = e[3][k]      \* every metastable resolution is a behaviour
            /\ d' = d
            /\ CStep(C, iv, e[2])
            /\ ph' = IF s' = s /\ cvars' = cvars THEN 1 - ph ELSE 0
       ELSE /\ PrintT(<<"NEED", d, s, iv>>)
            /\ s' = -1 /\ d' = d /\ ph' = 0 /\ UNCHANGED cvars
Next == \E iv \in Inputs(C) : Step(iv)
Spec == Init /\ [][Next]_vars /\ WF_vars(Next)
Alias == [d |-> d, s |-> s, obs |-> obs, qreq |-> qreq, qresp |-> qresp,
          iv |-> CHOOSE iv \in Inputs(C) : Step(iv), ns |-> s']
(* both clocks keep ticking, master and slave cooperate  =>  transactions keep completing *)
Progress == (([]<>(obs.wtick)) /\ ([]<>(obs.rtick)) /\ (<>[](obs.coop))) => []<>(obs.done)
=============================================================================
