---------------------------- MODULE GraphLookup ----------------------------
(* Constant-time lookup of an edge of the implementation graph.            *)
(* harness/graphloop.py (fmt="hash") stores the edges leaving one          *)
(* implementation state as a sequence of buckets; an edge <<iv, o, d>> is   *)
(* in bucket 1 + GHash(iv) % (number of buckets).  (The first format, a     *)
(* record keyed by ToString(iv), costs O(n log n) per lookup in TLC because *)
(* `k \in DOMAIN r` materialises and sorts the domain.)                     *)
EXTENDS Integers, Sequences

RECURSIVE GHashR(_, _)
GHashR(iv, i) == IF i > Len(iv) THEN 0
                 ELSE ((iv[i] % 65536) * (((i * 7919 + 13) % 1009) + 1)) + GHashR(iv, i + 1)
GHash(iv) == GHashR(iv, 1)

RECURSIVE GFind(_, _, _)
GFind(b, iv, i) == IF i > Len(b) THEN <<>>
                   ELSE IF b[i][1] = iv THEN b[i] ELSE GFind(b, iv, i + 1)

(* row = buckets of one implementation state; result <<iv, o, d>> or <<>> *)
GLookup(row, iv) == IF Len(row) = 0 THEN <<>>
                    ELSE GFind(row[1 + (GHash(iv) % Len(row))], iv, 1)
=============================================================================
