------------------------------- MODULE Secded -------------------------------
(***************************************************************************)
(* C18 - ECC (SECDED) corrects every single-bit error and flags every      *)
(* double-bit error.                                                       *)
(*                                                                         *)
(* The module judges cases recorded from the REAL ECCEncoder / ECCDecoder  *)
(* netlists of litex/soc/cores/ecc.py.  A case is                          *)
(*      data word  --ECCEncoder-->  code word  --flip the bits in f-->     *)
(*      --ECCDecoder(enable)-->  <<o, sec, ded>>                           *)
(* Words are never integers here (code words reach 137 bits, TLC has 32):  *)
(* a word is the strictly increasing sequence of the positions of its 1    *)
(* bits.  The harness only moves bits (it XORs the flip mask onto the      *)
(* encoder's output to drive the decoder); what the decoder must answer    *)
(* is written below and nowhere else.                                      *)
(*                                                                         *)
(* T = sequence of groups (one JSON file per TLC run):                     *)
(*   [k, w, data, en, mode, cw, runs]   runs[i] = <<f, o, sec, ded>>       *)
(*     k data width, w code word width (read off the netlist), data and cw *)
(*     (the encoder's output) as position sequences, en = decoder enable,  *)
(*     mode: "all012" every flip set of size <= 2 over the w positions,    *)
(*           "all01"  every flip set of size <= 1,  "none" only f = <<>>,  *)
(*           "sample" some flip sets of size <= 2                          *)
(*           "unit"   data is a unit vector; nothing flipped, the parity   *)
(*                    position alone, and every position at which the code *)
(*                    word carries a 1, each alone                         *)
(*     ref: for en = 0 the index of the first en = 0 group of the same k   *)
(*          that holds all single flips (the wires are read off it), else 0*)
(*   [k, mode |-> "lin", a, b, c, ea, eb, ec, e0]  encoder outputs for     *)
(*     data a, b, c = a xor b and 0                                        *)
(*   [k, mode |-> "summary", cls]     asks for the coverage verdict of k   *)
(*                                                                         *)
(* State (tid, l): l = 1 judges the group as a whole, l = i + 1 judges     *)
(* runs[i]; there are no steps.  All clauses are invariants; one TLC run   *)
(* judges ~10^5 cases.                                                     *)
(*                                                                         *)
(* Why sampled data words suffice for large k (classes "big"): the         *)
(* netlists are XOR networks, i.e. the encoder is affine over GF(2) and    *)
(* the decoder's flags and the position it flips depend on the received    *)
(* word only through a linear syndrome and a linear overall parity.  Then  *)
(*   (1) every flip set of size <= 2 on the code word of data 0 is judged  *)
(*       directly (mode all012),                                           *)
(*   (2) every unit vector e_i round-trips without flags, so the code word *)
(*       of e_i has zero syndrome and zero parity and extracts to e_i,     *)
(*   (3) the encoder is affine (clause EncoderAffine on recorded pairs),   *)
(* give for ANY data d and flip set F: syndrome, parity, hence flags and   *)
(* flipped position are those of (0, F), and the output is d xor (the      *)
(* output error of (0, F)), which (1) shows to be 0 for |F| <= 1.          *)
(* AUDIT: "no flags" for an unmodified code word only shows a zero         *)
(* syndrome (the decoder raises no flag for syndrome 0 whatever the overall*)
(* parity is), so (2) needs at least one single flip off the parity        *)
(* position per unit vector: sec = 1 there shows that the received word    *)
(* had odd, i.e. the code word of e_i even overall parity.  Mode "unit"    *)
(* records these; it also flips every 1 bit of every unit code word, so    *)
(* that each code word position is hit in both polarities (0 -> 1 on data  *)
(* 0, 1 -> 0 here: clause Coverage, OnesFlipped) - a decoder that sets or  *)
(* clears instead of toggling is not linear and invisible on data 0.  The  *)
(* structural assumption itself is probed by random data words x random    *)
(* flip sets that are judged directly (mode sample).                       *)
(***************************************************************************)
EXTENDS Integers, Sequences, FiniteSets, TLC, Json, IOUtils

T == JsonDeserialize(IOEnv.TRACES)

(* which widths a tier has to cover and how (printed as the plan, verified by Coverage) *)
SmallKs == 1..6                     \* every data word x every flip set of size <= 2
MidKs(tier) == 7..32                \* >= 5 data words (0, all ones, alternating, random) x every flip set
BigKs(tier) == IF tier = "thorough" THEN 33..128 ELSE {33, 40, 57, 58, 64, 72, 100, 120, 121, 128}
ClassOf(k, tier) == IF k \in SmallKs THEN "small" ELSE IF k \in MidKs(tier) THEN "mid"
                    ELSE IF k \in BigKs(tier) THEN "big" ELSE "none"
Plan(tier) == {<<k, ClassOf(k, tier)>> : k \in SmallKs \cup MidKs(tier) \cup BigKs(tier)}

(* the overall parity bit is bit 0 of the code word (ECCEncoder.o = Cat(parity, codeword)); *)
(* every other position carries a data or a check bit                                        *)
ParityPos == 0

ToSet(s) == {s[i] : i \in 1..Len(s)}
SymDiff(a, b) == (a \ b) \cup (b \ a)
IsWord(s, n) == /\ \A i \in 1..Len(s) : s[i] \in 0..(n - 1)
                /\ \A i \in 1..(Len(s) - 1) : s[i] < s[i + 1]

VARIABLES tid, l
vars == <<tid, l>>

Gp == T[tid]
HasRuns(g) == g.mode \in {"all012", "all01", "none", "sample", "unit"}
NRuns(g) == IF HasRuns(g) THEN Len(g.runs) ELSE 0

(* every (group, case) pair is an initial state of its own: a counterexample is one state *)
Init == tid \in 1..Len(T) /\ l \in 1..(NRuns(T[tid]) + 1)
Next == FALSE /\ UNCHANGED vars

Run == Gp.runs[l - 1]
Judged == HasRuns(Gp) /\ l >= 2
F == Run[1]
O == Run[2]
Sec == Run[3]
Ded == Run[4]

---------------------------------------------------------------------------
(* harness obligations: the recorded file is what it claims to be *)
(* all01 / all012: run 1 flips nothing, run p + 2 flips position p alone *)
SinglesInOrder(g) == g.runs[1][1] = <<>> /\ \A p \in 0..(g.w - 1) : g.runs[p + 2][1] = <<p>>
HoldsSingles(g) == HasRuns(g) /\ g.mode \in {"all01", "all012"}

(* the group the wires of the disabled decoder are read off: the first en = 0 group of width k *)
(* with all single flips (0 if there is none)                                                  *)
FirstRef(k) == LET C == {i \in 1..Len(T) : HoldsSingles(T[i]) /\ T[i].k = k /\ T[i].en = 0}
               IN IF C = {} THEN 0 ELSE CHOOSE i \in C : \A j \in C : i <= j
RefLegal(g) == HasRuns(g) => IF g.en = 0 THEN g.ref # 0 /\ g.ref = FirstRef(g.k) ELSE g.ref = 0

GroupLegal(g) ==
  CASE HasRuns(g) ->
         /\ g.k >= 1 /\ g.w > g.k /\ g.en \in {0, 1}
         /\ IsWord(g.data, g.k) /\ IsWord(g.cw, g.w)
         /\ \A i \in 1..Len(g.runs) :
              /\ IsWord(g.runs[i][1], g.w) /\ Len(g.runs[i][1]) <= 2
              /\ IsWord(g.runs[i][2], g.k)
              /\ g.runs[i][3] \in {0, 1} /\ g.runs[i][4] \in {0, 1}
         /\ g.ref \in 0..Len(T)
         /\ Cardinality({g.runs[i][1] : i \in 1..Len(g.runs)}) = Len(g.runs)     \* flip sets distinct
         /\ CASE g.mode = "all012" -> /\ Len(g.runs) = 1 + g.w + (g.w * (g.w - 1)) \div 2
                                      /\ SinglesInOrder(g)
              [] g.mode = "all01"  -> /\ Len(g.runs) = 1 + g.w
                                      /\ \A i \in 1..Len(g.runs) : Len(g.runs[i][1]) <= 1
                                      /\ SinglesInOrder(g)
              [] g.mode = "unit"   -> /\ Len(g.data) = 1 /\ g.en = 1
                                      /\ {g.runs[i][1] : i \in 1..Len(g.runs)} =
                                           {<<>>, <<ParityPos>>} \cup {<<p>> : p \in ToSet(g.cw)}
              [] g.mode = "none"   -> Len(g.runs) = 1 /\ g.runs[1][1] = <<>>
              [] OTHER             -> Len(g.runs) >= 1
    [] g.mode = "lin" ->
         /\ IsWord(g.a, g.k) /\ IsWord(g.b, g.k) /\ IsWord(g.c, g.k)
         /\ ToSet(g.c) = SymDiff(ToSet(g.a), ToSet(g.b))
    [] g.mode = "summary" -> g.cls \in {"small", "mid", "big"}
    [] OTHER -> FALSE
EnvLegal == l = 1 => GroupLegal(Gp) /\ RefLegal(Gp)

---------------------------------------------------------------------------
(* the property, case by case *)

(* no bit flipped: the data comes back, no flag *)
NoErrorClean ==
  Judged /\ Gp.en = 1 /\ Len(F) = 0 => O = Gp.data /\ Sec = 0 /\ Ded = 0

(* one bit flipped (parity bit included): the original data comes back, never "uncorrectable" *)
SingleCorrected ==
  Judged /\ Gp.en = 1 /\ Len(F) = 1 => O = Gp.data /\ Ded = 0

(* ... and a corrected error is signalled exactly when a data or check bit was flipped *)
SingleFlagged ==
  Judged /\ Gp.en = 1 /\ Len(F) = 1 => (Sec = 1 <=> F[1] # ParityPos)

(* two bits flipped: uncorrectable error signalled, never silent, never "corrected" *)
DoubleDetected ==
  Judged /\ Gp.en = 1 /\ Len(F) = 2 => Ded = 1 /\ Sec = 0

(* checking disabled: the data bits pass through unchanged - no flags, the data itself for an   *)
(* unmodified code word, and nothing is "corrected": at most the flipped bits differ            *)
DisabledPassThrough ==
  Judged /\ Gp.en = 0 =>
    /\ Sec = 0 /\ Ded = 0
    /\ (Len(F) = 0 => O = Gp.data)
    /\ Cardinality(SymDiff(ToSet(O), ToSet(Gp.data))) <= Len(F)

(* AUDIT: DisabledPassThrough only bounds HOW MANY output bits may differ.  "Pass through       *)
(* unchanged" means that the disabled decoder is wiring: every output bit is one fixed code     *)
(* word bit.  Read off a group with all single flips: exactly k of the w positions reach the    *)
(* output, each a different output bit (so a flipped data bit is NOT silently corrected and a   *)
(* flipped check / parity bit touches nothing) ...                                              *)
OutDiff(g, j) == SymDiff(ToSet(g.runs[j][2]), ToSet(g.data))
DisabledWiring ==
  l = 1 /\ HoldsSingles(Gp) /\ Gp.en = 0 =>
    LET Hit == {p \in 0..(Gp.w - 1) : Gp.runs[p + 2][2] # Gp.data}
    IN /\ Cardinality(Hit) = Gp.k
       /\ \A p \in Hit : Cardinality(OutDiff(Gp, p + 2)) = 1
       /\ UNION {OutDiff(Gp, p + 2) : p \in Hit} = 0..(Gp.k - 1)

(* ... and the wires are the same for every data word and add up for two flips: the output      *)
(* error of every en = 0 case is the sum of the wires (read off the reference group of the      *)
(* width) of the flipped positions                                                              *)
Wire(p) == OutDiff(T[Gp.ref], p + 2)
DisabledSameWires ==
  Judged /\ Gp.en = 0 =>
    SymDiff(ToSet(O), ToSet(Gp.data)) =
      CASE Len(F) = 0 -> {}
        [] Len(F) = 1 -> Wire(F[1])
        [] OTHER      -> SymDiff(Wire(F[1]), Wire(F[2]))

(* the encoder is affine over GF(2):  E(a xor b) = E(a) xor E(b) xor E(0) *)
EncoderAffine ==
  l = 1 /\ Gp.mode = "lin" =>
    ToSet(Gp.ec) = SymDiff(SymDiff(ToSet(Gp.ea), ToSet(Gp.eb)), ToSet(Gp.e0))

---------------------------------------------------------------------------
(* what has to be in the file for a width of each class (so that nothing passes vacuously) *)
GroupsOf(k) == {i \in 1..Len(T) : T[i].k = k /\ HasRuns(T[i])}
Has(k, data, en, modes) == \E i \in GroupsOf(k) : ToSet(T[i].data) = data /\ T[i].en = en /\ T[i].mode \in modes
Evens(k) == {i \in 0..(k - 1) : i % 2 = 0}
FullWords(k, en) == {ToSet(T[i].data) : i \in {j \in GroupsOf(k) : T[j].en = en /\ T[j].mode = "all012"}}
SampleWords(k) == {ToSet(T[i].data) : i \in {j \in GroupsOf(k) : T[j].en = 1 /\ T[j].mode = "sample" /\ Len(T[j].runs) >= 40}}
(* positions that were flipped alone (en = 1) while the code word carried a 1 there *)
OnesFlipped(k) ==
  UNION {LET g == T[i] cws == ToSet(T[i].cw)
         IN {g.runs[j][1][1] : j \in {jj \in 1..Len(g.runs) : Len(g.runs[jj][1]) = 1 /\ g.runs[jj][1][1] \in cws}}
         : i \in {ii \in GroupsOf(k) : T[ii].en = 1}}
WidthOf(k) == T[CHOOSE i \in GroupsOf(k) : TRUE].w
LinCount(k) == Cardinality({i \in 1..Len(T) : T[i].k = k /\ T[i].mode = "lin" /\ T[i].a # T[i].b /\ T[i].a # <<>> /\ T[i].b # <<>>})

Covered(k, cls) ==
  CASE cls = "small" ->
         \A data \in SUBSET (0..(k - 1)) : Has(k, data, 1, {"all012"}) /\ Has(k, data, 0, {"all012"})
    [] cls = "mid" ->
         /\ {{}, 0..(k - 1), Evens(k)} \subseteq FullWords(k, 1)
         /\ Cardinality(FullWords(k, 1)) >= 5
         /\ {{}, 0..(k - 1)} \subseteq FullWords(k, 0)
         /\ \A i \in 0..(k - 1) : Has(k, {i}, 1, {"none", "all01", "all012"})
    [] cls = "big" ->
         /\ Has(k, {}, 1, {"all012"})
         /\ Has(k, {}, 0, {"all01", "all012"})
         /\ \A i \in 0..(k - 1) : Has(k, {i}, 1, {"unit", "all01", "all012"})
         /\ OnesFlipped(k) = 0..(WidthOf(k) - 1)
         /\ Cardinality(SampleWords(k) \ {{}}) >= 3
         /\ LinCount(k) >= 8
    [] OTHER -> FALSE
Coverage == l = 1 /\ Gp.mode = "summary" => Covered(Gp.k, Gp.cls)

---------------------------------------------------------------------------
(* plan run (no TRACES needed): prints which widths the tier has to cover *)
PlanInit == /\ tid = 0 /\ l = 0
            /\ \A p \in Plan(IOEnv.SECDED_TIER) : PrintT(<<"PLAN", p[1], p[2]>>)
PlanNext == FALSE /\ UNCHANGED vars
=============================================================================
