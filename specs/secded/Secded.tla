------------------------------- MODULE Secded -------------------------------
(***************************************************************************)
(* C18 - ECC (SECDED) corrects every single-bit error and flags every      *)
(* double-bit error.                                                       *)
(*                                                                         *)
(* The module judges cases recorded from the REAL ECCEncoder / ECCDecoder  *)
(* netlists of litex/soc/cores/ecc.py.  A case is                          *)
(*      data word  --ECCEncoder-->  code word  --flip the bits in f-->     *)
(*      --ECCDecoder(enable)-->  <<o, sec, ded>>                           *)
(* Words are never integers here (code words reach 137 bits, TLC has 32):  *)
(* a word is the strictly increasing sequence of the positions of its 1    *)
(* bits.  The harness only moves bits (it XORs the flip mask onto the      *)
(* encoder's output to drive the decoder); what the decoder must answer    *)
(* is written below and nowhere else.                                      *)
(*                                                                         *)
(* T = sequence of groups (one JSON file per TLC run):                     *)
(*   [k, w, data, en, mode, cw, runs]   runs[i] = <<f, o, sec, ded>>       *)
(*     k data width, w code word width (read off the netlist), data and cw *)
(*     (the encoder's output) as position sequences, en = decoder enable,  *)
(*     mode: "all012" every flip set of size <= 2 over the w positions,    *)
(*           "all01"  every flip set of size <= 1,  "none" only f = <<>>,  *)
(*           "sample" some flip sets of size <= 2                          *)
(*   [k, mode |-> "lin", a, b, c, ea, eb, ec, e0]  encoder outputs for     *)
(*     data a, b, c = a xor b and 0                                        *)
(*   [k, mode |-> "summary", cls]     asks for the coverage verdict of k   *)
(*                                                                         *)
(* State (tid, l): l = 1 judges the group as a whole, l = i + 1 judges     *)
(* runs[i]; there are no steps.  All clauses are invariants; one TLC run   *)
(* judges ~10^5 cases.                                                     *)
(*                                                                         *)
(* Why sampled data words suffice for large k (classes "big"): the         *)
(* netlists are XOR networks, i.e. the encoder is affine over GF(2) and    *)
(* the decoder's flags and the position it flips depend on the received    *)
(* word only through a linear syndrome and a linear overall parity.  Then  *)
(*   (1) every flip set of size <= 2 on the code word of data 0 is judged  *)
(*       directly (mode all012),                                           *)
(*   (2) every unit vector e_i round-trips without flags, so the code word *)
(*       of e_i has zero syndrome and zero parity and extracts to e_i,     *)
(*   (3) the encoder is affine (clause EncoderAffine on recorded pairs),   *)
(* give for ANY data d and flip set F: syndrome, parity, hence flags and   *)
(* flipped position are those of (0, F), and the output is d xor (the      *)
(* output error of (0, F)), which (1) shows to be 0 for |F| <= 1.  The     *)
(* structural assumption itself is probed by random data words x random    *)
(* flip sets that are judged directly (mode sample).                       *)
(***************************************************************************)
EXTENDS Integers, Sequences, FiniteSets, TLC, Json, IOUtils

T == JsonDeserialize(IOEnv.TRACES)

(* which widths a tier has to cover and how (printed as the plan, verified by Coverage) *)
SmallKs == 1..6                     \* every data word x every flip set of size <= 2
MidKs(tier) == 7..32                \* >= 5 data words (0, all ones, alternating, random) x every flip set
BigKs(tier) == IF tier = "thorough" THEN 33..128 ELSE {33, 40, 57, 58, 64, 72, 100, 120, 121, 128}
ClassOf(k, tier) == IF k \in SmallKs THEN "small" ELSE IF k \in MidKs(tier) THEN "mid"
                    ELSE IF k \in BigKs(tier) THEN "big" ELSE "none"
Plan(tier) == {<<k, ClassOf(k, tier)>> : k \in SmallKs \cup MidKs(tier) \cup BigKs(tier)}

(* the overall parity bit is bit 0 of the code word (ECCEncoder.o = Cat(parity, codeword)); *)
(* every other position carries a data or a check bit                                        *)
ParityPos == 0

ToSet(s) == {s[i] : i \in 1..Len(s)}
SymDiff(a, b) == (a \ b) \cup (b \ a)
IsWord(s, n) == /\ \A i \in 1..Len(s) : s[i] \in 0..(n - 1)
                /\ \A i \in 1..(Len(s) - 1) : s[i] < s[i + 1]

VARIABLES tid, l
vars == <<tid, l>>

Gp == T[tid]
HasRuns(g) == g.mode \in {"all012", "all01", "none", "sample"}
NRuns(g) == IF HasRuns(g) THEN Len(g.runs) ELSE 0

(* every (group, case) pair is an initial state of its own: a counterexample is one state *)
Init == tid \in 1..Len(T) /\ l \in 1..(NRuns(T[tid]) + 1)
Next == FALSE /\ UNCHANGED vars

Run == Gp.runs[l - 1]
Judged == HasRuns(Gp) /\ l >= 2
F == Run[1]
O == Run[2]
Sec == Run[3]
Ded == Run[4]

---------------------------------------------------------------------------
(* harness obligations: the recorded file is what it claims to be *)
GroupLegal(g) ==
  CASE HasRuns(g) ->
         /\ g.k >= 1 /\ g.w > g.k /\ g.en \in {0, 1}
         /\ IsWord(g.data, g.k) /\ IsWord(g.cw, g.w)
         /\ \A i \in 1..Len(g.runs) :
              /\ IsWord(g.runs[i][1], g.w) /\ Len(g.runs[i][1]) <= 2
              /\ IsWord(g.runs[i][2], g.k)
              /\ g.runs[i][3] \in {0, 1} /\ g.runs[i][4] \in {0, 1}
         /\ Cardinality({g.runs[i][1] : i \in 1..Len(g.runs)}) = Len(g.runs)     \* flip sets distinct
         /\ CASE g.mode = "all012" -> Len(g.runs) = 1 + g.w + (g.w * (g.w - 1)) \div 2
              [] g.mode = "all01"  -> /\ Len(g.runs) = 1 + g.w
                                      /\ \A i \in 1..Len(g.runs) : Len(g.runs[i][1]) <= 1
              [] g.mode = "none"   -> Len(g.runs) = 1 /\ g.runs[1][1] = <<>>
              [] OTHER             -> Len(g.runs) >= 1
    [] g.mode = "lin" ->
         /\ IsWord(g.a, g.k) /\ IsWord(g.b, g.k) /\ IsWord(g.c, g.k)
         /\ ToSet(g.c) = SymDiff(ToSet(g.a), ToSet(g.b))
    [] g.mode = "summary" -> g.cls \in {"small", "mid", "big"}
    [] OTHER -> FALSE
EnvLegal == l = 1 => GroupLegal(Gp)

---------------------------------------------------------------------------
(* the property, case by case *)

(* no bit flipped: the data comes back, no flag *)
NoErrorClean ==
  Judged /\ Gp.en = 1 /\ Len(F) = 0 => O = Gp.data /\ Sec = 0 /\ Ded = 0

(* one bit flipped (parity bit included): the original data comes back, never "uncorrectable" *)
SingleCorrected ==
  Judged /\ Gp.en = 1 /\ Len(F) = 1 => O = Gp.data /\ Ded = 0

(* ... and a corrected error is signalled exactly when a data or check bit was flipped *)
SingleFlagged ==
  Judged /\ Gp.en = 1 /\ Len(F) = 1 => (Sec = 1 <=> F[1] # ParityPos)

(* two bits flipped: uncorrectable error signalled, never silent, never "corrected" *)
DoubleDetected ==
  Judged /\ Gp.en = 1 /\ Len(F) = 2 => Ded = 1 /\ Sec = 0

(* checking disabled: the data bits pass through unchanged - no flags, the data itself for an   *)
(* unmodified code word, and nothing is "corrected": at most the flipped bits differ            *)
DisabledPassThrough ==
  Judged /\ Gp.en = 0 =>
    /\ Sec = 0 /\ Ded = 0
    /\ (Len(F) = 0 => O = Gp.data)
    /\ Cardinality(SymDiff(ToSet(O), ToSet(Gp.data))) <= Len(F)

(* the encoder is affine over GF(2):  E(a xor b) = E(a) xor E(b) xor E(0) *)
EncoderAffine ==
  l = 1 /\ Gp.mode = "lin" =>
    ToSet(Gp.ec) = SymDiff(SymDiff(ToSet(Gp.ea), ToSet(Gp.eb)), ToSet(Gp.e0))

---------------------------------------------------------------------------
(* what has to be in the file for a width of each class (so that nothing passes vacuously) *)
GroupsOf(k) == {i \in 1..Len(T) : T[i].k = k /\ HasRuns(T[i])}
Has(k, data, en, modes) == \E i \in GroupsOf(k) : ToSet(T[i].data) = data /\ T[i].en = en /\ T[i].mode \in modes
Evens(k) == {i \in 0..(k - 1) : i % 2 = 0}
FullWords(k, en) == {ToSet(T[i].data) : i \in {j \in GroupsOf(k) : T[j].en = en /\ T[j].mode = "all012"}}
SampleWords(k) == {ToSet(T[i].data) : i \in {j \in GroupsOf(k) : T[j].en = 1 /\ T[j].mode = "sample" /\ Len(T[j].runs) >= 40}}
LinCount(k) == Cardinality({i \in 1..Len(T) : T[i].k = k /\ T[i].mode = "lin" /\ T[i].a # T[i].b /\ T[i].a # <<>> /\ T[i].b # <<>>})

Covered(k, cls) ==
  CASE cls = "small" ->
         \A data \in SUBSET (0..(k - 1)) : Has(k, data, 1, {"all012"}) /\ Has(k, data, 0, {"all012"})
    [] cls = "mid" ->
         /\ {{}, 0..(k - 1), Evens(k)} \subseteq FullWords(k, 1)
         /\ Cardinality(FullWords(k, 1)) >= 5
         /\ {{}, 0..(k - 1)} \subseteq FullWords(k, 0)
         /\ \A i \in 0..(k - 1) : Has(k, {i}, 1, {"none", "all01", "all012"})
    [] cls = "big" ->
         /\ Has(k, {}, 1, {"all012"})
         /\ Has(k, {}, 0, {"all01", "all012"})
         /\ \A i \in 0..(k - 1) : Has(k, {i}, 1, {"none", "all01", "all012"})
         /\ Cardinality(SampleWords(k) \ {{}}) >= 3
         /\ LinCount(k) >= 8
    [] OTHER -> FALSE
Coverage == l = 1 /\ Gp.mode = "summary" => Covered(Gp.k, Gp.cls)

---------------------------------------------------------------------------
(* plan run (no TRACES needed): prints which widths the tier has to cover *)
PlanInit == /\ tid = 0 /\ l = 0
            /\ \A p \in Plan(IOEnv.SECDED_TIER) : PrintT(<<"PLAN", p[1], p[2]>>)
PlanNext == FALSE /\ UNCHANGED vars
=============================================================================
