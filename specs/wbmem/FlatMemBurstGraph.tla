-------------------------- MODULE FlatMemBurstGraph --------------------------
(* G-mode product: B4 burst master (Env) x flat-memory monitor x graph of the real netlist. *)
EXTENDS FlatMemBurst, Json, IOUtils, GraphLookup
G == JsonDeserialize(IOEnv.GRAPH)
NDuts == Len(G.duts)
VARIABLES d, s,
          ph   \* toggles on a step that changes nothing else: a hung implementation (fixpoint of the product)
               \* must be an infinite NON-stuttering behaviour, or WF_vars(Next) would let TLC walk away from it
vars == <<d, s, mem, cur, sl, obs, ph>>
C == G.duts[d].cfg
Init == /\ d \in 1..NDuts /\ s = 0 /\ ph = 0 /\ cur = IdleCur /\ sl = <<>> /\ mem = MemInit(C) /\ obs = ObsInit
Step(iv) ==
  /\ s >= 0
  /\ LET e == GLookup(G.duts[d].succ[s + 1], iv) IN
       IF e # <<>>
       THEN /\ s' = e[3] /\ d' = d
            /\ CStep(C, iv, e[2])
            /\ ph' = IF e[3] = s /\ cvars' = cvars THEN 1 - ph ELSE 0
       ELSE /\ PrintT(<<"NEED", d, s, iv>>)
            /\ s' = -1 /\ d' = d /\ ph' = 0 /\ UNCHANGED cvars
Next == \E iv \in Inputs(C) : Step(iv)
Spec == Init /\ [][Next]_vars /\ WF_vars(Next)
Alias == [d |-> d, s |-> s, obs |-> obs, mem |-> mem, cur |-> cur, sl |-> sl,
          iv |-> CHOOSE iv \in Inputs(C) : Step(iv)]
(* every presented beat is eventually acknowledged (neither the memory nor the adapter hangs) *)
Served == []<>(~obs.pending)
=============================================================================
