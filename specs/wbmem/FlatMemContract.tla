--------------------------- MODULE FlatMemContract ---------------------------
(***************************************************************************)
(* L1 contract "a master sees a flat byte-addressable memory", property    *)
(* C07 (Wishbone data-width converters, write-back cache, remapper, CSR    *)
(* bridge, SRAM) - also reused for the bus bridges of C09.                 *)
(*                                                                         *)
(* One step = one clock cycle on the master side.                          *)
(*   iv = <<req, adr, we, sel, data>>  req: 0 idle, 1 cyc & stb            *)
(*        sel, data: bit masks over the L byte lanes of the master bus;    *)
(*        a byte carries one of two values (0/1), enough to expose lost,   *)
(*        displaced and stale bytes                                        *)
(*   o  = <<ack, err, lane_0, ..., lane_(L-1)>>  (read data, whole bytes)  *)
(* c: lanes (L), words (master-visible words), init (byte values, master   *)
(*    view, index adr*L+lane+1), readonly, nosel0 (1: sel = 0 not explored)*)
(***************************************************************************)
EXTENDS Integers, Sequences, FiniteSets, TLC

VARIABLES mem,    \* master view of the memory: byte index (from 1) -> value
          open,   \* request held by the master (<<adr, we, sel, data>>) or <<>>
          obs

cvars == <<mem, open, obs>>

Bit(x, i) == (x \div (2^i)) % 2

Inputs(c) ==
  IF open # <<>>
  THEN { <<1, open[1], open[2], open[3], open[4]>> }          \* a request is held until acknowledged
  ELSE { <<0, 0, 0, 0, 0>> } \cup
       { <<1, a, 0, sl, 0>> : a \in 0..(c.words - 1), sl \in (IF c.nosel0 = 1 THEN 1..(2^c.lanes - 1) ELSE 0..(2^c.lanes - 1)) } \cup
       { <<1, a, 1, sl, x>> : a \in 0..(c.words - 1), sl \in (IF c.nosel0 = 1 THEN 1..(2^c.lanes - 1) ELSE 0..(2^c.lanes - 1)),
                              x \in 0..(2^c.lanes - 1) }

CInit ==
  /\ mem = [b \in 1..8 |-> 0]     \* overwritten by MemInit in the drivers' Init
  /\ open = <<>>
  /\ obs = [okread |-> TRUE, okack |-> TRUE, okerr |-> TRUE, pending |-> FALSE]

MemInit(c) == [b \in 1..(c.words * c.lanes) |-> c.init[b]]

CStep(c, iv, o) ==
  LET req  == iv[1] = 1
      adr  == iv[2]
      we   == iv[3]
      sel  == iv[4]
      dat  == iv[5]
      ack  == o[1] = 1
      B(l) == adr * c.lanes + l + 1              \* byte index of lane l (from 0) of the addressed word
      okread == (ack /\ req /\ we = 0) =>
                  \A l \in 0..(c.lanes - 1) : Bit(sel, l) = 1 => o[3 + l] = mem[B(l)]
  IN
  /\ mem' = IF ack /\ req /\ we = 1 /\ c.readonly = 0
            THEN [b \in DOMAIN mem |->
                    IF \E l \in 0..(c.lanes - 1) : b = B(l) /\ Bit(sel, l) = 1
                    THEN Bit(dat, b - adr * c.lanes - 1) ELSE mem[b]]
            ELSE mem
  /\ open' = IF req /\ ~ack THEN <<adr, we, sel, dat>> ELSE <<>>
  /\ obs' = [okread |-> okread,
             okack |-> (ack => req),            \* an acknowledge only for a pending request: exactly one per cycle
             okerr |-> (o[2] = 0),
             pending |-> (req /\ ~ack)]

ReadReturnsLastWrite == obs.okread    \* per byte: last enabled write or initial content
OneAckPerCycle       == obs.okack
NoBusError           == obs.okerr
=============================================================================
