--------------------------- MODULE FlatMemContract ---------------------------
(***************************************************************************)
(* L1 contract "a master sees a flat byte-addressable memory", property    *)
(* C07 (Wishbone data-width converters, write-back cache, remapper, CSR    *)
(* bridge, SRAM), classic cycles.                                          *)
(*                                                                         *)
(* One step = one clock cycle on the master side.                          *)
(*   iv = <<req, adr, we, sel, data>>                                      *)
(*        req: 0 idle (all lines 0), 1 cyc & stb (a request),              *)
(*             2 cyc & ~stb, 3 ~cyc & stb: NO request, but the other lines *)
(*             carry a write-shaped pattern (only with c.junk = 1).  Code 3 *)
(*             is what every slave behind wishbone.Decoder /               *)
(*             InterconnectShared sees while ANOTHER slave is addressed    *)
(*             (stb, adr, we, sel, dat_w are shared, only cyc is gated);   *)
(*             code 2 is a master that keeps cyc between the transfers of  *)
(*             a block / read-modify-write cycle.  B4 rule 3.25/3.35: a    *)
(*             slave responds to cyc AND stb only.                         *)
(*        adr: word index (the harness shifts it for byte-addressed buses) *)
(*        sel, data: bit masks over the L byte lanes of the master bus;    *)
(*        a byte carries one of two values (0/1), enough to expose lost,   *)
(*        displaced and stale bytes                                        *)
(*   o  = <<ack, err, lane_0, ..., lane_(L-1)>>  (read data, whole bytes)  *)
(*        followed, with c.sside = 1, by the slave side of the adapter:    *)
(*        <<s_cyc & s_stb, s_ack, s_we, s_adr>>                            *)
(* c: lanes (L), words (master-visible words), init (byte values, master   *)
(*    view, index adr*L+lane+1), readonly, nosel0 (1: sel = 0 not explored)*)
(*    optional: junk (0/1), adrs (word addresses the master uses, <<>> =   *)
(*    all), sels (sel masks the master uses, <<>> = all), sside (0/1),     *)
(*    smap (documented slave word address of master word a at index a+1,   *)
(*    <<>> = not judged), wi (witness slot)                                *)
(***************************************************************************)
EXTENDS Integers, Sequences, FiniteSets, TLC

VARIABLES mem,    \* master view of the memory: byte index (from 1) -> value
          open,   \* request held by the master (<<adr, we, sel, data>>) or <<>>
          obs

cvars == <<mem, open, obs>>

Bit(x, i) == (x \div (2^i)) % 2
SeqSet(q) == {q[i] : i \in 1..Len(q)}
Opt(c, f, d) == IF f \in DOMAIN c THEN c[f] ELSE d
All(c) == 2^c.lanes - 1

(* ---- witnesses against vacuity: printed once per TLC worker, collected by the harness ---- *)
ASSUME \A i \in 1..500 : TLCSet(i, 0)
Wit(c, k, name) ==
  LET i == 10 + 8 * (Opt(c, "wi", 0) % 60) + k IN
  IF TLCGet(i) = 0 THEN TLCSet(i, 1) /\ PrintT(<<"WIT", Opt(c, "wi", 0), name>>) ELSE TRUE
WitIf(p, c, k, name) == IF p THEN Wit(c, k, name) ELSE TRUE

Adrs(c) == IF Opt(c, "adrs", <<>>) = <<>> THEN 0..(c.words - 1) ELSE SeqSet(c.adrs)
Sels(c) == IF Opt(c, "sels", <<>>) # <<>> THEN SeqSet(c.sels)
           ELSE IF c.nosel0 = 1 THEN 1..All(c) ELSE 0..All(c)
(* lines of a bus that is not requesting anything from this slave: a full-width write of ones to any word *)
Junk(c) == IF Opt(c, "junk", 0) = 0 THEN {}
           ELSE { <<q, a, 1, All(c), All(c)>> : q \in {2, 3}, a \in 0..(c.words - 1) }

Inputs(c) ==
  IF open # <<>>
  THEN { <<1, open[1], open[2], open[3], open[4]>> }          \* a request is held until acknowledged
  ELSE { <<0, 0, 0, 0, 0>> } \cup Junk(c) \cup
       { <<1, a, 0, sl, 0>> : a \in Adrs(c), sl \in Sels(c) } \cup
       { <<1, a, 1, sl, x>> : a \in Adrs(c), sl \in Sels(c), x \in 0..All(c) }

ObsInit == [okread |-> TRUE, okack |-> TRUE, okerr |-> TRUE, okmap |-> TRUE, pending |-> FALSE]

CInit ==
  /\ mem = [b \in 1..8 |-> 0]     \* overwritten by MemInit in the drivers' Init
  /\ open = <<>>
  /\ obs = ObsInit

MemInit(c) == [b \in 1..(c.words * c.lanes) |-> c.init[b]]

CStep(c, iv, o) ==
  LET req  == iv[1] = 1
      adr  == iv[2]
      we   == iv[3]
      sel  == iv[4]
      dat  == iv[5]
      ack  == o[1] = 1
      B(l) == adr * c.lanes + l + 1              \* byte index of lane l (from 0) of the addressed word
      okread == (ack /\ req /\ we = 0) =>
                  \A l \in 0..(c.lanes - 1) : Bit(sel, l) = 1 => o[3 + l] = mem[B(l)]
      \* ---- slave side of the adapter (only looked at when c.sside = 1) ----
      ss   == Opt(c, "sside", 0) = 1
      x0   == 2 + c.lanes
      sreq == ss /\ o[x0 + 1] = 1
      sack == ss /\ o[x0 + 2] = 1
      swe  == IF ss THEN o[x0 + 3] ELSE 0
      sadr == IF ss THEN o[x0 + 4] ELSE 0
      smap == Opt(c, "smap", <<>>)
  IN
  /\ mem' = IF ack /\ req /\ we = 1 /\ c.readonly = 0
            THEN [b \in DOMAIN mem |->
                    IF \E l \in 0..(c.lanes - 1) : b = B(l) /\ Bit(sel, l) = 1
                    THEN Bit(dat, b - adr * c.lanes - 1) ELSE mem[b]]
            ELSE mem
  /\ open' = IF req /\ ~ack THEN <<adr, we, sel, dat>> ELSE <<>>
  /\ obs' = [okread |-> okread,
             okack |-> (ack => req),            \* an acknowledge only for a pending request: exactly one per cycle
             okerr |-> (o[2] = 0),
             okmap |-> ((smap # <<>> /\ req /\ sreq) => sadr = smap[adr + 1]),
             pending |-> (req /\ ~ack)]
  /\ WitIf(iv[1] = 2, c, 1, "write-shaped lines with cyc high and stb low")
  /\ WitIf(iv[1] = 3, c, 2, "write-shaped lines with cyc low and stb high")
  /\ WitIf(sreq /\ sack /\ swe = 1, c, 3, "slave-side write acknowledged")
  /\ WitIf(sreq /\ sack /\ swe = 0, c, 4, "slave-side read acknowledged")
  /\ WitIf(smap # <<>> /\ req /\ sreq /\ sadr # adr, c, 5, "slave-side address differs from the master's")

ReadReturnsLastWrite == obs.okread    \* per byte: last enabled write or initial content
OneAckPerCycle       == obs.okack
NoBusError           == obs.okerr
SlaveAddressMapped   == obs.okmap     \* remapper: the word the slave is asked for is the documented image of the master's
=============================================================================
