---------------------------- MODULE FlatMemBurst ----------------------------
(***************************************************************************)
(* L1 contract "a master sees a flat byte-addressable memory" for Wishbone *)
(* B4 REGISTERED FEEDBACK BURST CYCLES (property C07, second part; classic *)
(* cycles alone are judged by FlatMemContract).                            *)
(*                                                                         *)
(* One step = one clock cycle on the master side.                          *)
(*   iv = <<req, adr, we, sel, data, cti, bte>>                            *)
(*        req: 0 idle, 1 cyc & stb, 2 cyc & ~stb (master wait state, only   *)
(*        with c.mwait > 0), 3 ~cyc & stb (only with c.junk = 1: another    *)
(*        slave of a shared bus is addressed - wishbone.Decoder gates cyc   *)
(*        only, stb/adr/we/sel/dat_w/cti/bte reach every slave);            *)
(*        sel, data: bit masks over the L byte                              *)
(*        lanes (a byte carries one of two values);  cti/bte as on the bus  *)
(*   o  = <<ack, err, lane_0 .. lane_(L-1)>>                                *)
(*        followed, for adapters whose slave side is observed (c.sside=1),  *)
(*        by <<s_cyc&stb, s_cyc, s_adr, s_we, s_cti, s_bte, s_ack>>         *)
(*                                                                         *)
(* READING OF WISHBONE B4 (chapter 4, registered feedback bus cycles) that  *)
(* this module fixes, and the places that pin it down:                      *)
(*  R1 A burst is a sequence of beats inside ONE cycle: the master keeps    *)
(*     cyc asserted from the first beat to the acknowledge of the last one. *)
(*     With c.mwait = 0 the Env master also keeps stb asserted; with        *)
(*     c.mwait = n > 0 it may insert up to n consecutive wait states (cyc   *)
(*     high, stb low) before any later beat of a burst, and open a cycle    *)
(*     with cyc one or more clocks ahead of the first stb (B4 3.1.3: STB_O  *)
(*     may be negated by the master between transfers of a cycle).  During  *)
(*     a wait state sel and dat_w are 0 and adr/we/cti/bte either show the  *)
(*     coming beat or are all 0 (both variants are explored).  A presented  *)
(*     beat is held unchanged (adr, we, sel, dat_w, cti, bte) until it is   *)
(*     acknowledged.  With c.junk = 1 the lines of a cycle without a        *)
(*     request are not kept quiet: wait states and cyc-ahead-of-stb cycles   *)
(*     also carry a full-width write of ones to any word (classic tags or    *)
(*     the tags of an incrementing burst), and between cycles the same       *)
(*     patterns appear with stb but without cyc.  A slave acts on cyc AND    *)
(*     stb only (B4 rule 3.25 / 3.35).                                       *)
(*  R2 cti: 000 classic cycle; 001 constant address burst; 010 incrementing *)
(*     burst; 111 end of burst = the LAST beat of every burst.  A single    *)
(*     access may carry 111 (B4 permits it; such a transfer behaves like a  *)
(*     classic cycle).  Every beat but the last carries the burst's own     *)
(*     tag (001 or 010), the last one 111.                                  *)
(*  R3 bte (meaningful with cti 010 and the closing 111): 00 linear, 01/10/ *)
(*     11 wrap-4/8/16.  bte and we are the same on every beat of a burst.   *)
(*  R4 The master presents ON EVERY BEAT the address of THAT beat (B4,       *)
(*     incrementing burst cycle: "each transfer the address is              *)
(*     incremented"; the timing diagram of the incrementing burst shows     *)
(*     ADR_O = n, n+4, n+8 ..).  This is also how the repository's own test *)
(*     drives bursts (test/test_wishbone.py, test_sram_burst_wrap: adr =    *)
(*     1, 2, 3, 0 with cti = 2, 2, 2, 7 and bte = 01, cyc/stb never         *)
(*     released between the beats) and what wishbone.SRAM relies on for the *)
(*     first beat and for the closing 111 beat (it then uses bus.adr).      *)
(*     A slave may but need not use the presented address of middle beats.  *)
(*  R5 Address of beat k (k = 0, 1, ..) of an incrementing burst that       *)
(*     started at word address a0, in units of bus words (B4, table of the  *)
(*     burst type extensions: "wrapped increments: the address LSBs are     *)
(*     modulo the wrap size"; its example row for wrap-4 starting at LSBs   *)
(*     001 is 1-2-3-0-5-6-7-4):                                             *)
(*        linear  : a0 + k                                                  *)
(*        wrap-n  : (a0 - a0 % n) + (k \div n) * n + ((a0 % n + k) % n)      *)
(*     modulo the size of the master's address space (adr has aw bits).     *)
(*     Constant address burst: a0 on every beat.                            *)
(*  R6 Every beat is terminated by exactly one ack.  The slave may need     *)
(*     wait states on any beat (a classic slave that ignores cti answers    *)
(*     each beat like a classic cycle; B4 makes the two kinds of interface  *)
(*     interoperable).                                                      *)
(*                                                                         *)
(* c: lanes, words (size of the master's address space = master-visible     *)
(*    words, a power of two), init (bytes, master view), readonly,          *)
(*    sels / rsels (byte-select masks used by write / read beats),          *)
(*    wes (directions), classic, end1, const (0/1: classic cycles, single   *)
(*    111 accesses, constant bursts are part of the environment), btes      *)
(*    (bte codes of the incrementing bursts), maxlen (beats per burst),     *)
(*    sside (0/1), swords (slave-side address space), wi (witness slot).    *)
(***************************************************************************)
EXTENDS Integers, Sequences, FiniteSets, TLC

VARIABLES mem,    \* master view of the memory: byte index (from 1) -> value
          cur,    \* what the master is in the middle of (see IdleCur)
          sl,     \* slave side: burst the adapter is in the middle of, <<a0, k, we, bte>> or <<>>
          obs

cvars == <<mem, cur, sl, obs>>

Bit(x, i) == (x \div (2^i)) % 2
SeqSet(q) == {q[i] : i \in 1..Len(q)}

(* ---- witnesses against vacuity: printed once per TLC worker, collected by the harness ---- *)
ASSUME \A i \in 1..500 : TLCSet(i, 0)
Wit(c, k, name) ==
  LET i == 10 + 16 * (c.wi % 30) + k IN
  IF TLCGet(i) = 0 THEN TLCSet(i, 1) /\ PrintT(<<"WIT", c.wi, name>>) ELSE TRUE
WitIf(p, c, k, name) == IF p THEN Wit(c, k, name) ELSE TRUE

(* ---- R5: the address sequence of a burst ---- *)
WrapLen(bte) == CASE bte = 1 -> 4 [] bte = 2 -> 8 [] bte = 3 -> 16 [] OTHER -> 1
BeatAdr(W, kind, bte, a0, k) ==
  IF kind # 2 THEN a0                              \* classic, single 111, constant address burst
  ELSE IF bte = 0 THEN (a0 + k) % W
  ELSE LET n   == WrapLen(bte)
           off == a0 % n
       IN ((a0 - off) + (k \div n) * n + ((off + k) % n)) % W

(* ---- the environment: a B4 registered feedback master ---- *)
(* st 0: between cycles;  1: a beat is presented and not yet acknowledged (held as iv);   *)
(*    2: the previous beat of a burst was acknowledged, beat k is presented now            *)
IdleCur == [st |-> 0, a0 |-> 0, k |-> 0, kind |-> 0, bte |-> 0, we |-> 0, iv |-> <<>>, wt |-> 0]
MWait(c) == IF "mwait" \in DOMAIN c THEN c.mwait ELSE 0

WData(c, we, sel) ==     \* bytes that are not selected carry 0 (don't-care made canonical)
  IF we = 0 THEN {0}
  ELSE {x \in 0..(2^c.lanes - 1) : \A l \in 0..(c.lanes - 1) : Bit(sel, l) = 0 => Bit(x, l) = 0}
SelsOf(c, we) == IF we = 0 THEN SeqSet(c.rsels) ELSE SeqSet(c.sels)
Tags(c) ==               \* <<cti, bte>> of the first beat of a cycle
  (IF c.classic = 1 THEN {<<0, 0>>} ELSE {}) \cup
  (IF c.end1 = 1 THEN {<<7, 0>>} ELSE {}) \cup
  (IF c.const = 1 /\ c.maxlen >= 2 THEN {<<1, 0>>} ELSE {}) \cup
  (IF c.maxlen >= 2 THEN {<<2, b>> : b \in SeqSet(c.btes)} ELSE {})
StartsW(c, w) ==
  UNION { { <<1, a, w, sel, x, t[1], t[2]>> : a \in 0..(c.words - 1), t \in Tags(c), x \in WData(c, w, sel) }
          : sel \in SelsOf(c, w) }
Starts(c) == UNION { StartsW(c, w) : w \in SeqSet(c.wes) }
NextBeats(c) ==
  LET a    == BeatAdr(c.words, cur.kind, cur.bte, cur.a0, cur.k)               \* R4, R5
      ctis == IF cur.k < c.maxlen - 1 THEN {cur.kind, 7} ELSE {7}               \* R2
  IN UNION { { <<1, a, cur.we, sel, x, t, cur.bte>> : t \in ctis, x \in WData(c, cur.we, sel) }
             : sel \in SelsOf(c, cur.we) }                                      \* R3
WaitBeats(c) ==          \* master wait state before beat cur.k (k >= 1) of the burst
  IF cur.wt >= MWait(c) THEN {}
  ELSE { <<2, BeatAdr(c.words, cur.kind, cur.bte, cur.a0, cur.k), cur.we, 0, 0, cur.kind, cur.bte>>,
         <<2, 0, 0, 0, 0, 0, 0>> }
PreWaits(c) ==           \* cyc ahead of the first stb, the tags of an incrementing burst already on the bus
  IF MWait(c) = 0 THEN {} ELSE { <<2, 0, 0, 0, 0, 2, b>> : b \in SeqSet(c.btes) }
JunkOn(c) == IF "junk" \in DOMAIN c THEN c.junk ELSE 0
AllSel(c) == 2^c.lanes - 1
JunkTags(c) == {<<0, 0>>} \cup { <<2, b>> : b \in SeqSet(c.btes) }
JunkWaits(c) ==          \* wait state whose lines carry a classic full-width write of ones to any word
  IF JunkOn(c) = 0 \/ cur.wt >= MWait(c) THEN {}
  ELSE { <<2, a, 1, AllSel(c), AllSel(c), 0, 0>> : a \in 0..(c.words - 1) }
JunkIdle(c) ==           \* no request: cyc ahead of stb / another slave addressed, write-shaped lines, classic or burst tags
  IF JunkOn(c) = 0 THEN {}
  ELSE { <<q, a, 1, AllSel(c), AllSel(c), t[1], t[2]>> : q \in (IF MWait(c) = 0 THEN {3} ELSE {2, 3}),
                                                         a \in 0..(c.words - 1), t \in JunkTags(c) }
Inputs(c) ==
  CASE cur.st = 1 -> {cur.iv}                                                   \* R1: held until acknowledged
    [] cur.st = 2 -> NextBeats(c) \cup WaitBeats(c) \cup JunkWaits(c)           \* R1: no gap / bounded wait states
    [] OTHER      -> {<<0, 0, 0, 0, 0, 0, 0>>} \cup Starts(c) \cup PreWaits(c) \cup JunkIdle(c)  \* any gap between cycles

ObsInit == [okread |-> TRUE, okseq |-> TRUE, okack |-> TRUE, okerr |-> TRUE, oksl |-> TRUE,
            pending |-> FALSE, endb |-> FALSE]
MemInit(c) == [b \in 1..(c.words * c.lanes) |-> c.init[b]]

CStep(c, iv, o) ==
  LET req  == iv[1] = 1
      we   == iv[3]
      sel  == iv[4]
      dat  == iv[5]
      cti  == iv[6]
      ack  == o[1] = 1
      \* the burst this beat belongs to
      m    == IF cur.st = 0
              THEN [a0 |-> iv[2], k |-> 0, kind |-> cti, bte |-> iv[7], we |-> we]
              ELSE [a0 |-> cur.a0, k |-> cur.k, kind |-> cur.kind, bte |-> cur.bte, we |-> cur.we]
      E    == BeatAdr(c.words, m.kind, m.bte, m.a0, m.k)     \* the word this beat accesses (R5)
      B(l) == E * c.lanes + l + 1
      rdok == \A l \in 0..(c.lanes - 1) : Bit(sel, l) = 1 => o[3 + l] = mem[B(l)]
      later == m.kind = 2 /\ m.k >= 1
      done == req /\ ack
      last == cti \in {0, 7}
      \* ---- slave side of an adapter (only looked at when c.sside = 1) ----
      x0   == 2 + c.lanes
      sreq == o[x0 + 1] = 1
      scyc == o[x0 + 2] = 1
      sadr == o[x0 + 3]
      swe  == o[x0 + 4]
      scti == o[x0 + 5]
      sbte == o[x0 + 6]
      sack == o[x0 + 7] = 1
      oksl == IF c.sside = 0 \/ sl = <<>> THEN TRUE
              ELSE IF ~scyc THEN FALSE                      \* a burst is closed by a 111 beat, not by dropping cyc
              ELSE IF ~sreq THEN TRUE                       \* master wait state (legal, not used by the Env master)
              ELSE /\ sadr = BeatAdr(c.swords, 2, sl[4], sl[1], sl[2])
                   /\ swe = sl[3] /\ sbte = sl[4] /\ scti \in {2, 7}
      sl2  == IF c.sside = 0 THEN <<>>
              ELSE IF sreq /\ sack
                   THEN (IF scti = 2
                         THEN (IF sl = <<>> THEN <<sadr, 1, swe, sbte>> ELSE <<sl[1], sl[2] + 1, sl[3], sl[4]>>)
                         ELSE <<>>)
              ELSE IF sl # <<>> /\ ~scyc THEN <<>>
              ELSE sl
  IN
  /\ mem' = IF done /\ we = 1 /\ c.readonly = 0
            THEN [b \in DOMAIN mem |->
                    IF \E l \in 0..(c.lanes - 1) : b = B(l) /\ Bit(sel, l) = 1
                    THEN Bit(dat, b - E * c.lanes - 1) ELSE mem[b]]
            ELSE mem
  /\ cur' = IF iv[1] = 2 THEN (IF cur.st = 2 THEN [cur EXCEPT !.wt = @ + 1] ELSE IdleCur)
            ELSE IF ~req THEN IdleCur
            ELSE IF ~ack THEN [st |-> 1, a0 |-> m.a0, k |-> m.k, kind |-> m.kind, bte |-> m.bte, we |-> m.we, iv |-> iv, wt |-> cur.wt]
            ELSE IF last THEN IdleCur
            ELSE [st |-> 2, a0 |-> m.a0, k |-> m.k + 1, kind |-> m.kind, bte |-> m.bte, we |-> m.we, iv |-> <<>>, wt |-> 0]
  /\ sl' = sl2
  /\ obs' = [okread  |-> ((done /\ we = 0 /\ ~later) => rdok),
             okseq   |-> ((done /\ we = 0 /\ later) => rdok),
             okack   |-> (ack => (req \/ iv[1] = 2)),   \* a registered-feedback slave may still show the ack it predicted
                                                     \* for the next beat while the master waits (ack is qualified by stb)
             okerr   |-> (o[2] = 0),
             oksl    |-> oksl,
             pending |-> (req /\ ~ack),
             endb    |-> (done /\ cti = 7 /\ m.k >= 1)]
  /\ WitIf(done /\ m.kind = 2 /\ m.k >= 2 /\ we = 0, c, 1, "incrementing read burst, third or later beat")
  /\ WitIf(done /\ m.kind = 2 /\ m.k >= 1 /\ we = 1, c, 2, "incrementing write burst, second or later beat")
  /\ WitIf(done /\ m.kind = 2 /\ m.bte # 0 /\ E # (m.a0 + m.k) % c.words, c, 3, "wrapped beat (address differs from the linear one)")
  /\ WitIf(done /\ m.kind = 2 /\ m.bte = 0 /\ m.a0 + m.k >= c.words, c, 4, "linear burst across the top of the address space")
  /\ WitIf(done /\ m.kind = 1 /\ m.k >= 1, c, 5, "constant address burst, second or later beat")
  /\ WitIf(req /\ cur.st = 0 /\ obs.endb /\ cti \in {1, 2}, c, 6, "burst starts right after the last beat of a burst")
  /\ WitIf(req /\ cur.st = 0 /\ obs.endb /\ cti = 0, c, 7, "classic cycle starts right after the last beat of a burst")
  /\ WitIf(done /\ m.kind = 7, c, 8, "single access tagged end-of-burst")
  /\ WitIf(req /\ ~ack /\ cur.st = 2, c, 9, "wait state on a later beat")
  /\ WitIf(c.sside = 1 /\ sl # <<>> /\ sl2 # <<>> /\ sl2 # sl, c, 10, "slave-side burst of three or more beats")
  /\ WitIf(done /\ m.kind = 2 /\ m.bte # 0 /\ m.k >= WrapLen(m.bte), c, 11, "wrap burst longer than the wrap size")
  /\ WitIf(done /\ cur.st \in {1, 2} /\ cur.wt >= 1 /\ m.kind = 2, c, 12, "beat of an incrementing burst after a master wait state")
  /\ WitIf(iv[1] = 2 /\ cur.st = 0, c, 13, "cyc ahead of the first stb")
  /\ WitIf(iv[1] = 3 /\ cti = 2, c, 14, "burst beat of another slave on the bus (stb without cyc)")
  /\ WitIf(iv[1] = 2 /\ cur.st = 2 /\ we = 1 /\ sel # 0, c, 15, "wait state with write-shaped lines")

ReadReturnsLastWrite  == obs.okread   \* classic / single / constant / first beat: last enabled write or initial content, per byte
BurstAddressSequence  == obs.okseq    \* beat k >= 1 of an incrementing burst returns the bytes of the word R5 defines
OneAckPerBeat         == obs.okack    \* an acknowledge only for a presented beat; with Served: exactly one per beat
NoBusError            == obs.okerr
SlaveBurstSequence    == obs.oksl     \* bursts the adapter itself issues follow R2-R5
=============================================================================
