----------------------------- MODULE FlatMemTrace -----------------------------
EXTENDS FlatMemContract, Json, IOUtils
T == JsonDeserialize(IOEnv.TRACES)
VARIABLES tid, l, envbad, stall
vars == <<tid, l, envbad, stall, mem, open, obs>>
C == T[tid].cfg
Init == /\ tid \in 1..Len(T) /\ l = 1 /\ envbad = FALSE /\ stall = 0 /\ open = <<>> /\ mem = MemInit(C)
        /\ obs = ObsInit
Next ==
  /\ l <= Len(T[tid].ev)
  /\ LET iv == T[tid].ev[l][1]
         o  == T[tid].ev[l][2]
     IN /\ envbad' = (envbad \/ iv \notin Inputs(C))
        /\ CStep(C, iv, o)
        /\ stall' = IF obs'.pending THEN stall + 1 ELSE 0
  /\ l' = l + 1 /\ tid' = tid
EnvLegal == ~envbad
BoundedService == stall < C.stallbound
=============================================================================
