----------------------------- MODULE FlatMemGraph -----------------------------
EXTENDS FlatMemContract, Json, IOUtils, GraphLookup
G == JsonDeserialize(IOEnv.GRAPH)
NDuts == Len(G.duts)
VARIABLES d, s,
          ph   \* toggles on a step that changes nothing else: a hung implementation (fixpoint of the product)
               \* must be an infinite NON-stuttering behaviour, or WF_vars(Next) would let TLC walk away from it
vars == <<d, s, mem, open, obs, ph>>
C == G.duts[d].cfg
Init == /\ d \in 1..NDuts /\ s = 0 /\ ph = 0 /\ open = <<>> /\ mem = MemInit(C)
        /\ obs = ObsInit
Step(iv) ==
  /\ s >= 0
  /\ LET e == GLookup(G.duts[d].succ[s + 1], iv) IN
       IF e # <<>>
       THEN /\ s' = e[3] /\ d' = d
            /\ CStep(C, iv, e[2])
            /\ ph' = IF e[3] = s /\ cvars' = cvars THEN 1 - ph ELSE 0
       ELSE /\ PrintT(<<"NEED", d, s, iv>>)
            /\ s' = -1 /\ d' = d /\ ph' = 0 /\ UNCHANGED cvars
Next == \E iv \in Inputs(C) : Step(iv)
Spec == Init /\ [][Next]_vars /\ WF_vars(Next)
Alias == [d |-> d, s |-> s, obs |-> obs, mem |-> mem, iv |-> CHOOSE iv \in Inputs(C) : Step(iv)]
(* every request is eventually acknowledged (the adapter itself never hangs) *)
Served == []<>(~obs.pending)
=============================================================================
