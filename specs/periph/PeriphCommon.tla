---------------------------- MODULE PeriphCommon ----------------------------
(* Shared helpers of the C19 contracts (serial peripherals and timers).      *)
EXTENDS Integers, Sequences, TLC

Bit(x, i) == (x \div (2^i)) % 2                    \* bit i of x, i from 0
Min(a, b) == IF a < b THEN a ELSE b
Max(a, b) == IF a > b THEN a ELSE b
B(p) == IF p THEN 1 ELSE 0
(* optional field of a cfg record (environment freedoms added later sit behind such flags, so that *)
(* the configurations written before keep their meaning): 0 if the record does not have it         *)
Flag(c, name) == IF name \in DOMAIN c THEN c[name] ELSE 0

(* Witnesses against vacuity.  Every contract calls Wit(c, k, name) in the step in which  *)
(* an interesting event (a completed frame, a reload, a saturation ...) is observed; TLC   *)
(* prints <<"WIT", dut, name>> once per worker (TLC registers 10 + 16*c.wi + k).  The      *)
(* harness fails the run as a machinery error if a required witness was never printed.    *)
ASSUME \A i \in 1..1700 : TLCSet(i, 0)
Wit(c, k, name) ==
  LET i == 10 + 16 * (c.wi % 100) + k IN
  IF TLCGet(i) = 0 THEN TLCSet(i, 1) /\ PrintT(<<"WIT", c.wi, name>>) ELSE TRUE
WitIf(p, c, k, name) == IF p THEN Wit(c, k, name) ELSE TRUE
=============================================================================
