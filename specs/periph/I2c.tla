--------------------------------- MODULE I2c ---------------------------------
(***************************************************************************)
(* L1 contract of the hardware I2C master (litex/soc/cores/i2c.py:          *)
(* I2CMaster = Wishbone registers + I2CMasterMachine + open-drain pads),    *)
(* property C19.  One step = one sys-clock cycle.                           *)
(*                                                                          *)
(* iv = <<req, data, sl, g>>                                                *)
(*      req: 1 = Wishbone write of `data` to the xfer register (held until  *)
(*      the bus acknowledges), 2 = Wishbone READ of the xfer register (held *)
(*      likewise; `data` is then whatever the master leaves on its write    *)
(*      data lines); data = command word bits                               *)
(*        0..7 data, 8 ack, 9 read, 10 write, 11 start, 12 stop;            *)
(*      sl: level the slave puts on SDA (0 = pulls low); g: with a command, *)
(*      the slave's choice (write: 1 ack / 2 nack; read: index of the byte  *)
(*      it returns), else 0.                                                *)
(* o  = <<wb_ack, scl_oe, sda_oe, st_data, st_ack, st_idle, dat_r>>         *)
(*      scl_oe / sda_oe: the master pulls the (open-drain) line low;        *)
(*      st_*: the fields of the xfer register as software reads them.       *)
(*      Bus levels: SCL = 1 - scl_oe (no clock stretching), SDA = (1 -      *)
(*      sda_oe) AND sl.                                                     *)
(* c: load (clock generator reload value: every SCL phase lasts load + 1    *)
(*    cycles), bytes (seq of bytes written), sbytes (seq of bytes a slave   *)
(*    returns), cmds (subset of {"start", "stop", "write", "read"}),        *)
(*    early (1: software may also write the next byte command while a byte  *)
(*    is being written, i.e. without waiting for idle), poll (optional flag, *)
(*    1: software polls the xfer register - reads at any time, also while   *)
(*    a command is in flight, with a stale command word on the write data   *)
(*    lines; a read is not a command)                                       *)
(*                                                                          *)
(* Environment.  Software follows the I2C transaction grammar: START on a   *)
(* free bus; then a written (address) byte; then bytes written or read,     *)
(* repeated START, or STOP.  It issues a command only when the xfer         *)
(* register shows idle.  The slave pulls SDA low only in the bit slots that *)
(* are its own (acknowledge of a written byte, data bits of a read byte)    *)
(* and changes SDA only while SCL is low (Consistent).                      *)
(* Software may also issue a condition command that has nothing to do       *)
(* (driver clean-up / error paths): STOP while no byte phase is open (bus   *)
(* free, or straight after a START: START followed by STOP is a void        *)
(* message, an illegal I2C format) and START straight after a START.  Such  *)
(* a command ("nop") must leave both lines alone - the master emits START / *)
(* STOP conditions only where a frame needs them - and the core must report *)
(* idle again; the bus state is unchanged.                                  *)
(***************************************************************************)
EXTENDS PeriphCommon, FiniteSets

VARIABLES m, obs
cvars == <<m, obs>>
SeqSet(q) == { q[i] : i \in 1..Len(q) }

START == 2048   STOP == 4096   WRITE == 1024   READ == 512   ACKBIT == 256

(* m.wb: <<>> or <<data, g>> the Wishbone access being held; m.rd = 1: it is a read         *)
(* m.pst: the xfer register (data, ack, idle fields) as it stood in the previous cycle      *)
(* m.bus: "free" (after reset / STOP), "start" (after a START), "low" (after a byte)        *)
(* m.cmd: <<>> or the command in flight [k (kind), d (byte to write / returned by the slave), *)
(*        a (ack choice of the slave / ack bit of the master), r, f (SCL rises / falls seen), *)
(*        ss (START/STOP condition seen), rx (bits sampled at the rises), age]               *)
(* m.pscl, m.psoe, m.psda: SCL level, master SDA drive, SDA level of the previous cycle     *)
(* m.ev: cycles since the last SCL edge or START/STOP condition of this command (capped)    *)
(* m.chk: <<>> or <<field, value>> status to be found in the register                        *)
Init0 == [wb |-> <<>>, bus |-> "free", cmd |-> <<>>, pscl |-> 1, psoe |-> 0, psda |-> 1, ev |-> 0,
          chk |-> <<>>, done |-> 2, rd |-> 0, pst |-> 0]

(* what a polling master leaves on the write data lines: a stale word with every command bit set *)
JUNK == START + STOP + WRITE + READ + 60
IDLEBIT == 8192

CmdWords(c) ==
  LET has(x) == x \in SeqSet(c.cmds) IN
  CASE m.bus = "free"  -> (IF has("start") THEN { <<START, 0>> } ELSE {}) \cup
                          (IF has("stop") THEN { <<STOP, 0>> } ELSE {})                  \* nothing to stop
    [] m.bus = "start" -> (IF has("write") THEN { <<WRITE + b, g>> : b \in SeqSet(c.bytes), g \in {1, 2} } ELSE {}) \cup
                          (IF has("stop") THEN { <<STOP, 0>> } ELSE {}) \cup             \* would be a void message
                          (IF has("start") THEN { <<START, 0>> } ELSE {})                \* START already on the bus
    [] OTHER -> (IF has("write") THEN { <<WRITE + b, g>> : b \in SeqSet(c.bytes), g \in {1, 2} } ELSE {}) \cup
                (IF has("read") THEN { <<READ + a * ACKBIT, g>> : a \in {0, 1}, g \in 1..Len(c.sbytes) } ELSE {}) \cup
                (IF has("stop") THEN { <<STOP, 0>> } ELSE {}) \cup
                (IF has("start") THEN { <<START, 0>> } ELSE {})

Inputs(c) ==
  LET SL == {0, 1} IN
  IF m.wb # <<>> THEN { <<1 + m.rd, m.wb[1], b, m.wb[2]>> : b \in SL }
  ELSE { <<0, 0, b, 0>> : b \in SL } \cup
       (IF Flag(c, "poll") = 1 THEN { <<2, JUNK, b, 0>> : b \in SL } ELSE {}) \cup
       (IF m.cmd = <<>> /\ m.done >= 1 THEN { <<1, w[1], b, w[2]>> : w \in CmdWords(c), b \in SL }
        ELSE IF m.cmd # <<>> /\ c.early = 1 /\ m.cmd.k = "write"          \* during a byte, without waiting for idle
             THEN { <<1, WRITE + c.bytes[1], b, 1>> : b \in SL }
        ELSE {})

(* the slave's level in this cycle, from the command in flight and the SCL level of this cycle *)
SlLevel(c, o) ==
  LET x == m.cmd
      scl == 1 - o[2]
      r == IF x = <<>> THEN 0 ELSE x.r + B(scl = 1 /\ m.pscl = 0)
  IN IF x = <<>> THEN 1
     ELSE IF x.k = "write" THEN (IF (r = 8 /\ scl = 0) \/ (r = 9 /\ scl = 1) THEN x.a ELSE 1)
     ELSE IF x.k = "read"  THEN (IF \E k \in 1..8 : (r = k - 1 /\ scl = 0) \/ (r = k /\ scl = 1)
                                 THEN LET k == IF scl = 0 THEN r + 1 ELSE r IN Bit(x.d, 8 - k) ELSE 1)
     ELSE 1
Consistent(c, iv, o) == iv[3] = SlLevel(c, o)

AllOk == [oksda |-> TRUE, okseq |-> TRUE, okdata |-> TRUE, oktime |-> TRUE, okstat |-> TRUE, okidle |-> TRUE,
          okread |-> TRUE, fin |-> TRUE]
CInit(c) == m = Init0 /\ obs = AllOk

Kind(w) == IF (w \div START) % 2 = 1 THEN "start" ELSE IF (w \div STOP) % 2 = 1 THEN "stop"
           ELSE IF (w \div WRITE) % 2 = 1 THEN "write" ELSE "read"

CStep(c, iv, o) ==
  LET wack == o[1]  scloe == o[2]  sdaoe == o[3]  stdata == o[4]  stack == o[5]  stidle == o[6]
      scl  == 1 - scloe
      sda  == IF sdaoe = 1 THEN 0 ELSE iv[3]
      x    == m.cmd
      busy == x # <<>>
      rise == scl = 1 /\ m.pscl = 0
      fall == scl = 0 /\ m.pscl = 1
      \* START / STOP condition on the bus: SDA changes while SCL stays high
      cond == scl = 1 /\ m.pscl = 1 /\ sda # m.psda
      sdac == sdaoe # m.psoe                     \* the master changes its SDA drive
      pin  == rise \/ fall \/ cond               \* an event the timing clause counts
      T    == c.load + 1
      \* the command word takes effect in the cycle the Wishbone write is acknowledged
      \* (a command written while the core is busy is expected to leave the one in flight alone)
      issue == m.wb # <<>> /\ m.rd = 0 /\ wack = 1 /\ ~busy
      early == m.wb # <<>> /\ m.rd = 0 /\ wack = 1 /\ busy
      rdack == m.wb # <<>> /\ m.rd = 1 /\ wack = 1       \* a read of the xfer register completes
      w     == m.wb[1]
      kind  == IF Kind(w) = "start" /\ m.bus = "low" THEN "restart"
               ELSE IF (Kind(w) = "stop" /\ m.bus # "low") \/ (Kind(w) = "start" /\ m.bus = "start") THEN "nop"
               ELSE Kind(w)
      newx  == [k |-> kind, d |-> IF kind = "read" THEN c.sbytes[m.wb[2]] ELSE w % 256,
                a |-> IF kind = "write" THEN m.wb[2] - 1 ELSE (w \div ACKBIT) % 2,
                r |-> 0, f |-> 0, f0 |-> B(m.bus = "start"), ss |-> 0, rx |-> 0]
      \* ---- clauses
      \* (a) SDA never changes together with SCL; while SCL is high only as the START / STOP the
      \*     command in flight asks for, once; a condition command with nothing to do leaves SDA alone
      oksda == /\ ((rise \/ fall) => ~sdac)
               /\ (busy /\ x.k = "nop" => ~sdac)
               /\ (cond => (busy /\ x.ss = 0 /\
                            CASE x.k = "start" -> sda = 0
                              [] x.k = "restart" -> sda = 0 /\ x.r = 1
                              [] x.k = "stop" -> sda = 1 /\ x.r = 1
                              [] OTHER -> FALSE))
      \* (b) clock edges only inside a byte / restart / stop command, never more than it needs
      okseq == /\ ((rise \/ fall) => busy)
               /\ (busy /\ rise => x.r + 1 <= (IF x.k \in {"write", "read"} THEN 9 ELSE IF x.k \in {"start", "nop"} THEN 0 ELSE 1))
               /\ (busy /\ fall => (x.k \in {"write", "read"} /\ x.f + 1 <= 9 + x.f0))
      \* (c) a written byte is on SDA MSB first at the eight rising edges and the master releases SDA
      \*     for the acknowledge; a read byte: SDA released for eight bits, then the master's ack bit
      okdata == (busy /\ rise) =>
                  CASE x.k = "write" -> (IF x.r + 1 <= 8 THEN sdaoe = 1 - Bit(x.d, 8 - (x.r + 1)) ELSE sdaoe = 0)
                    [] x.k = "read"  -> (IF x.r + 1 <= 8 THEN sdaoe = 0 ELSE sdaoe = x.a)
                    [] x.k = "stop"  -> sdaoe = 1
                    [] x.k = "restart" -> sdaoe = 0
                    [] OTHER -> TRUE
      \* (d) consecutive SCL edges / conditions of one command are at least load + 1 cycles apart
      oktime == (busy /\ pin /\ (x.r + x.f + x.ss) > 0) => m.ev + 1 >= T
      \* (e) what software reads afterwards: acknowledge of the slave / the byte it returned
      okstat == (m.chk # <<>>) => (IF m.chk[1] = "ack" THEN stack = m.chk[2] ELSE stdata = m.chk[2])
      \* (f) idle is reported only when the command is complete, with the bus in the documented state
      ssn == x.ss = 1 \/ cond
      complete == CASE x.k = "start"   -> ssn /\ scl = 1 /\ sdaoe = 1
                    [] x.k = "restart" -> ssn /\ x.r = 1 /\ scl = 1 /\ sdaoe = 1
                    [] x.k = "stop"    -> ssn /\ x.r = 1 /\ scl = 1 /\ sdaoe = 0
                    [] x.k = "nop"     -> ~ssn /\ x.r = 0 /\ x.f = 0 /\ scl = 1 /\ sdaoe = B(m.bus = "start")
                    [] OTHER           -> x.r = 9 /\ scl = 0
      finish == busy /\ ~issue /\ stidle = 1
      okidle == /\ (finish => complete)
                /\ (~busy /\ ~issue /\ m.done >= 1 => stidle = 1)
                /\ (~busy /\ m.done >= 2 => (~sdac /\ ~rise /\ ~fall))      \* nothing moves while idle
      \* (g) a read returns the register as documented: data in bits 0..7, ack in bit 8, idle in bit 13,
      \*     the fields as they stood in the cycle before the acknowledge (registered read data)
      okread == rdack => o[7] = m.pst
      nx == IF issue THEN newx
            ELSE IF ~busy \/ finish THEN <<>>
            ELSE [x EXCEPT !.r = IF rise THEN Min(x.r + 1, 10) ELSE x.r,
                           !.f = IF fall THEN Min(x.f + 1, 11) ELSE x.f,
                           !.ss = IF cond THEN 1 ELSE x.ss,
                           !.rx = IF rise THEN (x.rx * 2 + sda) % 512 ELSE x.rx]
  IN
  /\ m' = [wb   |-> IF m.wb # <<>> THEN (IF wack = 1 THEN <<>> ELSE m.wb)
                    ELSE IF iv[1] >= 1 THEN <<iv[2], iv[4]>> ELSE <<>>,
           rd   |-> IF m.wb # <<>> THEN (IF wack = 1 THEN 0 ELSE m.rd) ELSE B(iv[1] = 2),
           pst  |-> stdata + 256 * stack + IDLEBIT * stidle,
           bus  |-> IF finish THEN (CASE x.k \in {"start", "restart"} -> "start" [] x.k = "stop" -> "free"
                                     [] x.k = "nop" -> m.bus [] OTHER -> "low")
                    ELSE m.bus,
           cmd  |-> nx,
           pscl |-> scl, psoe |-> sdaoe, psda |-> sda,
           ev   |-> IF issue \/ pin THEN 0 ELSE Min(m.ev + 1, T),
           chk  |-> IF finish /\ x.k = "write" THEN <<"ack", 1 - ((x.rx) % 2)>>
                    ELSE IF finish /\ x.k = "read" THEN <<"data", (x.rx \div 2) % 256>>
                    ELSE IF busy \/ issue \/ iv[1] = 1 THEN <<>> ELSE m.chk,     \* (a new command word overwrites the fields)
           done |-> IF busy \/ issue THEN 0 ELSE Min(m.done + 1, 2)]
  /\ obs' = [oksda |-> oksda, okseq |-> okseq, okdata |-> okdata, oktime |-> oktime, okstat |-> okstat,
             okidle |-> okidle, okread |-> okread, fin |-> (nx = <<>> /\ m.wb = <<>>)]
  /\ WitIf(finish /\ x.k = "write" /\ x.a = 0, c, 0, "byte written and acknowledged")
  /\ WitIf(finish /\ x.k = "write" /\ x.a = 1, c, 1, "byte written, not acknowledged")
  /\ WitIf(finish /\ x.k = "read" /\ x.d # 0 /\ x.d # 255, c, 2, "byte read")
  /\ WitIf(finish /\ x.k = "stop", c, 3, "stop")
  /\ WitIf(finish /\ x.k = "restart", c, 4, "repeated start")
  /\ WitIf(early, c, 5, "command written while busy")
  /\ WitIf(finish /\ x.k = "nop" /\ m.bus = "free", c, 6, "stop on a free bus")
  /\ WitIf(finish /\ x.k = "nop" /\ m.bus = "start", c, 7, "stop or start straight after a start")
  /\ WitIf(rdack /\ busy /\ x.k \in {"write", "read"} /\ x.r >= 1 /\ x.r <= 8, c, 8, "register polled during a byte")
  /\ WitIf(rdack /\ ~busy /\ m.done >= 1 /\ m.bus = "low", c, 9, "register polled while idle")
  /\ WitIf(rdack /\ m.pst % 256 # 0 /\ m.pst >= IDLEBIT, c, 10, "idle status with a data byte read")

SdaOnlyStartStop  == obs.oksda
ClocksPerCommand  == obs.okseq
ByteOnSda         == obs.okdata
SclPhaseLength    == obs.oktime
StatusReadBack    == obs.okstat
IdleMeansComplete == obs.okidle
ReadReturnsStatus == obs.okread
=============================================================================
