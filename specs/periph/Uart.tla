-------------------------------- MODULE Uart --------------------------------
(***************************************************************************)
(* L1 contracts of the RS232 PHY (litex/soc/cores/uart.py), property C19.   *)
(* One step = one sys-clock cycle.  8N1 framing: start(0), eight data bits  *)
(* LSB first, stop(1), idle high.                                           *)
(*                                                                          *)
(* Bit period.  tuning_word = (c.pd * 2^32 + r) / c.pn with a small integer *)
(* r whose sign is c.rs (the harness computes tuning_word = floor or ceil   *)
(* of c.pd*2^32/c.pn), so the programmed bit period P = 2^32/tuning_word is *)
(* c.pn/c.pd cycles minus/plus a difference far below 1/(20*c.pd):          *)
(*    k*P = k*c.pn/c.pd - delta,  sign(delta) = c.rs,  |delta| < 2^-20.     *)
(* "cumulative drift below one cycle": the k-th bit boundary of a frame lies *)
(* at an integer offset n from the start edge with |n - k*P| < 1  (InA).    *)
(* "every bit lasts floor(P) or ceil(P) cycles": BitLo/BitHi.               *)
(*                                                                          *)
(* c.kind = "tx"  RS232PHYTX.  iv = <<valid, data>> (stream sink),          *)
(*                o = <<ready, tx>>                                         *)
(* c.kind = "rx"  RS232PHYRX.  iv = <<rx, g>>: rx = line level driven by a   *)
(*                transmitter specified here (the environment); g = 0, or at *)
(*                the first cycle of a frame the code of the transmitter's   *)
(*                choice (byte, stop bit, phase).   o = <<valid, data>>      *)
(*                The transmitter's bit period is c.tn/c.td cycles (the      *)
(*                receiver is programmed for c.pn/c.pd): equal, or off by    *)
(*                +-2 %; its real-valued bit boundaries k*c.tn/c.td - phi/c.td *)
(*                are seen on the cycle grid at ceil(.), phase phi any of    *)
(*                c.phis.                                                    *)
(***************************************************************************)
EXTENDS PeriphCommon, FiniteSets

VARIABLES m, obs
cvars == <<m, obs>>

SeqSet(q) == { q[i] : i \in 1..Len(q) }

(* line level of bit k of a frame (k = 0 start, 1..8 data LSB first, 9 stop) *)
FrameBit(byte, stop, k) == IF k = 0 THEN 0 ELSE IF k = 9 THEN stop ELSE Bit(byte, k - 1)

(* admissible integer offsets n of the k-th bit boundary *)
InA(c, k, n) ==
  CASE c.rs = 0 -> k * c.pn - c.pd <  n * c.pd /\ n * c.pd <  k * c.pn + c.pd
    [] c.rs > 0 -> k * c.pn - c.pd <= n * c.pd /\ n * c.pd <  k * c.pn + c.pd
    [] OTHER    -> k * c.pn - c.pd <  n * c.pd /\ n * c.pd <= k * c.pn + c.pd
(* smallest / largest admissible offset of boundary k (k >= 1), closed forms of InA *)
MinA(c, k) == IF c.rs > 0 THEN (k * c.pn - 1) \div c.pd ELSE (k * c.pn - c.pd) \div c.pd + 1
MaxA(c, k) == IF c.rs < 0 THEN (k * c.pn + c.pd) \div c.pd ELSE (k * c.pn + c.pd - 1) \div c.pd
ASSUME \A rs \in {-1, 0, 1}, pn \in 2..12, pd \in 1..3, k \in 1..10 :
         LET c == [rs |-> rs, pn |-> pn, pd |-> pd] IN
         /\ InA(c, k, MinA(c, k)) /\ ~InA(c, k, MinA(c, k) - 1)
         /\ InA(c, k, MaxA(c, k)) /\ ~InA(c, k, MaxA(c, k) + 1)
BitLo(c) == IF c.rs > 0 /\ c.pn % c.pd = 0 THEN c.pn \div c.pd - 1 ELSE c.pn \div c.pd
BitHi(c) == IF c.rs <= 0 \/ c.pn % c.pd # 0 THEN (IF c.rs = 0 /\ c.pn % c.pd = 0 THEN c.pn \div c.pd ELSE c.pn \div c.pd + 1)
            ELSE c.pn \div c.pd

AllOk == [okline |-> TRUE, okbit |-> TRUE, okready |-> TRUE, okidle |-> TRUE,
          okbyte |-> TRUE, oklost |-> TRUE, okspur |-> TRUE, fin |-> TRUE]

---------------------------------------------------------------------------
(* Transmitter.  The producer keeps valid/data steady until ready (stream protocol).    *)
(* m.hold: byte on offer (-1 none); m.fr: <<>> or the frame on the line                 *)
(*   [byte, e (offset of this cycle from the start edge), k (index of the last boundary *)
(*    seen as an edge), ke (its offset), acked]; m.ptx: line level of the previous cycle *)
(*   m.idle: witness counter only                                                        *)
TxInputs(c) == IF m.hold >= 0 THEN {<<1, m.hold>>}
               ELSE {<<0, 0>>} \cup { <<1, b>> : b \in SeqSet(c.bytes) }

TxInit == [hold |-> -1, fr |-> <<>>, ptx |-> 1, idle |-> 2]

(* next boundary after k at which the line level changes (10 if none: stop = idle = 1) *)
NextEdge(byte, k) ==
  LET S == { j \in (k + 1)..9 : FrameBit(byte, 1, j) # FrameBit(byte, 1, j - 1) } IN
  IF S = {} THEN 10 ELSE CHOOSE j \in S : \A i \in S : j <= i

TxStep(c, iv, o) ==
  LET ready == o[1]
      tx    == o[2]
      edge  == tx # m.ptx
      f     == m.fr
      inframe == f # <<>>
      \* a falling edge of the idle line (or right after a complete stop bit) starts a frame
      done  == inframe /\ NextEdge(f.byte, f.k) = 10 /\ f.e + 1 >= MinA(c, 10)   \* stop bit complete at this cycle
      start == edge /\ tx = 0 /\ (~inframe \/ done)
      e     == IF inframe THEN f.e + 1 ELSE 0
      ne    == IF inframe THEN NextEdge(f.byte, f.k) ELSE 10
      \* --- clauses
      okstart == start => /\ m.hold >= 0                          \* only for a byte that was on offer
                          /\ (inframe => f.acked)                 \* and after the previous one was taken
      inedge == inframe /\ ~start /\ edge                         \* a level change inside the frame
      okline == /\ okstart
                /\ (inedge => (ne <= 9 /\ InA(c, ne, e)))         \* at a boundary where the data changes, drift < 1
                /\ (inframe /\ ~start /\ ~edge /\ ne <= 9 => e < MaxA(c, ne))   \* and not later than that
      okbit  == inedge /\ ne <= 9 =>
                  /\ e - f.ke >= (ne - f.k) * BitLo(c)
                  /\ e - f.ke <= (ne - f.k) * BitHi(c)
      okidle == (~inframe /\ ~start) => tx = 1
      okready == /\ (ready = 1 => (inframe /\ ~f.acked /\ iv[1] = 1))
                 \* taken exactly once, before the stop bit is over
                 /\ ((inframe /\ ~start /\ ne = 10 /\ e >= MaxA(c, 10)) => (f.acked \/ ready = 1))
      newf  == [byte |-> m.hold, e |-> 0, k |-> 0, ke |-> 0, acked |-> FALSE]
      endf  == inframe /\ ~start /\ ne = 10 /\ e >= MaxA(c, 10)    \* latest end of the stop bit: idle from now on
  IN
  /\ m' = [hold |-> IF ready = 1 THEN -1 ELSE IF iv[1] = 1 THEN iv[2] ELSE m.hold,
           fr   |-> IF start THEN newf
                    ELSE IF ~inframe \/ endf THEN <<>>
                    ELSE [f EXCEPT !.e = e, !.k = IF edge THEN ne ELSE f.k, !.ke = IF edge THEN e ELSE f.ke,
                                   !.acked = f.acked \/ ready = 1],
           ptx  |-> tx,
           idle |-> IF inframe /\ ~endf THEN 0 ELSE Min(m.idle + 1, 2)]    \* idle cycles since the last frame (capped)
  /\ obs' = [AllOk EXCEPT !.okline = okline, !.okbit = okbit, !.okidle = okidle, !.okready = okready,
                          !.fin = (ready = 1 \/ (m.hold < 0 /\ iv[1] = 0))]
  /\ WitIf(start /\ m.idle <= 1, c, 0, "back-to-back frame")
  /\ WitIf(endf, c, 1, "frame ended, line idle")
  /\ WitIf(inedge /\ ne = 9, c, 2, "stop bit edge")

---------------------------------------------------------------------------
(* Receiver.  m.tx: the environment's transmitter: <<>> idle (line high) or              *)
(*   [byte, stop, phi, e] with e = offset of this cycle from the first low cycle of the   *)
(*   frame; m.due: <<>> or <<byte, cycles left>> a delivery the receiver owes;            *)
(*   m.hi: number of cycles the line has been high (capped at 1; -2 at power-up: the      *)
(*   transmitter is assumed to leave the line idle for three cycles after the receiver's  *)
(*   reset, and a start bit needs a falling edge).                                        *)
NB(c) == Len(c.bytes)
NP(c) == Len(c.phis)
Code(c, bi, stop, pi) == 1 + (bi - 1) + NB(c) * (stop + 2 * (pi - 1))
Codes(c) == { Code(c, bi, st, pi) : bi \in 1..NB(c), st \in (IF c.brk = 1 THEN {0, 1} ELSE {1}), pi \in 1..NP(c) }
DecByte(c, g) == c.bytes[((g - 1) % NB(c)) + 1]
DecStop(c, g) == ((g - 1) \div NB(c)) % 2
DecPhi(c, g)  == c.phis[((g - 1) \div (2 * NB(c))) + 1]

(* first cycle (offset from the first low cycle) at which boundary k of the transmitter is visible *)
TB(c, phi, k) == (k * c.tn - phi + c.td - 1) \div c.td
LATENCY == 4       \* synchroniser + edge detection + output: delivery no later than 4 cycles after the stop bit

RxInputs(c) ==
  LET t == m.tx IN
  IF t = <<>> THEN {<<1, 0>>} \cup (IF m.hi >= 1 THEN { <<0, g>> : g \in Codes(c) } ELSE {})
  ELSE IF t.e + 1 < TB(c, t.phi, 10)
       THEN LET k == CHOOSE k \in 0..9 : TB(c, t.phi, k) <= t.e + 1 /\ t.e + 1 < TB(c, t.phi, k + 1)
            IN {<<FrameBit(t.byte, t.stop, k), 0>>}
       ELSE \* the frame is over: idle, or (after a good stop bit) the next frame at once
            {<<1, 0>>} \cup (IF t.stop = 1 THEN { <<0, g>> : g \in Codes(c) } ELSE {})

RxInit == [tx |-> <<>>, due |-> <<>>, hi |-> -2]

RxStep(c, iv, o) ==
  LET valid == o[1]
      data  == o[2]
      t     == m.tx
      newt  == [byte |-> DecByte(c, iv[2]), stop |-> DecStop(c, iv[2]), phi |-> DecPhi(c, iv[2]), e |-> 0]
      nt    == IF iv[2] > 0 THEN newt
               ELSE IF t = <<>> THEN <<>>
               ELSE IF t.e + 1 < TB(c, t.phi, 10) THEN [t EXCEPT !.e = t.e + 1] ELSE <<>>
      \* the delivery becomes due when the stop bit begins
      arm   == nt # <<>> /\ nt.stop = 1 /\ nt.e = TB(c, nt.phi, 9)
      due0  == IF arm THEN <<nt.byte, TB(c, nt.phi, 10) - TB(c, nt.phi, 9) + LATENCY>> ELSE m.due
      okspur == valid = 1 => due0 # <<>>                        \* no byte out of nothing, none for a broken stop bit
      okbyte == (valid = 1 /\ due0 # <<>>) => data = due0[1]    \* the right byte
      oklost == (valid = 0 /\ due0 # <<>>) => due0[2] > 0       \* delivered in time, hence exactly once
  IN
  /\ m' = [tx  |-> nt,
           due |-> IF valid = 1 \/ due0 = <<>> THEN <<>> ELSE <<due0[1], due0[2] - 1>>,
           hi  |-> IF iv[1] = 1 THEN Min(m.hi + 1, 1) ELSE 0]
  /\ obs' = [AllOk EXCEPT !.okspur = okspur, !.okbyte = okbyte, !.oklost = oklost, !.fin = (m.due = <<>>)]
  /\ WitIf(valid = 1 /\ due0 # <<>>, c, 0, "byte delivered")
  /\ WitIf(iv[2] > 0 /\ t # <<>>, c, 1, "back-to-back frame")
  /\ WitIf(t # <<>> /\ t.stop = 0 /\ nt = <<>>, c, 2, "broken stop bit ignored")

---------------------------------------------------------------------------
Inputs(c) == IF c.kind = "tx" THEN TxInputs(c) ELSE RxInputs(c)
CInit(c)  == /\ m = (IF c.kind = "tx" THEN TxInit ELSE RxInit)
             /\ obs = AllOk
CStep(c, iv, o) == IF c.kind = "tx" THEN TxStep(c, iv, o) ELSE RxStep(c, iv, o)

TxWaveform   == obs.okline   \* start, data LSB first, stop; every boundary within one cycle of k*P; frames only for offered bytes
TxBitLength  == obs.okbit    \* every bit lasts floor(P) or ceil(P) cycles
TxIdleHigh   == obs.okidle   \* the line is high outside frames
TxReadyOnce  == obs.okready  \* ready exactly once per byte, during its frame
RxNoSpurious == obs.okspur
RxRightByte  == obs.okbyte
RxDelivered  == obs.oklost
=============================================================================
