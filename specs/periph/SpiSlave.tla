------------------------------ MODULE SpiSlave ------------------------------
(***************************************************************************)
(* L1 contract of the 4-wire SPI slave (litex/soc/cores/spi/spi_slave.py),  *)
(* CPOL = 0, CPHA = 0, property C19 (the dual of SpiMaster).                *)
(* One step = one sys-clock cycle.                                          *)
(*                                                                          *)
(* iv = <<clk, cs_n, mosi_pin, txw, g>>   pins driven by an SPI master      *)
(*      specified here; txw = the word the SoC side wants to send (the      *)
(*      core's `miso` input), g = 0 or, in the cycle cs_n falls, the code   *)
(*      of the master's choice (length, word).                              *)
(* o  = <<start, length, done, irq, rxw, miso_pin>>   rxw = the core's      *)
(*      `mosi` output (received word)                                       *)
(* c: dw, h (half clock period in sys cycles; also the lead time from cs_n  *)
(*    falling to the first rising edge and from the last falling edge to    *)
(*    cs_n rising), gap (minimum cs_n high time between transfers), lens,   *)
(*    words (dw-bit words; a transfer of length L sends the top L bits,     *)
(*    MSB first, zeros after the word if L > dw), txws (words the SoC side   *)
(*    sends), other (optional flag, 1: the bus is shared - while this slave  *)
(*    is deselected the master may run the same transfers with ANOTHER      *)
(*    slave: clk and mosi move, cs_n of this slave stays high; codes above  *)
(*    the own ones)                                                         *)
(*                                                                          *)
(* The master (environment): cs_n low at p = 0, rising edge k at            *)
(* p = R(k) = h + 2h(k-1), falling edge k at R(k) + h, cs_n high again at   *)
(* p = h + 2hL; mosi changes with cs_n falling and with every falling edge; *)
(* it samples miso at its rising edges.  txw is steady during a transfer.   *)
(***************************************************************************)
EXTENDS PeriphCommon, FiniteSets

VARIABLES m, obs
cvars == <<m, obs>>
SeqSet(q) == { q[i] : i \in 1..Len(q) }
LAT == 4             \* start / irq at most LAT cycles after the cs_n edge (2-stage synchroniser + FSM)

NL(c) == Len(c.lens)
NC(c) == NL(c) * Len(c.words)
Codes(c) == 1..NC(c)
Own(c, g) == g <= NC(c)                               \* codes NC+1..2NC: the same transfers with another slave
DecLen(c, g)  == c.lens[(((g - 1) % NC(c)) % NL(c)) + 1]
DecWord(c, g) == c.words[(((g - 1) % NC(c)) \div NL(c)) + 1]

R(c, k) == c.h + 2 * c.h * (k - 1)
EndP(c, L) == c.h + 2 * c.h * L

(* m.t: <<>> or the transfer on the pins [L, X, tx, p, started, own]  (own = FALSE: the master *)
(*      talks to another slave)                                                                *)
(* m.post: <<>> or [L, X, q] after cs_n rose (q cycles ago): the end-of-transfer report owed   *)
(* m.idle: cycles cs_n has been high (capped);  m.busy: between the start and irq pulses;     *)
(* m.pmo: miso pin of the previous cycle;  m.prx, m.pln: received word / length of the previous cycle *)
Init0 == [t |-> <<>>, post |-> <<>>, idle |-> 0, busy |-> FALSE, pmo |-> 0, prx |-> 0, pln |-> 0]

(* pins of the master at position p of a transfer *)
ClkAt(c, L, p) == IF p < c.h \/ p >= EndP(c, L) THEN 0 ELSE B(((p - c.h) \div c.h) % 2 = 0)
BitNo(c, L, p) == IF p < c.h THEN 1 ELSE Min(((p - c.h) \div (2 * c.h)) + 1 + B(((p - c.h) \div c.h) % 2 = 1), L)
MosiAt(c, L, X, p) == IF BitNo(c, L, p) > c.dw THEN 0 ELSE Bit(X, c.dw - BitNo(c, L, p))    \* zeros after the word

Inputs(c) ==
  LET t == m.t IN
  IF t = <<>>
  THEN { <<0, 1, 0, 0, 0>> } \cup
       (IF m.idle >= c.gap /\ m.post = <<>>
        THEN { <<0, 0, Bit(DecWord(c, g), c.dw - 1), w, g>> : g \in Codes(c), w \in SeqSet(c.txws) } \cup
             (IF Flag(c, "other") = 1
              THEN { <<0, 1, Bit(DecWord(c, g), c.dw - 1), w, g + NC(c)>> : g \in Codes(c), w \in SeqSet(c.txws) } ELSE {})
        ELSE {})
  ELSE IF t.p + 1 < EndP(c, t.L)
       THEN { <<ClkAt(c, t.L, t.p + 1), B(~t.own), MosiAt(c, t.L, t.X, t.p + 1), t.tx, 0>> }
       ELSE { <<0, 1, 0, 0, 0>> }

AllOk == [okstart |-> TRUE, okirq |-> TRUE, oklen |-> TRUE, okrx |-> TRUE, okmiso |-> TRUE, okstable |-> TRUE,
          okdone |-> TRUE, okheld |-> TRUE, fin |-> TRUE]
CInit(c) == m = Init0 /\ obs = AllOk
Consistent(c, iv, o) == TRUE

CStep(c, iv, o) ==
  LET start == o[1]  length == o[2]  done == o[3]  irq == o[4]  rxw == o[5]  misop == o[6]
      t  == m.t
      nt == IF iv[5] > 0 THEN [L |-> DecLen(c, iv[5]), X |-> DecWord(c, iv[5]), tx |-> iv[4], p |-> 0, started |-> FALSE,
                               own |-> Own(c, iv[5])]
            ELSE IF t = <<>> THEN <<>>
            ELSE IF t.p + 1 < EndP(c, t.L) THEN [t EXCEPT !.p = t.p + 1] ELSE <<>>
      ended == t # <<>> /\ nt = <<>> /\ t.own          \* cs_n rises in this cycle
      mine  == nt # <<>> /\ nt.own                     \* this slave is selected
      post0 == IF ended THEN [L |-> t.L, X |-> t.X, q |-> 0] ELSE m.post
      \* one start pulse per transfer, soon after cs_n fell and before the first clock edge
      okstart == /\ (start = 1 => (mine /\ ~nt.started /\ nt.p <= LAT /\ nt.p < R(c, 1)))
                 /\ (mine /\ nt.p = Min(LAT, R(c, 1) - 1) => (nt.started \/ start = 1))
      \* one irq pulse per transfer, soon after cs_n rose
      okirq   == /\ (irq = 1 => post0 # <<>>)
                 /\ (post0 # <<>> /\ post0.q = LAT => irq = 1)
      n  == IF post0 # <<>> THEN Min(post0.L, c.dw) ELSE 0
      \* at the irq the length register holds the number of clock pulses and the received word the bits sent
      oklen == (irq = 1 /\ post0 # <<>>) => length = post0.L
      sent  == IF post0.L <= c.dw THEN post0.X \div (2^(c.dw - post0.L)) ELSE post0.X * 2^(post0.L - c.dw)
      okrx  == (irq = 1 /\ post0 # <<>>) => rxw % (2^n) = sent % (2^n)
      \* the word to send appears MSB first; bit k is on the pin around the k-th rising edge
      okmiso == \A k \in 1..c.dw :
                  (mine /\ k <= nt.L /\ (nt.p = R(c, k) - 1 \/ nt.p = R(c, k))) => misop = Bit(nt.tx, c.dw - k)
      \* and changes only while the clock pin is low (generated on the falling edge)
      okstable == (misop # m.pmo) => iv[1] = 0
      \* done is low exactly from the start pulse to the irq pulse
      okdone == done = B(~(start = 1 \/ m.busy))
      \* what the core reported stays: from the irq pulse to the next start pulse the received word and the
      \* length do not change (software reads them after the interrupt) - whatever the deselected pins do
      okheld == ~m.busy => (rxw = m.prx /\ length = m.pln)
  IN
  /\ m' = [t    |-> IF nt # <<>> /\ start = 1 THEN [nt EXCEPT !.started = TRUE] ELSE nt,
           post |-> IF post0 = <<>> \/ irq = 1 \/ post0.q >= LAT THEN <<>> ELSE [post0 EXCEPT !.q = post0.q + 1],
           idle |-> IF iv[2] = 1 THEN Min(m.idle + 1, c.gap) ELSE 0,
           busy |-> IF irq = 1 THEN FALSE ELSE (m.busy \/ start = 1),
           pmo  |-> misop, prx |-> rxw, pln |-> length]
  /\ obs' = [okstart |-> okstart, okirq |-> okirq, oklen |-> oklen, okrx |-> okrx, okmiso |-> okmiso, okstable |-> okstable,
             okdone |-> okdone, okheld |-> okheld, fin |-> ((nt = <<>> \/ ~nt.own) /\ ~(m.busy /\ irq = 0))]
  /\ WitIf(irq = 1 /\ post0 # <<>> /\ post0.L > 1, c, 0, "transfer reported")
  /\ WitIf(iv[5] > 0 /\ m.idle = c.gap, c, 1, "transfer after the minimum gap")
  /\ WitIf(mine /\ nt.L = c.dw /\ nt.p = R(c, c.dw) /\ nt.tx # 0 /\ nt.tx # 2^c.dw - 1, c, 2, "full word sent")
  /\ WitIf(nt # <<>> /\ ~nt.own /\ iv[1] = 1 /\ ~m.busy /\ rxw # 0 /\ rxw # 2^c.dw - 1, c, 3,
           "clock pulses for another slave after a received word")

StartOnce      == obs.okstart
IrqOnce        == obs.okirq
LengthCounted  == obs.oklen
MosiCaptured   == obs.okrx
MisoMsbFirst   == obs.okmiso
MisoStableWhileHigh == obs.okstable
DoneMeansIdle  == obs.okdone
ResultHeld     == obs.okheld
=============================================================================
