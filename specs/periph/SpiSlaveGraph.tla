--------------------------- MODULE SpiSlaveGraph ---------------------------
(* G-mode product of the SpiSlave contract with the transition graph of the *)
(* real SPISlave netlist (harness/graphloop.py, families/periph.py).        *)
EXTENDS SpiSlave, Json, IOUtils
G == JsonDeserialize(IOEnv.GRAPH)
NDuts == Len(G.duts)
VARIABLES d, s
vars == <<d, s, m, obs>>
C == G.duts[d].cfg
Init == /\ d \in 1..NDuts /\ s = 0 /\ CInit(C)
Step(iv) ==
  /\ s >= 0
  /\ LET k == ToString(iv) IN
       IF k \in DOMAIN G.duts[d].succ[s + 1]
       THEN LET e == G.duts[d].succ[s + 1][k] IN
            /\ Consistent(C, iv, e.o)          \* environment moves that depend on pins of the same cycle
            /\ s' = e.d /\ d' = d
            /\ CStep(C, iv, e.o)
       ELSE /\ PrintT(<<"NEED", d, s, iv>>)
            /\ s' = -1 /\ d' = d /\ UNCHANGED cvars
Next == \E iv \in Inputs(C) : Step(iv)
Spec == Init /\ [][Next]_vars /\ WF_vars(Next)
Alias == [d |-> d, s |-> s, m |-> m, obs |-> obs, iv |-> CHOOSE iv \in Inputs(C) : Step(iv)]
(* liveness: every transfer is reported (irq) and the core is idle again and again *)
Finishes == []<>(obs.fin)
=============================================================================
