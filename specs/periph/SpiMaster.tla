----------------------------- MODULE SpiMaster -----------------------------
(***************************************************************************)
(* L1 contract of the 4-wire SPI master (litex/soc/cores/spi/spi_master.py) *)
(* CPOL = 0, CPHA = 0, property C19.  One step = one sys-clock cycle.       *)
(*                                                                          *)
(* iv = <<start, length, mosi, cs, cs_mode, miso>>                          *)
(*      start/length/mosi/cs/cs_mode: the command interface of the core     *)
(*      (what the control/mosi/cs CSRs drive), miso: the slave's data pin   *)
(* o  = <<done, irq, miso_word, clk, cs_n, mosi_pin>>                       *)
(* c: dw (data width), mode ("raw"/"aligned"), loop (loopback 0/1), idle    *)
(*    (level of the miso pin while no slave is selected), lens, words (seqs *)
(*    of lengths / mosi words software uses), csopts (seq of <<cs, cs_mode>> *)
(*    settings software uses), overlap (0: software waits for done; 1: it   *)
(*    may pulse start again during a transfer, with the same length and     *)
(*    word; 2: with any length of c.lens, which then stays programmed).     *)
(*    mosichg (optional flag, 1: software may write another word of c.words *)
(*    to the MOSI register while a transfer is in flight - the transfer     *)
(*    keeps the word it was started with, the new one stays programmed).    *)
(*                                                                          *)
(* Environment.  Software changes cs/cs_mode only while the core is idle    *)
(* and holds length/mosi during a transfer.  The slave is any device that   *)
(* changes miso only when it sees a falling clock edge or its chip-select   *)
(* falling (same cycle), and does not drive the pin while not selected      *)
(* (Consistent: this rule refers to pins of the same cycle).                *)
(***************************************************************************)
EXTENDS PeriphCommon, FiniteSets

VARIABLES m, obs
cvars == <<m, obs>>
SeqSet(q) == { q[i] : i \in 1..Len(q) }

(* m.x: <<>> idle, or the transfer in flight [len, w, r, f, acc]: r/f rising/falling     *)
(*      clock edges seen so far, acc the bits the slave presented at the rising edges   *)
(* m.cfg: <<cs, cs_mode>> programmed;  m.cst: cycles since it changed (capped at 2)     *)
(* m.idl: cycles since the last transfer ended / since power-up (capped at 2)           *)
(* m.pclk, m.pcsn, m.pmosi, m.pmiso: pins of the previous cycle                         *)
(* m.chk: <<>> or <<expected miso bits, len>> to be found in miso_word in this cycle    *)
(* m.hl: the length currently programmed (held) while busy                              *)
(* m.pmw: the word read back (miso_word) of the previous cycle                           *)
Init0 == [x |-> <<>>, cfg |-> <<1, 0>>, cst |-> 0, idl |-> 0, first |-> TRUE, pclk |-> 0, pcsn |-> 1, pmosi |-> 0, pmiso |-> 0,
          chk |-> <<>>, hl |-> 0, hw |-> 0, pmw |-> 0]

Inputs(c) ==
  LET M == {0, 1} IN
  IF m.x = <<>>
  THEN { <<0, 0, 0, q[1], q[2], b>> : q \in SeqSet(c.csopts), b \in M } \cup
       { <<1, l, w, m.cfg[1], m.cfg[2], b>> : l \in SeqSet(c.lens), w \in SeqSet(c.words), b \in M }
  ELSE { <<0, m.hl, w, m.cfg[1], m.cfg[2], b>> :
             w \in (IF Flag(c, "mosichg") = 1 THEN SeqSet(c.words) ELSE {m.hw}), b \in M } \cup
       (IF c.overlap = 1 THEN { <<1, m.hl, m.hw, m.cfg[1], m.cfg[2], b>> : b \in M }
        ELSE IF c.overlap = 2 THEN { <<1, l, m.hw, m.cfg[1], m.cfg[2], b>> : l \in SeqSet(c.lens), b \in M }
        ELSE {})

Consistent(c, iv, o) ==
  LET clk == o[4]  csn == o[5]  miso == iv[6]
      fell == clk = 0 /\ m.pclk = 1
  IN IF csn = 1 THEN miso = c.idle
     ELSE (miso # m.pmiso) => (fell \/ m.pcsn = 1)

AllOk == [okpulse |-> TRUE, okcs |-> TRUE, okpu |-> TRUE, okmosi |-> TRUE, okstable |-> TRUE, okmiso |-> TRUE,
          okheld |-> TRUE, okdone |-> TRUE, okirq |-> TRUE, fin |-> TRUE]

CInit(c) == m = Init0 /\ obs = AllOk

CStep(c, iv, o) ==
  LET start == iv[1]  len == iv[2]  word == iv[3]  miso == iv[6]
      done == o[1]  irq == o[2]  misow == o[3]  clk == o[4]  csn == o[5]  mosip == o[6]
      x      == m.x
      busy   == x # <<>>
      accept == ~busy /\ start = 1
      rose   == clk = 1 /\ m.pclk = 0
      fell   == clk = 0 /\ m.pclk = 1
      auto   == m.cfg[2] = 0
      sel    == m.cfg[1] = 1
      \* bit of the word that belongs to the k-th clock pulse (MSB first)
      WBit(k) == IF c.mode = "raw" THEN Bit(x.w, c.dw - k) ELSE Bit(x.w, x.len - k)
      \* ---- clauses
      \* exactly `length` pulses: no clock activity outside a transfer, never more than len edges,
      \* all of them over when the core reports the end
      okpulse == /\ (~busy => (clk = 0 /\ ~rose /\ ~fell))
                 /\ (busy /\ rose => x.r + 1 <= x.len /\ x.r = x.f)
                 /\ (busy /\ fell => x.f + 1 <= x.r)
                 /\ (busy /\ irq = 1 => (x.r = x.len /\ x.f + B(fell) = x.len))
      \* chip select frames the pulses (automatic mode), follows software (manual mode)
      okcs == /\ (busy /\ auto /\ sel /\ rose => (csn = 0 /\ m.pcsn = 0))
              /\ (busy /\ auto /\ sel /\ (fell \/ clk = 1) => csn = 0)
              /\ (~busy /\ auto /\ m.idl >= 2 /\ m.cst >= 2 => csn = 1)
              /\ (~sel /\ m.cst >= 2 => csn = 1)
              /\ (~auto /\ m.cst >= 2 => csn = 1 - m.cfg[1])
      \* no slave is selected in the first cycle after power-up (the other chip-select clauses give
      \* the registered cs_n output two cycles to settle)
      \* (judged in the scenarios with c.pu = 1)
      okpu == (c.pu = 1 /\ m.first) => csn = 1
      \* MOSI carries the word MSB first: the right bit is on the pin at every rising edge
      okmosi == (busy /\ rose /\ x.r + 1 <= x.len) => mosip = WBit(x.r + 1)
      \* and it changes only while the clock is low (falling edge or before the first pulse)
      okstable == (mosip # m.pmosi) => clk = 0
      \* the word read back holds the bits presented at the rising edges, MSB first
      okmiso == (m.chk # <<>>) => (misow % (2^(m.chk[2])) = m.chk[1])
      \* and software finds it there whenever it reads after the end (status polling, interrupt latency): the
      \* word changes only in the cycle it is delivered, not while the core idles or runs the next transfer
      okheld == (m.chk = <<>>) => misow = m.pmw
      \* done is low from the accepted start to the end, high when idle; irq pulses once, at the end
      okdone == done = B(~busy /\ start = 0)
      okirq  == irq = 1 => busy
      sample == IF c.loop = 1 THEN mosip ELSE miso
      nx == IF accept THEN [len |-> len, w |-> word, r |-> 0, f |-> 0, acc |-> 0]
            ELSE IF ~busy \/ irq = 1 THEN <<>>
            ELSE [x EXCEPT !.r = IF rose THEN Min(x.r + 1, c.dw + 1) ELSE x.r,
                           !.f = IF fell THEN Min(x.f + 1, c.dw + 1) ELSE x.f,
                           !.acc = IF rose THEN (x.acc * 2 + sample) % (2^c.dw) ELSE x.acc]
  IN
  /\ m' = [x     |-> nx, first |-> FALSE,
           cfg   |-> <<iv[4], iv[5]>>,
           cst   |-> IF <<iv[4], iv[5]>> = m.cfg THEN Min(m.cst + 1, 2) ELSE 0,
           idl   |-> IF busy \/ accept THEN 0 ELSE Min(m.idl + 1, 2),
           pclk  |-> clk, pcsn |-> csn, pmosi |-> mosip, pmiso |-> miso,
           chk   |-> IF busy /\ irq = 1 THEN <<x.acc % (2^x.len), x.len>> ELSE <<>>,
           hl    |-> IF accept \/ (busy /\ start = 1) THEN len ELSE m.hl,
           hw    |-> IF accept \/ busy THEN word ELSE m.hw,
           pmw   |-> misow]
  /\ obs' = [okpulse |-> okpulse, okcs |-> okcs, okpu |-> okpu, okmosi |-> okmosi, okstable |-> okstable, okmiso |-> okmiso,
             okheld |-> okheld, okdone |-> okdone, okirq |-> okirq, fin |-> (nx = <<>>)]
  /\ WitIf(busy /\ irq = 1 /\ x.len > 1, c, 0, "transfer completed")
  /\ WitIf(accept /\ m.idl = 0, c, 1, "back-to-back start")
  /\ WitIf(busy /\ start = 1, c, 2, "start during a transfer")
  /\ WitIf(m.chk # <<>> /\ m.chk[1] # 0 /\ m.chk[1] # 2^(m.chk[2]) - 1, c, 3, "mixed miso bits read back")
  /\ WitIf(busy /\ ~auto /\ irq = 1, c, 4, "transfer under manual chip select")
  /\ WitIf(busy /\ start = 0 /\ word # x.w /\ x.r < x.len, c, 5,
           "mosi register rewritten during a transfer")
  /\ WitIf(busy /\ rose /\ x.r >= 1 /\ m.chk = <<>> /\ misow # 0 /\ misow # 2^c.dw - 1, c, 6,
           "read-back word held during the next transfer")

ExactPulseCount  == obs.okpulse
ChipSelectFrames == obs.okcs
DeselectedAtPowerUp == obs.okpu
MosiMsbFirst     == obs.okmosi
MosiStableWhileHigh == obs.okstable
MisoCaptured     == obs.okmiso
MisoHeld         == obs.okheld
DoneMeansIdle    == obs.okdone
IrqOnlyAtEnd     == obs.okirq
=============================================================================
