------------------------------- MODULE Timers -------------------------------
(***************************************************************************)
(* L1 contracts of the counting cores of property C19:                      *)
(*   Timer (timer.py), Watchdog (watchdog.py), WaitTimer and timeline       *)
(*   (gen/genlib/misc.py), PWM (pwm.py).                                    *)
(* One step = one sys-clock cycle.  iv = what the environment drives in the *)
(* cycle, o = what is visible in the same cycle (CSR values, pins).  The    *)
(* cores with CSRs sit behind a real CSRBank on a 32-bit CSR bus; a bus     *)
(* write issued in cycle t is visible in the register from cycle t+1 on     *)
(* (that part is property C12; here the register values are observed).      *)
(*                                                                          *)
(* c.kind = "timer"   iv = <<op, reg, data>>  op 1 = CSR write              *)
(*            reg: 0 load 1 reload 2 en 3 update_value 6 ev_pending 7 ev_enable *)
(*            o  = <<load, reload, en, value, zero_status, pending, enable, irq>> *)
(* c.kind = "wdt"     iv = <<op, reg, data, halted>>                        *)
(*            reg: 0 control (data bits: 0 feed 1 enable 2 reset 3 pause_halted) *)
(*                 1 cycles 4 ev_pending 5 ev_enable                        *)
(*            o  = <<cycles, remaining, control, wdt_status, pending, enable, irq, crg_rst>> *)
(* c.kind = "wait"    iv = <<wait>>  o = <<done>>          WaitTimer(c.t)   *)
(* c.kind = "tline"   iv = <<trigger>>  o = <<mask of event pulses>>        *)
(* c.kind = "pwm"     iv = <<enable, reset, width, period>>  o = <<pwm>>    *)
(***************************************************************************)
EXTENDS PeriphCommon, FiniteSets

VARIABLES m,     \* abstract state of the contract (a record whose shape depends on c.kind)
          obs    \* verdict bits of the last step + what liveness needs
cvars == <<m, obs>>

SeqSet(q) == { q[i] : i \in 1..Len(q) }

AllOk == [okzero |-> TRUE, okvalue |-> TRUE, okpend |-> TRUE, okirq |-> TRUE, okos |-> TRUE,
          okperiod |-> TRUE, okrem |-> TRUE, okfire |-> TRUE, okearly |-> TRUE, okonly |-> TRUE, okrst |-> TRUE,
          okwait |-> TRUE, oktl |-> TRUE, okduty |-> TRUE, okblock |-> TRUE, okoff |-> TRUE,
          run |-> FALSE, fin |-> TRUE]

---------------------------------------------------------------------------
(* Timer.  Documented (timer.py docstring): a down counter; while disabled it is loaded  *)
(* with `load`; while enabled it counts one step per cycle; when it reaches 0 it is      *)
(* reloaded with `reload` (0 = stay: one-shot); the zero event is raised when the count  *)
(* reaches 0; a write to update_value latches the count into `value`.                    *)
(* c.lv / c.rv: values software writes to load / reload; c.regs: the other registers it   *)
(* writes in this scenario (2 en, 3 update_value, 6 ev_pending (W1C), 7 ev_enable)         *)
TimerInputs(c) ==
  {<<0, 0, 0>>} \cup { <<1, 0, x>> : x \in SeqSet(c.lv) } \cup { <<1, 1, x>> : x \in SeqSet(c.rv) } \cup
  { x \in { <<1, 2, 0>>, <<1, 2, 1>>, <<1, 3, 1>>, <<1, 6, 1>>, <<1, 7, 0>>, <<1, 7, 1>> } : x[2] \in SeqSet(c.regs) }

TimerInit == [cnt |-> 0, zp |-> FALSE, lat |-> 0, expv |-> 0, rp |-> FALSE, pp |-> 0, wc |-> 4,
              age |-> 0, l0 |-> 0, os |-> TRUE, since |-> -1, rl |-> 0]

TimerStep(c, iv, o) ==
  LET load == o[1]  reload == o[2]  en == o[3]  value == o[4]
      zst == o[5]   pend == o[6]    enab == o[7]  irq == o[8]
      zero == m.cnt = 0
      rise == zero /\ ~m.zp                         \* the count reaches zero in this cycle
      cap  == 2^c.w
      \* the zero status shows exactly "count = 0" (one step per enabled cycle, load, reload)
      okzero  == zst = B(zero)
      \* value holds the count of the cycle in which the update_value write took effect
      okvalue == value = m.expv
      \* the event is raised (pending, one cycle later) exactly when the count reaches zero,
      \* and goes away only by a W1C write of software
      okpend  == /\ (m.rp => pend = 1)
                 /\ (pend = 1 /\ m.pp = 0 => m.rp)
                 /\ (pend = 0 /\ m.pp = 1 => m.wc <= 3)
      okirq   == irq = B(pend = 1 /\ enab = 1)
      \* one-shot (reload = 0): zero exactly `load` cycles after enabling, and it stays
      okos    == (en = 1 /\ m.os) => ((zst = 1) <=> (m.age >= m.l0))
      \* periodic: "the value written to [reload] specify the Timer's period in clock cycles"
      \* (judged in the scenarios with c.period = 1 only)
      okperiod == (c.period = 1 /\ rise /\ m.since >= 0 /\ en = 1 /\ reload = m.rl) => m.since = reload
  IN
  /\ m' = [cnt  |-> IF en = 0 THEN load ELSE IF m.cnt = 0 THEN reload ELSE m.cnt - 1,
           zp   |-> zero,
           lat  |-> B(iv[1] = 1 /\ iv[2] = 3),
           expv |-> IF m.lat = 1 THEN m.cnt ELSE m.expv,
           rp   |-> rise,
           pp   |-> pend,
           wc   |-> IF iv[1] = 1 /\ iv[2] = 6 /\ iv[3] = 1 THEN 1 ELSE Min(m.wc + 1, 4),
           age  |-> IF en = 0 THEN 0 ELSE Min(m.age + 1, cap),
           l0   |-> IF en = 0 THEN load ELSE m.l0,
           os   |-> IF en = 0 THEN TRUE ELSE m.os /\ reload = 0,
           since |-> IF en = 0 THEN -1 ELSE IF rise THEN 1
                     ELSE IF m.since < 0 \/ reload # m.rl THEN -1 ELSE Min(m.since + 1, cap + 2),
           rl   |-> IF rise THEN reload ELSE m.rl]
  /\ obs' = [AllOk EXCEPT !.okzero = okzero, !.okvalue = okvalue, !.okpend = okpend, !.okirq = okirq,
                          !.okos = okos, !.okperiod = okperiod, !.run = (en = 1), !.fin = (zst = 1)]
  /\ WitIf(rise /\ en = 1 /\ m.os /\ m.l0 > 1, c, 0, "one-shot expired")
  /\ WitIf(rise /\ m.since > 1, c, 1, "periodic reload")
  /\ WitIf(m.lat = 1 /\ m.cnt > 0, c, 2, "running count latched")
  /\ WitIf(pend = 0 /\ m.pp = 1, c, 3, "event cleared")

---------------------------------------------------------------------------
(* Watchdog.  `remaining` is set to `cycles` by a feed, counts down one per enabled      *)
(* (enable and not paused-by-halt) cycle and saturates at 0; the time-out event/status   *)
(* is raised when the count is at zero, never while it is not; with reset mode the SoC   *)
(* reset is asserted c.rd cycles after the time-out and only then.                       *)
WdtInputs(c) ==
  LET H == IF c.halt = 1 THEN {0, 1} ELSE {0} IN
  UNION { {<<0, 0, 0, h>>} \cup { <<1, 0, x, h>> : x \in SeqSet(c.ctl) } \cup
          { <<1, 1, x, h>> : x \in SeqSet(c.vals) } \cup
          { <<1, 4, 1, h>>, <<1, 5, 0, h>>, <<1, 5, 1, h>> } : h \in H }

WdtInit == [rem |-> 0, fd |-> 0, due |-> FALSE, zp |-> 0, remp |-> 0, pena |-> FALSE, tc |-> 0, wp |-> FALSE,
            rp |-> FALSE, pp |-> 0, wc |-> 4]

WdtStep(c, iv, o) ==
  LET cycles == o[1]  remaining == o[2]  ctl == o[3]  zst == o[4]
      pend == o[5]    enab == o[6]       irq == o[7]  rst == o[8]
      ena  == Bit(ctl, 1) = 1 /\ ~(iv[4] = 1 /\ Bit(ctl, 3) = 1)
      fd   == m.fd = 1                               \* the feed pulse is in effect in this cycle
      wait == zst = 1 /\ Bit(ctl, 2) = 1               \* timed out in reset mode
      rise == zst = 1 /\ m.zp = 0
      okrem  == remaining = m.rem
      okfire == (m.due /\ ena) => zst = 1
      \* no time-out while the count is not at zero: (okearly) while the watchdog stays enabled, and
      \* (okonly, judged in the scenarios with c.strict = 1) also in the cycle it is (re-)enabled / un-paused
      okearly == /\ ((rise /\ m.pena) => (remaining = 0 \/ m.remp = 0))
                 /\ (zst = 1 => ena)
      okonly == (c.strict = 1 /\ rise /\ ~m.pena) => (remaining = 0 \/ m.remp = 0)
      okrst  == IF c.rd < 0 THEN TRUE
                ELSE /\ (rst = 1 => (m.tc >= c.rd /\ (wait \/ m.wp)))
                     /\ ((m.tc >= c.rd /\ (c.rd >= 1 \/ wait)) => rst = 1)
      okpend == /\ (m.rp => pend = 1)
                /\ (pend = 1 /\ m.pp = 0 => m.rp)
                /\ (pend = 0 /\ m.pp = 1 => m.wc <= 3)
      okirq  == irq = B(pend = 1 /\ enab = 1)
  IN
  /\ m' = [rem  |-> IF fd THEN cycles ELSE IF ena THEN Max(m.rem - 1, 0) ELSE m.rem,
           fd   |-> B(iv[1] = 1 /\ iv[2] = 0 /\ Bit(iv[3], 0) = 1),
           due  |-> ena /\ ~fd /\ m.rem = 0,
           zp   |-> zst,
           remp |-> remaining,
           pena |-> ena,
           tc   |-> IF wait THEN Min(m.tc + 1, Max(c.rd, 0) + 1) ELSE 0,
           wp   |-> wait,
           rp   |-> rise,
           pp   |-> pend,
           wc   |-> IF iv[1] = 1 /\ iv[2] = 4 /\ iv[3] = 1 THEN 1 ELSE Min(m.wc + 1, 4)]
  /\ obs' = [AllOk EXCEPT !.okrem = okrem, !.okfire = okfire, !.okearly = okearly, !.okonly = okonly, !.okrst = okrst,
                          !.okpend = okpend, !.okirq = okirq, !.run = (ena /\ ~fd), !.fin = (zst = 1)]
  /\ WitIf(rise /\ m.due, c, 0, "watchdog timed out")
  /\ WitIf(ena /\ ~fd /\ m.rem = 0 /\ m.due, c, 1, "remaining saturated at zero")
  /\ WitIf(fd /\ m.rem # cycles /\ m.rem > 0, c, 2, "fed while counting")
  /\ WitIf(rst = 1 /\ c.rd >= 1, c, 3, "reset asserted")
  /\ WitIf(iv[4] = 1 /\ Bit(ctl, 3) = 1 /\ Bit(ctl, 1) = 1 /\ m.rem > 0, c, 4, "paused by halt")

---------------------------------------------------------------------------
(* WaitTimer(t): done is high exactly when `wait` has been high during the t preceding cycles *)
WaitInputs(c) == {<<0>>, <<1>>}
WaitInit == [run |-> 0]
WaitStep(c, iv, o) ==
  /\ m' = [run |-> IF iv[1] = 1 THEN Min(m.run + 1, c.t) ELSE 0]
  /\ obs' = [AllOk EXCEPT !.okwait = (o[1] = B(m.run >= c.t)), !.run = (iv[1] = 1), !.fin = (o[1] = 1)]
  /\ WitIf(o[1] = 1 /\ c.t > 0, c, 0, "wait timer done")

(* timeline(trigger, events): a trigger accepted while idle executes the statements of  *)
(* event (e, ...) exactly e cycles later (visible one cycle after that); triggers during *)
(* a running sequence are ignored; idle again the cycle after the last event.            *)
TlInputs(c) == {<<0>>, <<1>>}
TlInit == [t |-> -1, pc |-> -1]
TlStep(c, iv, o) ==
  LET last == c.ev[Len(c.ev)]
      cur  == IF m.t >= 1 THEN m.t ELSE IF iv[1] = 1 THEN 0 ELSE -1   \* event time executed in this cycle
      Mask(e) == IF e < 0 THEN 0
                 ELSE LET S == { k \in 1..Len(c.ev) : c.ev[k] = e }
                          RECURSIVE Sum(_)
                          Sum(T) == IF T = {} THEN 0 ELSE LET k == CHOOSE k \in T : TRUE IN 2^(k - 1) + Sum(T \ {k})
                      IN Sum(S)
  IN
  /\ m' = [t  |-> IF m.t >= 1 THEN (IF m.t >= last THEN -1 ELSE m.t + 1)
                  ELSE IF iv[1] = 1 THEN (IF last = 0 THEN -1 ELSE 1) ELSE -1,
           pc |-> cur]
  /\ obs' = [AllOk EXCEPT !.oktl = (o[1] = Mask(m.pc)), !.run = TRUE, !.fin = (m.t = -1)]
  /\ WitIf(m.pc = last /\ last > 0, c, 0, "timeline completed")
  /\ WitIf(m.t >= 1 /\ iv[1] = 1, c, 1, "trigger while busy")

---------------------------------------------------------------------------
(* PWM: "active high for Width cycles and active low for Period - Width cycles".  Once   *)
(* enable/width/period have been steady for a period, every window of `period` cycles    *)
(* holds exactly min(width, period) high cycles in one block; disabled = low.  Nothing   *)
(* is documented about the transient after a reconfiguration: no claim for it.           *)
(* The environment changes at most one of enable/reset/width/period per cycle.           *)
PwmInputs(c) ==
  LET b == m.cfg IN
  {b} \cup {<<1 - b[1], b[2], b[3], b[4]>>, <<b[1], 1 - b[2], b[3], b[4]>>} \cup
  { <<b[1], b[2], w, b[4]>> : w \in 0..c.wmax } \cup { <<b[1], b[2], b[3], p>> : p \in 1..c.pmax }

PwmInit == [cfg |-> <<0, 0, 0, 1>>, st |-> 0, hist |-> <<>>, pe |-> 0]

PwmStep(c, iv, o) ==
  LET pwm == o[1]
      P == iv[4]
      W == iv[3]
      st == IF iv = m.cfg THEN Min(m.st + 1, c.pmax + 3) ELSE 0
      win == SubSeq(<<pwm>> \o m.hist, 1, Min(P, Len(m.hist) + 1))        \* newest first
      RECURSIVE Ones(_)
      Ones(q) == IF q = <<>> THEN 0 ELSE q[1] + Ones(Tail(q))
      rises == Cardinality({ j \in 1..(Len(win) - 1) : win[j] = 1 /\ win[j + 1] = 0 })
      steady == iv[1] = 1 /\ iv[2] = 0 /\ st >= P + 2 /\ Len(win) = P
  IN
  /\ m' = [cfg |-> iv, st |-> st, hist |-> SubSeq(<<pwm>> \o m.hist, 1, Min(c.pmax, Len(m.hist) + 1)), pe |-> iv[1]]
  /\ obs' = [AllOk EXCEPT !.okduty = (steady => Ones(win) = Min(W, P)),
                          !.okblock = (steady => rises <= 1),
                          !.okoff = (m.pe = 0 => pwm = 0),
                          !.run = TRUE, !.fin = TRUE]
  /\ WitIf(steady /\ W > 0 /\ W < P /\ P > 2, c, 0, "steady partial duty")
  /\ WitIf(steady /\ W > P, c, 1, "width above period")

---------------------------------------------------------------------------
Inputs(c) == CASE c.kind = "timer" -> TimerInputs(c)
               [] c.kind = "wdt"   -> WdtInputs(c)
               [] c.kind = "wait"  -> WaitInputs(c)
               [] c.kind = "tline" -> TlInputs(c)
               [] c.kind = "pwm"   -> PwmInputs(c)

CInit(c) ==
  /\ m = CASE c.kind = "timer" -> TimerInit
           [] c.kind = "wdt"   -> WdtInit
           [] c.kind = "wait"  -> WaitInit
           [] c.kind = "tline" -> TlInit
           [] c.kind = "pwm"   -> PwmInit
  /\ obs = AllOk

CStep(c, iv, o) == CASE c.kind = "timer" -> TimerStep(c, iv, o)
                     [] c.kind = "wdt"   -> WdtStep(c, iv, o)
                     [] c.kind = "wait"  -> WaitStep(c, iv, o)
                     [] c.kind = "tline" -> TlStep(c, iv, o)
                     [] c.kind = "pwm"   -> PwmStep(c, iv, o)

---------------------------------------------------------------------------
CountsToZero       == obs.okzero     \* Timer: zero status = the documented count is 0, every cycle
ValueLatched       == obs.okvalue    \* Timer: update_value latches the current count
EventWhenZero      == obs.okpend     \* Timer/Watchdog: pending raised exactly by the event, cleared only by W1C
IrqIsPendingEnabled == obs.okirq
OneShotExact       == obs.okos       \* Timer: one-shot expires after exactly `load` cycles
PeriodAsDocumented == obs.okperiod   \* Timer: periodic mode, period = reload cycles (CSR description)
RemainingRule      == obs.okrem      \* Watchdog: feed / count down / hold / saturate
WdtFiresAtZero     == obs.okfire     \* Watchdog: time-out signalled one cycle after the count is 0
WdtNotEarly        == obs.okearly    \* Watchdog: no time-out while enabled and the count is not 0; none while disabled
WdtOnlyAtZero      == obs.okonly     \* Watchdog: nor in the cycle it is re-enabled / un-paused with a count that is not 0
WdtReset           == obs.okrst      \* Watchdog: reset exactly rd cycles after a time-out in reset mode
WaitTimerExact     == obs.okwait
TimelineExact      == obs.oktl
PwmDuty            == obs.okduty
PwmOneBlock        == obs.okblock
PwmOffWhenDisabled == obs.okoff
=============================================================================
