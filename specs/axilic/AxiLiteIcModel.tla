--------------------------- MODULE AxiLiteIcModel ---------------------------
(***************************************************************************)
(* L2 model of the AXI-Lite interconnect of LiteX                           *)
(* (litex/soc/interconnect/axi/axi_lite.py), transcribed register for       *)
(* register from the source; names follow the code.                         *)
(*                                                                         *)
(*   _AXILiteRequestCounter          Counter*                               *)
(*   migen.genlib.roundrobin.RoundRobin(n, SP_CE)   RRNext                  *)
(*   AXILiteArbiter                  ArbDown / ArbUp / ArbNext, ArbiterStep *)
(*   AXILiteDecoder                  DecSel / DecDown / DecUp / DecNext,    *)
(*                                   DecoderStep                            *)
(*   AXILiteInterconnectPointToPoint, AXILiteInterconnectShared (without    *)
(*   time-out), AXILiteCrossbar      IcEval                                 *)
(*                                                                         *)
(* plus the test bench of harness/families/axilic.py (tagged masters,       *)
(* wish-driven slaves with their counters) so that one step of the model    *)
(* is one step of the netlist the G-mode check explores: MInit(c),          *)
(* MStep(c, r, iv) = [o |-> outputs, r |-> next registers].                 *)
(*                                                                         *)
(* BOTH directions are always present, as in the code: the write logic      *)
(* (AW, W, B: rr_write, wr_lock, slave_sel_reg["write"], locks["write"])    *)
(* and the read logic (AR, R) live side by side in every arbiter and        *)
(* decoder.  A one-direction netlist is the same model with the other       *)
(* direction's pins at 0.                                                   *)
(*                                                                         *)
(* The model gives no verdict (DESIGN.md section 9).  It describes what     *)
(* the code does, including the behaviours listed as known findings of C08  *)
(* (the decoder decodes aw.addr while aw.valid = 0; the frozen select keeps *)
(* forwarding the address channel; rr.ce needs a completely idle bus).      *)
(*                                                                         *)
(* One-bit signals are 0/1, wider ones naturals.  An interface is split in  *)
(* its two directions (AXILiteInterface.layout_flat):                       *)
(*   D (DIR_M_TO_S): aw_valid aw_addr w_valid w_data b_ready                *)
(*                   ar_valid ar_addr r_ready                               *)
(*   U (DIR_S_TO_M): aw_ready w_ready b_valid b_resp                        *)
(*                   ar_ready r_valid r_resp r_data                         *)
(* (w.strb travels with w.data and is left out: no register and no output   *)
(* of the test bench depends on it.)  No combinational path leads from a    *)
(* U signal to a D signal in any of the modules, so every module is given   *)
(* as  Down (D outputs from D inputs), Up (U outputs from U inputs) and     *)
(* Next (registers).                                                        *)
(*                                                                         *)
(* c: kind ("p2p" | "arbiter" | "decoder" | "shared" | "crossbar"), n, m,   *)
(*    bases, size (address regions of the slaves), idle (address a test     *)
(*    bench master shows while it offers nothing),                          *)
(*    dirs ("w" | "r" | "rw": which directions the test bench drives and    *)
(*    shows)                                                                *)
(***************************************************************************)
EXTENDS Integers, Sequences, FiniteSets

Bit(x, k) == (x \div (2 ^ k)) % 2               \* x[k]
And(a, b) == IF a = 1 /\ b = 1 THEN 1 ELSE 0
Or(a, b)  == IF a = 1 \/ b = 1 THEN 1 ELSE 0
Not(a)    == 1 - a
Rep(b, x) == IF b = 1 THEN x ELSE 0             \* x & Replicate(b, len(x))
RECURSIVE BOr(_, _)                             \* bitwise or
BOr(a, b) == IF a = 0 THEN b ELSE IF b = 0 THEN a
             ELSE (IF a % 2 = 1 \/ b % 2 = 1 THEN 1 ELSE 0) + 2 * BOr(a \div 2, b \div 2)
RECURSIVE OrAllR(_, _)
OrAllR(f, j) == IF j = 0 THEN 0 ELSE BOr(f[j], OrAllR(f, j - 1))
OrAll(f, n) == OrAllR(f, n)                     \* reduce(or_, [f[1], ..., f[n]])
RECURSIVE FlatR(_, _)
FlatR(f, j) == IF j = 0 THEN <<>> ELSE FlatR(f, j - 1) \o f[j]
Flat(f, n) == FlatR(f, n)
(* <<F(1), ..., F(n)>> as a tuple, n <= 4 (port counts of the model).  TLC    *)
(* evaluates a tuple once, whereas [i \in 1..n |-> F(i)] is evaluated again  *)
(* at every application - with the nesting of arbiters and decoders that is  *)
(* exponential.                                                             *)
Tab(F(_), n) == CASE n = 0 -> <<>> [] n = 1 -> <<F(1)>> [] n = 2 -> <<F(1), F(2)>>
                  [] n = 3 -> <<F(1), F(2), F(3)>> [] n = 4 -> <<F(1), F(2), F(3), F(4)>>

D0 == [aw_valid |-> 0, aw_addr |-> 0, w_valid |-> 0, w_data |-> 0, b_ready |-> 0,
       ar_valid |-> 0, ar_addr |-> 0, r_ready |-> 0]
U0 == [aw_ready |-> 0, w_ready |-> 0, b_valid |-> 0, b_resp |-> 0,
       ar_ready |-> 0, r_valid |-> 0, r_resp |-> 0, r_data |-> 0]

---------------------------------------------------------------------------
(* class _AXILiteRequestCounter(request, response, max_requests=256)        *)
(*   full  = counter == max_requests - 1;  empty = counter == 0;  ready = empty *)
(*   sync: If(request & response, counter.eq(counter))                      *)
(*         .Elif(request & ~full, counter + 1).Elif(response & ~empty, counter - 1) *)
MaxRequests == 256
CounterFull(counter)  == counter = MaxRequests - 1
CounterEmpty(counter) == counter = 0
CounterReady(counter) == IF CounterEmpty(counter) THEN 1 ELSE 0
CounterNext(counter, request, response) ==
  IF request = 1 /\ response = 1 THEN counter
  ELSE IF request = 1 /\ ~CounterFull(counter) THEN counter + 1
  ELSE IF response = 1 /\ ~CounterEmpty(counter) THEN counter - 1
  ELSE counter

---------------------------------------------------------------------------
(* migen.genlib.roundrobin.RoundRobin(n, SP_CE): n = 1: grant is the         *)
(* constant 0.  Else  sync: If(ce, Case(grant, {i: first requesting of       *)
(* i+1, i+2, ..., i+n-1 (mod n), else unchanged})); a grant value without    *)
(* a case (>= n) keeps its value.  request: [0..n-1 -> 0/1]                  *)
RRNext(n, grant, request, ce) ==
  IF n <= 1 \/ ce = 0 \/ grant >= n THEN grant
  ELSE LET hits == { k \in 1..(n - 1) : request[(grant + k) % n] = 1 }
       IN IF hits = {} THEN grant
          ELSE (grant + (CHOOSE k \in hits : \A x \in hits : k <= x)) % n

---------------------------------------------------------------------------
(* class AXILiteArbiter(masters, target)                                    *)
(*   a = [rr_write, rr_read (grants), wr_lock, rd_lock (counters)]          *)
(*   md: [1..n -> D] of the masters, tu: U of the target                    *)
ArbPick(n, grant) == IF grant < n THEN grant + 1 ELSE n      \* Array(...)[grant], 1-based
\* "Mux master->slave signals": target.<ch>.<sig> = choices[rr.grant]
ArbDown(n, a, md) ==
  LET w == md[ArbPick(n, a.rr_write)]
      r == md[ArbPick(n, a.rr_read)]
  IN [aw_valid |-> w.aw_valid, aw_addr |-> w.aw_addr, w_valid |-> w.w_valid, w_data |-> w.w_data,
      b_ready |-> w.b_ready, ar_valid |-> r.ar_valid, ar_addr |-> r.ar_addr, r_ready |-> r.r_ready]
\* "Connect slave->master signals": valid/ready only to the granted master, payload to all
ArbUp(n, a, tu) ==
  Tab(LAMBDA i :
     [aw_ready |-> IF a.rr_write = i - 1 THEN tu.aw_ready ELSE 0,
      w_ready  |-> IF a.rr_write = i - 1 THEN tu.w_ready ELSE 0,
      b_valid  |-> IF a.rr_write = i - 1 THEN tu.b_valid ELSE 0,
      b_resp   |-> tu.b_resp,
      ar_ready |-> IF a.rr_read = i - 1 THEN tu.ar_ready ELSE 0,
      r_valid  |-> IF a.rr_read = i - 1 THEN tu.r_valid ELSE 0,
      r_resp   |-> tu.r_resp,
      r_data   |-> tu.r_data], n)
\* t = ArbDown(...), mu = ArbUp(...)
ArbNext(n, a, md, t, tu, mu) ==
  LET \* rr.ce: "Switch to next request only if there are no responses pending"
      ce_write == And(Not(Or(Or(t.aw_valid, t.w_valid), tu.b_valid)), CounterReady(a.wr_lock))
      ce_read  == And(Not(Or(t.ar_valid, tu.r_valid)), CounterReady(a.rd_lock))
      \* rr.request = Cat(m.aw.valid | m.w.valid | m.b.valid ...)
      rq_write == [k \in 0..(n - 1) |-> Or(Or(md[k + 1].aw_valid, md[k + 1].w_valid), mu[k + 1].b_valid)]
      rq_read  == [k \in 0..(n - 1) |-> Or(md[k + 1].ar_valid, mu[k + 1].r_valid)]
  IN [rr_write |-> RRNext(n, a.rr_write, rq_write, ce_write),
      rr_read  |-> RRNext(n, a.rr_read, rq_read, ce_read),
      wr_lock  |-> CounterNext(a.wr_lock, And(t.aw_valid, tu.aw_ready), And(tu.b_valid, t.b_ready)),
      rd_lock  |-> CounterNext(a.rd_lock, And(t.ar_valid, tu.ar_ready), And(tu.r_valid, t.r_ready))]
ArbInit == [rr_write |-> 0, rr_read |-> 0, wr_lock |-> 0, rd_lock |-> 0]
\* the module on its own: inputs = masters' D and the target's U
ArbiterStep(n, a, iv) ==
  LET t  == ArbDown(n, a, iv.masters)
      mu == ArbUp(n, a, iv.target)
  IN [o |-> [target |-> t, masters |-> mu], r |-> ArbNext(n, a, iv.masters, t, iv.target, mu)]

---------------------------------------------------------------------------
(* class AXILiteDecoder(master, slaves)                                     *)
(*   dd = [sel_write, sel_read (slave_sel_reg, bit j-1 = slave j),          *)
(*         lock_write, lock_read (locks[...] counters)]                     *)
(*   t: D of the master, su: [1..m -> U] of the slaves                      *)
\* SoCRegion(origin, size).decoder: a[log2(size):] == origin >> log2(size)
Decode(base, size, addr) == (addr \div size) = (base \div size)
RECURSIVE SelDecR(_, _, _)
SelDecR(c, addr, j) == IF j = 0 THEN 0
                       ELSE (IF Decode(c.bases[j], c.size, addr) THEN 2 ^ (j - 1) ELSE 0) + SelDecR(c, addr, j - 1)
SelDec(c, addr) == SelDecR(c, addr, c.m)            \* slave_sel_dec (decoded whatever the valid bit says)
\* "We have to cut the delaying select": slave_sel = dec while the lock is ready, else reg
DecSel(c, dd, t) ==
  [write |-> IF CounterReady(dd.lock_write) = 1 THEN SelDec(c, t.aw_addr) ELSE dd.sel_write,
   read  |-> IF CounterReady(dd.lock_read) = 1 THEN SelDec(c, t.ar_addr) ELSE dd.sel_read]
\* "Connect master->slaves signals except valid/ready", valid/ready masked with the selection
DecDown(c, dd, t) ==
  LET s == DecSel(c, dd, t)
  IN Tab(LAMBDA j :
        [aw_valid |-> And(t.aw_valid, Bit(s.write, j - 1)), aw_addr |-> t.aw_addr,
         w_valid  |-> And(t.w_valid, Bit(s.write, j - 1)),  w_data  |-> t.w_data,
         b_ready  |-> And(t.b_ready, Bit(s.write, j - 1)),
         ar_valid |-> And(t.ar_valid, Bit(s.read, j - 1)),  ar_addr |-> t.ar_addr,
         r_ready  |-> And(t.r_ready, Bit(s.read, j - 1))], c.m)
\* "Connect slave->master signals masking not selected slaves": reduce(or_, src & mask)
DecUp(c, dd, t, su) ==
  LET s == DecSel(c, dd, t)
      W(f(_)) == OrAll(Tab(LAMBDA j : Rep(Bit(s.write, j - 1), f(su[j])), c.m), c.m)
      R(f(_)) == OrAll(Tab(LAMBDA j : Rep(Bit(s.read, j - 1), f(su[j])), c.m), c.m)
  IN [aw_ready |-> W(LAMBDA u : u.aw_ready), w_ready |-> W(LAMBDA u : u.w_ready),
      b_valid  |-> W(LAMBDA u : u.b_valid),  b_resp  |-> W(LAMBDA u : u.b_resp),
      ar_ready |-> R(LAMBDA u : u.ar_ready), r_valid |-> R(LAMBDA u : u.r_valid),
      r_resp   |-> R(LAMBDA u : u.r_resp),   r_data  |-> R(LAMBDA u : u.r_data)]
\* tu = DecUp(...)
DecNext(c, dd, t, tu) ==
  [\* "Change the current selection only when we've got all responses"
   sel_write  |-> IF CounterReady(dd.lock_write) = 1 THEN SelDec(c, t.aw_addr) ELSE dd.sel_write,
   sel_read   |-> IF CounterReady(dd.lock_read) = 1 THEN SelDec(c, t.ar_addr) ELSE dd.sel_read,
   lock_write |-> CounterNext(dd.lock_write, And(t.aw_valid, tu.aw_ready), And(tu.b_valid, t.b_ready)),
   lock_read  |-> CounterNext(dd.lock_read, And(t.ar_valid, tu.ar_ready), And(tu.r_valid, t.r_ready))]
DecInit == [sel_write |-> 0, sel_read |-> 0, lock_write |-> 0, lock_read |-> 0]
DecoderStep(c, dd, iv) ==
  LET sd == DecDown(c, dd, iv.master)
      tu == DecUp(c, dd, iv.master, iv.slaves)
  IN [o |-> [slaves |-> sd, master |-> tu], r |-> DecNext(c, dd, iv.master, tu)]

---------------------------------------------------------------------------
(* The interconnects.  Registers of the whole netlist, flat (one sequence   *)
(* per register name, one element per instance):                            *)
(*   rr_write, rr_read, wr_lock, rd_lock     per arbiter                    *)
(*   sel_write, sel_read, lock_write, lock_read   per decoder               *)
(*   tbw_ca, tbw_cw, tbw_hold, tbr_ca, tbr_hold   per slave (test bench)    *)
NArb(c) == CASE c.kind \in {"arbiter", "shared"} -> 1 [] c.kind = "crossbar" -> c.m [] OTHER -> 0
NDec(c) == CASE c.kind \in {"decoder", "shared"} -> 1 [] c.kind = "crossbar" -> c.n [] OTHER -> 0
ArbOf(r, x) == [rr_write |-> r.rr_write[x], rr_read |-> r.rr_read[x], wr_lock |-> r.wr_lock[x], rd_lock |-> r.rd_lock[x]]
DecOf(r, x) == [sel_write |-> r.sel_write[x], sel_read |-> r.sel_read[x],
                lock_write |-> r.lock_write[x], lock_read |-> r.lock_read[x]]

(* md: [1..n -> D] from the masters, su: [1..m -> U] from the slaves          *)
(* -> [sd |-> [1..m -> D] to the slaves, mu |-> [1..n -> U] to the masters,   *)
(*     arbs |-> next arbiter registers, decs |-> next decoder registers]      *)
IcEval(c, r, md, su) ==
  CASE c.kind = "p2p" ->
         \* AXILiteInterconnectPointToPoint: master.connect(slave)
         [sd |-> <<md[1]>>, mu |-> <<su[1]>>, arbs |-> <<>>, decs |-> <<>>]
    [] c.kind = "arbiter" ->
         LET e == ArbiterStep(c.n, ArbOf(r, 1), [masters |-> md, target |-> su[1]])
         IN [sd |-> <<e.o.target>>, mu |-> e.o.masters, arbs |-> <<e.r>>, decs |-> <<>>]
    [] c.kind = "decoder" ->
         LET e == DecoderStep(c, DecOf(r, 1), [master |-> md[1], slaves |-> su])
         IN [sd |-> e.o.slaves, mu |-> <<e.o.master>>, arbs |-> <<>>, decs |-> <<e.r>>]
    [] c.kind = "shared" ->
         \* AXILiteInterconnectShared: shared = AXILiteInterface(); arbiter(masters, shared); decoder(shared, slaves)
         LET a  == ArbOf(r, 1)
             dd == DecOf(r, 1)
             shared_d == ArbDown(c.n, a, md)
             sd == DecDown(c, dd, shared_d)
             shared_u == DecUp(c, dd, shared_d, su)
             mu == ArbUp(c.n, a, shared_u)
         IN [sd |-> sd, mu |-> mu, arbs |-> <<ArbNext(c.n, a, md, shared_d, shared_u, mu)>>,
             decs |-> <<DecNext(c, dd, shared_d, shared_u)>>]
    [] c.kind = "crossbar" ->
         \* AXILiteCrossbar: access_m_s[i][j]; one decoder per master (row), one arbiter per slave (column)
         LET row == Tab(LAMBDA i : DecDown(c, DecOf(r, i), md[i]), c.n)
             col == Tab(LAMBDA j : Tab(LAMBDA i : row[i][j], c.n), c.m)
             sd  == Tab(LAMBDA j : ArbDown(c.n, ArbOf(r, j), col[j]), c.m)
             cup == Tab(LAMBDA j : ArbUp(c.n, ArbOf(r, j), su[j]), c.m)
             mu  == Tab(LAMBDA i : DecUp(c, DecOf(r, i), md[i], Tab(LAMBDA j : cup[j][i], c.m)), c.n)
         IN [sd |-> sd, mu |-> mu,
             arbs |-> Tab(LAMBDA j : ArbNext(c.n, ArbOf(r, j), col[j], sd[j], su[j], cup[j]), c.m),
             decs |-> Tab(LAMBDA i : DecNext(c, DecOf(r, i), md[i], mu[i]), c.n)]

---------------------------------------------------------------------------
(* Test bench of harness/families/axilic.py (make): per direction            *)
(*   master i: <<av, tgt, wv, rr>>  address = base[tgt] + 4 i while av, data = i *)
(*   slave j:  <<ar, wr, rv>>  ready wishes and the response wish; counters  *)
(*             ca (addresses), cw (data beats) accepted and unanswered, hold *)
(*             (response offered and not accepted); answers with code/data j *)
HasW(c) == c.dirs \in {"w", "rw"}
HasR(c) == c.dirs \in {"r", "rw"}
NIn(c) == 4 * c.n + 3 * c.m
NOut(c) == 4 * c.n + 5 * c.m + 1
RECURSIVE ZerosR(_)
ZerosR(n) == IF n = 0 THEN <<>> ELSE Append(ZerosR(n - 1), 0)
ZeroIv(c) == ZerosR(NIn(c))
MV(iv, i) == [av |-> iv[4 * (i - 1) + 1], tgt |-> iv[4 * (i - 1) + 2], wv |-> iv[4 * (i - 1) + 3], rr |-> iv[4 * (i - 1) + 4]]
SV(c, iv, j) == [ar |-> iv[4 * c.n + 3 * (j - 1) + 1], wr |-> iv[4 * c.n + 3 * (j - 1) + 2], rv |-> iv[4 * c.n + 3 * (j - 1) + 3]]
TbAddr(c, i, tgt) == IF tgt = 0 THEN 0 ELSE c.bases[IF tgt > c.m THEN c.m ELSE tgt] + 4 * i
TbMaster(c, i, w, r) ==
  [aw_valid |-> w.av, aw_addr |-> IF ~HasW(c) THEN 0 ELSE IF w.av = 1 THEN TbAddr(c, i, w.tgt) ELSE c.idle,
   w_valid  |-> w.wv, w_data  |-> IF HasW(c) THEN i ELSE 0, b_ready |-> w.rr,
   ar_valid |-> r.av, ar_addr |-> IF ~HasR(c) THEN 0 ELSE IF r.av = 1 THEN TbAddr(c, i, r.tgt) ELSE c.idle,
   r_ready  |-> r.rr]
TbSlave(c, r, j, w, rd) ==
  [aw_ready |-> w.ar, w_ready |-> w.wr,
   b_valid  |-> And(w.rv, IF (r.tbw_ca[j] # 0 /\ r.tbw_cw[j] # 0) \/ r.tbw_hold[j] = 1 THEN 1 ELSE 0),
   b_resp   |-> IF HasW(c) THEN j ELSE 0,
   ar_ready |-> rd.ar,
   r_valid  |-> And(rd.rv, IF r.tbr_ca[j] # 0 \/ r.tbr_hold[j] = 1 THEN 1 ELSE 0),
   r_resp   |-> IF HasR(c) THEN j ELSE 0, r_data |-> IF HasR(c) THEN j ELSE 0]
Mod8(x) == (x + 8) % 8                               \* Signal(3) arithmetic

OutW(c, mu, sd) ==
  Flat(Tab(LAMBDA i : <<mu[i].aw_ready, mu[i].w_ready, mu[i].b_valid, mu[i].b_resp>>, c.n), c.n)
  \o Flat(Tab(LAMBDA j : <<sd[j].aw_valid, sd[j].aw_addr, sd[j].w_valid, sd[j].w_data % 16, sd[j].b_ready>>, c.m), c.m)
  \o <<0>>
OutR(c, mu, sd) ==
  Flat(Tab(LAMBDA i : <<mu[i].ar_ready, 0, mu[i].r_valid,
                           IF mu[i].r_resp = mu[i].r_data % 4 THEN mu[i].r_resp ELSE 7>>, c.n), c.n)
  \o Flat(Tab(LAMBDA j : <<sd[j].ar_valid, sd[j].ar_addr, 0, 0, sd[j].r_ready>>, c.m), c.m)
  \o <<0>>

MInit(c) ==
  LET Z(n) == Tab(LAMBDA x : 0, n) IN
  [rr_write |-> Z(NArb(c)), rr_read |-> Z(NArb(c)), wr_lock |-> Z(NArb(c)), rd_lock |-> Z(NArb(c)),
   sel_write |-> Z(NDec(c)), sel_read |-> Z(NDec(c)), lock_write |-> Z(NDec(c)), lock_read |-> Z(NDec(c)),
   tbw_ca |-> Z(c.m), tbw_cw |-> Z(c.m), tbw_hold |-> Z(c.m), tbr_ca |-> Z(c.m), tbr_hold |-> Z(c.m)]

(* one clock cycle of test bench + interconnect, both directions:            *)
(* ivw / ivr: the inputs of the write / read direction                       *)
RwStep(c, r, ivw, ivr) ==
  LET md == Tab(LAMBDA i : TbMaster(c, i, MV(ivw, i), MV(ivr, i)), c.n)
      su == Tab(LAMBDA j : TbSlave(c, r, j, SV(c, ivw, j), SV(c, ivr, j)), c.m)
      e  == IcEval(c, r, md, su)
      sd == e.sd
      awfire(j) == And(sd[j].aw_valid, su[j].aw_ready)
      wfire(j)  == And(sd[j].w_valid, su[j].w_ready)
      bfire(j)  == And(su[j].b_valid, sd[j].b_ready)
      arfire(j) == And(sd[j].ar_valid, su[j].ar_ready)
      rfire(j)  == And(su[j].r_valid, sd[j].r_ready)
      na == NArb(c)
      nd == NDec(c)
  IN [ow |-> OutW(c, e.mu, sd), or |-> OutR(c, e.mu, sd),
      r |-> [rr_write |-> Tab(LAMBDA x : e.arbs[x].rr_write, na), rr_read |-> Tab(LAMBDA x : e.arbs[x].rr_read, na),
             wr_lock |-> Tab(LAMBDA x : e.arbs[x].wr_lock, na), rd_lock |-> Tab(LAMBDA x : e.arbs[x].rd_lock, na),
             sel_write |-> Tab(LAMBDA x : e.decs[x].sel_write, nd), sel_read |-> Tab(LAMBDA x : e.decs[x].sel_read, nd),
             lock_write |-> Tab(LAMBDA x : e.decs[x].lock_write, nd), lock_read |-> Tab(LAMBDA x : e.decs[x].lock_read, nd),
             tbw_ca |-> Tab(LAMBDA j : Mod8(r.tbw_ca[j] + awfire(j) - bfire(j)), c.m),
             tbw_cw |-> Tab(LAMBDA j : Mod8(r.tbw_cw[j] + wfire(j) - bfire(j)), c.m),
             tbw_hold |-> Tab(LAMBDA j : And(su[j].b_valid, Not(sd[j].b_ready)), c.m),
             tbr_ca |-> Tab(LAMBDA j : Mod8(r.tbr_ca[j] + arfire(j) - rfire(j)), c.m),
             tbr_hold |-> Tab(LAMBDA j : And(su[j].r_valid, Not(sd[j].r_ready)), c.m)]]

(* the netlists of the harness: one direction (harness/families/axilic.py)   *)
(* or both (harness/families/axilic_l2.py: inputs and outputs of the write   *)
(* direction followed by those of the read direction)                        *)
MStep(c, r, iv) ==
  CASE c.dirs = "w" -> LET e == RwStep(c, r, iv, ZeroIv(c)) IN [o |-> e.ow, r |-> e.r]
    [] c.dirs = "r" -> LET e == RwStep(c, r, ZeroIv(c), iv) IN [o |-> e.or, r |-> e.r]
    [] c.dirs = "rw" -> LET e == RwStep(c, r, SubSeq(iv, 1, NIn(c)), SubSeq(iv, NIn(c) + 1, 2 * NIn(c)))
                        IN [o |-> e.ow \o e.or, r |-> e.r]

(* the registers of one direction (for the statement that the directions     *)
(* share nothing, AxiLiteIcModelM)                                           *)
WriteRegs(r) == [rr |-> r.rr_write, alock |-> r.wr_lock, sel |-> r.sel_write, dlock |-> r.lock_write,
                 ca |-> r.tbw_ca, cw |-> r.tbw_cw, hold |-> r.tbw_hold]
ReadRegs(r)  == [rr |-> r.rr_read, alock |-> r.rd_lock, sel |-> r.sel_read, dlock |-> r.lock_read,
                 ca |-> r.tbr_ca, hold |-> r.tbr_hold]
=============================================================================
