------------------------ MODULE AxiLiteIcModelRwTrace ------------------------
(***************************************************************************)
(* T-mode judge of the netlist in which BOTH directions are driven          *)
(* (harness/families/axilic_l2.py: make_rw).  Pure L1: it is AxiLiteIcTrace *)
(* with the contract instantiated twice on the two halves of every recorded *)
(* cycle (no model involved).  Used to confirm M-mode counterexamples of    *)
(* AxiLiteIcModelM on the real code and to judge recorded runs of the real  *)
(* netlist with concurrent write and read traffic.                          *)
(*   T[tid] = [cfg |-> [cw, cr (contract configurations), stallbound],      *)
(*             ev |-> << <<iv, o>>, ... >>],  iv = ivw \o ivr, o = ow \o or  *)
(***************************************************************************)
EXTENDS Integers, Sequences, FiniteSets, TLC, Json, IOUtils
T == JsonDeserialize(IOEnv.TRACES)
VARIABLES tid, l, envbad, stallw, stallr,
          w_ah, w_wh, w_aq, w_nw, w_ew, w_wt, w_qa, w_qw, w_rh, w_sav, w_swv, w_mrv, w_obs,
          r_ah, r_wh, r_aq, r_nw, r_ew, r_wt, r_qa, r_qw, r_rh, r_sav, r_swv, r_mrv, r_obs
W == INSTANCE AxiLiteIcContract WITH ah <- w_ah, wh <- w_wh, aq <- w_aq, nw <- w_nw, ew <- w_ew, wt <- w_wt,
       qa <- w_qa, qw <- w_qw, rh <- w_rh, sav <- w_sav, swv <- w_swv, mrv <- w_mrv, obs <- w_obs
R == INSTANCE AxiLiteIcContract WITH ah <- r_ah, wh <- r_wh, aq <- r_aq, nw <- r_nw, ew <- r_ew, wt <- r_wt,
       qa <- r_qa, qw <- r_qw, rh <- r_rh, sav <- r_sav, swv <- r_swv, mrv <- r_mrv, obs <- r_obs
vars == <<tid, l, envbad, stallw, stallr,
          w_ah, w_wh, w_aq, w_nw, w_ew, w_wt, w_qa, w_qw, w_rh, w_sav, w_swv, w_mrv, w_obs,
          r_ah, r_wh, r_aq, r_nw, r_ew, r_wt, r_qa, r_qw, r_rh, r_sav, r_swv, r_mrv, r_obs>>
Cw == T[tid].cfg.cw
Cr == T[tid].cfg.cr
NI == 4 * Cw.n + 3 * Cw.m
NO == 4 * Cw.n + 5 * Cw.m + 1
MAXN == 3
(* iv \in Inputs(c), port by port (Inputs is the product of the ports' move   *)
(* sets; with every port free it is too large to be enumerated)             *)
LegalW(iv) == /\ Len(iv) = NI
              /\ \A i \in 1..Cw.n : SubSeq(iv, 4 * (i - 1) + 1, 4 * i) \in W!MasterMoves(Cw, i)
              /\ \A j \in 1..Cw.m : SubSeq(iv, 4 * Cw.n + 3 * (j - 1) + 1, 4 * Cw.n + 3 * j) \in W!SlaveMoves(Cw, j)
LegalR(iv) == /\ Len(iv) = NI
              /\ \A i \in 1..Cr.n : SubSeq(iv, 4 * (i - 1) + 1, 4 * i) \in R!MasterMoves(Cr, i)
              /\ \A j \in 1..Cr.m : SubSeq(iv, 4 * Cr.n + 3 * (j - 1) + 1, 4 * Cr.n + 3 * j) \in R!SlaveMoves(Cr, j)
Init == /\ tid \in 1..Len(T) /\ l = 1 /\ envbad = FALSE /\ stallw = 0 /\ stallr = 0 /\ W!CInit /\ R!CInit
Next ==
  /\ l <= Len(T[tid].ev)
  /\ LET iv == T[tid].ev[l][1]
         o  == T[tid].ev[l][2]
         ivw == SubSeq(iv, 1, NI)
         ivr == SubSeq(iv, NI + 1, 2 * NI)
     IN /\ envbad' = (envbad \/ ~LegalW(ivw) \/ ~LegalR(ivr))
        /\ W!CStep(Cw, ivw, SubSeq(o, 1, NO))
        /\ R!CStep(Cr, ivr, SubSeq(o, NO + 1, 2 * NO))
        /\ stallw' = IF (\E i \in 1..MAXN : ~w_obs'.prog[i]) /\ w_obs'.fair THEN stallw + 1 ELSE 0
        /\ stallr' = IF (\E i \in 1..MAXN : ~r_obs'.prog[i]) /\ r_obs'.fair THEN stallr + 1 ELSE 0
  /\ l' = l + 1 /\ tid' = tid
EnvLegal == ~envbad
RoutedByAddress         == W!RoutedByAddress /\ R!RoutedByAddress
WFollowsItsAW           == W!WFollowsItsAW /\ R!WFollowsItsAW
DataExactlyOnce         == W!DataExactlyOnce /\ R!DataExactlyOnce
ResponseToIssuerInOrder == W!ResponseToIssuerInOrder /\ R!ResponseToIssuerInOrder
FrozenWhileOutstanding  == W!FrozenWhileOutstanding /\ R!FrozenWhileOutstanding
ValidHold               == W!ValidHold /\ R!ValidHold
WValidHold              == W!WValidHold /\ R!WValidHold
(* the stall counter of one direction only looks at that direction's       *)
(* cooperation: a read that waits although the read side cooperates is a    *)
(* violation whatever the write side does (ReadWriteIndependent)            *)
BoundedService == stallw < T[tid].cfg.stallbound /\ stallr < T[tid].cfg.stallbound
=============================================================================
